(* C08 — the numeric aggregates (sum, mean, median, stddev) over the shared decimal128 layer Base/DecRound.v.
   C08/Model.v computes with dadd / dsub / ddiv / dsqrt themselves (nadd = of_dec . reduce . dadd . to_dec, ...), so the C02
   theorems about these operations (C02/Proofs.v round34_nearest_even, C02/Format.v dadd_none_iff_overflow and the
   in-format results, C02/DivExact.v ddiv_correctly_rounded, C02/Sqrt.v dsqrt_correctly_rounded) apply to every step of
   the aggregates; this file restates them on the numbers (c, e) = c * 10^e of the FEEL value type and proves the fold
   equations of the built-ins for ALL lists.  Owner: prover-C08. *)
From Coq Require Import List NArith ZArith Bool Arith Lia Permutation.
From DV Require Import Base.Dec Base.DecFacts Base.DecRound C02.Model C02.Proofs C02.Format C02.DivExact C02.Sqrt.
From DV Require Import C09.Values C09.Model C09.Proofs C08.Model C08.Model2 C08.Proofs.
Import ListNotations.
Open Scope Z_scope.

Ltac vm_conj := cbv zeta; repeat match goal with |- _ /\ _ => split end; vm_compute; reflexivity.

(* ================= numbers (c, e) and decimal128 data ================= *)
(* a number that a decimal128 datum can hold: at most 34 digits, exponent -6176 .. 6111 *)
Definition nfmt (p : Z * Z) : Prop := Z.abs (fst p) < 10 ^ 34 /\ ETINY <= snd p <= ETOP.
(* equality of the values: ncmp of C09/Values.v is the comparison the model uses for numbers (1 = 1.0) *)
Definition nveq (p q : Z * Z) : Prop := ncmp (fst p) (snd p) (fst q) (snd q) = Eq.

Lemma sval_to_dec : forall p, sval (to_dec p) = fst p.
Proof.
  intros p. unfold to_dec, of_Z, sval. cbn [neg coef]. rewrite N2Z.inj_abs_N.
  destruct (fst p <? 0) eqn:E; [apply Z.ltb_lt in E|apply Z.ltb_ge in E]; lia.
Qed.
Lemma expo_to_dec : forall p, expo (to_dec p) = snd p.
Proof. reflexivity. Qed.
Lemma coef_to_dec : forall p, Z.of_N (coef (to_dec p)) = Z.abs (fst p).
Proof. intros p. unfold to_dec, of_Z. cbn [coef]. apply N2Z.inj_abs_N. Qed.
Lemma neg_to_dec : forall p, neg (to_dec p) = (fst p <? 0).
Proof. reflexivity. Qed.
Lemma scaled_to_dec : forall p e, scaled (to_dec p) e = fst p * 10 ^ (snd p - e).
Proof. intros p e. unfold scaled. rewrite sval_to_dec, expo_to_dec. reflexivity. Qed.
Lemma coef_pos_to_dec : forall p, fst p <> 0 -> (0 < coef (to_dec p))%N.
Proof. intros p H. pose proof (coef_to_dec p). lia. Qed.

Lemma to_dec_in_format : forall p, in_format (to_dec p) = true <-> nfmt p.
Proof.
  intros p. rewrite in_format_iff. unfold nfmt. rewrite expo_to_dec. pose proof (coef_to_dec p) as C.
  assert (P : Z.of_N (10 ^ 34) = 10 ^ 34) by reflexivity. split; intros [H1 H2]; split; auto; lia.
Qed.
Lemma of_dec_fmt : forall d, in_format d = true -> nfmt (of_dec d).
Proof.
  intros d H. apply in_format_iff in H. destruct H as [H1 H2]. unfold nfmt, of_dec. cbn [fst snd]. rewrite sval_abs.
  assert (P : Z.of_N (10 ^ 34) = 10 ^ 34) by reflexivity. split; [lia|exact H2].
Qed.
Lemma of_dec_to_dec : forall p, of_dec (to_dec p) = p.
Proof. intros [c e]. unfold of_dec. rewrite sval_to_dec, expo_to_dec. reflexivity. Qed.

(* the comparison of the model is the comparison of the decimal layer *)
Lemma ncmp_is_dcmp : forall d d', ncmp (sval d) (expo d) (sval d') (expo d') = Dec.dcmp d d'.
Proof. reflexivity. Qed.
Lemma nveq_of_dec : forall d d', Dec.veq d d' -> nveq (of_dec d) (of_dec d').
Proof. intros d d' H. unfold nveq, of_dec. cbn [fst snd]. rewrite ncmp_is_dcmp. apply dcmp_eq_iff_veq. exact H. Qed.
Lemma nveq_refl : forall p, nveq p p.
Proof. intros p. unfold nveq, ncmp. apply Z.compare_refl. Qed.

(* removing the trailing zeros keeps the value, written at any base exponent B below the datum (and not above 0: a zero is reduced to 0E+0) *)
Lemma reduce_scaled : forall d B, B <= expo d -> B <= 0 ->
  B <= expo (dreduce d) /\ sval (dreduce d) * 10 ^ (expo (dreduce d) - B) = sval d * 10 ^ (expo d - B).
Proof.
  intros d B H1 H0. unfold dreduce. destruct (dis_zero d) eqn:Z0.
  - unfold dis_zero in Z0. apply N.eqb_eq in Z0. unfold sval. cbn [neg coef expo]. rewrite Z0. split; [lia|]. destruct (neg d); reflexivity.
  - destruct (strip_zeros _ (coef d) (expo d)) as [c e'] eqn:S.
    destruct (strip_zeros_value _ _ _ _ _ S) as [V L]. rewrite Z.min_l in V by lia. rewrite Z.sub_diag, Z.pow_0_r, Z.mul_1_r in V.
    unfold sval. cbn [neg coef expo]. split; [lia|].
    replace (e' - B) with ((e' - expo d) + (expo d - B)) by lia. rewrite Z.pow_add_r by lia. rewrite V.
    destruct (neg d); ring.
Qed.

(* ================= every result is in format ================= *)
Lemma num_result_some : forall o r, num_result o = Some r -> exists d, o = Some d /\ r = of_dec (dreduce d).
Proof. intros [d|] r H; cbn in H; [|discriminate]. injection H as <-. exists d. auto. Qed.
Lemma num_result_none : forall o, num_result o = None <-> o = None.
Proof. intros [d|]; cbn; split; intros H; try discriminate; reflexivity. Qed.
Lemma num_result_fmt : forall o r, fmt_ok o -> num_result o = Some r -> nfmt r.
Proof.
  intros o r F H. destruct (num_result_some _ _ H) as (d & -> & ->). apply of_dec_fmt. apply dreduce_in_format. apply F. reflexivity.
Qed.
Lemma dsquare_fmt : forall a, fmt_ok (dsquare a).
Proof. intros a. unfold dsquare. destruct (round_prec 37 false _ _) as [y|]; cbn [obind]; [apply fmt_ok_round34|apply fmt_ok_none]. Qed.

Theorem steps_in_format : forall a b r,
  (nadd a b = Some r -> nfmt r) /\ (nsub a b = Some r -> nfmt r) /\ (ndiv a b = Some r -> nfmt r) /\
  (nsqrt a = Some r -> nfmt r) /\ (nsquare a = Some r -> nfmt r).
Proof.
  intros a b r. split; [|split; [|split; [|split]]]; apply num_result_fmt; [apply dadd_fmt|apply dsub_fmt|apply ddiv_fmt|apply dsqrt_fmt|apply dsquare_fmt].
Qed.
Lemma nadd_fmt : forall a b r, nadd a b = Some r -> nfmt r.
Proof. intros a b r. destruct (steps_in_format a b r) as (H & _). exact H. Qed.
Lemma ndiv_fmt : forall a b r, ndiv a b = Some r -> nfmt r.
Proof. intros a b r. destruct (steps_in_format a b r) as (_ & _ & H & _). exact H. Qed.
Lemma nsqrt_fmt : forall a r, nsqrt a = Some r -> nfmt r.
Proof. intros a r. destruct (steps_in_format a a r) as (_ & _ & _ & H & _). exact H. Qed.

(* the model's operators are the FeelNumber operators of C02/Model.v *)
Lemma ops_are_c02 : forall a b,
  nadd a b = option_map of_dec (f_add (to_dec a) (to_dec b)) /\ nsub a b = option_map of_dec (f_sub (to_dec a) (to_dec b)) /\
  ndiv a b = option_map of_dec (f_div (to_dec a) (to_dec b)) /\ nsqrt a = option_map of_dec (f_sqrt (to_dec a)).
Proof. intros a b. repeat split; reflexivity. Qed.
Lemma round_prec_34 : forall s m e, round_prec 34 s m e = round34 s m e.
Proof. reflexivity. Qed.

(* ================= addition: every step of a sum is the correctly rounded decimal128 addition ================= *)
(* the exact sum of two numbers, as an integer at the smaller exponent *)
Definition exact_sum (a b : Z * Z) : Z * Z :=
  let e := Z.min (snd a) (snd b) in (fst a * 10 ^ (snd a - e) + fst b * 10 ^ (snd b - e), e).

Lemma dadd_to_dec : forall a b,
  dadd (to_dec a) (to_dec b) = round_Z (fst (exact_sum a b)) (snd (exact_sum a b)) (neg (to_dec a) && neg (to_dec b)).
Proof. intros a b. unfold dadd, exact_add, emin2. rewrite !scaled_to_dec, !expo_to_dec. reflexivity. Qed.

Lemma round34_zero : forall s e, round34 s 0 e = Some (mkdec s 0 (clamp_exp e)).
Proof. reflexivity. Qed.
Lemma of_dec_reduce_zero : forall s e, of_dec (dreduce (mkdec s 0 e)) = (0, 0).
Proof. intros [|] e; reflexivity. Qed.

(* z * 10^e is the exact sum; base: an exponent below everything in sight, at which all values are written as integers.
   - the sum is null EXACTLY when the exact sum reaches the overflow threshold (10^34 - 1/2) * 10^6111 of decimal128;
   - otherwise the result is a datum in format, within half a unit of the quantum 10^e1 of the exact sum, e1 = target_exp |z| e
     (the exponent that leaves 34 digits, not below -6176), an exact tie gives an even 34-digit coefficient, and
     nothing is rounded when the exact sum fits (e1 = e) *)
Theorem nadd_correctly_rounded : forall a b,
  let z := fst (exact_sum a b) in let e := snd (exact_sum a b) in let base := Z.min e ETINY in
  (nadd a b = None <-> (2 * 10 ^ 34 - 1) * 10 ^ (ETOP - base) <= 2 * Z.abs z * 10 ^ (e - base)) /\
  forall r, nadd a b = Some r ->
    nfmt r /\ base <= snd r /\
    (z = 0 -> fst r = 0) /\
    (z <> 0 ->
     let e1 := target_exp (Z.abs_N z) e in
     2 * Z.abs (fst r * 10 ^ (snd r - base) - z * 10 ^ (e - base)) <= 10 ^ (e1 - base) /\
     (e < e1 -> 2 * Z.abs (fst r * 10 ^ (snd r - base) - z * 10 ^ (e - base)) = 10 ^ (e1 - base) ->
      N.even (round_half_even (Z.abs_N z) (Z.to_N (e1 - e))) = true) /\
     (e1 = e -> fst r * 10 ^ (snd r - base) = z * 10 ^ (e - base))).
Proof.
  intros a b z e base. pose proof (dadd_to_dec a b) as D. fold z e in D. split.
  - unfold nadd. rewrite num_result_none.
    pose proof (dadd_none_iff_overflow (to_dec a) (to_dec b)) as O. cbv zeta in O. unfold emin2 in O.
    rewrite !scaled_to_dec, !expo_to_dec in O. exact O.
  - intros r H. unfold nadd in H. destruct (num_result_some _ _ H) as (d & Hd & ->). rewrite D in Hd. unfold round_Z in Hd.
    assert (HB : base <= ETINY) by (unfold base; lia).
    split; [apply of_dec_fmt, dreduce_in_format; exact (round34_in_format _ _ _ _ Hd)|].
    destruct (Z.eq_dec z 0) as [Z0|Z0].
    + rewrite Z0 in Hd. cbn [Z.abs_N Z.eqb] in Hd. rewrite round34_zero in Hd. injection Hd as <-. rewrite of_dec_reduce_zero. cbn [fst snd].
      split; [unfold ETINY in HB; lia|]. split; [reflexivity|]. intros C. contradiction.
    + assert (Hm : (0 < Z.abs_N z)%N) by lia.
      assert (Sg : (if z =? 0 then neg (to_dec a) && neg (to_dec b) else z <? 0) = (z <? 0)) by (destruct (Z.eqb_spec z 0); [contradiction|reflexivity]).
      rewrite Sg in Hd.
      destruct (round34_nearest_even _ _ _ _ Hm Hd) as (Hs & He & Hn & Ht & Hx). fold base in Hn, Ht, Hx.
      destruct (reduce_scaled d base) as [R1 R2]; [lia|unfold ETINY in HB; lia|]. unfold of_dec. cbn [fst snd].
      split; [exact R1|]. split; [intros C; contradiction|]. intros _. set (e1 := target_exp (Z.abs_N z) e) in *. rewrite R2.
      assert (Mz : Z.of_N (Z.abs_N z) = Z.abs z) by apply N2Z.inj_abs_N.
      set (P := 10 ^ (expo d - base)) in *. set (Q := 10 ^ (e - base)) in *.
      assert (A : Z.abs (sval d * P - z * Q) = Z.abs (Z.of_N (coef d) * P - Z.of_N (Z.abs_N z) * Q)).
      { unfold sval. rewrite Hs, Mz. destruct (z <? 0) eqn:L; [apply Z.ltb_lt in L|apply Z.ltb_ge in L]; lia. }
      rewrite A. split; [exact Hn|]. split; [exact Ht|].
      intros E. specialize (Hx E). unfold sval. rewrite Hs. rewrite Mz in Hx.
      destruct (z <? 0) eqn:L; [apply Z.ltb_lt in L|apply Z.ltb_ge in L]; lia.
Qed.

(* the old assumption as a theorem: a sum of at most 34 digits (at the smaller exponent) is the exact sum *)
Theorem nadd_exact_within_34_digits : forall a b,
  let z := fst (exact_sum a b) in let e := snd (exact_sum a b) in
  Z.abs z < 10 ^ 34 -> ETINY <= e <= ETOP -> exists r, nadd a b = Some r /\ nveq r (z, e).
Proof.
  intros a b z e Hz He.
  destruct (dadd_exact (to_dec a) (to_dec b)) as (r0 & H0 & E0 & S0).
  - unfold emin2. rewrite !scaled_to_dec, !expo_to_dec. exact Hz.
  - unfold emin2. rewrite !expo_to_dec. exact He.
  - unfold emin2 in E0, S0. rewrite !scaled_to_dec, !expo_to_dec in S0. rewrite !expo_to_dec in E0.
    exists (of_dec (dreduce r0)). split; [unfold nadd; rewrite H0; reflexivity|].
    assert (V : nveq (of_dec (dreduce r0)) (of_dec r0)) by (apply nveq_of_dec, dreduce_value).
    unfold of_dec in V at 2. rewrite E0, S0 in V. exact V.
Qed.

(* ================= subtraction is the addition of the negated number ================= *)
Lemma sval_dflip : forall d, sval (dflip d) = - sval d.
Proof. intros d. unfold sval, dflip. cbn [neg coef]. destruct (neg d); cbn [negb]; lia. Qed.
Lemma num_result_round_Z_sign : forall z e s1 s2, num_result (round_Z z e s1) = num_result (round_Z z e s2).
Proof.
  intros z e s1 s2. unfold round_Z. destruct (Z.eqb_spec z 0) as [->|N]; [|reflexivity].
  cbn [Z.abs_N]. rewrite !round34_zero. unfold num_result, reduced. cbn [option_map]. rewrite !of_dec_reduce_zero. reflexivity.
Qed.
Theorem nsub_is_nadd : forall a b, nsub a b = nadd a (- fst b, snd b).
Proof.
  intros a b. unfold nsub, nadd, dsub. rewrite !dadd_exact_then_round.
  assert (E : emin2 (to_dec a) (dflip (to_dec b)) = emin2 (to_dec a) (to_dec (- fst b, snd b))) by reflexivity.
  assert (S : forall e, scaled (dflip (to_dec b)) e = scaled (to_dec (- fst b, snd b)) e).
  { intros e. rewrite scaled_to_dec. unfold scaled. rewrite sval_dflip, sval_to_dec. cbn [fst snd]. reflexivity. }
  rewrite E, S. apply num_result_round_Z_sign.
Qed.

(* ================= division: the correctly rounded quotient ================= *)
Lemma of_dec_mkdec : forall s c q, of_dec (mkdec s c q) = ((if s then - Z.of_N c else Z.of_N c), q).
Proof. reflexivity. Qed.

(* a / b for non-zero a, b: the result has the value (+-) c * 10^q, c * 10^q being a nearest multiple of the quantum 10^q to the exact
   rational quotient |a| / |b| (|c * 10^q - |a|/|b|| <= 10^q / 2, cross-multiplied by |b| and written with integers at any common
   scale 10^B), half-way cases go to the even c; c has at most 34 digits and the quantum is the 34-digit one unless q = -6176 *)
Theorem ndiv_correctly_rounded : forall a b r, fst a <> 0 -> fst b <> 0 -> ndiv a b = Some r ->
  exists (c : N) (q : Z),
    nfmt r /\ nveq r ((if xorb (fst a <? 0) (fst b <? 0) then - Z.of_N c else Z.of_N c), q) /\
    (c <= 10 ^ 34)%N /\ ETINY <= q /\ (ETINY < q -> (10 ^ 33 <= c)%N) /\
    forall B, B <= snd a -> B <= q + snd b ->
      let X := Z.abs (fst a) * 10 ^ (snd a - B) in
      let Y := Z.abs (fst b) * 10 ^ (q + snd b - B) in
      2 * Z.abs (Z.of_N c * Y - X) <= Y /\ (2 * Z.abs (Z.of_N c * Y - X) = Y -> N.even c = true).
Proof.
  intros a b r Ha Hb H. unfold ndiv in H. destruct (num_result_some _ _ H) as (d & Hd & ->).
  destruct (ddiv_correctly_rounded _ _ _ (coef_pos_to_dec a Ha) (coef_pos_to_dec b Hb) Hd) as (c & q & F & S & V & C1 & Q1 & C2 & N).
  exists c, q. split; [apply of_dec_fmt, dreduce_in_format; exact F|].
  split.
  { rewrite <- of_dec_mkdec. apply nveq_of_dec. eapply veq_trans; [apply dreduce_value|]. rewrite !neg_to_dec in V. exact V. }
  split; [exact C1|]. split; [exact Q1|]. split; [exact C2|].
  intros B B1 B2. specialize (N B). unfold div_nearest_even_at in N. rewrite !expo_to_dec, !coef_to_dec in N. exact (N B1 B2).
Qed.
Theorem ndiv_zero_dividend : forall e b, fst b <> 0 -> ndiv (0, e) b = Some (0, 0).
Proof.
  intros e b Hb. unfold ndiv. rewrite ddiv_zero_dividend; [|reflexivity|pose proof (coef_pos_to_dec b Hb); lia].
  unfold num_result, reduced. cbn [option_map]. rewrite of_dec_reduce_zero. reflexivity.
Qed.
Theorem ndiv_by_zero : forall a e, ndiv a (0, e) = None.
Proof. intros a e. unfold ndiv. destruct (div_by_zero_null (to_dec a) (to_dec (0, e))) as [-> _]; reflexivity. Qed.

(* ================= square root: the correctly rounded root ================= *)
Theorem nsqrt_correctly_rounded : forall a r, 0 < fst a -> nsqrt a = Some r ->
  exists (c : N) (q : Z),
    nfmt r /\ nveq r (Z.of_N c, q) /\
    (c <= 10 ^ 34)%N /\ ETINY <= q /\ (ETINY < q -> (10 ^ 33 <= c)%N) /\
    forall B, B <= q -> 2 * B <= snd a ->
      let X := 4 * fst a * 10 ^ (snd a - 2 * B) in
      let lo := (2 * Z.of_N c - 1) * 10 ^ (q - B) in
      let hi := (2 * Z.of_N c + 1) * 10 ^ (q - B) in
      X <= hi ^ 2 /\ ((0 < c)%N -> lo ^ 2 <= X) /\
      (X = hi ^ 2 -> N.even c = true) /\ ((0 < c)%N -> X = lo ^ 2 -> N.even c = true).
Proof.
  intros a r Ha H. unfold nsqrt in H. destruct (num_result_some _ _ H) as (d & Hd & ->).
  assert (Hn : neg (to_dec a) = false) by (rewrite neg_to_dec; apply Z.ltb_ge; lia).
  destruct (dsqrt_correctly_rounded _ _ (coef_pos_to_dec a ltac:(lia)) Hn Hd) as (c & q & F & S & V & C1 & Q1 & C2 & N).
  exists c, q. split; [apply of_dec_fmt, dreduce_in_format; exact F|].
  split.
  { change (Z.of_N c, q) with (of_dec (mkdec false c q)). apply nveq_of_dec. eapply veq_trans; [apply dreduce_value|exact V]. }
  split; [exact C1|]. split; [exact Q1|]. split; [exact C2|].
  intros B B1 B2. specialize (N B). unfold sqrt_nearest_even_at in N. rewrite expo_to_dec, coef_to_dec in N. rewrite Z.abs_eq in N by lia. exact (N B1 B2).
Qed.
Theorem nsqrt_zero_negative : forall c e, (c = 0 -> nsqrt (c, e) = Some (0, 0)) /\ (c < 0 -> nsqrt (c, e) = None).
Proof.
  intros c e. split.
  - intros ->. reflexivity.
  - intros H. unfold nsqrt. rewrite sqrt_negative_null; [reflexivity| |].
    + pose proof (coef_pos_to_dec (c, e)). cbn [fst] in *. lia.
    + rewrite neg_to_dec. apply Z.ltb_lt. exact H.
Qed.
(* the square root of a number in format that is not negative exists *)
Theorem nsqrt_defined : forall a, nfmt a -> 0 <= fst a -> exists r, nsqrt a = Some r.
Proof.
  intros a F H. destruct (dsqrt_defined (to_dec a)) as [r Hr].
  - apply to_dec_in_format. exact F.
  - right. rewrite neg_to_dec. apply Z.ltb_ge. exact H.
  - exists (of_dec (dreduce r)). unfold nsqrt. rewrite Hr. reflexivity.
Qed.

(* ================= square: decNumberPower(x, 2) rounds twice ================= *)
Theorem nsquare_two_roundings : forall a,
  nsquare a = num_result (obind (round_prec 37 false (Z.abs_N (fst a) * Z.abs_N (fst a)) (snd a + snd a))
                                (fun y => round34 false (coef y) (expo y))).
Proof. reflexivity. Qed.

Lemma round_prec_37_exact : forall s m e, (m < 10 ^ 34)%N -> -6176 <= e <= 6108 -> round_prec 37 s m e = Some (mkdec s m e).
Proof.
  intros s m e Hm He. unfold round_prec. change (EMIN - (Z.of_N 37 - 1)) with (-6179). change (EMAX - (Z.of_N 37 - 1)) with 6108.
  destruct (N.eqb_spec m 0) as [->|N0].
  - f_equal. f_equal. lia.
  - assert (D : (ndigits m <= 34)%N) by (apply ndigits_small; exact Hm).
    replace (Z.max (-6179) (Z.max e (e + Z.of_N (ndigits m) - Z.of_N 37))) with e by lia.
    rewrite Z.sub_diag. change (Z.to_N 0) with 0%N. rewrite round_half_even_zero_drop.
    assert (P : (10 ^ 34 < 10 ^ 37)%N) by reflexivity.
    destruct (N.eqb_spec m (10 ^ 37)) as [E|_]; [lia|].
    destruct (Z.ltb_spec EMAX (e + Z.of_N (ndigits m) - 1)) as [L|_]; [unfold EMAX in L; lia|].
    destruct (Z.ltb_spec 6108 e) as [L|_]; [lia|]. reflexivity.
Qed.
(* a square of at most 34 digits is exact (both roundings are the identity) *)
Theorem nsquare_exact_within_34_digits : forall a,
  fst a * fst a < 10 ^ 34 -> -6176 <= 2 * snd a <= 6108 -> exists r, nsquare a = Some r /\ nveq r (fst a * fst a, 2 * snd a).
Proof.
  intros a Hc He. unfold nsquare, dsquare. rewrite expo_to_dec.
  assert (M : Z.of_N (coef (to_dec a) * coef (to_dec a)) = fst a * fst a) by (rewrite N2Z.inj_mul, coef_to_dec; apply Z.abs_square).
  assert (Hm : (coef (to_dec a) * coef (to_dec a) < 10 ^ 34)%N).
  { assert (P : Z.of_N (10 ^ 34) = 10 ^ 34) by reflexivity. lia. }
  rewrite round_prec_37_exact by (auto; lia). cbn [obind coef expo].
  rewrite round34_exact; [|exact Hm|unfold ETINY, ETOP; lia].
  eexists. split; [reflexivity|].
  replace (fst a * fst a, 2 * snd a) with (of_dec (mkdec false (coef (to_dec a) * coef (to_dec a)) (snd a + snd a))).
  - apply nveq_of_dec, dreduce_value.
  - rewrite of_dec_mkdec, M. f_equal. lia.
Qed.
(* and it is NOT the correctly rounded product in general: the 37-digit intermediate ...5 0 0 hides the digits behind it *)
Lemma nsquare_is_not_the_rounded_product :
  nsquare (10684414991928191245, 0) = Some (1141567237197398909870474465772946, 5) /\
  num_result (dmul (to_dec (10684414991928191245, 0)) (to_dec (10684414991928191245, 0))) = Some (1141567237197398909870474465772947, 5) /\
  10684414991928191245 * 10684414991928191245 = 114156723719739890987047446577294650025.
Proof. vm_conj. Qed.

(* ================= the aggregates as folds of these steps, for ALL lists ================= *)
Lemma fold_nadd_none : forall l, fold_left nadd_opt l None = None.
Proof. induction l as [|x l IH]; cbn [fold_left nadd_opt obind]; auto. Qed.

(* sum(x1, ..., xn) = (..(x1 + x2) + ..) + xn, every + the correctly rounded addition, null once a step overflows *)
Theorem sum_spec : forall x xs, b_sum (map vnum (x :: xs)) = vopt (fold_left nadd_opt xs (Some x)).
Proof. intros x xs. unfold b_sum. rewrite numbers_of_map. destruct x. reflexivity. Qed.
(* mean(x1, ..., xn) = ((..((0 + x1) + x2) + ..) + xn) / n *)
Theorem mean_spec : forall x xs, let l := x :: xs in
  b_mean (map vnum l) = vopt (obind (fold_left nadd_opt l (Some (0, 0))) (fun s => ndiv s (Z.of_nat (length l), 0))).
Proof. intros x xs l. unfold b_mean. unfold l at 1. rewrite numbers_of_map. destruct x. reflexivity. Qed.
Theorem median_spec : forall x xs,
  let s := nsort (x :: xs) in let k := (length s / 2)%nat in
  b_median (map vnum (x :: xs)) =
  if Nat.even (length s)
  then vopt (obind (nadd (nth (k - 1) s (0, 0)) (nth k s (0, 0))) (fun t => ndiv t (2, 0)))
  else vnum (nth k s (0, 0)).
Proof. intros x xs. unfold b_median. rewrite numbers_of_map. destruct x. reflexivity. Qed.

(* a sum of numbers in format is in format (or null) *)
Theorem sum_in_format : forall xs x r, nfmt x -> fold_left nadd_opt xs (Some x) = Some r -> nfmt r.
Proof.
  induction xs as [|y ys IH]; intros x r Fx H; cbn [fold_left nadd_opt obind] in H.
  - injection H as <-. exact Fx.
  - destruct (nadd x y) as [s|] eqn:A; [|rewrite fold_nadd_none in H; discriminate].
    apply (IH s r); [exact (nadd_fmt _ _ _ A)|exact H].
Qed.

(* the order of the items matters once a sum needs more than 34 digits: the fold is the left-to-right one *)
Lemma sum_order_matters :
  b_sum (map vnum [(1, 34); (5, 0); (5, 0)]) = VNum 1 34 /\
  b_sum (map vnum [(5, 0); (5, 0); (1, 34)]) = VNum 1000000000000000000000000000000001 1 /\
  b_sum (map vnum [(9999999999999999999999999999999999, 0); (5, -1)]) = VNum 1 34 /\
  b_sum (map vnum [(9999999999999999999999999999999998, 0); (5, -1)]) = VNum 9999999999999999999999999999999998 0 /\
  b_sum (map vnum [(9999999999999999999999999999999999, 6111); (4, 6110)]) = VNum 9999999999999999999999999999999999 6111 /\
  b_sum (map vnum [(9999999999999999999999999999999999, 6111); (5, 6110)]) = VNull /\
  b_sum (map vnum [(9999999999999999999999999999999999, 6111); (5, 6110); (-9999999999999999999999999999999998, 6111)]) = VNull /\
  b_sum (map vnum [(9999999999999999999999999999999999, 6111); (-9999999999999999999999999999999998, 6111); (5, 6110)]) = VNum 15 6110 /\
  b_median (map vnum [(9, 6111); (9999999999999999999999999999999999, 6111)]) = VNull /\
  b_mean (map vnum [(1, -6176); (1, -6176); (1, -6176); (2, -6176)]) = VNum 1 (-6176) /\
  b_mean (map vnum [(1, 40); (1, -40)]) = VNum 5 39.
Proof. vm_conj. Qed.

(* ================= stddev: the exact sequence of rounded operations of core.rs ================= *)
Lemma stddev_collect_numbers : forall l sum acc,
  stddev_collect (map vnum l) sum acc = Some (fold_left nadd_opt l sum, acc ++ l).
Proof.
  induction l as [|[c e] l IH]; intros sum acc; cbn [map vnum fst snd stddev_collect fold_left].
  - rewrite app_nil_r. reflexivity.
  - rewrite IH. rewrite <- app_assoc. reflexivity.
Qed.

(* stddev(x1, ..., xn), n >= 2:
     sum = ((0 + x1) + ..) + xn;  mean = sum / n;  sum2 = ((0 + (x1 - mean)^2) + ..) + (xn - mean)^2;  sqrt(sum2 / (n - 1))
   + - / sqrt : the correctly rounded decimal128 operations (nadd_correctly_rounded, nsub_is_nadd, ndiv_correctly_rounded,
   nsqrt_correctly_rounded), ^2 : nsquare (two roundings); null as soon as one step is *)
Theorem stddev_spec : forall x1 x2 xs,
  let l := x1 :: x2 :: xs in
  let n := (Z.of_nat (length l), 0) in
  b_stddev (map vnum l) =
  vopt (obind (fold_left nadd_opt l (Some (0, 0))) (fun sum =>
        obind (ndiv sum n) (fun mean =>
        obind (fold_left (fun acc x => obind acc (fun s => obind (nsub x mean) (fun d => obind (nsquare d) (fun q => nadd s q)))) l (Some (0, 0))) (fun sum2 =>
        obind (nsub n (1, 0)) (fun n1 =>
        obind (ndiv sum2 n1) nsqrt))))).
Proof.
  intros x1 x2 xs l n. unfold b_stddev.
  assert (E : stddev_collect (map vnum l) (Some (0, 0)) [] = Some (fold_left nadd_opt l (Some (0, 0)), l)) by (rewrite stddev_collect_numbers; reflexivity).
  unfold l at 1. cbn [map]. change (vnum x1 :: vnum x2 :: map vnum xs) with (map vnum l). rewrite E.
  f_equal. unfold stddev_radicand. change (zlen l, 0) with n.
  destruct (fold_left nadd_opt l (Some (0, 0))) as [sum|]; cbn [obind]; [|reflexivity].
  destruct (ndiv sum n) as [mean|]; cbn [obind]; [|reflexivity].
  change (add_square_dev mean) with (fun acc x => obind acc (fun s => obind (nsub x mean) (fun d => obind (nsquare d) (fun q => nadd s q)))).
  destruct (fold_left _ l (Some (0, 0))) as [sum2|]; cbn [obind]; [|reflexivity].
  destruct (nsub n (1, 0)) as [n1|]; cbn [obind]; reflexivity.
Qed.

Theorem stddev_outside :
  b_stddev [] = VNull /\ (forall x, b_stddev [x] = VNull) /\
  forall pre x post, (match x with VNum _ _ => False | _ => True end) -> b_stddev (map vnum pre ++ x :: post) = VNull.
Proof.
  split; [reflexivity|]. split; [reflexivity|]. intros pre x post Hx.
  assert (N : forall sum acc, stddev_collect (map vnum pre ++ x :: post) sum acc = None).
  { induction pre as [|[c e] pre IH]; intros sum acc; cbn [map app vnum fst snd stddev_collect].
    - destruct x; try contradiction; reflexivity.
    - apply IH. }
  unfold b_stddev. rewrite N.
  destruct (map vnum pre ++ x :: post) as [|a [|b r]]; reflexivity.
Qed.

(* ================= the results are numbers in format, or null ================= *)
Definition vfmt (v : value) : Prop := match v with VNull => True | VNum c e => nfmt (c, e) | _ => False end.
Lemma vfmt_vopt : forall o, (forall r, o = Some r -> nfmt r) -> vfmt (vopt o).
Proof. intros [[c e]|] H; cbn; [apply H; reflexivity|exact I]. Qed.

Theorem aggregates_in_format : forall x xs, nfmt x -> Forall nfmt xs ->
  let l := map vnum (x :: xs) in vfmt (b_sum l) /\ vfmt (b_mean l) /\ vfmt (b_median l) /\ vfmt (b_stddev l).
Proof.
  intros x xs Fx Fxs l. unfold l. split; [|split; [|split]].
  - rewrite sum_spec. apply vfmt_vopt. intros r H. exact (sum_in_format _ _ _ Fx H).
  - rewrite mean_spec. apply vfmt_vopt. intros r H.
    destruct (fold_left nadd_opt (x :: xs) (Some (0, 0))) as [s|]; cbn [obind] in H; [|discriminate].
    exact (ndiv_fmt _ _ _ H).
  - rewrite median_spec. cbv zeta. destruct (Nat.even (length (nsort (x :: xs)))) eqn:Ev.
    + apply vfmt_vopt. intros r H. destruct (nadd _ _) as [t|]; cbn [obind] in H; [|discriminate].
      exact (ndiv_fmt _ _ _ H).
    + assert (L : length (nsort (x :: xs)) = length (x :: xs)) by (apply Permutation_length, nsort_perm).
      assert (K : (length (nsort (x :: xs)) / 2 < length (nsort (x :: xs)))%nat) by (apply Nat.div_lt; [rewrite L; cbn [length]; lia|lia]).
      pose proof (nth_In (nsort (x :: xs)) (0, 0) K) as I0.
      apply (Permutation_in _ (nsort_perm (x :: xs))) in I0.
      assert (F : Forall nfmt (x :: xs)) by (constructor; assumption). rewrite Forall_forall in F. specialize (F _ I0).
      destruct (nth _ _ _) as [c e]. exact F.
  - destruct xs as [|x2 xs]; [exact I|]. rewrite stddev_spec. cbv zeta. apply vfmt_vopt. intros r H.
    destruct (fold_left nadd_opt _ _) as [sum|]; cbn [obind] in H; [|discriminate].
    destruct (ndiv sum _) as [mean|]; cbn [obind] in H; [|discriminate].
    destruct (fold_left _ _ (Some (0, 0))) as [sum2|]; cbn [obind] in H; [|discriminate].
    destruct (nsub _ _) as [n1|]; cbn [obind] in H; [|discriminate].
    destruct (ndiv sum2 n1) as [q|]; cbn [obind] in H; [|discriminate].
    exact (nsqrt_fmt _ _ H).
Qed.

(* ================= the pinned commit: Infinity where the sum leaves the number range ================= *)
Lemma orig_sum_overflow_refuted :
  let big := VNum 9999999999999999999999999999999999 6111 in
  pos_orig Sum [big; big] = None /\ pos Sum [big; big] = Some VNull /\
  pos_orig Median [VList [big; big]] = None /\ pos Median [VList [big; big]] = Some VNull /\
  nam_orig Sum [(PList, VList [big; VNum 5 6110])] = None /\ nam Sum [(PList, VList [big; VNum 5 6110])] = Some VNull /\
  pos_orig Sum [big; VNum 4 6110] = Some big /\ pos_orig Sum [big; VNull] = Some VNull /\ pos_orig Sum [] = Some VNull.
Proof. vm_conj. Qed.

Lemma stddev_nonvacuous :
  b_stddev (map vnum [(2, 0); (4, 0); (4, 0); (4, 0); (5, 0); (5, 0); (7, 0); (9, 0)]) = VNum 2138089935299395077476427847038028 (-33) /\
  pos_stddev [VNum 10 0; VNum 20 0; VNum 60 0] = VNum 264575131106459059050161575363926 (-31) /\
  b_stddev (map vnum [(1, 0); (2, 0); (3, 0)]) = VNum 1 0 /\
  stddev_radicand_of (map vnum [(10, 0); (20, 0); (60, 0)]) = Some (7, 2) /\
  pos_stddev [VNum 10 0] = VNull /\ pos_stddev [VList [VNum 1 0; VNum 3 0]] = b_stddev [VNum 1 0; VNum 3 0] /\
  b_stddev (map vnum [(10684414991928191245, 0); (-10684414991928191245, 0)]) = VNum 1511004458760727092163960783891233 (-14).
Proof. vm_conj. Qed.

(* ================= mean: the correctly rounded quotient of the rounded sum by the count ================= *)
Theorem mean_correctly_rounded : forall x xs,
  let l := x :: xs in let n := Z.of_nat (length l) in
  b_mean (map vnum l) = vopt (obind (fold_left nadd_opt l (Some (0, 0))) (fun s => ndiv s (n, 0))) /\
  forall s, fold_left nadd_opt l (Some (0, 0)) = Some s ->
    (fst s = 0 -> b_mean (map vnum l) = VNum 0 0) /\
    (fst s <> 0 -> forall r, ndiv s (n, 0) = Some r ->
       b_mean (map vnum l) = vnum r /\
       exists (c : N) (q : Z),
         nfmt r /\ nveq r ((if fst s <? 0 then - Z.of_N c else Z.of_N c), q) /\
         (c <= 10 ^ 34)%N /\ ETINY <= q /\ (ETINY < q -> (10 ^ 33 <= c)%N) /\
         forall B, B <= snd s -> B <= q ->
           let X := Z.abs (fst s) * 10 ^ (snd s - B) in
           let Y := n * 10 ^ (q - B) in
           2 * Z.abs (Z.of_N c * Y - X) <= Y /\ (2 * Z.abs (Z.of_N c * Y - X) = Y -> N.even c = true)).
Proof.
  intros x xs l n. pose proof (mean_spec x xs) as M. cbv zeta in M. fold l n in M. split; [exact M|].
  intros s Hs. rewrite M, Hs. cbn [obind].
  assert (Hn : 0 < n) by (unfold n, l; cbn [length]; lia).
  split.
  - intros Z0. destruct s as [c e]. cbn [fst] in Z0. subst c. rewrite ndiv_zero_dividend by (cbn [fst]; lia). reflexivity.
  - intros Z0 r Hr. rewrite Hr. split; [reflexivity|].
    destruct (ndiv_correctly_rounded s (n, 0) r Z0 ltac:(cbn [fst]; lia) Hr) as (c & q & F & V & C1 & Q1 & C2 & N).
    exists c, q. cbn [fst snd] in V, N.
    assert (Sg : (n <? 0) = false) by (apply Z.ltb_ge; lia). rewrite Sg, xorb_false_r in V.
    split; [exact F|]. split; [exact V|]. split; [exact C1|]. split; [exact Q1|]. split; [exact C2|].
    intros B B1 B2. specialize (N B B1 ltac:(lia)). rewrite Z.add_0_r in N. rewrite (Z.abs_eq n) in N by lia. exact N.
Qed.
