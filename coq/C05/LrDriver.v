(* C05 — the LALR driver (feel-parser/src/parser.rs, Parser::parse) as a function over the regenerated tables with every table access
   checked (out of bounds = SOob), and the theorem that SOob is unreachable for EVERY token sequence and every number of steps:
   the state stack only ever holds valid states.  Two finite sweeps (by vm_compute) over single steps are lifted by induction on the run.
   Not covered: SUnderflow (the stack being shorter than the right-hand side + 1; an LR invariant of the automaton) and termination.
   (owner: builder-total) *)
From Coq Require Import ZArith List Bool Lia.
From DV Require Import Gen.LalrTables Gen.LalrTokens C05.LrBounds.
Import ListNotations.
Open Scope Z_scope.

Definition get (l : list Z) (i : Z) : option Z := if idx_ok l i then Some (zn l i) else None.
Definition valid_state (s : Z) : bool := (0 <=? s) && (s <? nstates).
Definition valid_rule (r : Z) : bool := (1 <=? r) && (r <? nrules).

(* what NewState / Default decide from the top state and the lexer token alone *)
Inductive head := HShift (a : Z) | HReduce (r : Z) | HAccept | HError | HOob.

Definition step_head (st c : Z) : head :=
  if st =? yy_final then HAccept else
  match get yy_pact st, get yy_def_act st with
  | Some n0, Some da =>
    let dflt := if da =? 0 then HError else HReduce da in
    if n0 =? yy_pact_n_inf then dflt else
    let body (code : Z) :=
      let n := n0 + code in
      if negb (in_i16 n) then HOob else
      if (n <? 0) || (yy_last <? n) then dflt else
      match get yy_check n with
      | None => HOob
      | Some ck =>
        if negb (ck =? code) then dflt else
        match get yy_table n with
        | None => HOob
        | Some a => if a <=? 0 then (if a =? yy_table_n_inf then HError else HReduce (- a)) else HShift a
        end
      end in
    if c <=? tok_YyEof then body 0
    else if c =? tok_YyError then HError
    else match get yy_translate c with None => HOob | Some code => body code end
  | _, _ => HOob
  end.

(* the goto part of Reduce, from the rule and the state uncovered by the pops *)
Inductive gres := Goto (ns : Z) | GOob.
Definition rule_len (r : Z) : option Z := match get yy_r2 r with Some len => if len <? 0 then None else Some len | None => None end.
Definition reduce_core (r top : Z) : gres :=
  match get yy_r1 r with
  | None => GOob
  | Some r1 =>
    if r1 <? yy_n_tokens then GOob else      (* usize subtraction *)
    let lhs := r1 - yy_n_tokens in
    match get yy_p_goto lhs, get yy_def_goto lhs with
    | Some pg, Some dg =>
      let i := pg + top in
      if negb (in_i16 i) then GOob else
      if (0 <=? i) && (i <=? yy_last) then
        match get yy_check i with
        | None => GOob
        | Some c => if c =? top then match get yy_table i with Some t => Goto t | None => GOob end else Goto dg
        end
      else Goto dg
    | _, _ => GOob
    end
  end.

Inductive sres := Cont (ss : list Z) (consumed : bool) | SAccept | SError | SOob | SUnderflow.

Definition reduce (r : Z) (ss : list Z) : sres :=
  match rule_len r with
  | None => SOob
  | Some len =>
    match skipn (Z.to_nat len) ss with       (* Vec::pop on an empty stack does nothing; `len() - 1` afterwards underflows *)
    | [] => SUnderflow
    | top :: rest => match reduce_core r top with Goto ns => Cont (ns :: top :: rest) false | GOob => SOob end
    end
  end.

Definition step (ss : list Z) (c : Z) : sres :=
  match ss with
  | [] => SUnderflow
  | st :: _ =>
    match step_head st c with
    | HShift a => Cont (a :: ss) true
    | HReduce r => reduce r ss
    | HAccept => SAccept
    | HError => SError
    | HOob => SOob
    end
  end.

Inductive rres := RAccept | RError | ROob | RUnderflow | RFuel.

(* the loop; after the input the lexer keeps returning YyEof (0) *)
Fixpoint run (fuel : nat) (ss : list Z) (toks : list Z) : rres :=
  match fuel with
  | O => RFuel
  | S f =>
    let c := match toks with [] => tok_YyEof | t :: _ => t end in
    match step ss c with
    | Cont ss' consumed => run f ss' (if consumed then tl toks else toks)
    | SAccept => RAccept
    | SError => RError
    | SOob => ROob
    | SUnderflow => RUnderflow
    end
  end.

(* ---- the two single-step sweeps *)
Definition head_ok (st c : Z) : bool :=
  match step_head st c with
  | HShift a => valid_state a
  | HReduce r => valid_rule r
  | HAccept | HError => true
  | HOob => false
  end.
Definition core_ok (r top : Z) : bool :=
  match rule_len r with None => false | Some _ => match reduce_core r top with Goto ns => valid_state ns | GOob => false end end.

Lemma sweep_head : forallb (fun st => forallb (head_ok st) all_token_values) (zrange nstates) = true.
Proof. vm_compute. reflexivity. Qed.
Lemma sweep_core : forallb (fun r => forallb (core_ok r) (zrange nstates)) (tl (zrange nrules)) = true.
Proof. vm_compute. reflexivity. Qed.

Lemma valid_state_range : forall s, valid_state s = true -> 0 <= s < nstates.
Proof. intros s H. unfold valid_state in H. apply andb_true_iff in H. destruct H as [H1 H2]. apply Z.leb_le in H1. apply Z.ltb_lt in H2. split; assumption. Qed.

Lemma in_tl_zrange : forall n x, 1 <= x < n -> In x (tl (zrange n)).
Proof.
  intros n x H. unfold zrange. destruct (Z.to_nat n) as [|k] eqn:E; [lia|].
  cbn [seq map tl]. apply in_map_iff. exists (Z.to_nat x). split; [apply Z2Nat.id; lia|]. apply in_seq. lia.
Qed.

Lemma head_ok_all : forall st c, valid_state st = true -> In c all_token_values -> head_ok st c = true.
Proof.
  intros st c Hs Hc. exact (forallb2 head_ok (zrange nstates) all_token_values sweep_head st c (in_zrange _ _ (valid_state_range _ Hs)) Hc).
Qed.

Lemma core_ok_all : forall r top, valid_rule r = true -> valid_state top = true -> core_ok r top = true.
Proof.
  intros r top Hr Ht. unfold valid_rule in Hr. apply andb_true_iff in Hr. destruct Hr as [H1 H2]. apply Z.leb_le in H1. apply Z.ltb_lt in H2.
  exact (forallb2 core_ok (tl (zrange nrules)) (zrange nstates) sweep_core r top (in_tl_zrange _ _ (conj H1 H2)) (in_zrange _ _ (valid_state_range _ Ht))).
Qed.

Definition valid_stack (ss : list Z) : Prop := Forall (fun s => valid_state s = true) ss.

Lemma skipn_valid : forall n ss, valid_stack ss -> valid_stack (skipn n ss).
Proof. induction n as [|n IH]; intros ss H; [exact H|]. destruct ss as [|s ss]; [exact H|]. cbn [skipn]. apply IH. inversion H; assumption. Qed.

(* one step from a stack of valid states with a token the lexer can return: no table access is out of bounds and the new stack is valid *)
Lemma step_safe : forall ss c, valid_stack ss -> In c all_token_values ->
  step ss c <> SOob /\ (forall ss' b, step ss c = Cont ss' b -> valid_stack ss').
Proof.
  intros ss c Hv Hc. destruct ss as [|st rest]; [split; [discriminate | intros; discriminate]|].
  assert (Hst : valid_state st = true) by (inversion Hv; assumption).
  pose proof (head_ok_all st c Hst Hc) as Hh. unfold head_ok in Hh. cbn [step].
  destruct (step_head st c) as [a | r | | |]; try discriminate.
  - split; [discriminate|]. intros ss' b E. inversion E; subst. constructor; assumption.
  - unfold reduce. destruct (rule_len r) as [len|] eqn:El.
    + pose proof (skipn_valid (Z.to_nat len) (st :: rest) Hv) as Hsk.
      destruct (skipn (Z.to_nat len) (st :: rest)) as [|top rest'] eqn:Es; [split; [discriminate | intros; discriminate]|].
      assert (Htop : valid_state top = true) by (inversion Hsk; assumption).
      pose proof (core_ok_all r top Hh Htop) as Hcore. unfold core_ok in Hcore. rewrite El in Hcore.
      destruct (reduce_core r top) as [ns|]; [|discriminate].
      split; [discriminate|]. intros ss' b E. inversion E; subst. constructor; assumption.
    + exfalso. assert (Hcore : core_ok r 0 = true) by (apply core_ok_all; [exact Hh | reflexivity]).
      unfold core_ok in Hcore. rewrite El in Hcore. discriminate.
  - split; [discriminate | intros; discriminate].
  - split; [discriminate | intros; discriminate].
Qed.

Lemma tl_tokens : forall (toks : list Z), Forall (fun c => In c all_token_values) toks -> Forall (fun c => In c all_token_values) (tl toks).
Proof. intros [|t toks] H; [exact H | inversion H; assumption]. Qed.

Lemma eof_is_token : In tok_YyEof all_token_values.
Proof. vm_compute. tauto. Qed.

(* headline: for every token sequence the lexer can produce and every number of steps, from any stack of valid states *)
Theorem lr_driver_never_out_of_bounds : forall fuel ss toks, valid_stack ss -> Forall (fun c => In c all_token_values) toks ->
  run fuel ss toks <> ROob.
Proof.
  induction fuel as [|f IH]; intros ss toks Hv Ht; [discriminate|].
  cbn [run]. set (c := match toks with [] => tok_YyEof | t :: _ => t end).
  assert (Hc : In c all_token_values). { unfold c. destruct toks as [|t toks]; [exact eof_is_token | inversion Ht; assumption]. }
  destruct (step_safe ss c Hv Hc) as [Hno Hnext].
  destruct (step ss c) as [ss' b | | | |] eqn:E; try discriminate; [|congruence].
  apply IH; [exact (Hnext ss' b eq_refl)|]. destruct b; [apply tl_tokens; exact Ht | exact Ht].
Qed.

Lemma initial_stack_valid : valid_stack [0].
Proof. constructor; [vm_compute; reflexivity | constructor]. Qed.

Corollary lr_parse_never_out_of_bounds : forall fuel toks, Forall (fun c => In c all_token_values) toks -> run fuel [0] toks <> ROob.
Proof. intros. apply lr_driver_never_out_of_bounds; [exact initial_stack_valid | assumption]. Qed.

(* the driver model really parses: `1 + 2` as an expression is accepted, `+` alone is a syntax error *)
Lemma lr_driver_examples :
  run 200 [0] [tok_StartExpression; tok_Numeric; tok_Plus; tok_Numeric] = RAccept /\ run 200 [0] [tok_StartExpression; tok_Plus] = RError.
Proof. split; vm_compute; reflexivity. Qed.
