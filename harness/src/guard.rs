//! `dv guard <limit_ms> <stack_mib> <feel|model>`: the totality loop of C05 / C12 (owner: builder-total).
//! Same request/answer lines as the wrapped command, but every request runs
//!   * on a fresh worker thread with a fixed stack of <stack_mib> MiB (so "stack overflow" does not depend on the caller's ulimit),
//!   * under catch_unwind  -> {"panic": text},
//!   * under a wall-clock limit -> {"timeout": limit_ms} is written and the process exits (a thread cannot be killed);
//!     the driver (vlib/core.py run_impl) restarts the process on the next request.
//! The answer line is flushed before the next request is read, so when the process dies (stack overflow -> SIGSEGV/abort,
//! abort in C code) the first request without an answer is the one that killed it.
use crate::canon::panic_text;
use serde_json::{json, Value as J};
use std::io::{BufRead, Write};
use std::sync::mpsc;
use std::sync::Mutex;
use std::time::Duration;

/// source location of the last panic (file:line), filled by the panic hook; informational, never compared
static LAST_PANIC_AT: Mutex<String> = Mutex::new(String::new());

pub fn main() {
  let limit_ms: u64 = std::env::args().nth(2).and_then(|s| s.parse().ok()).unwrap_or(10000);
  let stack_mib: usize = std::env::args().nth(3).and_then(|s| s.parse().ok()).unwrap_or(8);
  let which = std::env::args().nth(4).unwrap_or_default();
  let one: fn(&J) -> J = match which.as_str() {
    "feel" => crate::cmd_feel::one,
    "model" => crate::cmd_model::one,
    _ => {
      eprintln!("usage: dv guard <limit_ms> <stack_mib> feel|model");
      std::process::exit(2);
    }
  };
  std::panic::set_hook(Box::new(|info| {
    if let (Some(l), Ok(mut g)) = (info.location(), LAST_PANIC_AT.lock()) {
      *g = format!("{}:{}", l.file(), l.line());
    }
  }));
  let stdin = std::io::stdin();
  let stdout = std::io::stdout();
  let mut out = stdout.lock();
  for line in stdin.lock().lines() {
    let line = match line {
      Ok(l) => l,
      Err(_) => break,
    };
    if line.trim().is_empty() {
      continue;
    }
    let req: J = serde_json::from_str(&line).unwrap_or(J::Null);
    let (tx, rx) = mpsc::channel();
    let spawned = std::thread::Builder::new().stack_size(stack_mib * 1024 * 1024).spawn(move || {
      let r = std::panic::catch_unwind(|| one(&req)).unwrap_or_else(|e| {
        let at = LAST_PANIC_AT.lock().map(|g| g.clone()).unwrap_or_default();
        json!({"panic": panic_text(e), "at": at})
      });
      let _ = tx.send(r);
    });
    let r = match spawned {
      Err(_) => json!({"garbled": "cannot spawn worker thread"}),
      Ok(_) => match rx.recv_timeout(Duration::from_millis(limit_ms)) {
        Ok(r) => r,
        Err(mpsc::RecvTimeoutError::Timeout) => {
          writeln!(out, "{}", json!({"timeout": limit_ms})).unwrap();
          out.flush().unwrap();
          std::process::exit(0);
        }
        Err(mpsc::RecvTimeoutError::Disconnected) => json!({"panic": "worker thread ended without an answer"}),
      },
    };
    writeln!(out, "{}", r).unwrap();
    out.flush().unwrap();
  }
}
