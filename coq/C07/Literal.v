(* C07 — numeric literals and typed input texts: what the evaluator READS from a number text.  No proofs in this file
   (see C07/LiteralProofs.v).

   ImplModel.  Every number text goes through FeelNumber::from_str = decQuadFromString + finite test (feel-number/src/number.rs):
     - a FEEL literal: the lexer's token Numeric(before, after) (feel-parser/src/lexer.rs 333-336, 406-415: `12` gives ("12", ""),
       `12.50` gives ("12", "50"), `.5` gives ("0", "5")) is turned into the text  before ++ "." ++ after  by build_numeric
       (feel-evaluator/src/builders.rs) — so `12` is read as "12." — and parsed;
     - typed input data: Value::try_from_xsd_decimal / _integer / _double (feel/src/values.rs) parse the text as it is.
   decQuadFromString on a finite numeral  sign? (digits [. digits*] | . digits+) ([eE] sign? digits+)?  takes the sign, ALL digits of
   the mantissa as the coefficient (leading zeros have no weight), exponent part minus the number of fraction digits as the exponent,
   and rounds that exact datum once to decimal128 (Base/DecRound.v round34); from_str answers Err (None) when the result is not
   finite.  None also stands for "not such a numeral" (Inf, NaN, empty text, ... : outside this model).

   Spec.  The value a numeral DENOTES is defined here by positional weights, without the reader's accumulator:
     (-1)^sign * (sum of digit_i * 10^(position_i)) * 10^exponent = (-1)^sign * text_num / 10^text_scale.
   Significant digits: the digits of the mantissa from its first non-zero digit on (trailing zeros count: 0.10 has two). *)
From Coq Require Import ZArith NArith Bool List Ascii.
From Coq Require String.
From DV Require Import Base.Dec Base.DecRound C07.Model.
Import ListNotations.
Open Scope char_scope.
Open Scope Z_scope.

(* ------------------------------------------------------------------ numerals *)
Record numeral := mknum { n_neg : bool; n_int : str; n_frac : str; n_exp : Z }.

Definition is_nil (s : str) : bool := match s with [] => true | _ => false end.

(* digits only, at least one digit in the mantissa *)
Definition numeral_ok (n : numeral) : bool :=
  all_digits (n_int n) && all_digits (n_frac n) && negb (is_nil (n_int n) && is_nil (n_frac n)).

(* ------------------------------------------------------------------ Spec: the denoted value *)
(* every digit times the weight of its position *)
Fixpoint weigh (s : str) : N :=
  match s with
  | [] => 0
  | c :: t => digit_val c * 10 ^ N.of_nat (length t) + weigh t
  end%N.

(* |value| = text_num / 10^text_scale  (= (weigh int + weigh frac / 10^|frac|) * 10^exp) *)
Definition text_num (n : numeral) : N := (weigh (n_int n) * 10 ^ N.of_nat (length (n_frac n)) + weigh (n_frac n))%N.
Definition text_scale (n : numeral) : Z := len (n_frac n) - n_exp n.

(* the denoted value as an exact (unrounded, unbounded) datum, for comparisons with veq / correctly_rounded *)
Definition denoted (n : numeral) : dec := mkdec (n_neg n) (text_num n) (- text_scale n).

Fixpoint strip_zeros_left (s : str) : str :=
  match s with
  | "0" :: t => strip_zeros_left t
  | _ => s
  end.

Definition sig_digits (n : numeral) : nat := length (strip_zeros_left (n_int n ++ n_frac n)).

(* ------------------------------------------------------------------ ImplModel: the text grammar and the reader *)
Definition take_sign (s : str) : bool * str :=
  match s with
  | "-" :: t => (true, t)
  | "+" :: t => (false, t)
  | _ => (false, s)
  end.

(* s.split at the first 'E' or 'e' *)
Fixpoint split_exp (s : str) : str * option str :=
  match s with
  | [] => ([], None)
  | a :: t => if Ascii.eqb a "E" || Ascii.eqb a "e" then ([], Some t)
              else let (x, y) := split_exp t in (a :: x, y)
  end.

Definition exp_value (s : str) : option Z :=
  let (sg, ds) := take_sign s in
  if all_digits ds && negb (is_nil ds) then Some (if sg then - Z.of_N (digits_val ds) else Z.of_N (digits_val ds)) else None.

Definition parse_numeral (s : str) : option numeral :=
  let (sg, u) := take_sign s in
  let (m, x) := split_exp u in
  let (ip, fo) := split_char "." m in
  let fp := match fo with Some f => f | None => [] end in
  let n := fun e => mknum sg ip fp e in
  if numeral_ok (n 0) then
    match x with
    | None => Some (n 0)
    | Some xs => match exp_value xs with Some e => Some (n e) | None => None end
    end
  else None.

(* decQuadFromString + finite test on a parsed numeral: all digits, exponent minus fraction length, ONE rounding *)
Definition read_numeral (n : numeral) : option dec :=
  round34 (n_neg n) (digits_val (n_int n ++ n_frac n)) (n_exp n - len (n_frac n)).

Definition from_text (s : str) : option dec :=
  match parse_numeral s with Some n => read_numeral n | None => None end.

(* the numerals, as a generator: sign? (digits [. digits*] | . digits+) ([eE] sign? digits+)?
   (the spellings of xsd:integer, xsd:decimal, xsd:double finite values, and of the text a FEEL literal is turned into) *)
Definition sign_ok (s : str) : Prop := s = [] \/ s = ["-"] \/ s = ["+"].
Definition is_minus (s : str) : bool := match s with "-" :: _ => true | _ => false end.
Record exp_part := mkexp { x_char : ascii; x_sign : str; x_digits : str }.
Definition exp_ok (x : option exp_part) : Prop :=
  match x with
  | None => True
  | Some p => (x_char p = "E" \/ x_char p = "e") /\ sign_ok (x_sign p) /\ all_digits (x_digits p) = true /\ x_digits p <> []
  end.
Definition exp_str (x : option exp_part) : str :=
  match x with None => [] | Some p => x_char p :: x_sign p ++ x_digits p end.
Definition exp_val (x : option exp_part) : Z :=
  match x with
  | None => 0
  | Some p => if is_minus (x_sign p) then - Z.of_N (digits_val (x_digits p)) else Z.of_N (digits_val (x_digits p))
  end.
Definition spelled (sign ip : str) (dot : bool) (fp : str) (x : option exp_part) : str :=
  sign ++ ip ++ (if dot then "." :: fp else []) ++ exp_str x.

(* FEEL literal: token Numeric(before, after) -> text before.after -> from_str *)
Definition literal_text (before after : str) : str := before ++ "." :: after.
Definition literal_value (before after : str) : option dec := from_text (literal_text before after).
Definition literal_numeral (before after : str) : numeral := mknum false before after 0.

(* ------------------------------------------------------------------ the lexer's numeral token (coq/C06/Lexer.v works on code points) *)
Definition ascii_of_code (c : N) : ascii := ascii_of_N c.
Definition text_of_codes (l : list N) : str := map ascii_of_code l.

(* ------------------------------------------------------------------ JSON numbers, RFC 8259 section 6, as a grammar of its own
     number = [ minus ] int [ frac ] [ exp ]      int = zero / ( digit1-9 *DIGIT )
     frac = decimal-point 1*DIGIT                 exp = e [ minus / plus ] 1*DIGIT *)
Inductive json_int : str -> Prop :=
| ji_zero : json_int ["0"]
| ji_pos : forall c ds, is_digit c = true -> c <> "0" -> all_digits ds = true -> json_int (c :: ds).

Inductive json_frac : str -> Prop :=
| jf_none : json_frac []
| jf_some : forall ds, ds <> [] -> all_digits ds = true -> json_frac ("." :: ds).

Inductive json_exp : str -> Prop :=
| je_none : json_exp []
| je_some : forall e sg ds, e = "e" \/ e = "E" -> sg = [] \/ sg = ["+"] \/ sg = ["-"] -> ds <> [] -> all_digits ds = true ->
    json_exp (e :: sg ++ ds).

Inductive json_number : str -> Prop :=
| jn : forall m i f x, m = [] \/ m = ["-"] -> json_int i -> json_frac f -> json_exp x -> json_number (m ++ i ++ f ++ x).

(* a recogniser every JSON number passes (C07/LiteralProofs.v json_number_checked); used to show that the grammar rejects texts *)
Fixpoint drop_digits (s : str) : str :=
  match s with
  | c :: t => if is_digit c then drop_digits t else s
  | [] => []
  end.
Definition json_exp_check (r : str) : bool :=
  match r with
  | [] => true
  | e :: r' => (Ascii.eqb e "e" || Ascii.eqb e "E") &&
               let ds := match r' with "+" :: t => t | "-" :: t => t | _ => r' end in negb (is_nil ds) && all_digits ds
  end.
Definition json_frac_check (r : str) : bool :=
  match r with
  | "." :: d :: r' => is_digit d && json_exp_check (drop_digits r')
  | "." :: [] => false
  | _ => json_exp_check r
  end.
Definition json_check (s : str) : bool :=
  let u := match s with "-" :: t => t | _ => s end in
  match u with
  | "0" :: r => json_frac_check r
  | c :: r => is_digit c && json_frac_check (drop_digits r)
  | [] => false
  end.

(* ------------------------------------------------------------------ I/O helpers for the correspondence check *)
Definition from_text_sci (s : String.string) : option String.string := show (option_map to_sci (from_text (rd s))).
Definition literal_sci (b a : String.string) : option String.string := show (option_map to_sci (literal_value (rd b) (rd a))).
