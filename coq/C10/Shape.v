(* C10 — the shape of the collected parts: every part is a word (a non-empty run of name characters that cannot be extended to
   the right) or one additional symbol; where the collector stops, the next character is neither a name character, nor an
   additional symbol, nor white space.  The character classes: no white space character is a name character (before the repair three code points were both).
   Owner: prover-C10. *)
From Coq Require Import List NArith Bool Arith Lia.
From DV Require Import C10.Model C10.Layout.
Import ListNotations.

(* ------------------------------------------------------------------ character classes *)

Ltac bool_to_prop H :=
  unfold is_name_part_orig, is_name_start_orig, is_digit, is_ws, is_vspace, is_add_sym, between in H;
  repeat rewrite ?orb_true_iff, ?andb_true_iff, ?N.leb_le, ?N.eqb_eq in H.

(* before the repair of is_name_start_char: U+1680, U+180E and U+FEFF were white space and name characters at once (the ranges of the
   grammar of the standard) *)
Lemma name_part_ws_overlap_orig : forall c, is_name_part_orig c = true -> is_ws c = true -> c = 5760%N \/ c = 6158%N \/ c = 65279%N.
Proof. intros c H1 H2. bool_to_prop H1. bool_to_prop H2. lia. Qed.

Lemma overlap_witness_orig : forallb (fun c => is_name_part_orig c && is_ws c) [5760; 6158; 65279]%N = true.
Proof. vm_compute. reflexivity. Qed.

(* now: a white space character is not a name character *)
Lemma name_part_not_ws : forall c, is_name_part c = true -> is_ws c = false.
Proof.
  intros c H1. destruct (is_ws c) eqn:E; [exfalso|reflexivity].
  unfold is_name_part, is_name_start in H1. rewrite E in H1. cbn [negb] in H1. rewrite andb_false_r in H1. cbn [orb] in H1.
  bool_to_prop H1. bool_to_prop E. lia.
Qed.

Lemma ws_not_name_part : forall c, is_ws c = true -> is_name_part c = false.
Proof. intros c H. destruct (is_name_part c) eqn:E; [|reflexivity]. rewrite (name_part_not_ws c E) in H. discriminate H. Qed.

(* the name characters are the ones of the grammar less the white space *)
Lemma name_part_spec : forall c, is_name_part c = is_name_part_orig c && negb (is_ws c).
Proof.
  intros c. destruct (is_ws c) eqn:E.
  - rewrite andb_false_r. apply ws_not_name_part. exact E.
  - rewrite andb_true_r. unfold is_name_part, is_name_part_orig, is_name_start. rewrite E. cbn [negb]. rewrite andb_true_r. reflexivity.
Qed.

Lemma name_part_is_orig : forall c, is_name_part c = true -> is_name_part_orig c = true.
Proof. intros c H. rewrite name_part_spec in H. apply andb_true_iff in H. exact (proj1 H). Qed.

Lemma add_sym_not_ws : forall c, is_add_sym c = true -> is_ws c = false.
Proof. intros c H1. apply not_true_is_false. intro H2. bool_to_prop H1. bool_to_prop H2. lia. Qed.

Lemma add_sym_not_name_part_orig : forall c, is_add_sym c = true -> is_name_part_orig c = false.
Proof. intros c H1. apply not_true_is_false. intro H2. bool_to_prop H1. bool_to_prop H2. lia. Qed.

Lemma add_sym_not_name_part : forall c, is_add_sym c = true -> is_name_part c = false.
Proof. intros c H. rewrite name_part_spec, (add_sym_not_name_part_orig c H). reflexivity. Qed.

Lemma name_start_part : forall c, is_name_start c = true -> is_name_part c = true.
Proof. intros c H. unfold is_name_part. rewrite H. reflexivity. Qed.

Lemma char_classes : forall c,
  (is_name_part c = true -> is_ws c = false) /\
  (is_add_sym c = true -> is_ws c = false /\ is_name_part c = false) /\
  is_name_part c = is_name_part_orig c && negb (is_ws c) /\
  (is_name_part_orig c = true -> is_ws c = true -> c = 5760%N \/ c = 6158%N \/ c = 65279%N).
Proof.
  intro c. split; [apply name_part_not_ws|]. split; [|split; [apply name_part_spec|apply name_part_ws_overlap_orig]].
  intro H. split; [apply add_sym_not_ws|apply add_sym_not_name_part]; exact H.
Qed.

(* ------------------------------------------------------------------ words and symbols *)

Definition word (p : str) : Prop := p <> [] /\ Forall (fun c => is_name_part c = true) p.
Definition symp (p : str) : Prop := exists c, p = [c] /\ is_add_sym c = true.

Lemma word_not_symp : forall p, word p -> symp p -> False.
Proof.
  intros p [_ Hw] (c & -> & Hc). inversion Hw; subst. rewrite (add_sym_not_name_part c Hc) in H1. discriminate H1.
Qed.

(* a recorded part with its recorded position *)
Definition part_ok (inp : str) (p : str) (e : nat) : Prop :=
  (word p /\ next_is is_name_part inp e = false) \/ symp p.

Definition sinv (inp : str) (a : acc) : Prop :=
  Forall2 (part_ok inp) (a_parts a) (a_cps a) /\ Forall (fun c => is_name_part c = true) (a_cur a).

Lemma step_sinv : forall inp pos0 s pos a s' pos' a',
  linv inp pos0 s pos a -> sinv inp a -> step inp s pos a = Some (s', pos', a') -> sinv inp a'.
Proof.
  intros inp pos0 s pos a s' pos' a' (gs & g & _ & _ & _ & _ & Hs) [HF Hc] H. unfold step in H. unfold sinv.
  destruct a as [ps es cur]. cbn [a_parts a_cps a_cur] in *.
  assert (Hrec : next_is is_name_part inp pos = false -> cur <> [] -> Forall2 (part_ok inp) (rev cur :: ps) (pos :: es)).
  { intros En Hne. constructor; [|exact HF]. left. split; [|exact En]. split.
    - intro E. apply Hne. apply (f_equal (@rev N)) in E. rewrite rev_involutive in E. exact E.
    - apply Forall_rev. exact Hc. }
  destruct s.
  - destruct Hs as (_ & _ & Hne). destruct (next_is is_name_part inp pos) eqn:En; inversion H; subst; clear H; cbn [a_parts a_cps a_cur].
    + split; [exact HF|]. constructor; [|exact Hc]. exact (proj2 (next_is_true _ _ _ En)).
    + split; [apply Hrec; [reflexivity|exact Hne]|constructor].
  - destruct (next_is is_name_part inp pos); [inversion H; subst; exact (conj HF Hc)|].
    destruct (next_is is_add_sym inp pos); [inversion H; subst; exact (conj HF Hc)|].
    destruct (next_is is_ws inp pos); [inversion H; subst; exact (conj HF Hc)|discriminate H].
  - destruct Hs as (_ & Hne). destruct (next_is is_name_part inp pos) eqn:En; inversion H; subst; clear H; cbn [a_parts a_cps a_cur].
    + split; [exact HF|]. constructor; [|exact Hc]. exact (proj2 (next_is_true _ _ _ En)).
    + destruct Hne as [Hne|Hne]; [|discriminate Hne]. split; [apply Hrec; [reflexivity|exact Hne]|constructor].
  - destruct (next_is is_add_sym inp pos) eqn:En; inversion H; subst; clear H; cbn [a_parts a_cps a_cur].
    + split; [|constructor]. constructor; [|exact HF]. right. exists (ch inp (S pos)). split; [reflexivity|]. exact (proj2 (next_is_true _ _ _ En)).
    + exact (conj HF Hc).
  - destruct (next_is is_ws inp pos) eqn:En; inversion H; subst; clear H; exact (conj HF Hc).
Qed.

Lemma machine_sinv : forall inp pos0, pos0 < length inp -> forall fuel s pos a s' pos' a',
  linv inp pos0 s pos a -> sinv inp a -> machine fuel inp s pos a = (s', pos', a') -> sinv inp a'.
Proof.
  intros inp pos0 Hpos0. induction fuel as [|f IH]; intros s pos a s' pos' a' Hl Hi H; cbn [machine] in H.
  - inversion H; subst. exact Hi.
  - destruct (step inp s pos a) as [[[s1 p1] a1]|] eqn:E.
    + eapply IH; [eapply step_linv; eauto|eapply step_sinv; eauto|exact H].
    + inversion H; subst. exact Hi.
Qed.

Lemma Forall2_rev' : forall A B (R : A -> B -> Prop) l1 l2, Forall2 R l1 l2 -> Forall2 R (rev l1) (rev l2).
Proof.
  intros A B R l1 l2 H. induction H; [constructor|]. cbn [rev]. apply Forall2_app; [assumption|]. constructor; [assumption|constructor].
Qed.

(* what the collector returns, when it starts on a name start character *)
Theorem collect_shape : forall inp pos parts cps endpos,
  pos < length inp -> is_name_start (ch inp pos) = true -> collect inp pos = (parts, cps, endpos) ->
  Forall2 (part_ok inp) parts cps /\
  next_is is_name_part inp (endpos - 1) = false /\ next_is is_add_sym inp (endpos - 1) = false /\ next_is is_ws inp (endpos - 1) = false.
Proof.
  intros inp pos parts cps endpos Hpos Hstart H. unfold collect in H.
  destruct (machine (4 * S (length inp)) inp S1 pos {| a_parts := []; a_cps := []; a_cur := [ch inp pos] |}) as [[s p] a] eqn:E.
  inversion H; subst; clear H.
  assert (Hs0 : sinv inp {| a_parts := []; a_cps := []; a_cur := [ch inp pos] |}).
  { split; cbn [a_parts a_cps a_cur]; [constructor|]. constructor; [apply name_start_part; exact Hstart|constructor]. }
  destruct (machine_sinv inp pos Hpos _ _ _ _ _ _ _ (linv_init inp pos Hpos) Hs0 E) as [HF _].
  split; [apply Forall2_rev'; exact HF|].
  assert (Hstop : step inp s p a = None).
  { eapply machine_stops; [|exact E]. unfold measure. cbn [cost]. lia. }
  pose proof (step_none_S2 _ _ _ _ Hstop). subst s. cbn [step] in Hstop. replace (S p - 1) with p by lia.
  destruct (next_is is_name_part inp p); [discriminate Hstop|].
  destruct (next_is is_add_sym inp p); [discriminate Hstop|].
  destruct (next_is is_ws inp p); [discriminate Hstop|]. repeat split.
Qed.
