(* C06 — extended expression language, from TEXT to TREE: the lexer theorems of C06.LexerProofs composed with the round-trip and
   removal theorems of the extended Spec parser.  Owner: prover-C06. *)
From Coq Require Import List NArith Bool Arith Lia.
From DV Require Import C06.Model C06.ModelExt C06.Lexer C06.LexerProofs C06.LexerText C06.ExtLex C06.ExtFuel.
From DV Require C06.ExtNeeded.
Import ListNotations.

(* ------------------------------------------------------------------ eabs after econc *)

Definition no_colon (ls : list ltoken) : Prop := match ls with LSym SColon :: _ => False | _ => True end.

Lemma econc_no_colon : forall keys enc dec t rest, atoms_ok keys enc dec -> no_colon (econc keys enc t ++ rest).
Proof.
  intros keys enc dec t rest Ha. destruct t; cbn [econc app no_colon]; try exact I.
  - destruct (Ha a) as [H1 _]. destruct (enc a) as [k|s|b| |b c|s|m|m|m]; try discriminate H1; exact I.
  - destruct o; exact I.
  - destruct ty; exact I.
Qed.

Lemma econc_all_no_colon : forall keys enc dec ts, atoms_ok keys enc dec -> no_colon (econc_all keys enc ts).
Proof.
  intros keys enc dec ts Ha. destruct ts as [|t r]; [exact I|]. unfold econc_all. cbn [flat_map].
  eapply econc_no_colon. exact Ha.
Qed.

Lemma eabs_conc : forall keys enc dec t rest, atoms_ok keys enc dec -> keys_ok keys = true -> etok_wf keys t = true -> no_colon rest ->
  eabs keys dec (econc keys enc t ++ rest) = match eabs keys dec rest with Some ts => Some (t :: ts) | None => None end.
Proof.
  intros keys enc dec t rest Ha Hk Hw Hn.
  assert (Hd : nodup_str keys = true) by (unfold keys_ok in Hk; rewrite !andb_true_iff in Hk; tauto).
  destruct t; cbn [econc app]; try reflexivity; try discriminate Hw.
  - destruct (Ha a) as [H1 [H2 _]]. destruct (enc a) as [k|s|b| |b c|s|m|m|m]; try discriminate H1;
      try (cbn [eabs tok_op is_atom_tok]; rewrite H2; reflexivity).
    cbn [eabs]. destruct rest as [|l0 r0]; [rewrite H2; reflexivity|].
    destruct l0 as [k|s|b| |b c|s|m0|m0|m0]; try (rewrite H2; reflexivity).
    destruct s; try (rewrite H2; reflexivity). destruct Hn.
  - destruct o; reflexivity.
  - cbn [etok_wf] in Hw. cbn [eabs]. rewrite (pos_of_nth_str type_words ty eq_refl Hw). reflexivity.
  - cbn [etok_wf] in Hw. cbn [eabs]. rewrite (pos_of_nth_str keys n Hd Hw). reflexivity.
  - cbn [etok_wf] in Hw. cbn [eabs]. rewrite (pos_of_nth_str keys n Hd Hw). reflexivity.
Qed.

Lemma eabs_conc_all : forall keys enc dec ts, atoms_ok keys enc dec -> keys_ok keys = true -> forallb (etok_wf keys) ts = true ->
  eabs keys dec (econc_all keys enc ts) = Some ts.
Proof.
  intros keys enc dec ts Ha Hk. induction ts as [|t r IH]; intros Hw; [reflexivity|].
  cbn [forallb] in Hw. apply andb_true_iff in Hw. destruct Hw as [Ht Hr]. unfold econc_all. cbn [flat_map].
  rewrite (eabs_conc keys enc dec t _ Ha Hk Ht) by (apply (econc_all_no_colon keys enc dec r Ha)).
  fold (econc_all keys enc r). rewrite (IH Hr). reflexivity.
Qed.

(* ------------------------------------------------------------------ the concrete token list is printable *)

Lemma printable_econc : forall keys enc dec, atoms_ok keys enc dec -> forall ts u b ti,
  eflag_ok b ts = true -> forallb (etok_wf keys) ts = true ->
  printable_from keys {| f_unary := u; f_between := b; f_type := false; f_tillin := ti |} (econc_all keys enc ts) = true.
Proof.
  intros keys enc dec Ha. induction ts as [|t r IH]; intros u b ti Hf Hw; [reflexivity|].
  cbn [forallb] in Hw. apply andb_true_iff in Hw. destruct Hw as [Ht Hr]. unfold econc_all. cbn [flat_map]. fold (econc_all keys enc r).
  destruct t; cbn [econc app printable_from]; try discriminate Ht;
    try (cbn [eflag_ok] in Hf; apply IH; assumption).
  - destruct (Ha a) as [H1 [_ H3]]. rewrite (atom_tok_ok keys {| f_unary := u; f_between := b; f_type := false; f_tillin := ti |} (enc a) H1 eq_refl H3). cbn [andb].
    replace (tok_flags {| f_unary := u; f_between := b; f_type := false; f_tillin := ti |} (enc a))
      with {| f_unary := false; f_between := b; f_type := false; f_tillin := ti |}
      by (destruct (enc a) as [k|s|c| |c d|s|m|m|m]; try discriminate H1; reflexivity).
    apply IH; [exact Hf|exact Hr].
  - destruct o; cbn [eflag_ok] in Hf; try (cbn [op_tok tok_ok andb]; apply IH; assumption).
    apply andb_true_iff in Hf. destruct Hf as [Hb Hf]. cbn [op_tok tok_ok f_between]. rewrite Hb. cbn [andb]. apply IH; assumption.
  - cbn [eflag_ok] in Hf. apply andb_true_iff in Hf. destruct Hf as [Hb Hf]. cbn [tok_ok f_between]. rewrite Hb. cbn [andb]. apply (IH false false ti Hf Hr).
  - cbn [etok_wf] in Ht. cbn [tok_ok tok_flags clr_unary set_type f_unary f_between f_type f_tillin andb].
    replace (NM.mem (nth_str type_words ty) type_words) with true.
    + cbn [andb]. apply (IH false b ti Hf Hr).
    + symmetry. apply in_mem. unfold nth_str. apply nth_In. apply N.ltb_lt in Ht. cbn [length type_words]. lia.
  - cbn [etok_wf] in Ht. cbn [tok_ok tok_flags clr_unary f_unary f_between f_type f_tillin andb negb].
    replace (NM.mem (nth_str keys n) keys) with true.
    + cbn [andb]. apply (IH false b ti Hf Hr).
    + symmetry. apply in_mem. unfold nth_str. apply nth_In. apply N.ltb_lt in Ht. lia.
  - cbn [etok_wf] in Ht. cbn [tok_ok tok_flags clr_unary f_unary f_between f_type f_tillin andb negb].
    replace (NM.mem (nth_str keys n) keys) with true.
    + cbn [andb]. apply (IH false b ti Hf Hr).
    + symmetry. apply in_mem. unfold nth_str. apply nth_In. apply N.ltb_lt in Ht. lia.
Qed.

(* ------------------------------------------------------------------ text level *)

Section TextExt.
  Variable keys : list str.
  Variable enc : N -> ltoken.
  Variable dec : ltoken -> option N.
  Hypothesis Hkeys : keys_ok keys = true.
  Hypothesis Hatoms : atoms_ok keys enc dec.

  (* what the extended Spec parser makes of a token list, it makes of the text printed from it: a space after every token ... *)
  Theorem parse_text_unlex_ext : forall ts, eflag_ok false ts = true -> forallb (etok_wf keys) ts = true ->
    parse_text_ext keys dec (unlex (econc_all keys enc ts)) = eparse_tokens ts.
  Proof.
    intros ts Hf Hw. unfold parse_text_ext. rewrite lex_unlex; [|exact Hkeys|].
    - rewrite eabs_conc_all by assumption. reflexivity.
    - apply (printable_econc keys enc dec Hatoms ts false false false Hf Hw).
  Qed.

  (* ... or any layout of the modelled grammar before the first token and, behind a space, after every token *)
  Theorem parse_text_layout_ext : forall ts lead gaps, eflag_ok false ts = true -> forallb (etok_wf keys) ts = true ->
    forallb piece_ok lead = true -> forallb gap_ok gaps = true ->
    parse_text_ext keys dec (render_layout lead ++ unlex_lay gaps (econc_all keys enc ts)) = eparse_tokens ts.
  Proof.
    intros ts lead gaps Hf Hw Hl Hg. unfold parse_text_ext. rewrite lex_unlex_layout; try assumption.
    - rewrite eabs_conc_all by assumption. reflexivity.
    - apply (printable_econc keys enc dec Hatoms ts false false false Hf Hw).
  Qed.

  Theorem text_roundtrip_min_ext : forall t, eflag_ok false (erender_min t) = true -> forallb (etok_wf keys) (erender_min t) = true ->
    parse_text_ext keys dec (unlex (econc_all keys enc (erender_min t))) = Some t.
  Proof. intros t Hf Hw. rewrite parse_text_unlex_ext by assumption. apply eroundtrip_min_tokens. Qed.

  Theorem text_roundtrip_full_ext : forall t, eflag_ok false (erender_full t) = true -> forallb (etok_wf keys) (erender_full t) = true ->
    parse_text_ext keys dec (unlex (econc_all keys enc (erender_full t))) = Some t.
  Proof. intros t Hf Hw. rewrite parse_text_unlex_ext by assumption. apply eroundtrip_full_tokens. Qed.

  Theorem text_roundtrip_min_layout_ext : forall t lead gaps,
    eflag_ok false (erender_min t) = true -> forallb (etok_wf keys) (erender_min t) = true ->
    forallb piece_ok lead = true -> forallb gap_ok gaps = true ->
    parse_text_ext keys dec (render_layout lead ++ unlex_lay gaps (econc_all keys enc (erender_min t))) = Some t.
  Proof. intros t lead gaps Hf Hw Hl Hg. rewrite parse_text_layout_ext by assumption. apply eroundtrip_min_tokens. Qed.

  Theorem text_roundtrip_full_layout_ext : forall t lead gaps,
    eflag_ok false (erender_full t) = true -> forallb (etok_wf keys) (erender_full t) = true ->
    forallb piece_ok lead = true -> forallb gap_ok gaps = true ->
    parse_text_ext keys dec (render_layout lead ++ unlex_lay gaps (econc_all keys enc (erender_full t))) = Some t.
  Proof. intros t lead gaps Hf Hw Hl Hg. rewrite parse_text_layout_ext by assumption. apply eroundtrip_full_tokens. Qed.

  (* a needed pair removed, at the text level *)
  Theorem text_needed_paren_ext : forall t k,
    eflag_ok false (edrop_paren k (erender_min t)) = true -> forallb (etok_wf keys) (edrop_paren k (erender_min t)) = true ->
    k < ecount_lp (erender_min t) ->
    parse_text_ext keys dec (unlex (econc_all keys enc (edrop_paren k (erender_min t)))) <> Some t.
  Proof. intros t k Hf Hw Hlt. rewrite parse_text_unlex_ext by assumption. exact (ExtNeeded.eneeded_paren t k Hlt). Qed.
End TextExt.

(* ------------------------------------------------------------------ the hypotheses are met *)

(* if a < 1 then [ b , { c : ( a .. b ] } ] else d ( a : 1 , b : [ ] )   on the keys a b c d (odd atoms names, even atoms numerals) *)
Definition etree_ex : etree :=
  EIf (EBin Lt (EAtom 1) (EAtom 0))
      (EList [EAtom 3; ECtx [(2%N, ERange RoP 1 3 RcB)]])
      (ECallN (EAtom 7) (0%N, EAtom 0) [(1%N, EList [])]).

Lemma text_example_ext :
  keys_ok keys_ex = true /\ eflag_ok false (erender_min etree_ex) = true /\ forallb (etok_wf keys_ex) (erender_min etree_ex) = true /\
  unlex (econc_all keys_ex enc_ex (erender_min etree_ex)) =
    [105; 102; 32; 97; 32; 60; 32; 49; 32; 116; 104; 101; 110; 32; 91; 32; 98; 32; 44; 32; 123; 32; 99; 32; 58; 32; 40; 32; 97; 32; 46; 46; 32; 98; 32; 93; 32; 125; 32; 93; 32;
     101; 108; 115; 101; 32; 100; 32; 40; 32; 97; 32; 58; 32; 49; 32; 44; 32; 98; 32; 58; 32; 91; 32; 93; 32; 41; 32]%N /\
  parse_text_ext keys_ex dec_ex (unlex (econc_all keys_ex enc_ex (erender_min etree_ex))) = Some etree_ex.
Proof. vm_compute. repeat split; reflexivity. Qed.
