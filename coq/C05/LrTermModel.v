(* C05 -- termination of the LALR driver loop (feel-parser/src/parser.rs, Parser::parse): the definitions.
   The state-stack part of the loop (`kstep`, `krun`: what every driver model of /verif does to the state stack: C06.Actions.frun with the
   semantic actions, C06.Lr.run with syntax trees, C05.LrDriver.run with checked table accesses), a weight per grammar symbol computed from
   the rules of the regenerated tables, and the finite checks on which the termination proof rests:
     - every rule with a non-empty right-hand side weighs at least one less than its right-hand side, an empty rule weighs nothing,
       a terminal weighs at most W (`rules_w_ok`, `terminals_w_ok`): the weight of the stack drops with every such reduction and a shift
       adds at most W;
     - under one lookahead there are at most K reductions of empty rules in a row (`eps_ok`; they are the mid-rule actions of feel.y);
     - the end marker is only ever shifted into the final state (`end_shift_ok`).
   No proofs here.  (owner: builder-total) *)
From Coq Require Import List NArith ZArith Bool Arith String FMapPositive.
From DV Require Import Gen.LalrTables Gen.LalrTokens C06.Lr C06.Actions C06.ActionsAutomaton.
Import ListNotations.
Local Open Scope Z_scope.

(* ------------------------------------------------------------------ the lookahead as the loop sees it *)
(* None: the lexer's error token (the loop stops with a syntax error where it needs the lookahead); Some sym: a grammar symbol *)
Definition look_of (tok : Z) : option Z := if tok =? tok_YyError then None else Some (sym_of tok).

Definition decide_l (s : Z) (l : option Z) : move :=
  if s =? yy_final then MAccept else
  if zn t_pact s =? yy_pact_n_inf then decide_sym s 0 else
  match l with None => MError | Some sym => decide_sym s sym end.

Definition rlen (r : Z) : nat := Z.to_nat (zn t_r2 r).

(* ------------------------------------------------------------------ the loop on the state stack alone *)
Inductive kstep_res := KCont (ss : list Z) (consumed : bool) | KAccept | KError | KStuck.

Definition kstep (ss : list Z) (l : option Z) : kstep_res :=
  match ss with
  | [] => KStuck
  | s :: _ =>
    match decide_l s l with
    | MAccept => KAccept
    | MError => KError
    | MShift a => KCont (a :: ss) true
    | MReduce r =>
      match skipn (rlen r) ss with
      | [] => KStuck                                  (* the stack is not deeper than the right-hand side: `len() - 1` underflows *)
      | top :: rest => KCont (goto_of r top :: top :: rest) false
      end
    end
  end.

Inductive kres := KRAccept | KRError | KRStuck | KRFuel.

(* after the input the lexer keeps returning the end marker *)
Definition head_look (ls : list (option Z)) : option Z := match ls with [] => Some 0 | l :: _ => l end.

Fixpoint krun (fuel : nat) (ss : list Z) (ls : list (option Z)) : kres :=
  match fuel with
  | O => KRFuel
  | S f =>
    match kstep ss (head_look ls) with
    | KCont ss' c => krun f ss' (if c then tl ls else ls)
    | KAccept => KRAccept
    | KError => KRError
    | KStuck => KRStuck
    end
  end.

(* ------------------------------------------------------------------ weights of the grammar symbols *)
Definition W : nat := 8.        (* a terminal *)
Definition K : nat := 2.        (* reductions of empty rules in a row *)

Definition wmap := PositiveMap.t nat.
Definition wget (m : wmap) (x : Z) : nat :=
  if x <? 0 then O else match PositiveMap.find (Z.to_pos (x + 1)) m with Some n => n | None => O end.
Definition wset (m : wmap) (x : Z) (n : nat) : wmap := PositiveMap.add (Z.to_pos (x + 1)) n m.
Fixpoint wsum (m : wmap) (l : list Z) : nat := match l with [] => O | x :: r => (wget m x + wsum m r)%nat end.

(* the rules of the tables with the numbers of their right-hand side symbols *)
Definition num_rules : list (Z * list Z) :=
  Eval vm_compute in flat_map (fun e => match nums (snd (snd e)) with Some l => [(fst e, l)] | None => [] end) grammar_rules.

(* the greatest weights below W for the terminals: a nonterminal weighs one less than its lightest right-hand side, an empty rule nothing;
   how they are found does not matter, `rules_w_ok` checks them *)
Definition w_start : wmap :=
  fold_left (fun m x => wset m x W) all_syms (fold_left (fun m e => wset m (lhs_num (fst e)) (100 * W)%nat) num_rules (PositiveMap.empty nat)).
Definition relax (m : wmap) : wmap :=
  fold_left (fun m e =>
    let lhs := lhs_num (fst e) in
    let cand := match snd e with [] => O | l => (wsum m l - 1)%nat end in
    if (cand <? wget m lhs)%nat then wset m lhs cand else m) num_rules m.
Definition weights : wmap := Eval vm_compute in iter 40 relax w_start.

Definition rule_w_ok (e : Z * (string * list string)) : bool :=
  match nums (snd (snd e)) with
  | Some l =>
    (rlen (fst e) =? List.length l)%nat &&
    match l with
    | [] => (wget weights (lhs_num (fst e)) =? 0)%nat
    | _ => (wget weights (lhs_num (fst e)) + 1 <=? wsum weights l)%nat
    end
  | None => true
  end.
Definition rules_w_ok : bool := forallb rule_w_ok grammar_rules.
Definition terminals_w_ok : bool := forallb (fun x => (wget weights x <=? W)%nat) all_syms.

(* ------------------------------------------------------------------ reductions of empty rules in a row *)
Definition all_looks : list (option Z) := None :: map Some all_syms.

Fixpoint erank (fuel : nat) (s : Z) (l : option Z) : nat :=
  match fuel with
  | O => O
  | S f => match decide_l s l with
           | MReduce r => if (rlen r =? 0)%nat then S (erank f (goto_of r s) l) else O
           | _ => O
           end
  end.

Definition eps_ok_at (s : Z) (l : option Z) : bool :=
  match decide_l s l with
  | MReduce r => if (rlen r =? 0)%nat then (erank K (goto_of r s) l <? erank K s l)%nat else true
  | _ => true
  end.
Definition eps_ok : bool := forallb (fun s => implb (reachable auto s) (forallb (eps_ok_at s) all_looks)) all_states.

(* the end marker leads to the final state only *)
Definition end_shift_ok : bool :=
  forallb (fun s => implb (reachable auto s) (match decide_sym s 0 with MShift a => a =? yy_final | _ => true end)) all_states.

(* ------------------------------------------------------------------ the measure: an upper bound of the turns of the loop still to come *)
Definition pend (ss : list Z) : nat := match ss with s :: _ => if s =? yy_final then O else S W | [] => O end.
Definition top_rank (ss : list Z) (l : option Z) : nat := match ss with s :: _ => erank K s l | [] => O end.
(* xs: the grammar symbols between the states of ss *)
Definition measure (xs ss : list Z) (ls : list (option Z)) : nat :=
  (S K * (wsum weights xs + S W * List.length ls + pend ss) + top_rank ss (head_look ls))%nat.

(* enough turns for n tokens *)
Definition fuel_bound (n : nat) : nat := (S K * S W * S n + S K)%nat.

(* ------------------------------------------------------------------ the tokens of the lexer (C05.LrDriver works on TokenType numbers) *)
Definition token_syms_ok : bool := forallb (fun c => let s := sym_of c in (0 <=? s) && (s <? yy_n_tokens)) all_token_values.

(* ------------------------------------------------------------------ a sample for the non-vacuity examples: `[ a , 2.5 ]` as an expression *)
Definition parse_sample : list ftok :=
  [(tok_StartExpression, VTok tok_StartExpression); (tok_LeftBracket, VTok tok_LeftBracket); (tok_Name, VName 1%N);
   (tok_Comma, VTok tok_Comma); (tok_Numeric, VNumeric 2%N 5%N); (tok_RightBracket, VTok tok_RightBracket)].

(* ------------------------------------------------------------------ for the check: what is at fault when one of the finite checks fails *)
Definition rule_offenders : list Z := flat_map (fun e => if rule_w_ok e then [] else [fst e]) grammar_rules.
Definition eps_offenders : list (Z * Z) :=      (* (state, lookahead symbol; -1 for the error token) *)
  flat_map (fun s => if reachable auto s
                     then flat_map (fun l => if eps_ok_at s l then [] else [(s, match l with Some x => x | None => -1 end)]) all_looks
                     else []) all_states.
Definition end_offenders : list Z :=
  flat_map (fun s => if reachable auto s then match decide_sym s 0 with MShift a => if a =? yy_final then [] else [s] | _ => [] end else []) all_states.
