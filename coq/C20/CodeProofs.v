(* C20 — the theorems of C20/InvProofs.v instantiated for the CURRENT inventory (Gen/SyncSites.v) and for the lock program
   of an evaluation call built from the regenerated code regions (C20/Code.v), for every nesting depth. *)
From Coq Require Import List Arith Bool Lia.
From DV Require Import C20.Conc C20.Proofs C20.Sites C20.Inv C20.InvProofs Gen.SyncSites C20.Code.
Import ListNotations.

(* ---------------- decided on the regenerated data ---------------- *)
Theorem code_sites_ok : sites_ok sites = true.
Proof. vm_compute. reflexivity. Qed.

Theorem code_regions_ok : regions_ok = true.
Proof. vm_compute. reflexivity. Qed.

Theorem call_path_is_two_levels : acqs_of (deep_ops 2) = call_path.
Proof. vm_compute. reflexivity. Qed.

(* the inventory is not empty where the evaluation path really takes locks: the regenerated call path of a decision that
   requires a decision has at least 12 acquisitions on at least 6 different receivers, every one of them an evaluation-phase
   read site of the inventory, it runs the decision logic twice, and it is exactly what two nested levels of the regions give *)
Theorem inventory_nonempty :
  Nat.leb 12 (length call_path) = true /\
  Nat.leb 6 (length (distinct_locks call_path)) = true /\
  forallb (fun x => negb (fst x) && site_mem x (eval_lock_sites sites)) call_path = true /\
  count_steps (deep_ops 2) = 2 /\
  acqs_of (deep_ops 2) = call_path.
Proof. vm_compute. repeat split; reflexivity. Qed.

(* ---------------- bracketing: general facts ---------------- *)
Section Bal.
Context {Sg Pv : Type}.
Notation xinstr := (xinstr Sg Pv).

Lemma xbal_skip w l (p : list xinstr) : forall m, xbal w l m p = true ->
  forall k r, xbal w l (m + k) (p ++ r) = xbal w l k r.
Proof.
  induction p as [|i p IH]; intros m H k r.
  - cbn [xbal] in H. apply Nat.eqb_eq in H. subst m. reflexivity.
  - cbn [app xbal] in *. destruct (xkind i) as [[[w' k'] acq]|]; [|apply IH, H].
    destruct (Bool.eqb w' w && (k' =? l)); [|apply IH, H].
    destruct acq; [exact (IH (S m) H k r)|].
    destruct m as [|m]; [discriminate H|]. exact (IH m H k r).
Qed.

Lemma xbal_insert w l (p a b : list xinstr) : xbal w l 0 p = true ->
  forall m, xbal w l m (a ++ b) = true -> xbal w l m (a ++ p ++ b) = true.
Proof.
  intros Hp. induction a as [|i a IH]; intros m H.
  - cbn [app] in *. rewrite <- (Nat.add_0_l m). rewrite (xbal_skip w l p 0 Hp m b). exact H.
  - cbn [app xbal] in *. destruct (xkind i) as [[[w' k'] acq]|]; [|apply IH, H].
    destruct (Bool.eqb w' w && (k' =? l)); [|apply IH, H].
    destruct acq; [apply IH, H|]. destruct m as [|m]; [discriminate H | apply IH, H].
Qed.

Lemma xkind_of_op cs (f : stepfn Sg Pv) o : xkind (instr_of_op cs f o) = @xkind unit unit (instr_of_op [] unit_step o).
Proof. destruct o; reflexivity. Qed.

Lemma xbal_of_ops cs (f : stepfn Sg Pv) w l ops : forall n, xbal w l n (prog_of_ops cs f ops) = obal w l n ops.
Proof.
  unfold obal. induction ops as [|o ops IH]; intros n; [reflexivity|].
  cbn [prog_of_ops map xbal]. fold (prog_of_ops cs f ops). fold (prog_of_ops [] unit_step ops).
  rewrite xkind_of_op. destruct (xkind (instr_of_op [] unit_step o)) as [[[w' k'] acq]|]; [|apply IH].
  destruct (Bool.eqb w' w && (k' =? l)); [|apply IH].
  destruct acq; [apply IH|]. destruct n; [reflexivity | apply IH].
Qed.

Lemma prog_of_ops_app cs (f : stepfn Sg Pv) a b : prog_of_ops cs f (a ++ b) = prog_of_ops cs f a ++ prog_of_ops cs f b.
Proof. unfold prog_of_ops. apply map_app. Qed.

Lemma owell_bracketed_obal ops w l : owell_bracketed ops = true -> obal w l 0 ops = true.
Proof. unfold owell_bracketed, obal. apply xwell_bracketed_bal. Qed.

(* what an inventory says about a program built from lock operations *)
Lemma memb_self (l : list nat) : forallb (fun c => memb c l) l = true.
Proof.
  apply forallb_forall. intros c Hc. unfold memb. apply existsb_exists. exists c. split; [exact Hc | apply Nat.eqb_refl].
Qed.

Lemma from_inv_of_ops inv (f : stepfn Sg Pv) ops :
  forallb (op_from_inv inv) ops = true -> prog_from_inv inv (prog_of_ops (mut_cells inv) f ops) = true.
Proof.
  unfold prog_from_inv, prog_of_ops. rewrite forallb_forall. intros H. apply forallb_forall. intros i Hi.
  apply in_map_iff in Hi. destruct Hi as [o [E Ho]]. subst i. specialize (H o Ho).
  destruct o; cbn [instr_of_op instr_from_inv op_from_inv] in *; [exact H | exact H | apply memb_self].
Qed.
End Bal.

(* ---------------- the regions, one fact each ---------------- *)
Lemma regions_parts :
  forallb (op_from_inv sites) (invocable_open ++ invocable_close ++ decision_open ++ decision_close ++ closure_open ++ closure_close) = true /\
  owell_bracketed (closure_open ++ closure_close) = true /\
  owell_bracketed ((invocable_open ++ decision_open) ++ (decision_close ++ invocable_close)) = true.
Proof.
  pose proof code_regions_ok as H. unfold regions_ok in H.
  repeat (apply andb_true_iff in H; destruct H as [H ?]). auto.
Qed.

Lemma region_from_inv (r : list lockop) :
  incl r (invocable_open ++ invocable_close ++ decision_open ++ decision_close ++ closure_open ++ closure_close) ->
  forallb (op_from_inv sites) r = true.
Proof.
  intros Hin. destruct regions_parts as [H _]. rewrite forallb_forall in H. apply forallb_forall. intros o Ho. apply H, Hin, Ho.
Qed.

Section CodeTheorems.
Context {Sg Pv : Type}.
Notation xinstr := (xinstr Sg Pv).
Notation stepfn := (stepfn Sg Pv).

Lemma in_regions_1 : incl invocable_open (invocable_open ++ invocable_close ++ decision_open ++ decision_close ++ closure_open ++ closure_close).
Proof. apply incl_appl, incl_refl. Qed.
Lemma in_regions_2 : incl invocable_close (invocable_open ++ invocable_close ++ decision_open ++ decision_close ++ closure_open ++ closure_close).
Proof. apply incl_appr, incl_appl, incl_refl. Qed.
Lemma in_regions_3 : incl decision_open (invocable_open ++ invocable_close ++ decision_open ++ decision_close ++ closure_open ++ closure_close).
Proof. apply incl_appr, incl_appr, incl_appl, incl_refl. Qed.
Lemma in_regions_4 : incl decision_close (invocable_open ++ invocable_close ++ decision_open ++ decision_close ++ closure_open ++ closure_close).
Proof. apply incl_appr, incl_appr, incl_appr, incl_appl, incl_refl. Qed.
Lemma in_regions_5 : incl closure_open (invocable_open ++ invocable_close ++ decision_open ++ decision_close ++ closure_open ++ closure_close).
Proof. apply incl_appr, incl_appr, incl_appr, incl_appr, incl_appl, incl_refl. Qed.
Lemma in_regions_6 : incl closure_close (invocable_open ++ invocable_close ++ decision_open ++ decision_close ++ closure_open ++ closure_close).
Proof. apply incl_appr, incl_appr, incl_appr, incl_appr, incl_appr, incl_refl. Qed.

Lemma nest_from_inventory (fs : nat -> stepfn) : forall n, prog_from_inv sites (nest_closure (mut_cells sites) fs n) = true.
Proof.
  induction n as [|n IH]; [reflexivity|]. cbn [nest_closure]. unfold prog_from_inv in *. rewrite !forallb_app, IH.
  fold (prog_from_inv sites (prog_of_ops (mut_cells sites) (fs n) closure_open)).
  fold (prog_from_inv sites (prog_of_ops (mut_cells sites) (fs n) closure_close)).
  rewrite !from_inv_of_ops by (apply region_from_inv; first [apply in_regions_5 | apply in_regions_6]). reflexivity.
Qed.

(* the program of a call, whatever its depth and its decision logic, consists of acquisitions the current inventory lists *)
Theorem code_prog_from_inventory : forall n (fs : nat -> stepfn), prog_from_inv sites (code_prog n fs) = true.
Proof.
  intros n fs. unfold code_prog. cbv zeta. unfold prog_from_inv. rewrite !forallb_app.
  fold (prog_from_inv sites (nest_closure (mut_cells sites) fs n)). rewrite nest_from_inventory.
  fold (prog_from_inv sites (prog_of_ops (mut_cells sites) (fs 0) invocable_open)).
  fold (prog_from_inv sites (prog_of_ops (mut_cells sites) (fs 0) decision_open)).
  fold (prog_from_inv sites (prog_of_ops (mut_cells sites) (fs 0) decision_close)).
  fold (prog_from_inv sites (prog_of_ops (mut_cells sites) (fs 0) invocable_close)).
  rewrite !from_inv_of_ops by (apply region_from_inv; first [apply in_regions_1 | apply in_regions_2 | apply in_regions_3 | apply in_regions_4]).
  reflexivity.
Qed.

Lemma nest_bal (fs : nat -> stepfn) cs w l : forall n, xbal w l 0 (nest_closure cs fs n) = true.
Proof.
  induction n as [|n IH]; [reflexivity|]. cbn [nest_closure]. apply xbal_insert; [exact IH|].
  rewrite <- prog_of_ops_app, xbal_of_ops. apply owell_bracketed_obal. apply regions_parts.
Qed.

(* and releases every guard it takes, in the nesting the source gives *)
Theorem code_prog_well_bracketed : forall n (fs : nat -> stepfn), xwell_bracketed (code_prog n fs) = true.
Proof.
  intros n fs. apply xbal_well_bracketed. intros w l. unfold code_prog. cbv zeta.
  apply xbal_insert; [apply nest_bal|].
  rewrite <- !prog_of_ops_app, xbal_of_ops. apply owell_bracketed_obal. apply regions_parts.
Qed.

Lemma code_threads_from_inventory (calls : list (@call Sg Pv)) : all_from_inv sites (code_threads calls) = true.
Proof.
  unfold all_from_inv, code_threads. apply forallb_forall. intros th Hth. apply in_map_iff in Hth.
  destruct Hth as [c [E _]]. subst th. apply code_prog_from_inventory.
Qed.

Lemma code_threads_well_bracketed (calls : list (@call Sg Pv)) : xall_well_bracketed (code_threads calls) = true.
Proof.
  unfold xall_well_bracketed, code_threads. apply forallb_forall. intros th Hth. apply in_map_iff in Hth.
  destruct Hth as [c [E _]]. subst th. apply code_prog_well_bracketed.
Qed.

(* any number of concurrent calls of any depths, any contents of the shared cells, any schedule *)
Theorem code_no_deadlock : forall (sg : Sg) (m : cells) (calls : list (@call Sg Pv)) (sched : list tid), ~ xstuck (xrun sched (xinit sg m (code_threads calls))).
Proof. intros sg m calls sched. apply (inv_no_deadlock sites code_sites_ok), code_threads_from_inventory. Qed.

Theorem code_no_block : forall (sg : Sg) (m : cells) (calls : list (@call Sg Pv)) (sched : list tid) t,
  xfinishedb t (xrun sched (xinit sg m (code_threads calls))) = false ->
  exists s', xstep t (xrun sched (xinit sg m (code_threads calls))) = Some s' /\
             xremaining t s' = tl (xremaining t (xrun sched (xinit sg m (code_threads calls)))).
Proof. intros sg m calls sched t. apply (inv_no_block sites code_sites_ok), code_threads_from_inventory. Qed.

Theorem code_result_is_solo_result : forall (sg : Sg) (m : cells) (calls : list (@call Sg Pv)) (sched : list tid) t,
  xfinishedb t (xrun sched (xinit sg m (code_threads calls))) = true ->
  xresult t (xrun sched (xinit sg m (code_threads calls))) = xalone sg m (code_threads calls) t.
Proof. intros sg m calls sched t. apply (inv_result_is_solo_result sites code_sites_ok), code_threads_from_inventory. Qed.

Theorem code_no_lock_left_held : forall (sg : Sg) (m : cells) (calls : list (@call Sg Pv)) (sched : list tid),
  (forall t, xfinishedb t (xrun sched (xinit sg m (code_threads calls))) = true) ->
  xall_free (xrun sched (xinit sg m (code_threads calls))).
Proof.
  intros sg m calls sched. apply (inv_no_lock_left_held sites code_sites_ok);
    [apply code_threads_from_inventory | apply code_threads_well_bracketed].
Qed.

(* under every fair schedule every call returns, with the value of that call made alone, all locks are free again and the
   shared state is what it was *)
Theorem code_fair_schedule_completes : forall (sg : Sg) (m : cells) (calls : list (@call Sg Pv)) (sched : list tid), xfair (code_threads calls) sched ->
  (forall t, xfinishedb t (xrun sched (xinit sg m (code_threads calls))) = true /\
             xresult t (xrun sched (xinit sg m (code_threads calls))) = xalone sg m (code_threads calls) t) /\
  xall_free (xrun sched (xinit sg m (code_threads calls))) /\
  xsigma (xrun sched (xinit sg m (code_threads calls))) = sg /\ xmem (xrun sched (xinit sg m (code_threads calls))) = m.
Proof.
  intros sg m calls sched Hfair.
  pose proof (inv_all_finish sites code_sites_ok sg m _ (code_threads_from_inventory calls) sched Hfair) as Hfin.
  split; [intros t; split; [apply Hfin | apply code_result_is_solo_result, Hfin]|].
  split; [apply code_no_lock_left_held, Hfin|].
  apply (inv_shared_state_untouched sites code_sites_ok), code_threads_from_inventory.
Qed.

(* the instance is not available from an empty inventory: the program of a call is NOT a program of the empty inventory *)
Theorem empty_inventory_rejected : forall n (fs : nat -> stepfn), prog_from_inv [] (code_prog n fs) = false.
Proof.
  intros n fs. unfold code_prog. cbv zeta. unfold prog_from_inv. rewrite !forallb_app.
  replace (forallb (instr_from_inv []) (prog_of_ops (mut_cells sites) (fs 0) invocable_open)) with false; [reflexivity|].
  symmetry. unfold invocable_open. reflexivity.
Qed.
End CodeTheorems.

(* an inventory from which the evaluation-phase read sites are missing does not yield the instance either *)
Theorem inventory_without_eval_reads_rejected :
  forall n (fs : nat -> stepfn unit nat),
  prog_from_inv (filter (fun s => negb (is_eval_read s)) sites) (code_prog n fs) = false.
Proof.
  intros n fs. unfold code_prog. cbv zeta. unfold prog_from_inv. rewrite !forallb_app.
  replace (forallb (instr_from_inv (filter (fun s => negb (is_eval_read s)) sites)) (prog_of_ops (mut_cells sites) (fs 0) invocable_open)) with false; [reflexivity|].
  symmetry. unfold invocable_open. cbn [prog_of_ops map instr_of_op forallb instr_from_inv]. rewrite andb_true_r. vm_compute. reflexivity.
Qed.
