(* C20 — concurrent evaluation of a deployed model: readers–writer locks + thread-private state,
   small-step interleaving semantics.  The shared store (the registries of a deployed model) is
   never written; every thread owns its private state (scope, decimal context copy, results).
   Locks follow std::sync::RwLock in its strictest (writer-preferring) form:
     - a read acquisition is enabled iff no writer holds the lock and no writer waits for it;
     - a write acquisition is enabled iff no writer and no reader (the caller included) holds it;
     - a write acquisition that is not enabled registers the caller as a waiting writer.
   Definitions only; no proofs in this file. *)
From Coq Require Import List Arith Bool.
Import ListNotations.

Definition tid := nat.
Definition lockid := nat.

(* ---------------- generic helpers ---------------- *)
Fixpoint count (t : nat) (l : list nat) : nat :=
  match l with [] => 0 | u :: r => if Nat.eqb u t then S (count t r) else count t r end.

(* removes the first occurrence *)
Fixpoint remove1 (t : nat) (l : list nat) : list nat :=
  match l with [] => [] | u :: r => if Nat.eqb u t then r else u :: remove1 t r end.

Definition remove_all (t : nat) (l : list nat) : list nat := filter (fun u => negb (Nat.eqb u t)) l.
Definition memb (t : nat) (l : list nat) : bool := existsb (fun u => Nat.eqb u t) l.

Definition is_none {A} (o : option A) : bool := match o with None => true | Some _ => false end.
Definition is_nil {A} (l : list A) : bool := match l with [] => true | _ => false end.

Fixpoint upd {A} (n : nat) (x : A) (l : list A) {struct l} : list A :=
  match l with
  | [] => []
  | a :: r => match n with O => x :: r | S m => a :: upd m x r end
  end.

(* ---------------- lock table ---------------- *)
(* readers: one occurrence of t per read guard held by t (nested read acquisition = several) *)
Record lock := { readers : list tid; writer : option tid; wwait : list tid }.
Definition free_lock : lock := {| readers := []; writer := None; wwait := [] |}.

Definition ltab := list (lockid * lock).

Fixpoint lget (l : lockid) (lt : ltab) : lock :=
  match lt with
  | [] => free_lock
  | e :: r => if Nat.eqb (fst e) l then snd e else lget l r
  end.

Definition lset (l : lockid) (v : lock) (lt : ltab) : ltab :=
  (l, v) :: filter (fun e => negb (Nat.eqb (fst e) l)) lt.

Section Conc.
Context {Sg Pv : Type}.   (* Sg: the shared, immutable store; Pv: the private state of one thread *)

Inductive instr :=
| AcqR (l : lockid)
| RelR (l : lockid)
| AcqW (l : lockid)
| RelW (l : lockid)
| Step (f : Sg -> Pv -> Pv).

Record thread := { prog : list instr; priv : Pv }.
Record state := { sigma : Sg; locks : ltab; threads : list thread }.

(* all locks free, nobody waiting *)
Definition init (sg : Sg) (ths : list thread) : state :=
  {| sigma := sg; locks := []; threads := ths |}.

(* Adv: the thread executed its next instruction; Blk: it could not (the state may have changed:
   waiting-writer registration); Fin: no such thread or nothing left to execute *)
Inductive outcome := Adv (s : state) | Blk (s : state) | Fin.

Definition with_thread (s : state) (t : tid) (lt : ltab) (th : thread) : state :=
  {| sigma := sigma s; locks := lt; threads := upd t th (threads s) |}.

Definition try_step (t : tid) (s : state) : outcome :=
  match nth_error (threads s) t with
  | None => Fin
  | Some th =>
    match prog th with
    | [] => Fin
    | i :: rest =>
      let lt := locks s in
      let th' := {| prog := rest; priv := priv th |} in
      match i with
      | AcqR l =>
        let k := lget l lt in
        if is_none (writer k) && is_nil (wwait k)
        then Adv (with_thread s t (lset l {| readers := t :: readers k; writer := writer k; wwait := wwait k |} lt) th')
        else Blk s
      | RelR l =>      (* releasing a read guard that is not held is a no-op *)
        let k := lget l lt in
        Adv (with_thread s t (lset l {| readers := remove1 t (readers k); writer := writer k; wwait := wwait k |} lt) th')
      | AcqW l =>
        let k := lget l lt in
        if is_none (writer k) && is_nil (readers k)
        then Adv (with_thread s t (lset l {| readers := []; writer := Some t; wwait := remove_all t (wwait k) |} lt) th')
        else Blk {| sigma := sigma s;
                    locks := lset l {| readers := readers k; writer := writer k;
                                       wwait := if memb t (wwait k) then wwait k else wwait k ++ [t] |} lt;
                    threads := threads s |}
      | RelW l =>      (* releasing a write guard that is not held is a no-op *)
        let k := lget l lt in
        match writer k with
        | Some u => if Nat.eqb u t
                    then Adv (with_thread s t (lset l {| readers := readers k; writer := None; wwait := wwait k |} lt) th')
                    else Adv (with_thread s t lt th')
        | None => Adv (with_thread s t lt th')
        end
      | Step f => Adv (with_thread s t lt {| prog := rest; priv := f (sigma s) (priv th) |})
      end
    end
  end.

(* None = t is finished (or does not exist) or t is blocked *)
Definition step (t : tid) (s : state) : option state :=
  match try_step t s with Adv s' => Some s' | _ => None end.

(* what the scheduler does when it picks t: a finished thread stutters, a blocked one stutters
   except for the waiting-writer registration *)
Definition sched1 (t : tid) (s : state) : state :=
  match try_step t s with Adv s' => s' | Blk s' => s' | Fin => s end.

Fixpoint run (sched : list tid) (s : state) : state :=
  match sched with [] => s | t :: r => run r (sched1 t s) end.

Definition remaining (t : tid) (s : state) : list instr :=
  match nth_error (threads s) t with Some th => prog th | None => [] end.

Definition finishedb (t : tid) (s : state) : bool := is_nil (remaining t s).

(* the private state of t; None iff there is no thread t *)
Definition result (t : tid) (s : state) : option Pv := option_map priv (nth_error (threads s) t).

(* only thread t runs, to completion *)
Definition solo (t : tid) (s : state) : state := run (repeat t (length (remaining t s))) s.

Definition tids (s : state) : list tid := seq 0 (length (threads s)).

(* ---------------- programs ---------------- *)
Definition is_ro (i : instr) : bool := match i with AcqW _ | RelW _ => false | _ => true end.
Definition read_only (p : list instr) : bool := forallb is_ro p.
Definition all_read_only (ths : list thread) : bool := forallb (fun th => read_only (prog th)) ths.

(* (is_write, lock, is_acquire) of a lock instruction *)
Definition kind (i : instr) : option (bool * lockid * bool) :=
  match i with
  | AcqR l => Some (false, l, true)
  | RelR l => Some (false, l, false)
  | AcqW l => Some (true, l, true)
  | RelW l => Some (true, l, false)
  | Step _ => None
  end.

(* bal w l n p: starting with n guards of kind w on lock l, program p never releases a guard it
   does not hold and ends holding none *)
Fixpoint bal (w : bool) (l : lockid) (n : nat) (p : list instr) : bool :=
  match p with
  | [] => Nat.eqb n 0
  | i :: r =>
    match kind i with
    | Some (w', k, acq) =>
      if Bool.eqb w' w && Nat.eqb k l
      then (if acq then bal w l (S n) r else match n with O => false | S m => bal w l m r end)
      else bal w l n r
    | None => bal w l n r
    end
  end.

Definition locks_of (p : list instr) : list lockid :=
  flat_map (fun i => match kind i with Some (_, k, _) => [k] | None => [] end) p.

(* every acquisition is matched by a later release of the same kind on the same lock, and no
   release without a held guard *)
Definition well_bracketed (p : list instr) : bool :=
  forallb (fun l => bal false l 0 p && bal true l 0 p) (locks_of p).
Definition all_well_bracketed (ths : list thread) : bool :=
  forallb (fun th => well_bracketed (prog th)) ths.

(* lock acquisition sites (is_write, lock) -> acquire all in order; one Step; release in reverse order *)
Definition acq_of (x : bool * lockid) : instr := if fst x then AcqW (snd x) else AcqR (snd x).
Definition rel_of (x : bool * lockid) : instr := if fst x then RelW (snd x) else RelR (snd x).
Definition prog_of_sites (f : Sg -> Pv -> Pv) (sites : list (bool * lockid)) : list instr :=
  map acq_of sites ++ Step f :: rev (map rel_of sites).

(* ---------------- deadlock ---------------- *)
(* some thread is unfinished and no unfinished thread can advance *)
Definition stuck (s : state) : Prop :=
  (exists t, finishedb t s = false) /\ (forall t, finishedb t s = false -> step t s = None).

(* the same, looking at the given thread ids only *)
Definition stuckb (ts : list tid) (s : state) : bool :=
  existsb (fun t => negb (finishedb t s)) ts &&
  forallb (fun t => finishedb t s || is_none (step t s)) ts.

(* no writer holds or waits for any lock *)
Definition no_writers (s : state) : Prop :=
  forall l, writer (lget l (locks s)) = None /\ wwait (lget l (locks s)) = [].

Definition all_free (s : state) : Prop := forall l, lget l (locks s) = free_lock.

(* what one scheduling of a thread does to it when it is never blocked *)
Definition tstep (sg : Sg) (th : thread) : thread :=
  match prog th with
  | [] => th
  | Step f :: r => {| prog := r; priv := f sg (priv th) |}
  | _ :: r => {| prog := r; priv := priv th |}
  end.

End Conc.

Arguments instr : clear implicits.
Arguments thread : clear implicits.
Arguments state : clear implicits.
Arguments outcome : clear implicits.

(* ---------------- the two deadlock scenarios (not read-only) ---------------- *)
(* one thread upgrades: takes the write lock while holding the read lock *)
Definition upgrade_prog : list (instr unit nat) :=
  [AcqR 0; AcqW 0; Step (fun _ n => S n); RelW 0; RelR 0].
(* nested read acquisition in thread 0, a writer in thread 1 *)
Definition nested_reader : list (instr unit nat) :=
  [AcqR 0; AcqR 0; Step (fun _ n => S n); RelR 0; RelR 0].
Definition a_writer : list (instr unit nat) :=
  [AcqW 0; Step (fun _ n => S n); RelW 0].

Definition upgrade_init : state unit nat := init tt [ {| prog := upgrade_prog; priv := 0 |} ].
Definition nested_init : state unit nat :=
  init tt [ {| prog := nested_reader; priv := 0 |}; {| prog := a_writer; priv := 0 |} ].
