(* C19 — merged drawings (coq/C19/CanvasMerged.v): geometry.  (owner: ext-merged)
   The THIN layer of a grid with any pieces of separators (`thl`), the walk along a frame of such a layer, folds over the
   positions of the separators, the facts a tiling by rectangular merged cells gives about the pieces and the junctions. *)
From Coq Require Import List NArith Bool Arith Lia.
From DV Require Import C19.Model C19.Canvas C19.CanvasDraw C19.CanvasProofs C19.CanvasAssembly C19.CanvasMerged.
Import ListNotations.

(* ================================================================== small facts *)
Lemma rect_eqb_eq a b : rect_eqb a b = true <-> a = b.
Proof.
  destruct a as [[[a1 a2] a3] a4], b as [[[b1 b2] b3] b4]. unfold rect_eqb. rewrite !andb_true_iff, !Nat.eqb_eq.
  split; [intros (((-> & ->) & ->) & ->); reflexivity|intro E; injection E as -> -> -> ->; auto].
Qed.
Lemma rect_eqb_refl a : rect_eqb a a = true.
Proof. now apply rect_eqb_eq. Qed.
Lemma rect_eqb_neq a b : rect_eqb a b = false <-> a <> b.
Proof.
  split.
  - intros E Heq. apply rect_eqb_eq in Heq. congruence.
  - intro Hne. destruct (rect_eqb a b) eqn:E; [|reflexivity]. apply rect_eqb_eq in E. contradiction.
Qed.

Lemma rect_eqb_spec a b : reflect (a = b) (rect_eqb a b).
Proof. destruct (rect_eqb a b) eqn:E; constructor; [now apply rect_eqb_eq|now apply rect_eqb_neq]. Qed.

Lemma all_lt_spec n p : all_lt n p = true <-> forall k, k < n -> p k = true.
Proof.
  unfold all_lt. rewrite forallb_forall. split; intros Hp k Hk.
  - apply Hp. apply in_seq. lia.
  - apply in_seq in Hk. apply Hp. lia.
Qed.
Lemma between_spec a b p : between a b p = true <-> forall k, a < k -> k < b -> p k = true.
Proof.
  unfold between. rewrite forallb_forall. split.
  - intros Hp k H1 H2. apply Hp. apply in_seq. lia.
  - intros Hp k Hk. apply in_seq in Hk. apply Hp; lia.
Qed.

Lemma X_lt_inv' l j j' : j <= length l -> j' <= length l -> X l j < X l j' -> j < j'.
Proof. intros H1 H2 L. destruct (Nat.lt_ge_cases j j') as [|G]; [assumption|]. pose proof (X_le l j' j G H1). lia. Qed.
Lemma X_le_inv' l j j' : j <= length l -> j' <= length l -> X l j <= X l j' -> j <= j'.
Proof. intros H1 H2 L. destruct (Nat.le_gt_cases j j') as [|G]; [assumption|]. pose proof (X_mono l j' j G H1). lia. Qed.
Lemma X_in_lt l j o : j < length l -> o < nth j l 0 -> X l j + 1 + o < X l (S j).
Proof. intros Hj Ho. rewrite X_succ by assumption. lia. Qed.
Lemma X_eqb' l j j' : j <= length l -> j' <= length l -> (X l j =? X l j') = (j =? j').
Proof.
  intros Hj Hj'. destruct (j =? j') eqn:E.
  - apply Nat.eqb_eq in E. subst. apply Nat.eqb_refl.
  - apply Nat.eqb_neq. intro E'. apply X_inj in E'; try assumption. subst. now rewrite Nat.eqb_refl in E.
Qed.
Lemma X_pos l j : 1 <= j -> j <= length l -> 0 < X l j.
Proof. intros H1 H2. pose proof (X_mono l 0 j ltac:(lia) H2). rewrite X_0 in *. lia. Qed.

(* a position between two separators: a separator strictly between them or inside a column between them *)
Lemma between_cases l a b x : a <= b -> b <= length l -> X l a < x -> x < X l b ->
  (exists j, a < j /\ j < b /\ x = X l j) \/ (exists j o, a <= j /\ j < b /\ o < nth j l 0 /\ x = X l j + 1 + o).
Proof.
  intros Hab Hb H1 H2.
  destruct (cover l (length l) x (le_n _)) as [(j & J1 & J2)|(j & o & J1 & J2 & J3)].
  - pose proof (X_le l b (length l) Hb (le_n _)). lia.
  - left. exists j. subst x. repeat split; [apply (X_lt_inv' l)|apply (X_lt_inv' l)]; try lia; assumption.
  - right. exists j, o. subst x. pose proof (X_in_lt l j o J1 J2) as L. repeat split; try assumption.
    + assert (a < S j) by (apply (X_lt_inv' l); lia). lia.
    + apply (X_lt_inv' l); lia.
Qed.

Lemma scan_right_none g s a y : forall k x,
  (forall e, 1 <= e -> e <= k -> exists c, get g y (x + e) = Some c /\ mem c s = false) -> scan_right g s a y k x = Err.
Proof.
  induction k as [|k IH]; intros x Hn; [reflexivity|]. cbn [scan_right].
  destruct (Hn 1) as (c & E & Hs); [lia|lia|]. replace (x + 1) with (S x) in E by lia. rewrite E. unfold step. rewrite Hs.
  destruct (mem c a); [|reflexivity]. apply IH. intros e H1 H2. replace (S x + e) with (x + S e) by lia. apply Hn; lia.
Qed.
Lemma scan_down_none g s a x : forall k y,
  (forall e, 1 <= e -> e <= k -> exists c, get g (y + e) x = Some c /\ mem c s = false) -> scan_down g s a x k y = Err.
Proof.
  induction k as [|k IH]; intros y Hn; [reflexivity|]. cbn [scan_down].
  destruct (Hn 1) as (c & E & Hs); [lia|lia|]. replace (y + 1) with (S y) in E by lia. rewrite E. unfold step. rewrite Hs.
  destruct (mem c a); [|reflexivity]. apply IH. intros e H1 H2. replace (S y + e) with (y + S e) by lia. apply Hn; lia.
Qed.

Lemma search_right_tab h w f x y s a : y < h -> search_right (tab h w f) (x, y) s a = match w with O => Panic | S n => scan_right (tab h w f) s a y (n - x) x end.
Proof. intro Hy. unfold search_right. cbn [fst snd]. rewrite tab_row by assumption. now rewrite map_length, seq_length. Qed.
Lemma search_down_tab h w f x y s a : search_down (tab h w f) (x, y) s a = match h with O => Panic | S n => scan_down (tab h w f) s a x (n - y) y end.
Proof. unfold search_down. cbn [fst snd]. now rewrite tab_length. Qed.

(* ================================================================== the walk along a frame of a tabulated layer *)
Definition okp (s a : list N) (c : N) : Prop := mem c s = false /\ mem c a = true.

Lemma walk_tab h w f x0 y0 x1 y1 s1 a1 s2 a2 s3 a3 s4 a4 :
  x0 < x1 -> x1 < w -> y0 < y1 -> y1 < h ->
  (forall x, x0 < x -> x < x1 -> okp s1 a1 (f y0 x)) -> mem (f y0 x1) s1 = true ->
  (forall y, y0 < y -> y < y1 -> okp s2 a2 (f y x1)) -> mem (f y1 x1) s2 = true ->
  (forall x, x0 < x -> x < x1 -> okp s3 a3 (f y1 x)) -> mem (f y1 x0) s3 = true ->
  (forall y, y0 < y -> y < y1 -> okp s4 a4 (f y x0)) -> mem (f y0 x0) s4 = true ->
  walk (tab h w f) (x0, y0) s1 a1 s2 a2 s3 a3 s4 a4 = Ok (x0, y0, S x1, S y1).
Proof.
  intros Hx Hw Hy Hh E1 C1 E2 C2 E3 C3 E4 C4.
  unfold walk. rewrite move_to_tab by (cbn [fst snd]; lia). cbn [bind].
  rewrite search_right_tab by lia. destruct w as [|n]; [lia|].
  rewrite (scan_right_found (tab h (S n) f) s1 a1 y0 (f y0 x1) (n - x0) (x1 - x0) x0); try lia.
  2:{ intros e He1 He2. rewrite get_tab by lia. destruct (E1 (x0 + e)) as [P1 P2]; try lia. now apply pass. }
  2:{ replace (x0 + (x1 - x0)) with x1 by lia. apply get_tab; lia. }
  2:{ assumption. }
  cbn [bind]. replace (x0 + (x1 - x0)) with x1 by lia. rewrite search_down_tab. destruct h as [|m]; [lia|].
  rewrite (scan_down_found (tab (S m) (S n) f) s2 a2 x1 (f y1 x1) (m - y0) (y1 - y0) y0); try lia.
  2:{ intros e He1 He2. rewrite get_tab by lia. destruct (E2 (y0 + e)) as [P1 P2]; try lia. now apply pass. }
  2:{ replace (y0 + (y1 - y0)) with y1 by lia. apply get_tab; lia. }
  2:{ assumption. }
  cbn [bind]. replace (y0 + (y1 - y0)) with y1 by lia. unfold search_left. cbn [fst snd].
  rewrite (scan_left_found (tab (S m) (S n) f) s3 a3 y1 (f y1 x0) (x1 - x0) x1); try lia.
  2:{ intros e He1 He2. rewrite get_tab by lia. destruct (E3 (x1 - e)) as [P1 P2]; try lia. now apply pass. }
  2:{ replace (x1 - (x1 - x0)) with x0 by lia. apply get_tab; lia. }
  2:{ assumption. }
  cbn [bind]. replace (x1 - (x1 - x0)) with x0 by lia. unfold search_up. cbn [fst snd].
  rewrite (scan_up_found (tab (S m) (S n) f) s4 a4 x0 (f y0 x0) (y1 - y0) y1); try lia.
  2:{ intros e He1 He2. rewrite get_tab by lia. destruct (E4 (y1 - e)) as [P1 P2]; try lia. now apply pass. }
  2:{ replace (y1 - (y1 - y0)) with y0 by lia. apply get_tab; lia. }
  2:{ assumption. }
  cbn [bind]. replace (y1 - (y1 - y0)) with y0 by lia.
  unfold close_rectangle, point_eqb. cbn [fst snd]. now rewrite !Nat.eqb_refl.
Qed.

(* ================================================================== folds over the positions of the separators *)
Lemma flat_map_nil {A B} (f : A -> list B) l : (forall a, In a l -> f a = []) -> flat_map f l = [].
Proof. induction l as [|a l IH]; intro Hf; [reflexivity|]. cbn [flat_map]. rewrite (Hf a (or_introl eq_refl)), IH; [reflexivity|]. intros b Hb. apply Hf. now right. Qed.

Lemma flat_map_seq_X {A} (f : nat -> list A) l : forall n, n <= length l ->
  (forall j o, j < n -> o < nth j l 0 -> f (X l j + 1 + o) = []) ->
  flat_map f (seq 0 (X l n)) = flat_map (fun j => f (X l j)) (seq 0 n).
Proof.
  induction n as [|n IH]; intros Hn Hf; [now rewrite X_0|].
  rewrite X_succ by lia. replace (X l n + nth n l 0 + 1) with (X l n + S (nth n l 0)) by lia.
  rewrite seq_app, flat_map_app. rewrite IH; [|lia|intros; apply Hf; lia].
  rewrite (seq_S n 0), flat_map_app. f_equal. cbn [Nat.add seq flat_map]. rewrite app_nil_r.
  rewrite <- (app_nil_r (f (X l n))) at 2. f_equal.
  apply flat_map_nil. intros a Ha. apply in_seq in Ha. replace a with (X l n + 1 + (a - X l n - 1)) by lia. apply Hf; lia.
Qed.

Lemma fold_res_id {A B} (F : A -> B -> res A) l : (forall a b, In b l -> F a b = Ok a) -> forall a, fold_res F l a = Ok a.
Proof.
  induction l as [|b l IH]; intros Hs a; [reflexivity|]. cbn [fold_res]. rewrite (Hs a b (or_introl eq_refl)). cbn [bind].
  apply IH. intros a1 b1 Hb. apply Hs. now right.
Qed.

Lemma fold_res_seq_X {A} (F : A -> nat -> res A) l : forall n, n <= length l ->
  (forall a j o, j < n -> o < nth j l 0 -> F a (X l j + 1 + o) = Ok a) ->
  forall a, fold_res F (seq 0 (X l n)) a = fold_res (fun a j => F a (X l j)) (seq 0 n) a.
Proof.
  induction n as [|n IH]; intros Hn Hf a; [now rewrite X_0|].
  rewrite X_succ by lia. replace (X l n + nth n l 0 + 1) with (X l n + S (nth n l 0)) by lia.
  rewrite seq_app, fold_res_app. rewrite IH; [|lia|intros; apply Hf; lia].
  rewrite (seq_S n 0), fold_res_app. destruct (fold_res (fun a0 j => F a0 (X l j)) (seq 0 n) a) as [a'| |]; cbn [bind]; try reflexivity.
  cbn [Nat.add seq fold_res]. destruct (F a' (X l n)) as [a''| |]; cbn [bind]; try reflexivity.
  apply fold_res_id. intros a1 b Hb. apply in_seq in Hb. replace b with (X l n + 1 + (b - X l n - 1)) by lia. apply Hf; lia.
Qed.

(* ================================================================== the THIN layer of a grid with given pieces of separators *)
Section Thin.
Variables (hs ws : list nat) (V Hs : nat -> nat -> bool).
Local Notation nr := (length hs).
Local Notation nc := (length ws).

Definition J (i j : nat) : N := jsingle (aU V i j) (aD nr V i j) (aL Hs i j) (aR nc Hs i j).

Definition thl (y x : nat) : N :=
  match locate hs y, locate ws x with
  | PSep i, PSep j => J i j
  | PSep i, PIn j _ => if Hs i j then cH else cWhite
  | PIn i _, PSep j => if V j i then cV else cWhite
  | PIn _ _, PIn _ _ => cWhite
  end.

Lemma thl_jj i j : i <= nr -> j <= nc -> thl (X hs i) (X ws j) = J i j.
Proof. intros Hi Hj. unfold thl. now rewrite !locate_sep by assumption. Qed.
Lemma thl_jh i j o : i <= nr -> j < nc -> o < nth j ws 0 -> thl (X hs i) (X ws j + 1 + o) = if Hs i j then cH else cWhite.
Proof. intros Hi Hj Ho. unfold thl. now rewrite locate_sep, locate_in by assumption. Qed.
Lemma thl_vj i p j : i < nr -> p < nth i hs 0 -> j <= nc -> thl (X hs i + 1 + p) (X ws j) = if V j i then cV else cWhite.
Proof. intros Hi Hp Hj. unfold thl. now rewrite locate_sep, locate_in by assumption. Qed.
Lemma thl_tt i p j o : i < nr -> p < nth i hs 0 -> j < nc -> o < nth j ws 0 -> thl (X hs i + 1 + p) (X ws j + 1 + o) = cWhite.
Proof. intros Hi Hp Hj Ho. unfold thl. now rewrite !locate_in by assumption. Qed.

Definition LH : nat := S (X hs nr).
Definition LW : nat := S (X ws nc).
Definition thc (y x : nat) : N := if y <? LH then thl y x else cOuter.
Definition TL : layer := tab (S LH) LW thc.

Lemma thc_in y x : y < LH -> thc y x = thl y x.
Proof. intro Hy. unfold thc. now replace (y <? LH) with true by (symmetry; now apply Nat.ltb_lt). Qed.
Lemma thc_last x : thc LH x = cOuter.
Proof. unfold thc. now rewrite Nat.ltb_irrefl. Qed.

Lemma Xw_lt j : j <= nc -> X ws j < LW.
Proof. intro Hj. unfold LW. pose proof (X_le ws j nc Hj (le_n _)). lia. Qed.
Lemma Xh_lt i : i <= nr -> X hs i < LH.
Proof. intro Hi. unfold LH. pose proof (X_le hs i nr Hi (le_n _)). lia. Qed.

(* the walk along the frame of a block of grid cells whose four sides are drawn *)
Lemma walk_thl s1 a1 s2 a2 s3 a3 s4 a4 r0 c0 r1 c1 :
  r0 < r1 -> r1 <= nr -> c0 < c1 -> c1 <= nc ->
  (forall j, c0 <= j -> j < c1 -> Hs r0 j = true /\ Hs r1 j = true) ->
  (forall i, r0 <= i -> i < r1 -> V c0 i = true /\ V c1 i = true) ->
  okp s1 a1 cH -> okp s2 a2 cV -> okp s3 a3 cH -> okp s4 a4 cV ->
  (forall j, c0 < j -> j < c1 -> okp s1 a1 (J r0 j) /\ okp s3 a3 (J r1 j)) ->
  (forall i, r0 < i -> i < r1 -> okp s2 a2 (J i c1) /\ okp s4 a4 (J i c0)) ->
  mem (J r0 c1) s1 = true -> mem (J r1 c1) s2 = true -> mem (J r1 c0) s3 = true -> mem (J r0 c0) s4 = true ->
  walk TL (X ws c0, X hs r0) s1 a1 s2 a2 s3 a3 s4 a4 = Ok (X ws c0, X hs r0, S (X ws c1), S (X hs r1)).
Proof.
  intros Hr Hr1 Hc Hc1 HH HV P1 P2 P3 P4 JH JV C1 C2 C3 C4.
  pose proof (X_mono ws c0 c1 Hc Hc1) as Lx. pose proof (X_mono hs r0 r1 Hr Hr1) as Ly.
  pose proof (Xw_lt c1 Hc1) as Lw. pose proof (Xh_lt r1 Hr1) as Lh.
  unfold TL. apply walk_tab; try lia.
  - intros x H1 H2. rewrite thc_in by lia.
    destruct (between_cases ws c0 c1 x ltac:(lia) Hc1 H1 H2) as [(j & J1 & J2 & ->)|(j & o & J1 & J2 & J3 & ->)].
    + rewrite thl_jj by lia. now apply JH.
    + rewrite thl_jh by lia. now rewrite (proj1 (HH j J1 J2)).
  - rewrite thc_in, thl_jj by lia. assumption.
  - intros y H1 H2. rewrite thc_in by lia.
    destruct (between_cases hs r0 r1 y ltac:(lia) Hr1 H1 H2) as [(i & I1 & I2 & ->)|(i & p & I1 & I2 & I3 & ->)].
    + rewrite thl_jj by lia. now apply JV.
    + rewrite thl_vj by lia. now rewrite (proj2 (HV i I1 I2)).
  - rewrite thc_in, thl_jj by lia. assumption.
  - intros x H1 H2. rewrite thc_in by lia.
    destruct (between_cases ws c0 c1 x ltac:(lia) Hc1 H1 H2) as [(j & J1 & J2 & ->)|(j & o & J1 & J2 & J3 & ->)].
    + rewrite thl_jj by lia. now apply JH.
    + rewrite thl_jh by lia. now rewrite (proj2 (HH j J1 J2)).
  - rewrite thc_in, thl_jj by lia. assumption.
  - intros y H1 H2. rewrite thc_in by lia.
    destruct (between_cases hs r0 r1 y ltac:(lia) Hr1 H1 H2) as [(i & I1 & I2 & ->)|(i & p & I1 & I2 & I3 & ->)].
    + rewrite thl_jj by lia. now apply JV.
    + rewrite thl_vj by lia. now rewrite (proj1 (HV i I1 I2)).
  - rewrite thc_in, thl_jj by lia. assumption.
Qed.

(* the positions of a line / a column of the layer *)
Lemma x_cases x : x < LW ->
  (exists j, j <= nc /\ x = X ws j) \/ (exists j o, j < nc /\ o < nth j ws 0 /\ x = X ws j + 1 + o).
Proof. intro Hx. unfold LW in Hx. apply (cover ws nc x (le_n _)). lia. Qed.
Lemma y_cases' y : y < LH ->
  (exists i, i <= nr /\ y = X hs i) \/ (exists i p, i < nr /\ p < nth i hs 0 /\ y = X hs i + 1 + p).
Proof. intro Hy. unfold LH in Hy. apply (cover hs nr y (le_n _)). lia. Qed.

End Thin.

(* ================================================================== a well-formed merged drawing: what the tiling gives *)
Lemma forallb_nth (p : nat -> bool) l k : forallb p l = true -> k < length l -> p (nth k l 0) = true.
Proof. intros F Hk. rewrite forallb_forall in F. apply F. now apply nth_In. Qed.

Section Tiling.
Variable d : mdraw.
Hypothesis Hwf : wf_mdraw d = true.
Local Notation ws := (md_ws d).
Local Notation hs := (md_hs d).
Local Notation nr := (mrows d).
Local Notation nc := (mcols d).
Local Notation v1 := (md_v1 d).
Local Notation h1 := (md_h1 d).
Local Notation reg := (md_reg d).

Lemma wf_split :
  (forall j, j < nc -> 1 <= nth j ws 0) /\ (forall i, i < nr -> 1 <= nth i hs 0) /\
  (1 <= v1 /\ v1 < nc) /\ (forall k, md_v2 d = Some k -> v1 < k /\ k < nc) /\
  (1 <= h1 /\ h1 < nr) /\ (forall k, md_h2 d = Some k -> h1 < k /\ k < nr) /\
  tiling d = true /\ texts_fit d = true /\
  (forall i, i < nr -> vseg d v1 i = true /\ forall k, md_v2 d = Some k -> vseg d k i = true) /\
  (forall j, j < nc -> hseg d h1 j = true /\ forall k, md_h2 d = Some k -> hseg d k j = true) /\
  (forall k j, md_v2 d = Some k -> v1 < j -> j < k -> vseg d j (h1 - 1) = true /\ vseg d j h1 = true) /\
  (forall k i, md_h2 d = Some k -> h1 < i -> i < k -> hseg d i (v1 - 1) = true /\ hseg d i v1 = true) /\
  (forall i, i < nr -> exists j, j < nc /\ hseg d i j = true) /\
  (forall j, j < nc -> exists i, i < nr /\ vseg d j i = true).
Proof.
  unfold wf_mdraw in Hwf. rewrite !andb_true_iff in Hwf.
  destruct Hwf as (((((((((((((((A1 & A2) & A3) & A4) & A5) & A6) & A7) & A8) & A9) & A10) & A11) & A12) & A13) & A14) & A15) & A16).
  split; [|split; [|split; [|split; [|split; [|split; [|split; [|split; [|split; [|split; [|split; [|split; [|split]]]]]]]]]]]].
  - intros j Hj. apply Nat.leb_le. now apply (forallb_nth (Nat.leb 1)).
  - intros i Hi. apply Nat.leb_le. now apply (forallb_nth (Nat.leb 1)).
  - apply Nat.leb_le in A3. apply Nat.ltb_lt in A4. split; assumption.
  - intros k E. rewrite E in A5. apply andb_true_iff in A5. destruct A5 as [B1 B2]. apply Nat.ltb_lt in B1, B2. split; assumption.
  - apply Nat.leb_le in A6. apply Nat.ltb_lt in A7. split; assumption.
  - intros k E. rewrite E in A8. apply andb_true_iff in A8. destruct A8 as [B1 B2]. apply Nat.ltb_lt in B1, B2. split; assumption.
  - assumption.
  - assumption.
  - intros i Hi. rewrite all_lt_spec in A11. specialize (A11 i Hi). apply andb_true_iff in A11. destruct A11 as [B1 B2].
    split; [assumption|]. intros k E. now rewrite E in B2.
  - intros j Hj. rewrite all_lt_spec in A12. specialize (A12 j Hj). apply andb_true_iff in A12. destruct A12 as [B1 B2].
    split; [assumption|]. intros k E. now rewrite E in B2.
  - intros k j E L1 L2. rewrite E in A13. rewrite between_spec in A13. specialize (A13 j L1 L2). now apply andb_true_iff in A13.
  - intros k i E L1 L2. rewrite E in A14. rewrite between_spec in A14. specialize (A14 i L1 L2). now apply andb_true_iff in A14.
  - intros i Hi. rewrite all_lt_spec in A15. specialize (A15 i Hi). apply existsb_exists in A15. destruct A15 as (j & Hj & E).
    apply in_seq in Hj. exists j. split; [lia|assumption].
  - intros j Hj. rewrite all_lt_spec in A16. specialize (A16 j Hj). apply existsb_exists in A16. destruct A16 as (i & Hi & E).
    apply in_seq in Hi. exists i. split; [lia|assumption].
Qed.

Lemma ws_pos j : j < nc -> 1 <= nth j ws 0. Proof. apply wf_split. Qed.
Lemma hs_pos i : i < nr -> 1 <= nth i hs 0. Proof. apply wf_split. Qed.
Lemma v1_bounds : 1 <= v1 /\ v1 < nc. Proof. apply wf_split. Qed.
Lemma h1_bounds : 1 <= h1 /\ h1 < nr. Proof. apply wf_split. Qed.
Lemma v2_bounds' k : md_v2 d = Some k -> v1 < k /\ k < nc. Proof. apply wf_split. Qed.
Lemma h2_bounds' k : md_h2 d = Some k -> h1 < k /\ k < nr. Proof. apply wf_split. Qed.

(* the merged cell of a grid cell contains it, lies in the grid, and is the merged cell of all its grid cells *)
Lemma tile i j r0 c0 r1 c1 : i < nr -> j < nc -> reg i j = (r0, c0, r1, c1) ->
  r0 <= i /\ i < r1 /\ r1 <= nr /\ c0 <= j /\ j < c1 /\ c1 <= nc /\
  forall i' j', r0 <= i' -> i' < r1 -> c0 <= j' -> j' < c1 -> reg i' j' = (r0, c0, r1, c1).
Proof.
  intros Hi Hj E. pose proof wf_split as (_ & _ & _ & _ & _ & _ & T & _). unfold tiling in T.
  rewrite all_lt_spec in T. specialize (T i Hi). rewrite all_lt_spec in T. specialize (T j Hj). rewrite E in T.
  rewrite !andb_true_iff in T. destruct T as ((((((B1 & B2) & B3) & B4) & B5) & B6) & B7).
  apply Nat.leb_le in B1, B3, B4, B6. apply Nat.ltb_lt in B2, B5. repeat split; try assumption.
  intros i' j' I1 I2 J1 J2. rewrite forallb_forall in B7. specialize (B7 i' ltac:(apply in_seq; lia)).
  rewrite forallb_forall in B7. specialize (B7 j' ltac:(apply in_seq; lia)). now apply rect_eqb_eq in B7.
Qed.

Lemma member i j i' j' r0 c0 r1 c1 : i < nr -> j < nc -> i' < nr -> j' < nc ->
  reg i j = (r0, c0, r1, c1) -> reg i' j' = (r0, c0, r1, c1) -> r0 <= i' /\ i' < r1 /\ c0 <= j' /\ j' < c1.
Proof. intros Hi Hj Hi' Hj' E E'. pose proof (tile i' j' r0 c0 r1 c1 Hi' Hj' E') as (A & B & _ & C & D & _). repeat split; assumption. Qed.

(* the pieces of the separators in terms of the merged cells *)
Lemma vseg_0 i : vseg d 0 i = true. Proof. reflexivity. Qed.
Lemma vseg_nc i : vseg d nc i = true. Proof. unfold vseg. rewrite Nat.eqb_refl. now rewrite orb_true_r. Qed.
Lemma hseg_0 j : hseg d 0 j = true. Proof. reflexivity. Qed.
Lemma hseg_nr j : hseg d nr j = true. Proof. unfold hseg. rewrite Nat.eqb_refl. now rewrite orb_true_r. Qed.

Lemma vseg_first i j r0 c0 r1 c1 : i < nr -> j < nc -> reg i j = (r0, c0, r1, c1) -> vseg d j i = (c0 =? j).
Proof.
  intros Hi Hj E. pose proof (tile i j r0 c0 r1 c1 Hi Hj E) as (T1 & T2 & T3 & T4 & T5 & T6 & T7).
  unfold vseg. destruct (Nat.eqb_spec j 0) as [->|Hne]; [cbn [orb]; symmetry; apply Nat.eqb_eq; lia|].
  replace (j =? nc) with false by (symmetry; apply Nat.eqb_neq; lia). cbn [orb].
  destruct (Nat.eqb_spec c0 j) as [->|Hc].
  - apply negb_true_iff, rect_eqb_neq. intro E'. rewrite E in E'.
    pose proof (member i j i (j - 1) r0 j r1 c1 Hi Hj Hi ltac:(lia) E E') as (_ & _ & C & _). lia.
  - apply negb_false_iff, rect_eqb_eq. rewrite E. apply T7; lia.
Qed.
Lemma vseg_last i j r0 c0 r1 c1 : i < nr -> j < nc -> reg i j = (r0, c0, r1, c1) -> vseg d (S j) i = (c1 =? S j).
Proof.
  intros Hi Hj E. pose proof (tile i j r0 c0 r1 c1 Hi Hj E) as (T1 & T2 & T3 & T4 & T5 & T6 & T7).
  unfold vseg. change (S j =? 0) with false. destruct (Nat.eqb_spec (S j) nc) as [En|Hne]; [cbn [orb]; symmetry; apply Nat.eqb_eq; lia|].
  cbn [orb]. replace (S j - 1) with j by lia.
  destruct (Nat.eqb_spec c1 (S j)) as [->|Hc].
  - apply negb_true_iff, rect_eqb_neq. intro E'. rewrite E in E'. symmetry in E'.
    pose proof (member i j i (S j) r0 c0 r1 (S j) Hi Hj Hi ltac:(lia) E E') as (_ & _ & _ & C). lia.
  - apply negb_false_iff, rect_eqb_eq. rewrite E. symmetry. apply T7; lia.
Qed.
Lemma hseg_first i j r0 c0 r1 c1 : i < nr -> j < nc -> reg i j = (r0, c0, r1, c1) -> hseg d i j = (r0 =? i).
Proof.
  intros Hi Hj E. pose proof (tile i j r0 c0 r1 c1 Hi Hj E) as (T1 & T2 & T3 & T4 & T5 & T6 & T7).
  unfold hseg. destruct (Nat.eqb_spec i 0) as [->|Hne]; [cbn [orb]; symmetry; apply Nat.eqb_eq; lia|].
  replace (i =? nr) with false by (symmetry; apply Nat.eqb_neq; lia). cbn [orb].
  destruct (Nat.eqb_spec r0 i) as [->|Hc].
  - apply negb_true_iff, rect_eqb_neq. intro E'. rewrite E in E'.
    pose proof (member i j (i - 1) j i c0 r1 c1 Hi Hj ltac:(lia) Hj E E') as (C & _). lia.
  - apply negb_false_iff, rect_eqb_eq. rewrite E. apply T7; lia.
Qed.
Lemma hseg_last i j r0 c0 r1 c1 : i < nr -> j < nc -> reg i j = (r0, c0, r1, c1) -> hseg d (S i) j = (r1 =? S i).
Proof.
  intros Hi Hj E. pose proof (tile i j r0 c0 r1 c1 Hi Hj E) as (T1 & T2 & T3 & T4 & T5 & T6 & T7).
  unfold hseg. change (S i =? 0) with false. destruct (Nat.eqb_spec (S i) nr) as [En|Hne]; [cbn [orb]; symmetry; apply Nat.eqb_eq; lia|].
  cbn [orb]. replace (S i - 1) with i by lia.
  destruct (Nat.eqb_spec r1 (S i)) as [->|Hc].
  - apply negb_true_iff, rect_eqb_neq. intro E'. rewrite E in E'. symmetry in E'.
    pose proof (member i j (S i) j r0 c0 (S i) c1 Hi Hj ltac:(lia) Hj E E') as (_ & C & _). lia.
  - apply negb_false_iff, rect_eqb_eq. rewrite E. symmetry. apply T7; lia.
Qed.

(* the sides of a merged cell are drawn, nothing is drawn inside *)
Lemma side_top i j r0 c0 r1 c1 j' : i < nr -> j < nc -> reg i j = (r0, c0, r1, c1) -> c0 <= j' -> j' < c1 -> hseg d r0 j' = true.
Proof.
  intros Hi Hj E J1 J2. pose proof (tile i j r0 c0 r1 c1 Hi Hj E) as (T1 & T2 & T3 & T4 & T5 & T6 & T7).
  rewrite (hseg_first r0 j' r0 c0 r1 c1) by (try lia; apply T7; lia). apply Nat.eqb_refl.
Qed.
Lemma side_bottom i j r0 c0 r1 c1 j' : i < nr -> j < nc -> reg i j = (r0, c0, r1, c1) -> c0 <= j' -> j' < c1 -> hseg d r1 j' = true.
Proof.
  intros Hi Hj E J1 J2. pose proof (tile i j r0 c0 r1 c1 Hi Hj E) as (T1 & T2 & T3 & T4 & T5 & T6 & T7).
  replace r1 with (S (r1 - 1)) at 1 by lia. rewrite (hseg_last (r1 - 1) j' r0 c0 r1 c1) by (try lia; apply T7; lia). apply Nat.eqb_eq. lia.
Qed.
Lemma side_left i j r0 c0 r1 c1 i' : i < nr -> j < nc -> reg i j = (r0, c0, r1, c1) -> r0 <= i' -> i' < r1 -> vseg d c0 i' = true.
Proof.
  intros Hi Hj E J1 J2. pose proof (tile i j r0 c0 r1 c1 Hi Hj E) as (T1 & T2 & T3 & T4 & T5 & T6 & T7).
  rewrite (vseg_first i' c0 r0 c0 r1 c1) by (try lia; apply T7; lia). apply Nat.eqb_refl.
Qed.
Lemma side_right i j r0 c0 r1 c1 i' : i < nr -> j < nc -> reg i j = (r0, c0, r1, c1) -> r0 <= i' -> i' < r1 -> vseg d c1 i' = true.
Proof.
  intros Hi Hj E J1 J2. pose proof (tile i j r0 c0 r1 c1 Hi Hj E) as (T1 & T2 & T3 & T4 & T5 & T6 & T7).
  replace c1 with (S (c1 - 1)) at 1 by lia. rewrite (vseg_last i' (c1 - 1) r0 c0 r1 c1) by (try lia; apply T7; lia). apply Nat.eqb_eq. lia.
Qed.
Lemma inside_v i j r0 c0 r1 c1 i' j' : i < nr -> j < nc -> reg i j = (r0, c0, r1, c1) -> r0 <= i' -> i' < r1 -> c0 < j' -> j' < c1 -> vseg d j' i' = false.
Proof.
  intros Hi Hj E I1 I2 J1 J2. pose proof (tile i j r0 c0 r1 c1 Hi Hj E) as (T1 & T2 & T3 & T4 & T5 & T6 & T7).
  rewrite (vseg_first i' j' r0 c0 r1 c1) by (try lia; apply T7; lia). apply Nat.eqb_neq. lia.
Qed.
Lemma inside_h i j r0 c0 r1 c1 i' j' : i < nr -> j < nc -> reg i j = (r0, c0, r1, c1) -> r0 < i' -> i' < r1 -> c0 <= j' -> j' < c1 -> hseg d i' j' = false.
Proof.
  intros Hi Hj E I1 I2 J1 J2. pose proof (tile i j r0 c0 r1 c1 Hi Hj E) as (T1 & T2 & T3 & T4 & T5 & T6 & T7).
  rewrite (hseg_first i' j' r0 c0 r1 c1) by (try lia; apply T7; lia). apply Nat.eqb_neq. lia.
Qed.

(* the text block of a merged cell *)
Lemma txt_fit i j r0 c0 r1 c1 : i < nr -> j < nc -> reg i j = (r0, c0, r1, c1) ->
  length (md_txt d r0 c0) = X hs r1 - X hs r0 - 1 /\
  forall line, In line (md_txt d r0 c0) -> length line = X ws c1 - X ws c0 - 1 /\ plain line = true.
Proof.
  intros Hi Hj E. pose proof wf_split as (_ & _ & _ & _ & _ & _ & _ & T & _). unfold texts_fit in T.
  rewrite all_lt_spec in T. specialize (T i Hi). rewrite all_lt_spec in T. specialize (T j Hj). rewrite E in T.
  apply andb_true_iff in T. destruct T as [B1 B2]. apply Nat.eqb_eq in B1. split; [assumption|].
  intros line Hl. rewrite forallb_forall in B2. specialize (B2 line Hl). apply andb_true_iff in B2. destruct B2 as [B2 B3].
  apply Nat.eqb_eq in B2. split; assumption.
Qed.

Lemma txt_at_plain i j y x : i < nr -> j < nc -> mem (txt_at d i j y x) box_chars = false.
Proof.
  intros Hi Hj. unfold txt_at. destruct (reg i j) as [[[r0 c0] r1] c1] eqn:E.
  pose proof (txt_fit i j r0 c0 r1 c1 Hi Hj E) as (_ & F).
  destruct (Nat.lt_ge_cases (y - X hs r0 - 1) (length (md_txt d r0 c0))) as [L|G].
  - apply plain_nth. apply F. now apply nth_In.
  - rewrite (nth_overflow (md_txt d r0 c0)) by assumption. now destruct (x - X ws c0 - 1).
Qed.

(* around a junction inside the grid: a single arm and a corner of two arms do not occur *)
Lemma four_cells i j r0 c0 r1 c1 : 0 < i -> i < nr -> 0 < j -> j < nc ->
  (reg (i - 1) (j - 1) = (r0, c0, r1, c1) -> reg i j = (r0, c0, r1, c1) ->
   reg (i - 1) j = (r0, c0, r1, c1) /\ reg i (j - 1) = (r0, c0, r1, c1)) /\
  (reg (i - 1) j = (r0, c0, r1, c1) -> reg i (j - 1) = (r0, c0, r1, c1) ->
   reg (i - 1) (j - 1) = (r0, c0, r1, c1) /\ reg i j = (r0, c0, r1, c1)).
Proof.
  intros I0 I1 J0 J1. split; intros E1 E2.
  - pose proof (tile (i - 1) (j - 1) r0 c0 r1 c1 ltac:(lia) ltac:(lia) E1) as (A1 & A2 & A3 & A4 & A5 & A6 & A7).
    pose proof (tile i j r0 c0 r1 c1 I1 J1 E2) as (B1 & B2 & B3 & B4 & B5 & B6 & B7). split; apply A7; lia.
  - pose proof (tile (i - 1) j r0 c0 r1 c1 ltac:(lia) ltac:(lia) E1) as (A1 & A2 & A3 & A4 & A5 & A6 & A7).
    pose proof (tile i (j - 1) r0 c0 r1 c1 I1 ltac:(lia) E2) as (B1 & B2 & B3 & B4 & B5 & B6 & B7). split; apply A7; lia.
Qed.

Lemma arms_ok i j : 0 < i -> i < nr -> 0 < j -> j < nc ->
  let u := vseg d j (i - 1) in let dn := vseg d j i in let l := hseg d i (j - 1) in let r := hseg d i j in
  (u = dn \/ (l = true /\ r = true)) /\ (l = r \/ (u = true /\ dn = true)).
Proof.
  intros I0 I1 J0 J1. cbv zeta. unfold vseg, hseg.
  replace (j =? 0) with false by (symmetry; apply Nat.eqb_neq; lia). replace (j =? nc) with false by (symmetry; apply Nat.eqb_neq; lia).
  replace (i =? 0) with false by (symmetry; apply Nat.eqb_neq; lia). replace (i =? nr) with false by (symmetry; apply Nat.eqb_neq; lia).
  cbn [orb].
  destruct (reg (i - 1) (j - 1)) as [[[a1 a2] a3] a4] eqn:ENW. destruct (reg (i - 1) j) as [[[b1 b2] b3] b4] eqn:ENE.
  destruct (reg i (j - 1)) as [[[c1 c2] c3] c4] eqn:ESW. destruct (reg i j) as [[[d1 d2] d3] d4] eqn:ESE.
  pose proof (four_cells i j a1 a2 a3 a4 I0 I1 J0 J1) as [D1 _]. pose proof (four_cells i j b1 b2 b3 b4 I0 I1 J0 J1) as [_ D2].
  rewrite ENW, ESE in D1. rewrite ENE, ESW in D2. rewrite ENE, ESW in D1. rewrite ENW, ESE in D2.
  destruct (rect_eqb_spec (a1, a2, a3, a4) (b1, b2, b3, b4)) as [U|U]; destruct (rect_eqb_spec (c1, c2, c3, c4) (d1, d2, d3, d4)) as [Dn|Dn];
  destruct (rect_eqb_spec (a1, a2, a3, a4) (c1, c2, c3, c4)) as [L|L]; destruct (rect_eqb_spec (b1, b2, b3, b4) (d1, d2, d3, d4)) as [R|R];
  cbn [negb]; try (split; (left; reflexivity) || (right; split; reflexivity)); exfalso;
  first [ assert ((a1, a2, a3, a4) = (d1, d2, d3, d4)) as Q by congruence; destruct (D1 eq_refl (eq_sym Q)); congruence
        | assert ((b1, b2, b3, b4) = (c1, c2, c3, c4)) as Q by congruence; destruct (D2 eq_refl (eq_sym Q)); congruence ].
Qed.

End Tiling.
