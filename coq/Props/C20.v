(* C20 — property theorems only.  Proofs: C20/Proofs.v (locking and isolation model, read-only programs), C20/SitesOk.v
   (hypotheses decided on the site inventory regenerated from the source by translators/syncsites2coq.py on every run),
   C20/InvProofs.v (the machine with write acquisitions and shared mutable cells: theorems for EVERY inventory that meets
   `sites_ok`, and a necessity witness per hypothesis), C20/CodeProofs.v (the current inventory as an instance: the lock program
   of an evaluation call built from the regenerated code regions, every nesting depth). *)
From Coq Require Import List NArith Bool Arith.
From DV Require Import C20.Conc C20.Proofs C20.Sites Gen.SyncSites C20.SitesOk C20.Inv C20.InvProofs C20.Code C20.CodeProofs.
Import ListNotations.

(* nested read acquisitions never block when no write acquisition exists: every unfinished thread can take its next step
   in every state reachable under any schedule, for any number of threads *)
Theorem C20_no_block : forall (Sg Pv : Type) (sg : Sg) (ths : list (thread Sg Pv)) (sched : list tid) (t : tid),
  all_read_only ths = true ->
  finishedb t (run sched (init sg ths)) = false ->
  exists s', step t (run sched (init sg ths)) = Some s' /\
             remaining t s' = tl (remaining t (run sched (init sg ths))).
Proof. intros Sg Pv. exact (@no_block Sg Pv). Qed.

Theorem C20_no_deadlock : forall (Sg Pv : Type) (sg : Sg) (ths : list (thread Sg Pv)) (sched : list tid),
  all_read_only ths = true -> ~ stuck (run sched (init sg ths)).
Proof. intros Sg Pv. exact (@no_deadlock Sg Pv). Qed.

Theorem C20_all_finish : forall (Sg Pv : Type) (sg : Sg) (ths : list (thread Sg Pv)) (sched : list tid),
  all_read_only ths = true ->
  (forall t, t < length ths -> length (remaining t (init sg ths)) <= count t sched) ->
  forall t, finishedb t (run sched (init sg ths)) = true.
Proof. intros Sg Pv. exact (@all_finish Sg Pv). Qed.

(* what a thread computed depends only on its own steps: its result under any schedule is its solo result *)
Theorem C20_isolation : forall (Sg Pv : Type) (sg : Sg) (ths : list (thread Sg Pv)) (sched : list tid) (t : tid),
  all_read_only ths = true ->
  result t (run sched (init sg ths)) = result t (run (filter (fun u => u =? t) sched) (init sg ths)) /\
  (finishedb t (run sched (init sg ths)) = true ->
   result t (run sched (init sg ths)) = result t (solo t (init sg ths))).
Proof.
  intros Sg Pv sg ths sched t H. split; [exact (@isolation Sg Pv sg ths sched t H)|exact (@isolation_solo Sg Pv sg ths sched t H)].
Qed.

(* one call never observes another call's inputs or intermediate results: other threads, their programs, their private
   states and the two schedules are arbitrary *)
Theorem C20_non_interference : forall (Sg Pv : Type) (sg : Sg) (ths1 ths2 : list (thread Sg Pv)) (sched1 sched2 : list tid) (t1 t2 : tid),
  all_read_only ths1 = true -> all_read_only ths2 = true ->
  nth_error ths1 t1 = nth_error ths2 t2 ->
  finishedb t1 (run sched1 (init sg ths1)) = true ->
  finishedb t2 (run sched2 (init sg ths2)) = true ->
  result t1 (run sched1 (init sg ths1)) = result t2 (run sched2 (init sg ths2)).
Proof. intros Sg Pv. exact (@non_interference Sg Pv). Qed.

Theorem C20_lock_poison_free : forall (Sg Pv : Type) (sg : Sg) (ths : list (thread Sg Pv)) (sched : list tid),
  all_read_only ths = true -> all_well_bracketed ths = true ->
  (forall t, finishedb t (run sched (init sg ths)) = true) ->
  all_free (run sched (init sg ths)).
Proof. intros Sg Pv. exact (@lock_poison_free Sg Pv). Qed.

(* the hypothesis is necessary: a write acquisition in the evaluation path deadlocks under some schedule
   (a thread upgrading its own read lock; a nested reader against a waiting writer) and stays stuck *)
Theorem C20_writer_deadlocks :
  (exists (p : list (instr unit nat)) (sched : list tid),
     well_bracketed p = true /\
     stuck (run sched (init tt [ {| prog := p; priv := 0 |} ]))) /\
  (exists (p0 p1 : list (instr unit nat)) (sched : list tid),
     read_only p0 = true /\ well_bracketed p0 = true /\ well_bracketed p1 = true /\
     stuck (run sched (init tt [ {| prog := p0; priv := 0 |}; {| prog := p1; priv := 0 |} ]))).
Proof. exact writer_deadlocks. Qed.

Theorem C20_stuck_forever : forall (Sg Pv : Type) (sched : list tid) (s : state Sg Pv), stuck s -> stuck (run sched s).
Proof. intros Sg Pv. exact (@stuck_forever Sg Pv). Qed.

(* the hypotheses about the code, decided on the inventory of the current working tree *)
Theorem C20_sites_ok : sites_ok sites = true.     (* sites_ok inv := forallb eval_site_ok inv *)
Proof. exact code_sites_ok. Qed.

Example C20_sites_nonvacuous :
  Nat.leb 9 (count_kind is_eval_read sites) = true /\ Nat.leb 9 (count_kind is_build_write sites) = true /\
  Nat.leb 20 (count_kind is_ctx_use sites) = true /\ Nat.leb 10 (count_kind is_static sites) = true.
Proof. exact sites_nonvacuous. Qed.

Theorem C20_call_path_ok :
  Nat.leb 8 (List.length call_path) = true /\ forallb (fun x : bool * lockid => negb (fst x)) call_path = true /\ find_stuck call_path = None.
Proof. exact call_path_ok. Qed.

Example C20_find_stuck_finds :
  find_stuck [(false, 8); (true, 6); (false, 5); (false, 6)] = Some [0; 0; 0; 0; 0; 0; 0; 0; 0] /\
  (exists sched, find_stuck2 [(false, 6); (false, 5); (false, 6)] [(true, 6)] = Some sched).
Proof. exact find_stuck_finds. Qed.

(* ======================= theorems that quantify over the inventory =======================
   Machine of C20/Inv.v: writer-preferring readers-writer locks, read AND write acquisitions, an immutable deployed model,
   private states, and shared mutable cells that a step names.  `all_from_inv inv ths`: every lock instruction of every thread
   is an evaluation-phase acquisition listed in inv (or the release of its guard) and every step touches only cells that stand
   for sites of inv the scanner cannot vouch for.  The current inventory is an instance by C20_sites_ok (the C20_code_ theorems below). *)
Theorem C20_inv_no_deadlock : forall (Sg Pv : Type) (inv : list site), sites_ok inv = true ->
  forall (sg : Sg) (m : cells) (ths : list (xthread Sg Pv)), all_from_inv inv ths = true ->
  forall sched : list tid, ~ xstuck (xrun sched (xinit sg m ths)).
Proof. intros Sg Pv. exact (@inv_no_deadlock Sg Pv). Qed.

Theorem C20_inv_no_block : forall (Sg Pv : Type) (inv : list site), sites_ok inv = true ->
  forall (sg : Sg) (m : cells) (ths : list (xthread Sg Pv)), all_from_inv inv ths = true ->
  forall (sched : list tid) (t : tid), xfinishedb t (xrun sched (xinit sg m ths)) = false ->
  exists s', xstep t (xrun sched (xinit sg m ths)) = Some s' /\
             xremaining t s' = tl (xremaining t (xrun sched (xinit sg m ths))).
Proof. intros Sg Pv. exact (@inv_no_block Sg Pv). Qed.

(* fair = every thread gets at least as many turns as its program is long *)
Theorem C20_inv_all_finish : forall (Sg Pv : Type) (inv : list site), sites_ok inv = true ->
  forall (sg : Sg) (m : cells) (ths : list (xthread Sg Pv)), all_from_inv inv ths = true ->
  forall sched : list tid, xfair ths sched -> forall t, xfinishedb t (xrun sched (xinit sg m ths)) = true.
Proof. intros Sg Pv. exact (@inv_all_finish Sg Pv). Qed.

(* xalone = a system whose only thread is that call *)
Theorem C20_inv_result_is_solo_result : forall (Sg Pv : Type) (inv : list site), sites_ok inv = true ->
  forall (sg : Sg) (m : cells) (ths : list (xthread Sg Pv)), all_from_inv inv ths = true ->
  forall (sched : list tid) (t : tid), xfinishedb t (xrun sched (xinit sg m ths)) = true ->
  xresult t (xrun sched (xinit sg m ths)) = xalone sg m ths t.
Proof. intros Sg Pv. exact (@inv_result_is_solo_result Sg Pv). Qed.

Theorem C20_inv_no_lock_left_held : forall (Sg Pv : Type) (inv : list site), sites_ok inv = true ->
  forall (sg : Sg) (m : cells) (ths : list (xthread Sg Pv)), all_from_inv inv ths = true ->
  forall sched : list tid, xall_well_bracketed ths = true ->
  (forall t, xfinishedb t (xrun sched (xinit sg m ths)) = true) -> xall_free (xrun sched (xinit sg m ths)).
Proof. intros Sg Pv. exact (@inv_no_lock_left_held Sg Pv). Qed.

Theorem C20_inv_shared_state_untouched : forall (Sg Pv : Type) (inv : list site), sites_ok inv = true ->
  forall (sg : Sg) (m : cells) (ths : list (xthread Sg Pv)), all_from_inv inv ths = true ->
  forall sched : list tid, xsigma (xrun sched (xinit sg m ths)) = sg /\ xmem (xrun sched (xinit sg m ths)) = m.
Proof. intros Sg Pv. exact (@inv_shared_state_untouched Sg Pv). Qed.

(* no call observes another call's inputs or intermediate results: the other threads (how many, their programs, their private
   states), the contents of the shared cells and the two schedules are arbitrary *)
Theorem C20_inv_non_interference : forall (Sg Pv : Type) (inv : list site) (sg : Sg) (m1 m2 : cells)
  (ths1 ths2 : list (xthread Sg Pv)) (sched1 sched2 : list tid) (t1 t2 : tid),
  sites_ok inv = true -> all_from_inv inv ths1 = true -> all_from_inv inv ths2 = true ->
  nth_error ths1 t1 = nth_error ths2 t2 ->
  xfinishedb t1 (xrun sched1 (xinit sg m1 ths1)) = true ->
  xfinishedb t2 (xrun sched2 (xinit sg m2 ths2)) = true ->
  xresult t1 (xrun sched1 (xinit sg m1 ths1)) = xresult t2 (xrun sched2 (xinit sg m2 ths2)).
Proof. intros Sg Pv. exact (@inv_non_interference Sg Pv). Qed.

(* ----------------------- every hypothesis is necessary ----------------------- *)
(* "no write acquisition in the evaluation phase": for EVERY receiver l the inventory {read section of l, write acquisition of l,
   both in the evaluation phase} allows a bracketed program - the write acquisition nested in the read section of the same lock -
   with which one call alone is stuck after two turns and under every continuation of the schedule *)
Theorem C20_no_eval_write_necessary : forall l,
  sites_ok (inv_eval_write l) = false /\
  forallb (fun s => is_lock_site s) (inv_eval_write l) = true /\
  prog_from_inv (inv_eval_write l) (upgrade_x l) = true /\ xwell_bracketed (upgrade_x l) = true /\
  forall sched, xstuck (xrun ([0; 0] ++ sched) (xinit tt [] [ {| xprog := upgrade_x l; xpriv := 0 |} ])).
Proof. exact no_eval_write_necessary. Qed.

(* the lock is writer-preferring: the write acquisition need not sit in the caller's own read section.  A call that re-enters a
   read section (as the nested decision evaluation does) and another call that takes the write lock once are stuck after [0; 1; 0] *)
Theorem C20_waiting_writer_blocks_nested_reader :
  prog_from_inv (inv_eval_write 6) (nested_reader_x 6) = true /\ prog_from_inv (inv_eval_write 6) (a_writer_x 6) = true /\
  xwell_bracketed (nested_reader_x 6) = true /\ xwell_bracketed (a_writer_x 6) = true /\
  forall sched, xstuck (xrun ([0; 1; 0] ++ sched)
     (xinit tt [] [ {| xprog := nested_reader_x 6; xpriv := 0 |}; {| xprog := a_writer_x 6; xpriv := 0 |} ])).
Proof. exact waiting_writer_blocks_nested_reader. Qed.

(* "no shared mutable state": for EVERY site kind k that is not a lock acquisition and that the predicate rejects, the inventory
   holding just that site allows two lock-free calls (each takes a number from the shared cell) for which call 0 returns 1 under
   the schedule [1; 0] and 0 when made alone *)
Theorem C20_no_shared_mutable_necessary : forall k,
  is_lock_site (mk_site k true) = false -> eval_site_ok (mk_site k true) = false ->
  sites_ok (inv_one k) = false /\ mut_cells (inv_one k) = [0] /\
  all_from_inv (inv_one k) [ticket_call [0]; ticket_call [0]] = true /\
  xall_well_bracketed [ticket_call [0]; ticket_call [0]] = true /\
  (forall t, xfinishedb t (xrun [1; 0] (xinit tt [0] [ticket_call [0]; ticket_call [0]])) = true) /\
  xresult 0 (xrun [1; 0] (xinit tt [0] [ticket_call [0]; ticket_call [0]])) = Some 1 /\
  xalone tt [0] [ticket_call [0]; ticket_call [0]] 0 = Some 0.
Proof. exact no_shared_mutable_necessary. Qed.

Theorem C20_rejected_site_kinds :
  forall k, is_lock_site (mk_site k true) = false -> eval_site_ok (mk_site k true) = false ->
  k = SStatic true \/ k = SStaticMut \/ k = SThreadLocal \/ k = SUnsafeSendSync \/ k = SCtxUse false \/ k = SFfiCtx false \/
  k = SField true \/ k = SMissingFile.
Proof. exact rejected_site_kinds. Qed.

(* "every guard is released": a read-only call that keeps a guard leaves the lock held *)
Theorem C20_bracketing_necessary :
  let inv := [mk_site (SLock false 6) true] in
  let p : list (xinstr unit nat) := [XAcq false 6; XStep [] (fun _ _ n => ([], S n))] in
  sites_ok inv = true /\ prog_from_inv inv p = true /\ xwell_bracketed p = false /\
  (forall t, xfinishedb t (xrun [0; 0] (xinit tt [] [ {| xprog := p; xpriv := 0 |} ])) = true) /\
  lget 6 (xlocks (xrun [0; 0] (xinit tt [] [ {| xprog := p; xpriv := 0 |} ]))) <> free_lock.
Proof. exact bracketing_necessary. Qed.

(* ----------------------- the current inventory as an instance -----------------------
   code_prog n fs (C20/Code.v): the lock program of ONE evaluation call, built from the code regions regenerated into
   Gen/SyncSites.v - evaluate_invocable [ evaluate_decision [ decision closure [ ... n levels ... ] ] ], acquisitions and releases
   with the nesting the brace structure of the source gives; fs k = the decision logic of level k (arbitrary); its steps may touch
   exactly the shared mutable cells of the current inventory.  calls = any number of (depth, logic, private state). *)
Theorem C20_regions_ok : regions_ok = true.
Proof. exact code_regions_ok. Qed.

(* fails for an empty or wrong inventory: the regenerated call path of a decision requiring a decision has at least 12 acquisitions
   on at least 6 receivers, each an evaluation-phase READ site of the inventory, runs the decision logic twice, and is what two
   nested levels of the regenerated regions acquire (props/c20.py compares it with the acquisitions observed in the running code) *)
Theorem C20_inventory_nonempty :
  Nat.leb 12 (length call_path) = true /\
  Nat.leb 6 (length (distinct_locks call_path)) = true /\
  forallb (fun x => negb (fst x) && site_mem x (eval_lock_sites sites)) call_path = true /\
  count_steps (deep_ops 2) = 2 /\
  acqs_of (deep_ops 2) = call_path.
Proof. exact inventory_nonempty. Qed.

Theorem C20_code_prog_from_inventory : forall (Sg Pv : Type) (n : nat) (fs : nat -> stepfn Sg Pv),
  prog_from_inv sites (code_prog n fs) = true /\ xwell_bracketed (code_prog n fs) = true.
Proof. intros Sg Pv n fs. split; [exact (@code_prog_from_inventory Sg Pv n fs) | exact (@code_prog_well_bracketed Sg Pv n fs)]. Qed.

(* the instance cannot be had from an empty inventory, nor from the current one with its evaluation-phase read sites removed *)
Theorem C20_empty_inventory_rejected : forall (Sg Pv : Type) (n : nat) (fs : nat -> stepfn Sg Pv),
  prog_from_inv [] (code_prog n fs) = false.
Proof. intros Sg Pv. exact (@empty_inventory_rejected Sg Pv). Qed.

Theorem C20_inventory_without_eval_reads_rejected : forall (n : nat) (fs : nat -> stepfn unit nat),
  prog_from_inv (filter (fun s => negb (is_eval_read s)) sites) (code_prog n fs) = false.
Proof. exact inventory_without_eval_reads_rejected. Qed.

Theorem C20_code_no_deadlock : forall (Sg Pv : Type) (sg : Sg) (m : cells) (calls : list (@call Sg Pv)) (sched : list tid),
  ~ xstuck (xrun sched (xinit sg m (code_threads calls))).
Proof. intros Sg Pv. exact (@code_no_deadlock Sg Pv). Qed.

Theorem C20_code_result_is_solo_result : forall (Sg Pv : Type) (sg : Sg) (m : cells) (calls : list (@call Sg Pv)) (sched : list tid) (t : tid),
  xfinishedb t (xrun sched (xinit sg m (code_threads calls))) = true ->
  xresult t (xrun sched (xinit sg m (code_threads calls))) = xalone sg m (code_threads calls) t.
Proof. intros Sg Pv. exact (@code_result_is_solo_result Sg Pv). Qed.

Theorem C20_code_no_lock_left_held : forall (Sg Pv : Type) (sg : Sg) (m : cells) (calls : list (@call Sg Pv)) (sched : list tid),
  (forall t, xfinishedb t (xrun sched (xinit sg m (code_threads calls))) = true) ->
  xall_free (xrun sched (xinit sg m (code_threads calls))).
Proof. intros Sg Pv. exact (@code_no_lock_left_held Sg Pv). Qed.

(* under every fair schedule every call returns with the value of that call made alone, all locks are free again, and the
   deployed model and the shared cells are what they were *)
Theorem C20_code_fair_schedule_completes : forall (Sg Pv : Type) (sg : Sg) (m : cells) (calls : list (@call Sg Pv)) (sched : list tid),
  xfair (code_threads calls) sched ->
  (forall t, xfinishedb t (xrun sched (xinit sg m (code_threads calls))) = true /\
             xresult t (xrun sched (xinit sg m (code_threads calls))) = xalone sg m (code_threads calls) t) /\
  xall_free (xrun sched (xinit sg m (code_threads calls))) /\
  xsigma (xrun sched (xinit sg m (code_threads calls))) = sg /\ xmem (xrun sched (xinit sg m (code_threads calls))) = m.
Proof. intros Sg Pv. exact (@code_fair_schedule_completes Sg Pv). Qed.

(* non-vacuity: three concurrent calls of depths 1, 2 and 3 whose decision logic of level k adds k + 1; the schedule interleaves
   them turn by turn; each returns what it returns alone, the locks are free *)
Example C20_code_nonvacuous :
  let fs : nat -> stepfn unit nat := fun k _ _ p => ([], p + k + 1) in
  let calls : list (@call unit nat) := [(1, fs, 100); (2, fs, 200); (3, fs, 300)] in
  let sched := flat_map (fun _ => [0; 1; 2]) (seq 0 40) in
  map (fun t => xresult t (xrun sched (xinit tt [] (code_threads calls)))) [0; 1; 2] = [Some 101; Some 203; Some 306] /\
  map (fun t => xalone tt [] (code_threads calls) t) [0; 1; 2] = [Some 101; Some 203; Some 306] /\
  forallb (fun t => xfinishedb t (xrun sched (xinit tt [] (code_threads calls)))) [0; 1; 2] = true /\
  map (fun l => lget l (xlocks (xrun sched (xinit tt [] (code_threads calls))))) [0; 2; 5; 6; 7; 8] = repeat free_lock 6 /\
  map (fun c => List.length (xprog (code_thread c))) calls = [15; 26; 37].
Proof. vm_compute. repeat split; reflexivity. Qed.

Print Assumptions C20_no_block.
Print Assumptions C20_no_deadlock.
Print Assumptions C20_all_finish.
Print Assumptions C20_isolation.
Print Assumptions C20_non_interference.
Print Assumptions C20_lock_poison_free.
Print Assumptions C20_writer_deadlocks.
Print Assumptions C20_stuck_forever.
Print Assumptions C20_sites_ok.
Print Assumptions C20_sites_nonvacuous.
Print Assumptions C20_call_path_ok.
Print Assumptions C20_find_stuck_finds.
Print Assumptions C20_inv_no_deadlock.
Print Assumptions C20_inv_no_block.
Print Assumptions C20_inv_all_finish.
Print Assumptions C20_inv_result_is_solo_result.
Print Assumptions C20_inv_no_lock_left_held.
Print Assumptions C20_inv_shared_state_untouched.
Print Assumptions C20_inv_non_interference.
Print Assumptions C20_no_eval_write_necessary.
Print Assumptions C20_waiting_writer_blocks_nested_reader.
Print Assumptions C20_no_shared_mutable_necessary.
Print Assumptions C20_rejected_site_kinds.
Print Assumptions C20_bracketing_necessary.
Print Assumptions C20_regions_ok.
Print Assumptions C20_inventory_nonempty.
Print Assumptions C20_code_prog_from_inventory.
Print Assumptions C20_empty_inventory_rejected.
Print Assumptions C20_inventory_without_eval_reads_rejected.
Print Assumptions C20_code_no_deadlock.
Print Assumptions C20_code_result_is_solo_result.
Print Assumptions C20_code_no_lock_left_held.
Print Assumptions C20_code_fair_schedule_completes.
Print Assumptions C20_code_nonvacuous.
