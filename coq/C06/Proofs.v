(* C06 — theorems about the Spec of coq/C06/Model.v (all trees, all strings; no bound).  Owner: builder-parse. *)
From Coq Require Import List NArith Bool Arith Lia.
From DV Require Import C06.Model.
Import ListNotations.

(* ------------------------------------------------------------------ fuel is monotone *)

Definition pe_le (pe pe' : nat -> list token -> pres) : Prop := forall m ts r, pe m ts = Some r -> pe' m ts = Some r.

Ltac use_pe Hpe :=
  match goal with
  | H : context [match ?pe ?m ?ts with _ => _ end] |- _ =>
    let E := fresh "E" in destruct (pe m ts) as [[? ?]|] eqn:E; [rewrite (Hpe _ _ _ E)|discriminate H]
  end.

Lemma loop_mono : forall pe pe', pe_le pe pe' -> forall g g' m na l ts r, g <= g' ->
  loop pe g m na l ts = Some r -> loop pe' g' m na l ts = Some r.
Proof.
  intros pe pe' Hpe. induction g as [|g IH]; intros g' m na l ts r Hg H; [discriminate H|].
  destruct g' as [|g']; [lia|]. assert (Hg' : g <= g') by lia.
  cbn [loop] in *. destruct ts as [|t ts']; [exact H|].
  destruct t; try exact H.
  - destruct (m <=? lv o); [|exact H].
    destruct (is_non o && (lv o =? na)); [discriminate H|].
    use_pe Hpe. eapply IH; eauto.
  - destruct (m <=? lv_post); [|exact H]. use_pe Hpe.
    destruct l0 as [|t0 l0]; [discriminate H|]. destruct t0; try discriminate H. eapply IH; eauto.
  - destruct (m <=? lv_post); [|exact H]. use_pe Hpe.
    destruct l0 as [|t0 l0]; [discriminate H|]. destruct t0; try discriminate H. eapply IH; eauto.
  - destruct (m <=? lv_between); [|exact H]. use_pe Hpe.
    destruct l0 as [|t0 l0]; [discriminate H|]. destruct t0; try discriminate H.
    use_pe Hpe. eapply IH; eauto.
  - destruct (m <=? lv_inst); [|exact H]. eapply IH; eauto.
  - destruct (m <=? lv_post); [|exact H]. eapply IH; eauto.
Qed.

Lemma prefix_mono : forall pe pe', pe_le pe pe' -> forall ts r, prefix pe ts = Some r -> prefix pe' ts = Some r.
Proof.
  intros pe pe' Hpe ts r H. unfold prefix in *. destruct ts as [|t ts']; [exact H|].
  destruct t; try exact H.
  - destruct o; try exact H. use_pe Hpe. exact H.
  - use_pe Hpe. exact H.
Qed.

Lemma parse_expr_mono : forall f f' m ts r, f <= f' -> parse_expr f m ts = Some r -> parse_expr f' m ts = Some r.
Proof.
  induction f as [|f IH]; intros f' m ts r Hf H; [discriminate H|].
  destruct f' as [|f']; [lia|]. assert (Hf' : f <= f') by lia.
  assert (Hle : pe_le (parse_expr f) (parse_expr f')) by (intros m0 ts0 r0 H0; eapply IH; eauto).
  cbn [parse_expr] in *.
  destruct (prefix (parse_expr f) ts) as [[l rest]|] eqn:E; [|discriminate H].
  rewrite (prefix_mono _ _ Hle _ _ E). eapply loop_mono; eauto.
Qed.

(* ------------------------------------------------------------------ the operator loop stops on tokens it may not consume *)

(* level at which a token continues an operand (None: it does not) *)
Definition lbp (t : token) : option nat :=
  match t with
  | TOp o => Some (lv o)
  | TBetween => Some lv_between
  | TInst _ => Some lv_inst
  | TDot _ | TLb | TLp => Some lv_post
  | _ => None
  end.

Definition stops (k : nat) (rest : list token) : Prop :=
  match rest with
  | t :: _ => match lbp t with Some p => p < k | None => True end
  | [] => True
  end.

Lemma stops_mono : forall k k' rest, k <= k' -> stops k rest -> stops k' rest.
Proof. intros k k' [|t r] Hk H; [exact I|]. cbn in *. destruct (lbp t); [lia|exact I]. Qed.

Lemma loop_stops : forall pe g m na l rest, stops m rest -> loop pe (S g) m na l rest = Some (l, rest).
Proof.
  intros pe g m na l [|t r] H; [reflexivity|]. cbn [loop]. cbn in H.
  destruct t; cbn in H; try reflexivity;
    match goal with |- context [?a <=? ?b] => destruct (Nat.leb_spec a b) as [Hle|Hlt]; [exfalso; lia|reflexivity] end.
Qed.

(* results that hold for all sufficiently large fuel *)
Definition Parses (m : nat) (ts : list token) (r : tree * list token) : Prop := exists f, parse_expr f m ts = Some r.
Definition Loops (m na : nat) (l : tree) (ts : list token) (r : tree * list token) : Prop :=
  exists f g, loop (parse_expr f) g m na l ts = Some r.

Lemma pe_le_fuel : forall f f', f <= f' -> pe_le (parse_expr f) (parse_expr f').
Proof. intros f f' H m ts r E. eapply parse_expr_mono; eauto. Qed.

Lemma Loops_norm : forall m na l ts r, Loops m na l ts r -> exists F, forall F', F <= F' -> loop (parse_expr F') F' m na l ts = Some r.
Proof.
  intros m na l ts r [f [g H]]. exists (max f g). intros F' HF.
  eapply loop_mono; [apply (pe_le_fuel f F'); lia| |exact H]. lia.
Qed.

Lemma Loops_stop : forall m na l rest, stops m rest -> Loops m na l rest (l, rest).
Proof. intros. exists 0, 1. apply loop_stops. assumption. Qed.

(* prefix result followed by the loop *)
Lemma Parses_of_prefix : forall m ts l rest r,
  (exists f, prefix (parse_expr f) ts = Some (l, rest)) -> Loops m 0 l rest r -> Parses m ts r.
Proof.
  intros m ts l rest r [f Hp] HL. destruct (Loops_norm _ _ _ _ _ HL) as [F HF].
  exists (S (max f F)). cbn [parse_expr].
  rewrite (prefix_mono _ _ (pe_le_fuel f (max f F) (Nat.le_max_l f F)) _ _ Hp). apply HF. apply Nat.le_max_r.
Qed.

(* one turn of the loop, as rules on Loops *)
Lemma Loops_op : forall m na l o ts x rest r,
  m <= lv o -> (is_non o && (lv o =? na)) = false ->
  Parses (rc o) ts (x, rest) -> Loops m (if is_non o then lv o else 0) (Bin o l x) rest r ->
  Loops m na l (TOp o :: ts) r.
Proof.
  intros m na l o ts x rest r Hm Hna [f1 H1] [f2 [g2 H2]].
  exists (max f1 f2), (S g2). cbn [loop].
  destruct (Nat.leb_spec m (lv o)) as [_|Hlt]; [|lia]. rewrite Hna.
  rewrite (parse_expr_mono f1 (max f1 f2) _ _ _ (Nat.le_max_l f1 f2) H1).
  eapply loop_mono; [apply (pe_le_fuel f2); lia| |exact H2]. lia.
Qed.

Lemma Loops_between : forall m na l ts lo r1 hi rest r,
  m <= lv_between -> Parses 0 ts (lo, TBand :: r1) -> Parses rc_between r1 (hi, rest) ->
  Loops m 0 (Btw l lo hi) rest r -> Loops m na l (TBetween :: ts) r.
Proof.
  intros m na l ts lo r1 hi rest r Hm [f1 H1] [f2 H2] [f3 [g3 H3]].
  exists (max f1 (max f2 f3)), (S g3). cbn [loop].
  destruct (Nat.leb_spec m lv_between) as [_|Hlt]; [|lia].
  assert (L1 : f1 <= max f1 (max f2 f3)) by lia. assert (L2 : f2 <= max f1 (max f2 f3)) by lia.
  rewrite (parse_expr_mono f1 _ _ _ _ L1 H1).
  rewrite (parse_expr_mono f2 _ _ _ _ L2 H2).
  eapply loop_mono; [apply (pe_le_fuel f3); lia| |exact H3]. lia.
Qed.

Lemma Loops_inst : forall m na l ty rest r, m <= lv_inst -> Loops m 0 (Inst l ty) rest r -> Loops m na l (TInst ty :: rest) r.
Proof.
  intros m na l ty rest r Hm [f [g H]]. exists f, (S g). cbn [loop].
  destruct (Nat.leb_spec m lv_inst) as [_|Hlt]; [exact H|lia].
Qed.

Lemma Loops_dot : forall m na l n rest r, m <= lv_post -> Loops m 0 (Path l n) rest r -> Loops m na l (TDot n :: rest) r.
Proof.
  intros m na l n rest r Hm [f [g H]]. exists f, (S g). cbn [loop].
  destruct (Nat.leb_spec m lv_post) as [_|Hlt]; [exact H|lia].
Qed.

Lemma Loops_filter : forall m na l ts i rest r, m <= lv_post -> Parses 0 ts (i, TRb :: rest) ->
  Loops m 0 (Filt l i) rest r -> Loops m na l (TLb :: ts) r.
Proof.
  intros m na l ts i rest r Hm [f1 H1] [f2 [g2 H2]]. exists (max f1 f2), (S g2). cbn [loop].
  destruct (Nat.leb_spec m lv_post) as [_|Hlt]; [|lia].
  rewrite (parse_expr_mono f1 (max f1 f2) _ _ _ (Nat.le_max_l f1 f2) H1).
  eapply loop_mono; [apply (pe_le_fuel f2); lia| |exact H2]. lia.
Qed.

Lemma Loops_call : forall m na l ts a rest r, m <= lv_post -> Parses 0 ts (a, TRp :: rest) ->
  Loops m 0 (Call l a) rest r -> Loops m na l (TLp :: ts) r.
Proof.
  intros m na l ts a rest r Hm [f1 H1] [f2 [g2 H2]]. exists (max f1 f2), (S g2). cbn [loop].
  destruct (Nat.leb_spec m lv_post) as [_|Hlt]; [|lia].
  rewrite (parse_expr_mono f1 (max f1 f2) _ _ _ (Nat.le_max_l f1 f2) H1).
  eapply loop_mono; [apply (pe_le_fuel f2); lia| |exact H2]. lia.
Qed.

(* the three prefix forms *)
Lemma prefix_atom : forall a rest, exists f, prefix (parse_expr f) (TAtom a :: rest) = Some (Atom a, rest).
Proof. intros. exists 0. reflexivity. Qed.

Lemma prefix_neg : forall ts x rest, Parses c_neg ts (x, rest) -> exists f, prefix (parse_expr f) (TOp Sub :: ts) = Some (Neg x, rest).
Proof. intros ts x rest [f H]. exists f. cbn [prefix]. rewrite H. reflexivity. Qed.

Lemma prefix_paren : forall ts x rest, Parses 0 ts (x, TRp :: rest) -> exists f, prefix (parse_expr f) (TLp :: ts) = Some (x, rest).
Proof. intros ts x rest [f H]. exists f. cbn [prefix]. rewrite H. reflexivity. Qed.

(* ------------------------------------------------------------------ rendering, then parsing *)

Definition body_of (t : tree) : list token :=
  match t with
  | Atom a => [TAtom a]
  | Bin o l r => render_at (lc o) l ++ TOp o :: render_at (rc o) r
  | Neg x => TOp Sub :: render_at r_neg x
  | Btw x lo hi => render_at lv_between x ++ TBetween :: render_at 0 lo ++ TBand :: render_at rc_between hi
  | Inst x ty => render_at c_post x ++ [TInst ty]
  | Path x n => render_at c_post x ++ [TDot n]
  | Filt x i => render_at c_post x ++ TLb :: render_at 0 i ++ [TRb]
  | Call f a => render_at c_post f ++ TLp :: render_at 0 a ++ [TRp]
  end.

Lemma render_at_eq : forall m t, render_at m t = if lvl t <? m then TLp :: body_of t ++ [TRp] else body_of t.
Proof. intros m t. destruct t; reflexivity. Qed.

Definition prefix_form (t : tree) : bool := match t with Atom _ | Neg _ => true | _ => false end.

(* the level at which the right-most open operand of an unparenthesised t is parsed *)
Definition edge (t : tree) : option nat :=
  match t with
  | Bin o _ _ => Some (rc o)
  | Neg _ => Some c_neg
  | Btw _ _ _ => Some rc_between
  | _ => None
  end.

Definition edge_stops (t : tree) (rest : list token) : Prop :=
  match edge t with Some k => stops k rest | None => True end.

Definition na0 (t : tree) : nat := match t with Bin o _ _ => if is_non o then lv o else 0 | _ => 0 end.
Definition na_after (m' : nat) (t : tree) : nat := if lvl t <? m' then 0 else na0 t.

Definition P (t : tree) : Prop := forall m m' rest r,
  (lvl t < m' \/ (m <= lvl t /\ m <= 13) \/ prefix_form t = true) ->
  (lvl t < m' \/ edge_stops t rest) ->
  Loops m (na_after m' t) t rest r ->
  Parses m (render_at m' t ++ rest) r.

Definition Q (t : tree) : Prop := forall m rest r,
  ((m <= lvl t /\ m <= 13) \/ prefix_form t = true) -> edge_stops t rest -> Loops m (na0 t) t rest r -> Parses m (body_of t ++ rest) r.

Lemma stops_closing : forall k rest, stops k (TRp :: rest) /\ stops k (TRb :: rest) /\ stops k (TBand :: rest).
Proof. intros. repeat split; exact I. Qed.

Lemma wrap : forall t, Q t -> P t.
Proof.
  intros t HQ m m' rest r Hc He HL. rewrite render_at_eq. unfold na_after in HL.
  destruct (Nat.ltb_spec (lvl t) m') as [Hp|Hnp].
  - cbn [app]. rewrite <- app_assoc. cbn [app].
    eapply Parses_of_prefix; [|exact HL]. apply prefix_paren.
    apply HQ.
    + left. lia.
    + unfold edge_stops. destruct (edge t); exact I.
    + apply Loops_stop. exact I.
  - apply HQ; [| |exact HL].
    + destruct Hc as [Hc|[Hc|Hc]]; [lia|left; exact Hc|right; exact Hc].
    + destruct He as [He|He]; [lia|exact He].
Qed.

(* an operand rendered at its own level and followed by something its loop does not consume *)
Lemma P_operand : forall t k rest, P t -> k <= 13 -> stops k rest -> (k <= lvl t -> forall e, edge t = Some e -> k <= e) ->
  Parses k (render_at k t ++ rest) (t, rest).
Proof.
  intros t k rest HP Hk Hs He. apply HP.
  - destruct (Nat.lt_ge_cases (lvl t) k); [left; assumption|right; left; split; assumption].
  - destruct (Nat.lt_ge_cases (lvl t) k) as [Hl|Hg]; [left; exact Hl|right].
    unfold edge_stops. destruct (edge t) as [e|] eqn:E; [|exact I].
    eapply stops_mono; [|exact Hs]. exact (He Hg e eq_refl).
  - apply Loops_stop. exact Hs.
Qed.

Lemma Q_atom : forall a, Q (Atom a).
Proof.
  intros a m rest r _ _ HL. cbn [body_of app].
  eapply Parses_of_prefix; [apply prefix_atom|exact HL].
Qed.

Ltac norm_app := repeat (rewrite <- app_assoc; cbn [app]).
Ltac lvls := unfold rc, lc, c_neg, r_neg, rc_between, lv_between, lv_neg, lv_inst, lv_post, c_post in *; cbn [asc lv lvl] in *.

Lemma edge_bound_rc : forall o t e, rc o <= lvl t -> edge t = Some e -> rc o <= e.
Proof.
  intros o t e Hl He. destruct t; cbn in He; try discriminate He; inversion He; subst; cbn [lvl] in Hl.
  - destruct o, o0; lvls; lia.
  - destruct o; lvls; lia.
  - destruct o; lvls; lia.
Qed.

Lemma Q_bin : forall o l r0, P l -> P r0 -> Q (Bin o l r0).
Proof.
  intros o l r0 Pl Pr m rest r Hc He HL. cbn [body_of]. norm_app.
  assert (Hm : m <= lv o) by (destruct Hc as [[Hc _]|Hc]; [exact Hc|discriminate Hc]).
  cbn [edge_stops edge] in He. unfold edge_stops in He. cbn [edge] in He.
  apply Pl.
  - destruct (Nat.lt_ge_cases (lvl l) (lc o)) as [Hlt|Hge]; [left; exact Hlt|right; left].
    assert (lv o <= lc o) by (unfold lc; destruct (asc o); lia). split; [lia|]. destruct o; lvls; lia.
  - destruct (Nat.lt_ge_cases (lvl l) (lc o)) as [Hlt|Hge]; [left; exact Hlt|right].
    unfold edge_stops. destruct l; cbn [edge]; try exact I; cbn [stops lbp]; cbn [lvl] in Hge.
    + destruct o, o0; lvls; lia.
    + destruct o; lvls; lia.
    + destruct o; lvls; lia.
  - eapply Loops_op; [exact Hm| | |exact HL].
    + unfold na_after. destruct (Nat.ltb_spec (lvl l) (lc o)) as [Hlt|Hge].
      * destruct (is_non o) eqn:En; [|reflexivity]. cbn [andb].
        destruct o; cbn in En; try discriminate En; reflexivity.
      * destruct (is_non o) eqn:En; [|reflexivity]. cbn [andb].
        destruct l; cbn [na0]; try (destruct o; cbn in En; try discriminate En; reflexivity).
        destruct o, o0; cbn in En; try discriminate En; cbn in Hge |- *; try reflexivity; lia.
    + apply P_operand; [exact Pr|destruct o; lvls; lia|exact He|]. intros Hl e E. eapply edge_bound_rc; eauto.
Qed.

Lemma Q_neg : forall x, P x -> Q (Neg x).
Proof.
  intros x Px m rest r _ He HL. cbn [body_of app]. unfold edge_stops in He. cbn [edge] in He.
  eapply Parses_of_prefix; [|exact HL]. apply prefix_neg. apply Px.
  - destruct (Nat.lt_ge_cases (lvl x) r_neg) as [Hlt|Hge]; [left; exact Hlt|right].
    destruct x; cbn [prefix_form lvl] in *; lvls; try (right; reflexivity); try (left; lia).
    destruct o; lvls; lia.
  - destruct (Nat.lt_ge_cases (lvl x) r_neg) as [Hlt|Hge]; [left; exact Hlt|right].
    unfold edge_stops. destruct x; cbn [edge]; try exact I; cbn [lvl] in Hge.
    + destruct o; lvls; lia.
    + exact He.
    + lvls; lia.
  - apply Loops_stop. exact He.
Qed.

Lemma edge_bound : forall k t e, k <= lvl t -> k <= 8 -> edge t = Some e -> k <= e.
Proof.
  intros k t e Hl Hk He. destruct t; cbn in He; try discriminate He; inversion He; subst; cbn [lvl] in Hl.
  - destruct o; lvls; lia.
  - lvls; lia.
  - lvls; lia.
Qed.

Lemma Q_btw : forall x lo hi, P x -> P lo -> P hi -> Q (Btw x lo hi).
Proof.
  intros x lo hi Px Plo Phi m rest r Hc He HL. cbn [body_of]. norm_app.
  assert (Hm : m <= lv_between) by (destruct Hc as [[Hc _]|Hc]; [exact Hc|discriminate Hc]).
  unfold edge_stops in He. cbn [edge] in He.
  apply Px.
  - destruct (Nat.lt_ge_cases (lvl x) lv_between) as [Hlt|Hge]; [left; exact Hlt|right; left; lvls; lia].
  - destruct (Nat.lt_ge_cases (lvl x) lv_between) as [Hlt|Hge]; [left; exact Hlt|right].
    unfold edge_stops. destruct x; cbn [edge]; try exact I; cbn [stops lbp]; cbn [lvl] in Hge.
    + destruct o; lvls; lia.
    + lvls; lia.
    + lvls; lia.
  - eapply Loops_between; [exact Hm| | |exact HL].
    + apply (P_operand lo 0 (TBand :: render_at rc_between hi ++ rest) Plo); [lia|exact I|].
      intros _ e E. lia.
    + apply P_operand; [exact Phi|lvls; lia|exact He|]. intros Hl e E. eapply edge_bound; eauto.
Qed.


(* operand of a postfix form: rendered at c_post and followed by the postfix token *)
Lemma post_operand_ctx : forall x m, m <= lv_inst -> lvl x < c_post \/ (m <= lvl x /\ m <= 13) \/ prefix_form x = true.
Proof.
  intros x m Hm. destruct (Nat.lt_ge_cases (lvl x) c_post) as [Hlt|Hge]; [left; exact Hlt|right; left].
  lvls. lia.
Qed.

Lemma post_operand_edge : forall x rest, lvl x < c_post \/ edge_stops x rest.
Proof.
  intros x rest. destruct (Nat.lt_ge_cases (lvl x) c_post) as [Hlt|Hge]; [left; exact Hlt|right].
  unfold edge_stops. destruct x; cbn [edge]; try exact I; cbn [lvl] in Hge.
  - destruct o; lvls; lia.
  - lvls; lia.
  - lvls; lia.
Qed.

Lemma Q_inst : forall x ty, P x -> Q (Inst x ty).
Proof.
  intros x ty Px m rest r Hc _ HL. cbn [body_of]. norm_app.
  assert (Hm : m <= lv_inst) by (destruct Hc as [[Hc _]|Hc]; [exact Hc|discriminate Hc]).
  apply Px; [apply post_operand_ctx; exact Hm|apply post_operand_edge|].
  apply Loops_inst; [exact Hm|exact HL].
Qed.

Lemma Q_path : forall x n, P x -> Q (Path x n).
Proof.
  intros x n Px m rest r Hc _ HL. cbn [body_of]. norm_app.
  assert (Hm : m <= lv_inst) by (destruct Hc as [[_ Hc]|Hc]; [lvls; lia|discriminate Hc]).
  apply Px; [apply post_operand_ctx; exact Hm|apply post_operand_edge|].
  apply Loops_dot; [lvls; lia|exact HL].
Qed.

Lemma Q_filt : forall x i, P x -> P i -> Q (Filt x i).
Proof.
  intros x i Px Pi m rest r Hc _ HL. cbn [body_of]. norm_app.
  assert (Hm : m <= lv_inst) by (destruct Hc as [[_ Hc]|Hc]; [lvls; lia|discriminate Hc]).
  apply Px; [apply post_operand_ctx; exact Hm|apply post_operand_edge|].
  eapply Loops_filter; [lvls; lia| |exact HL].
  apply (P_operand i 0 (TRb :: rest) Pi); [lia|exact I|]. intros _ e E. lia.
Qed.

Lemma Q_call : forall f a, P f -> P a -> Q (Call f a).
Proof.
  intros f a Pf Pa m rest r Hc _ HL. cbn [body_of]. norm_app.
  assert (Hm : m <= lv_inst) by (destruct Hc as [[_ Hc]|Hc]; [lvls; lia|discriminate Hc]).
  apply Pf; [apply post_operand_ctx; exact Hm|apply post_operand_edge|].
  eapply Loops_call; [lvls; lia| |exact HL].
  apply (P_operand a 0 (TRp :: rest) Pa); [lia|exact I|]. intros _ e E. lia.
Qed.

Lemma render_parse : forall t, P t.
Proof.
  induction t; apply wrap.
  - apply Q_atom.
  - apply Q_bin; assumption.
  - apply Q_neg; assumption.
  - apply Q_btw; assumption.
  - apply Q_inst; assumption.
  - apply Q_path; assumption.
  - apply Q_filt; assumption.
  - apply Q_call; assumption.
Qed.

(* ------------------------------------------------------------------ round trip of the minimal rendering *)

Theorem roundtrip_min : forall t, exists f0, forall f, f0 <= f -> parse_fuel f (render_min t) = Some t.
Proof.
  intro t. destruct (render_parse t 0 0 [] (t, [])) as [f0 H].
  - right. left. lia.
  - right. unfold edge_stops. destruct (edge t); exact I.
  - apply Loops_stop. exact I.
  - rewrite app_nil_r in H. exists f0. intros f Hf. unfold parse_fuel, render_min.
    rewrite (parse_expr_mono f0 f _ _ _ Hf H). reflexivity.
Qed.

(* whatever fuel the parser is given, it never builds another tree from the minimal rendering *)
Corollary roundtrip_min_unique : forall t f t', parse_fuel f (render_min t) = Some t' -> t' = t.
Proof.
  intros t f t' H. destruct (roundtrip_min t) as [f0 H0].
  specialize (H0 (max f f0) (Nat.le_max_r f f0)).
  unfold parse_fuel in *. destruct (parse_expr f 0 (render_min t)) as [[x rest]|] eqn:E; [|discriminate H].
  rewrite (parse_expr_mono f (max f f0) _ _ _ (Nat.le_max_l f f0) E) in H0.
  destruct rest; [|discriminate H]. congruence.
Qed.

(* ------------------------------------------------------------------ round trip of the fully parenthesised rendering *)

Definition par (x : tree) : list token := match x with Atom a => [TAtom a] | _ => TLp :: render_full x ++ [TRp] end.

Lemma render_full_eq : forall t, render_full t =
  match t with
  | Atom a => [TAtom a]
  | Bin o l r => par l ++ TOp o :: par r
  | Neg x => TOp Sub :: par x
  | Btw x lo hi => par x ++ TBetween :: par lo ++ TBand :: par hi
  | Inst x ty => par x ++ [TInst ty]
  | Path x n => par x ++ [TDot n]
  | Filt x i => par x ++ TLb :: par i ++ [TRb]
  | Call f a => par f ++ TLp :: par a ++ [TRp]
  end.
Proof. destruct t; reflexivity. Qed.

Definition closing (rest : list token) : Prop := match rest with t :: _ => lbp t = None | [] => True end.

Lemma closing_stops : forall k rest, closing rest -> stops k rest.
Proof. intros k [|t r] H; [exact I|]. cbn in *. rewrite H. exact I. Qed.

(* F t: the full rendering of t, followed by a closing token, parses to t at level 0 *)
Definition F (t : tree) : Prop := forall rest, closing rest -> Parses 0 (render_full t ++ rest) (t, rest).

(* an operand of the full rendering, in any operand position *)
Lemma par_operand : forall x, F x -> forall m rest r, Loops m 0 x rest r -> Parses m (par x ++ rest) r.
Proof.
  intros x Fx m rest r HL. destruct x; cbn [par];
    try (cbn [app]; rewrite <- app_assoc; cbn [app]; eapply Parses_of_prefix; [|exact HL]; apply prefix_paren; apply Fx; reflexivity).
  cbn [app]. eapply Parses_of_prefix; [apply prefix_atom|exact HL].
Qed.

Lemma full_parse : forall t, F t.
Proof.
  induction t; intros rest Hc; rewrite render_full_eq.
  - cbn [app]. eapply Parses_of_prefix; [apply prefix_atom|]. apply Loops_stop. apply closing_stops; exact Hc.
  - norm_app. apply par_operand; [exact IHt1|].
    eapply Loops_op with (x := t2) (rest := rest).
    + lia.
    + rewrite Nat.eqb_sym. destruct o; reflexivity.
    + apply par_operand; [exact IHt2|]. apply Loops_stop. apply closing_stops; exact Hc.
    + apply Loops_stop. apply closing_stops; exact Hc.
  - cbn [app]. eapply Parses_of_prefix.
    + apply prefix_neg. apply par_operand; [exact IHt|]. apply Loops_stop. apply closing_stops; exact Hc.
    + apply Loops_stop. apply closing_stops; exact Hc.
  - norm_app. apply par_operand; [exact IHt1|].
    eapply Loops_between with (lo := t2) (hi := t3) (rest := rest).
    + lia.
    + apply par_operand; [exact IHt2|]. apply Loops_stop. exact I.
    + apply par_operand; [exact IHt3|]. apply Loops_stop. apply closing_stops; exact Hc.
    + apply Loops_stop. apply closing_stops; exact Hc.
  - norm_app. apply par_operand; [exact IHt|]. apply Loops_inst; [lia|]. apply Loops_stop. apply closing_stops; exact Hc.
  - norm_app. apply par_operand; [exact IHt|]. apply Loops_dot; [lia|]. apply Loops_stop. apply closing_stops; exact Hc.
  - norm_app. apply par_operand; [exact IHt1|].
    eapply Loops_filter with (i := t2) (rest := rest); [lia| |apply Loops_stop; apply closing_stops; exact Hc].
    apply par_operand; [exact IHt2|]. apply Loops_stop. exact I.
  - norm_app. apply par_operand; [exact IHt1|].
    eapply Loops_call with (a := t2) (rest := rest); [lia| |apply Loops_stop; apply closing_stops; exact Hc].
    apply par_operand; [exact IHt2|]. apply Loops_stop. exact I.
Qed.

Theorem roundtrip_full : forall t, exists f0, forall f, f0 <= f -> parse_fuel f (render_full t) = Some t.
Proof.
  intro t. destruct (full_parse t [] I) as [f0 H]. rewrite app_nil_r in H.
  exists f0. intros f Hf. unfold parse_fuel. rewrite (parse_expr_mono f0 f _ _ _ Hf H). reflexivity.
Qed.

(* ------------------------------------------------------------------ needed parentheses (finite: all trees with two nested operators) *)

Definition shapes : nat := 20.

(* the k-th operator applied to operands a b c (unused operands dropped) *)
Definition mk1 (k : nat) (a b c : tree) : tree :=
  match k with
  | 0 => Bin Or a b | 1 => Bin And a b | 2 => Bin Eq a b | 3 => Bin Nq a b | 4 => Bin Lt a b | 5 => Bin Le a b
  | 6 => Bin Gt a b | 7 => Bin Ge a b | 8 => Bin InOp a b | 9 => Bin Sub a b | 10 => Bin Add a b | 11 => Bin Mul a b
  | 12 => Bin Div a b | 13 => Bin Exp a b | 14 => Neg a | 15 => Btw a b c | 16 => Inst a 7 | 17 => Path a 9
  | 18 => Filt a b | _ => Call a b
  end.

Definition inner (k : nat) : tree := mk1 k (Atom 1) (Atom 3) (Atom 5).

(* an operator over an operator, the inner one in the first, second or third operand position *)
Definition nested (k1 k2 pos : nat) : tree :=
  match pos with
  | 0 => mk1 k1 (inner k2) (Atom 11) (Atom 13)
  | 1 => mk1 k1 (Atom 11) (inner k2) (Atom 13)
  | _ => mk1 k1 (Atom 11) (Atom 13) (inner k2)
  end.

Definition count_lp (ts : list token) : nat := length (filter (fun x => match x with TLp => true | _ => false end) ts).

(* every pair of parentheses of the minimal rendering is needed: without it the tree is not parsed back *)
Definition all_needed (t : tree) : bool :=
  forallb (fun k => negb (otree_eqb (parse_tokens (drop_paren k (render_min t))) (Some t))) (seq 0 (count_lp (render_min t))).

Definition roundtrips (t : tree) : bool :=
  otree_eqb (parse_tokens (render_min t)) (Some t) && otree_eqb (parse_tokens (render_full t)) (Some t).

Definition nested_ok : bool :=
  forallb (fun k1 => forallb (fun k2 => forallb (fun pos => let t := nested k1 k2 pos in all_needed t && roundtrips t) (seq 0 3))
                              (seq 0 shapes)) (seq 0 shapes).

Lemma nested_ok_true : nested_ok = true.
Proof. vm_compute. reflexivity. Qed.

Lemma needed_nested : forall k1 k2 pos, k1 < shapes -> k2 < shapes -> pos < 3 ->
  all_needed (nested k1 k2 pos) = true /\ roundtrips (nested k1 k2 pos) = true.
Proof.
  intros k1 k2 pos H1 H2 H3. pose proof nested_ok_true as H. unfold nested_ok in H.
  rewrite forallb_forall in H. specialize (H k1 ltac:(apply in_seq; lia)).
  rewrite forallb_forall in H. specialize (H k2 ltac:(apply in_seq; lia)).
  rewrite forallb_forall in H. specialize (H pos ltac:(apply in_seq; lia)).
  apply andb_true_iff in H. exact H.
Qed.

(* ------------------------------------------------------------------ string literals *)

(* U+1F64F written as the surrogate pair 🙏: the repaired decoder gives the character,
   the original one (last byte masked with 0xFF) produced an invalid UTF-8 sequence and the literal was rejected *)
Definition surrogate_witness : list N := [92; 117; 68; 56; 51; 68; 92; 117; 68; 69; 52; 70]%N.

Lemma unescape_surrogate_witness : unescape surrogate_witness = Some [128591%N].
Proof. vm_compute. reflexivity. Qed.

Lemma unescape_orig_surrogate_witness : unescape_orig surrogate_witness = None.
Proof. vm_compute. reflexivity. Qed.
