(* C18 — the handler model `serve` refines the specification of C18/Spec.v (a relation over the abstract workspace of C17 and
   response classes), for every request sequence, by induction over the history with C17's refinement; the specification
   determines class and state; what it says about failing requests; and the bodies of the answers carry the member and the
   content their class prescribes. *)
From Coq Require Import List NArith Bool Lia.
From DV Require Import C17.Model C17.Proofs C17.Abstract C17.AbstractProofs
  C18.Model C18.Proofs C18.Service C18.ProofsService C18.Dto C18.ProofsDto C18.Spec.
Import ListNotations.
Open Scope N_scope.

(* the two readings of "the operation a request asks for" agree *)
Lemma asks_op_of q o : asks q o <-> op_of q = Some o.
Proof. split.
  - intros H. destruct H; reflexivity.
  - destruct q as [c|c|n k| | |k ok|k inv input| |]; cbn [op_of].
    + destruct c; try discriminate. intros E. injection E as E. subst o. constructor.
    + destruct c; try discriminate. intros E. injection E as E. subst o. constructor.
    + destruct n as [n|]; [|discriminate]. destruct k as [k|]; [|discriminate]. intros E. injection E as E. subst o. constructor.
    + intros E. injection E as E. subst o. constructor.
    + intros E. injection E as E. subst o. constructor.
    + destruct ok; [|discriminate]. intros E. injection E as E. subst o. constructor.
    + destruct k as [k|]; [|discriminate]. destruct inv; [|discriminate]. destruct input as [[|]|]; try discriminate.
      intros E. injection E as E. subst o. constructor.
    + discriminate.
    + discriminate. Qed.

Lemma asks_functional q o1 o2 : asks q o1 -> asks q o2 -> o1 = o2.
Proof. rewrite !asks_op_of. congruence. Qed.

Lemma no_op_no_asks q : op_of q = None -> forall o, ~ asks q o.
Proof. intros E o H. apply asks_op_of in H. congruence. Qed.

Lemma Inv_serve s q : Inv s -> Inv (fst (serve replace_fixed s q)).
Proof. intros HI. rewrite serve_spec. unfold serve_by_op. destruct (op_of q) as [o|]; [|exact HI].
  pose proof (Inv_step s o HI) as H. destruct (step remove s o). exact H. Qed.

(* ------------------------------------------------------------------ one request *)
Theorem serve_step_refines_spec s q : Inv s ->
  spec_serve (abs s) q (abs (fst (serve replace_fixed s q))) (class_of (snd (serve replace_fixed s q))).
Proof. intros HI. destruct q as [c|c|n k| | |k ok|k inv input| |]; cbn [serve].
  - destruct c as [| | | |m]; cbn [with_content fst snd class_of];
      try (apply SFault; [apply no_op_no_asks; reflexivity|apply aeq_refl]).
    pose proof (abs_add s m HI) as H. destruct (add s m) as [s' ok]. cbn [fst snd] in H.
    destruct H as [(Hf & Hr & Hs & Hn)|(Hf & Hr & He)]; subst ok; cbn [fst snd class_of].
    + apply SAdded; [constructor|exact Hf|exact Hs|exact Hn].
    + apply (SAddRefused _ _ m); [constructor|exact Hf|exact He].
  - destruct c as [| | | |m]; cbn [with_content fst snd class_of];
      try (apply SFault; [apply no_op_no_asks; reflexivity|apply aeq_refl]).
    pose proof (abs_step s (Replace m) HI) as H. cbn [step] in H. unfold replace_fixed.
    destruct (add (remove s (ns m) (nm m)) m) as [s' ok]. cbn [fst snd] in H.
    destruct (abs_replace _ _ _ _ H) as (Hx & Hs & Hn). injection Hx as Hx. subst ok. cbn [fst snd class_of].
    apply (SReplaced _ _ m); [constructor|exact Hs|exact Hn].
  - destruct n as [n|]; [destruct k as [k|]|]; cbn [fst snd class_of];
      try (apply SFault; [apply no_op_no_asks; reflexivity|apply aeq_refl]).
    destruct (abs_remove s n k) as [Hs Hn]. apply (SRemoved _ _ n k); [constructor|exact Hs|exact Hn].
  - cbn [fst snd class_of]. apply SCleared; [constructor| |].
    + intros x Hx. exact Hx.
    + intros k d Hd. cbn in Hd. discriminate.
  - cbn [fst snd class_of]. pose proof (abs_step s Deploy HI) as H. cbn [step fst snd aspec] in H. destruct H as [_ [Hs Hv]].
    apply SDeployed; [constructor|exact Hs|exact Hv].
  - destruct ok; cbn [fst snd class_of]; [|apply SFault; [apply no_op_no_asks; reflexivity|apply aeq_refl]].
    destruct (lookup k (evs s)) as [d|] eqn:El; cbn [fst snd class_of].
    + apply (SEvaluated _ _ k d); [constructor|exact El|apply aeq_refl].
    + apply (SNotDeployed _ _ k); [constructor| |apply aeq_refl]. intros d Hd. cbn [abs served] in Hd. congruence.
  - destruct k as [k|]; [|apply SFault; [apply no_op_no_asks; reflexivity|apply aeq_refl]].
    destruct inv; [|apply SFault; [apply no_op_no_asks; reflexivity|apply aeq_refl]].
    destruct input as [[|]|]; try (apply SFault; [apply no_op_no_asks; reflexivity|apply aeq_refl]).
    destruct (lookup k (evs s)) as [d|] eqn:El; cbn [fst snd class_of].
    + apply (SEvaluated _ _ k d); [constructor|exact El|apply aeq_refl].
    + apply (SNotDeployed _ _ k); [constructor| |apply aeq_refl]. intros d Hd. cbn [abs served] in Hd. congruence.
  - apply SFault; [apply no_op_no_asks; reflexivity|apply aeq_refl].
  - apply SFault; [apply no_op_no_asks; reflexivity|apply aeq_refl].
Qed.

(* ------------------------------------------------------------------ the specification respects equal states *)
Lemma spec_serve_aeq_l a b q a' c : aeq a b -> spec_serve a q a' c -> spec_serve b q a' c.
Proof. intros E H. pose proof E as [E1 E2]. destruct H.
  - apply SFault; [assumption|exact (aeq_trans _ _ _ (aeq_sym _ _ E) H0)].
  - apply SAdded; [assumption|exact (free_aeq a b m E H0)| |assumption]. intros x. rewrite H1, E1. tauto.
  - apply (SAddRefused _ _ m); [assumption| |exact (aeq_trans _ _ _ (aeq_sym _ _ E) H1)].
    intros Hf. apply H0. exact (free_aeq b a m (aeq_sym _ _ E) Hf).
  - apply (SReplaced _ _ m); [assumption| |assumption]. intros x. rewrite H0, E1. tauto.
  - apply (SRemoved _ _ n k); [assumption| |assumption]. intros x. rewrite H0, E1. tauto.
  - apply SCleared; assumption.
  - apply SDeployed; [assumption| |].
    + intros x. rewrite H0, E1. tauto.
    + intros j d. rewrite H1. split; intros [x Hx]; exists x; [rewrite <- E1|rewrite E1]; exact Hx.
  - apply (SEvaluated _ _ k d); [assumption|apply E2; assumption|exact (aeq_trans _ _ _ (aeq_sym _ _ E) H1)].
  - apply (SNotDeployed _ _ k); [assumption| |exact (aeq_trans _ _ _ (aeq_sym _ _ E) H1)].
    intros d Hd. apply (H0 d). apply E2. exact Hd. Qed.

Lemma spec_serves_nil_inv a a' cs : spec_serves a [] a' cs -> aeq a a' /\ cs = [].
Proof. intros H. inversion H; subst. split; [assumption|reflexivity]. Qed.

Lemma spec_serves_cons_inv a q r a' cs : spec_serves a (q :: r) a' cs ->
  exists a1 c cs', spec_serve a q a1 c /\ spec_serves a1 r a' cs' /\ cs = c :: cs'.
Proof. intros H. inversion H; subst. eexists _, _, _. split; [eassumption|]. split; [eassumption|reflexivity]. Qed.

Lemma spec_serves_aeq_l qs : forall a b a' cs, aeq a b -> spec_serves a qs a' cs -> spec_serves b qs a' cs.
Proof. destruct qs as [|q r]; intros a b a' cs E H.
  - apply spec_serves_nil_inv in H. destruct H as [He Hc]. subst cs. constructor. exact (aeq_trans _ _ _ (aeq_sym _ _ E) He).
  - apply spec_serves_cons_inv in H. destruct H as (a1 & c & cs' & Hs & Hr & Hc). subst cs.
    econstructor; [exact (spec_serve_aeq_l a b q a1 c E Hs)|exact Hr]. Qed.

(* ------------------------------------------------------------------ every request sequence *)
Lemma serve_all_refines qs : forall s, Inv s ->
  spec_serves (abs s) qs (abs (fst (serve_all replace_fixed s qs))) (map class_of (snd (serve_all replace_fixed s qs))).
Proof. induction qs as [|q r IH]; intros s HI; cbn [serve_all].
  - cbn [fst snd map]. constructor. apply aeq_refl.
  - pose proof (serve_step_refines_spec s q HI) as H1. pose proof (Inv_serve s q HI) as HI1.
    destruct (serve replace_fixed s q) as [s1 x]. cbn [fst snd] in *. specialize (IH s1 HI1).
    destruct (serve_all replace_fixed s1 r) as [s2 xs]. cbn [fst snd map] in *. econstructor; [exact H1|exact IH]. Qed.

(* THE REFINEMENT: whatever the request sequence, the answers of the handler model have the classes, and its workspace
   (read through abs) is the abstract workspace, that the specification prescribes from the empty workspace *)
Theorem serve_refines_spec qs :
  spec_serves aempty qs (abs (fst (serve_all replace_fixed init qs))) (map class_of (snd (serve_all replace_fixed init qs))).
Proof. apply (spec_serves_aeq_l qs (abs init) aempty); [exact abs_init|]. apply serve_all_refines. exact Inv_init. Qed.

(* ------------------------------------------------------------------ the specification keeps the invariant and is deterministic *)
Lemma spec_serve_AInv a q a' c : AInv a -> spec_serve a q a' c -> AInv a'.
Proof. intros HI H. destruct H.
  - exact (AInv_aeq a a' H0 HI).
  - apply (AInv_add a m a' true HI). left. tauto.
  - exact (AInv_aeq a a' H1 HI).
  - destruct HI as (I1 & I2 & I3). split; [|split].
    + intros x y Hx Hy E. apply H0 in Hx. apply H0 in Hy.
      destruct Hx as [Hx|Hx]; destruct Hy as [Hy|Hy]; subst; try reflexivity; try (exfalso; intuition congruence).
      apply I1; tauto.
    + intros x y Hx Hy E. apply H0 in Hx. apply H0 in Hy.
      destruct Hx as [Hx|Hx]; destruct Hy as [Hy|Hy]; subst; try reflexivity; try (exfalso; intuition congruence).
      apply I2; tauto.
    + intros j d Hd. destruct (H1 j d Hd).
  - apply (AInv_remove a n k a' HI). split; assumption.
  - split; [|split].
    + intros x y Hx. destruct (H0 x Hx).
    + intros x y Hx. destruct (H0 x Hx).
    + intros j d Hd. destruct (H1 j d Hd).
  - destruct HI as (I1 & I2 & I3). split; [|split].
    + intros x y Hx Hy. apply I1; apply H0; assumption.
    + intros x y Hx Hy. apply I2; apply H0; assumption.
    + intros j d Hd. apply H1 in Hd. destruct Hd as [x Hx]. exists x. rewrite H0. exact Hx.
  - exact (AInv_aeq a a' H1 HI).
  - exact (AInv_aeq a a' H1 HI). Qed.

Ltac same_op H1 H2 := let E := fresh "E" in pose proof (asks_functional _ _ _ H1 H2) as E; try discriminate E; try (injection E as E; try subst).

Theorem spec_serve_deterministic a q a1 c1 a2 c2 : AInv a ->
  spec_serve a q a1 c1 -> spec_serve a q a2 c2 -> aeq a1 a2 /\ c1 = c2.
Proof. intros HI H1 H2.
  destruct H1 as [q a1 Hn1 He1|q m1 a1 Hq1 Hf1 Hs1 Hv1|q m1 a1 Hq1 Hf1 He1|q m1 a1 Hq1 Hs1 Hv1|q n1 k1 a1 Hq1 Hs1 Hv1
                 |q a1 Hq1 Hs1 Hv1|q a1 Hq1 Hs1 Hv1|q k1 d1 a1 Hq1 Hd1 He1|q k1 a1 Hq1 Hd1 He1];
  destruct H2 as [q a2 Hn2 He2|q m2 a2 Hq2 Hf2 Hs2 Hv2|q m2 a2 Hq2 Hf2 He2|q m2 a2 Hq2 Hs2 Hv2|q n2 k2 a2 Hq2 Hs2 Hv2
                 |q a2 Hq2 Hs2 Hv2|q a2 Hq2 Hs2 Hv2|q k2 d2 a2 Hq2 Hd2 He2|q k2 a2 Hq2 Hd2 He2];
  try (exfalso; eapply Hn1; eassumption); try (exfalso; eapply Hn2; eassumption);
  try (same_op Hq1 Hq2; fail).
  - split; [exact (aeq_trans _ _ _ (aeq_sym _ _ He1) He2)|reflexivity].
  - same_op Hq1 Hq2. split; [|reflexivity]. split.
    + intros x. rewrite Hs1, Hs2. tauto.
    + intros j d. split; intros H; [destruct (Hv1 j d H)|destruct (Hv2 j d H)].
  - same_op Hq1 Hq2. contradiction.
  - same_op Hq1 Hq2. contradiction.
  - split; [exact (aeq_trans _ _ _ (aeq_sym _ _ He1) He2)|reflexivity].
  - same_op Hq1 Hq2. split; [|reflexivity]. split.
    + intros x. rewrite Hs1, Hs2. tauto.
    + intros j d. split; intros H; [destruct (Hv1 j d H)|destruct (Hv2 j d H)].
  - same_op Hq1 Hq2. split; [|reflexivity]. split.
    + intros x. rewrite Hs1, Hs2. tauto.
    + intros j d. split; intros H; [destruct (Hv1 j d H)|destruct (Hv2 j d H)].
  - split; [|reflexivity]. split.
    + intros x. split; intros H; [destruct (Hs1 x H)|destruct (Hs2 x H)].
    + intros j d. split; intros H; [destruct (Hv1 j d H)|destruct (Hv2 j d H)].
  - split; [|reflexivity]. split.
    + intros x. rewrite Hs1, Hs2. tauto.
    + intros j d. rewrite Hv1, Hv2. tauto.
  - same_op Hq1 Hq2. split; [exact (aeq_trans _ _ _ (aeq_sym _ _ He1) He2)|].
    rewrite (served_functional a k2 d1 d2 HI Hd1 Hd2). reflexivity.
  - same_op Hq1 Hq2. destruct (Hd2 d1 Hd1).
  - same_op Hq1 Hq2. destruct (Hd1 d2 Hd2).
  - split; [exact (aeq_trans _ _ _ (aeq_sym _ _ He1) He2)|reflexivity].
Qed.

Theorem spec_serves_deterministic qs : forall a a1 cs1 a2 cs2, AInv a ->
  spec_serves a qs a1 cs1 -> spec_serves a qs a2 cs2 -> aeq a1 a2 /\ cs1 = cs2.
Proof. induction qs as [|q r IH]; intros a a1 cs1 a2 cs2 HI H1 H2.
  - apply spec_serves_nil_inv in H1. apply spec_serves_nil_inv in H2. destruct H1 as [E1 X1], H2 as [E2 X2]. subst cs1 cs2.
    split; [exact (aeq_trans _ _ _ (aeq_sym _ _ E1) E2)|reflexivity].
  - apply spec_serves_cons_inv in H1. apply spec_serves_cons_inv in H2.
    destruct H1 as (b1 & c1 & ys1 & Hs1 & Hr1 & X1), H2 as (b2 & c2 & ys2 & Hs2 & Hr2 & X2). subst cs1 cs2.
    destruct (spec_serve_deterministic a q b1 c1 b2 c2 HI Hs1 Hs2) as [E Ec]. subst c2.
    destruct (IH b2 a1 ys1 a2 ys2 (spec_serve_AInv a q b2 c1 HI Hs2) (spec_serves_aeq_l r b1 b2 a1 ys1 E Hr1) Hr2) as [E' Ecs].
    split; [exact E'|congruence]. Qed.

(* the classes and the abstract workspace that the specification allows for a request sequence are those of the handler model *)
Theorem serve_refines_spec_unique qs a cs : spec_serves aempty qs a cs ->
  aeq a (abs (fst (serve_all replace_fixed init qs))) /\ cs = map class_of (snd (serve_all replace_fixed init qs)).
Proof. intros H. exact (spec_serves_deterministic qs aempty _ _ _ _ AInv_empty H (serve_refines_spec qs)). Qed.

(* ------------------------------------------------------------------ what the specification says about failing requests *)
(* an answer with the errors member leaves the workspace as it was — whatever the reason: a request that asks for nothing,
   an add that is refused, an evaluation of a name that is not served *)
Theorem spec_errors_leave_state a q a' : spec_serve a q a' CErrors -> aeq a a'.
Proof. intros H. inversion H; subst; assumption. Qed.

(* ... and exactly these are answered with errors: replace, remove, clear, deploy always answer data *)
Theorem spec_errors_iff a q a' c : spec_serve a q a' c ->
  (c = CErrors <->
   (forall o, ~ asks q o) \/ (exists m, asks q (Add m) /\ ~ free a m) \/ (exists k, asks q (Eval k) /\ forall d, ~ served a k d)).
Proof. intros H. destruct H; split; intros HC; try discriminate HC; try reflexivity.
  - left. assumption.
  - exfalso. destruct HC as [Hn|[[m' [Hq Hf]]|[k' [Hq _]]]].
    + exact (Hn _ H).
    + same_op H Hq. contradiction.
    + same_op H Hq.
  - right. left. exists m. tauto.
  - exfalso. destruct HC as [Hn|[[m' [Hq Hf]]|[k' [Hq _]]]]; [exact (Hn _ H)|same_op H Hq|same_op H Hq].
  - exfalso. destruct HC as [Hn|[[m' [Hq Hf]]|[k' [Hq _]]]]; [exact (Hn _ H)|same_op H Hq|same_op H Hq].
  - exfalso. destruct HC as [Hn|[[m' [Hq Hf]]|[k' [Hq _]]]]; [exact (Hn _ H)|same_op H Hq|same_op H Hq].
  - exfalso. destruct HC as [Hn|[[m' [Hq Hf]]|[k' [Hq _]]]]; [exact (Hn _ H)|same_op H Hq|same_op H Hq].
  - exfalso. destruct HC as [Hn|[[m' [Hq Hf]]|[k' [Hq Hd]]]]; [exact (Hn _ H)|same_op H Hq|].
    same_op H Hq. exact (Hd d H0).
  - right. right. exists k. tauto.
Qed.

Lemma spec_serves_app_inv l1 : forall a l2 a' cs, spec_serves a (l1 ++ l2) a' cs ->
  exists am cs1 cs2, spec_serves a l1 am cs1 /\ spec_serves am l2 a' cs2 /\ cs = cs1 ++ cs2.
Proof. induction l1 as [|q r IH]; intros a l2 a' cs H.
  - exists a, [], cs. split; [constructor; apply aeq_refl|]. split; [exact H|reflexivity].
  - cbn [app] in H. apply spec_serves_cons_inv in H. destruct H as (a1 & c & cs' & Hs & Hr & Hc). subst cs.
    destruct (IH a1 l2 a' cs' Hr) as (am & cs1 & cs2 & Ha & Hb & Hc).
    exists am, (c :: cs1), cs2. split; [econstructor; eassumption|]. split; [exact Hb|]. subst cs'. reflexivity. Qed.

Lemma spec_faults_transparent bad : Forall (fun q => forall o, ~ asks q o) bad ->
  forall a a' cs, spec_serves a bad a' cs -> aeq a a' /\ Forall (fun c => c = CErrors) cs.
Proof. induction bad as [|q r IH]; intros Hb a a' cs H.
  - apply spec_serves_nil_inv in H. destruct H as [He Hc]. subst cs. split; [exact He|constructor].
  - inversion Hb as [|q' r' Hq Hr]; subst. apply spec_serves_cons_inv in H. destruct H as (a1 & c & cs' & Hs & Hr' & Hc). subst cs.
    assert (Hc : c = CErrors).
    { apply (spec_errors_iff a q a1 c Hs). left. exact Hq. }
    subst c. pose proof (spec_errors_leave_state a q a1 Hs) as E1. destruct (IH Hr a1 a' cs' Hr') as [E2 Hcs].
    split; [exact (aeq_trans _ _ _ E1 E2)|constructor; [reflexivity|exact Hcs]]. Qed.

(* no request that asks for nothing stops the service from answering the requests that follow, nor changes their answers:
   pre ++ bad ++ post is answered on post as pre ++ post is *)
Theorem spec_faults_do_not_disturb pre bad post a cs a0 b cs0 : AInv a0 ->
  Forall (fun q => forall o, ~ asks q o) bad ->
  spec_serves a0 (pre ++ bad ++ post) a cs -> spec_serves a0 (pre ++ post) b cs0 ->
  aeq a b /\
  exists cs1 cbad cs2, cs = cs1 ++ cbad ++ cs2 /\ cs0 = cs1 ++ cs2 /\ Forall (fun c => c = CErrors) cbad /\ length cbad = length bad.
Proof. intros HI Hb H H0.
  destruct (spec_serves_app_inv pre a0 (bad ++ post) a cs H) as (am & cs1 & cs' & Hpre & Hrest & Hc). subst cs.
  destruct (spec_serves_app_inv bad am post a cs' Hrest) as (ab & cbad & cs2 & Hbad & Hpost & Hc). subst cs'.
  destruct (spec_faults_transparent bad Hb am ab cbad Hbad) as [E Hcb].
  destruct (spec_serves_app_inv pre a0 post b cs0 H0) as (am' & cs1' & cs2' & Hpre' & Hpost' & Hc). subst cs0.
  assert (HIm : AInv am).
  { clear - HI Hpre. revert a0 am cs1 HI Hpre. induction pre as [|q r IH]; intros a0 am cs1 HI Hpre.
    - apply spec_serves_nil_inv in Hpre. destruct Hpre as [He _]. exact (AInv_aeq _ _ He HI).
    - apply spec_serves_cons_inv in Hpre. destruct Hpre as (a1 & c & cs' & Hs & Hr & _).
      exact (IH a1 am cs' (spec_serve_AInv a0 q a1 c HI Hs) Hr). }
  destruct (spec_serves_deterministic pre a0 am cs1 am' cs1' HI Hpre Hpre') as [Em E1]. subst cs1'.
  pose proof (spec_serves_aeq_l post ab am a cs2 (aeq_sym _ _ E) Hpost) as Hpost1.
  pose proof (spec_serves_aeq_l post am' am b cs2' (aeq_sym _ _ Em) Hpost') as Hpost2.
  destruct (spec_serves_deterministic post am a cs2 b cs2' HIm Hpost1 Hpost2) as [Eab E2]. subst cs2'.
  split; [exact Eab|]. exists cs1, cbad, cs2. split; [reflexivity|]. split; [reflexivity|]. split; [exact Hcb|].
  clear - Hbad. revert am ab cbad Hbad. induction bad as [|q r IH]; intros am ab cbad Hbad.
  - apply spec_serves_nil_inv in Hbad. destruct Hbad as [_ Hc]. subst cbad. reflexivity.
  - apply spec_serves_cons_inv in Hbad. destruct Hbad as (a1 & c & cs' & _ & Hr & Hc). subst cbad. cbn [length]. f_equal. exact (IH a1 ab cs' Hr). Qed.

(* ------------------------------------------------------------------ the bodies carry what the class says *)
Definition member_of (c : rclass) : text := match c with CErrors => k_errors | CData _ => k_data end.

Section Bodies.
Variable txt : N -> text.
Variable msg : err -> text.
Variable result : N -> value.
Hypothesis Htxt : forall n, wf_text (txt n) = true.
Hypothesis Hmsg : forall e, wf_text (msg e) = true.
Hypothesis Hres : forall d, wf (result d) = true.

(* every answer to every request sequence is a well-formed JSON document with exactly the member its class prescribes;
   the data of an evaluation decodes to the value the served document computes, the data of an add names the stored document *)
Theorem answers_reflect_workspace qs :
  exists a cs, spec_serves aempty qs a cs /\
    Forall2 (fun r c => exists j, json_parse (body txt msg result r) = Some (JObj [(member_of c, j)]) /\
               (forall d, c = CData (DEvaluation d) -> decode j = Some (strip (result d))) /\
               (forall n k, c = CData (DAdded n k) -> j = JObj [(k_namespace, JStr (txt n)); (k_name, JStr (txt k))]) /\
               (forall s, c = CData (DStatus s) -> j = JObj [(k_status, JStr (txt s))]) /\
               (c = CErrors -> exists e, j = JArr [JObj [(k_details, JStr (msg e))]]))
            (snd (serve_all replace_fixed init qs)) cs.
Proof. eexists _, _. split; [exact (serve_refines_spec qs)|].
  induction (snd (serve_all replace_fixed init qs)) as [|r rs IH]; cbn [map]; constructor; [|exact IH].
  destruct r as [n k|c|k d|e]; cbn [body class_of member_of].
  - exists (to_json (VCtx [(k_namespace, VStr (txt n)); (k_name, VStr (txt k))])).
    split; [rewrite compact_wellformed; [reflexivity|cbn; rewrite !Htxt; reflexivity]|].
    repeat split; try (intros; discriminate). intros n' k' E. injection E as E1 E2. subst. reflexivity.
  - exists (to_json (VCtx [(k_status, VStr (txt c))])).
    split; [rewrite compact_wellformed; [reflexivity|cbn; rewrite !Htxt; reflexivity]|].
    repeat split; try (intros; discriminate). intros s' E. injection E as E. subst. reflexivity.
  - exists (to_json (result d)). split; [apply (value_body (result d)); apply Hres|].
    repeat split; try (intros; discriminate). intros d' E. injection E as E. subst d'. apply decode_to_json.
  - exists (to_json (VList [VCtx [(k_details, VStr (msg e))]])).
    split; [rewrite compact_wellformed; [reflexivity|cbn; rewrite !Hmsg; reflexivity]|].
    repeat split; try (intros; discriminate). intros _. exists e. reflexivity.
Qed.
End Bodies.

(* non-vacuity: a sequence with faults, a refused add, a replace by A', evaluations before and after the second deploy *)
Example spec_nonvacuous :
  map class_of (snd (serve_all replace_fixed init
     [QAdd (CModel mA); QAdd CBadBase64; QAdd (CModel mA); QDeploy; QEvaluate 11 true; QReplace (CModel mA'); QRejected;
      QEvaluate 11 true; QDeploy; QTck (Some 11) true (Some true); QRemove (Some 1) (Some 99); QDeploy; QEvaluate 11 true]))
  = [CData (DAdded 1 11); CErrors; CErrors; CData (DStatus 4); CData (DEvaluation 101); CData (DStatus 2); CErrors;
     CErrors; CData (DStatus 4); CData (DEvaluation 105); CData (DStatus 3); CData (DStatus 4); CErrors].
Proof. vm_compute. reflexivity. Qed.
