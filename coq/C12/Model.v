(* C12 — loading any model text yields a usable model or an error.  (owner: builder-total)
   Abstract model of what ModelEvaluator::new and evaluate_invocable do with the shape of a `Definitions` value, at the places
   where the anchored code indexes a vector by a clause count or follows references recursively:

     model-evaluator/src/builders/decision_table.rs   rule.input_entries[i], rule.output_entries[i] (build), output_entry_values[0] (evaluation)
     model-evaluator/src/builders/decision.rs         bring_knowledge_requirements_into_context (build), required decisions (evaluation)
     model-evaluator/src/builders/item_definition*.rs type references followed recursively
     model-evaluator/src/model_evaluator.rs           check_cyclic_dependencies (depth-first search with an explicit stack; added by the fix 285ae4c)

   Outcomes: Ok | Err | Panic site | Diverge (a recursion that does not end: in the process, a stack overflow and abort).
   `xxx_orig` is the behaviour of the pinned commit f2b7a1b (`table_eval_orig2`: the code before d6b0858 (the repair of the aggregators)).
   No proofs in this file. *)
From Coq Require Import List Arith Bool PeanoNat.
Import ListNotations.

Inductive outcome := Ok | Err | Panic (site : nat) | Diverge.

(* ------------------------------------------------------------------ decision tables (builders/decision_table.rs)
   An abstract table: hit policy; number of input clauses; per output clause: has it a name (component_names holds the names of the
   clauses that HAVE one), its evaluated output values (empty when the clause gives none), its evaluated default output entry; per rule:
   the number of input entries and the evaluated output entry values.  A value is a natural number (the generated tables write number
   literals); null is a separate result.  Which rules match is an argument of the evaluation (it depends on the input context).
   Every place where the Rust code indexes a vector (v[i], v[0]) is an explicit bounds test here with its own Panic arm; the line numbers
   are those of the file after d6b0858.  Texts that do not parse as FEEL (an Err at build) are outside the abstraction. *)
Inductive aggregator := AList | ACount | ASum | AMin | AMax.
Inductive hit_policy := Unique | Any | Priority | First | RuleOrder | OutputOrder | Collect (a : aggregator).
Record oclause := mk_out { has_name : bool; ovalues : list nat; odefault : option nat }.
Record rule := mk_rule { in_entries : nat; outv : list nat }.
Record table := mk_table { policy : hit_policy; in_clauses : nat; outs : list oclause; rules : list rule }.
Definition out_entries (r : rule) : nat := length (outv r).
Definition out_clauses (t : table) : nat := length (outs t).
Definition names (t : table) : nat := length (filter has_name (outs t)).        (* component_names.len() *)

(* index sites *)
Definition site_input_entry := 320.        (* rule.input_entries[i] *)
Definition site_output_entry := 334.       (* rule.output_entries[i] *)
Definition site_component_name := 118.     (* self.component_names[i] in get_result *)
Definition site_default0 := 146.           (* self.default_output_values[0] *)
Definition site_matching0 := 166.          (* matching_rules[0] (lines 166, 174, 189, 197) *)
Definition site_output_value0 := 119.      (* evaluated_rule.output_entry_values[0] in get_result of the pinned commit *)
Definition site_aggregate_value0 := 238.   (* evaluated_rule.output_entry_values[0] in collect_sum / _min / _max before the repair (lines 238, 253, 268) *)

(* `for i in 0..n { v[i] }` on a vector of `len` elements: every index is tested *)
Definition all_in_bounds (n len : nat) : bool := forallb (fun i => i <? len) (seq 0 n).

(* ---- build: parse_decision_table, the loop over the rules.
   pinned commit: `for (i, _) in input clauses { rule.input_entries[i] }` then the same for the output clauses, rule by rule *)
Fixpoint table_build_rules_orig (ic oc : nat) (rs : list rule) : outcome :=
  match rs with
  | [] => Ok
  | r :: rest =>
    if negb (all_in_bounds ic (in_entries r)) then Panic site_input_entry
    else if negb (all_in_bounds oc (out_entries r)) then Panic site_output_entry
    else table_build_rules_orig ic oc rest
  end.
Definition table_build_orig (t : table) : outcome := table_build_rules_orig (in_clauses t) (out_clauses t) (rules t).

(* now (012211c): the numbers are compared first, then the same two loops *)
Fixpoint table_build_rules (ic oc : nat) (rs : list rule) : outcome :=
  match rs with
  | [] => Ok
  | r :: rest =>
    if negb (in_entries r =? ic) then Err
    else if negb (out_entries r =? oc) then Err
    else if negb (all_in_bounds ic (in_entries r)) then Panic site_input_entry
    else if negb (all_in_bounds oc (out_entries r)) then Panic site_output_entry
    else table_build_rules ic oc rest
  end.
Definition table_build (t : table) : outcome := table_build_rules (in_clauses t) (out_clauses t) (rules t).

(* ---- evaluation: the closure returned by build_decision_table_evaluator *)
Inductive result := RNull | RNum (v : nat) | RCtx (entries : list (option nat)).      (* what one rule gives; a context entry None is null *)
Inductive value := One (r : result) | Many (rs : list result).
Inductive res (A : Type) := Got (a : A) | EvalPanic (site : nat).
Arguments Got {A} a.
Arguments EvalPanic {A} site.
Definition bind {A B : Type} (x : res A) (k : A -> res B) : res B := match x with Got a => k a | EvalPanic s => EvalPanic s end.

Definition opt_eqb (a b : option nat) : bool :=
  match a, b with Some x, Some y => x =? y | None, None => true | _, _ => false end.
Fixpoint entries_eqb (xs ys : list (option nat)) : bool :=
  match xs, ys with [], [] => true | x :: xs', y :: ys' => opt_eqb x y && entries_eqb xs' ys' | _, _ => false end.
Definition result_eqb (a b : result) : bool :=
  match a, b with
  | RNull, RNull => true
  | RNum x, RNum y => x =? y
  | RCtx xs, RCtx ys => entries_eqb xs ys
  | _, _ => false
  end.

(* get_matching_rules: evaluated rules with their `matches` flag, in rule order (a rule without a flag does not match) *)
Fixpoint matching_rules (rs : list rule) (m : list bool) : list rule :=
  match rs, m with
  | r :: rs', b :: m' => if b then r :: matching_rules rs' m' else matching_rules rs' m'
  | _, _ => []
  end.

(* get_matching_rules_prioritized: stable sort_by; clause by clause (zip of both rules' values and the clauses' output values) the position
   of the value in the clause's output values decides, a value that is listed comes before one that is not *)
Fixpoint position (l : list nat) (v : nat) : option nat :=
  match l with [] => None | x :: r => if x =? v then Some 0 else match position r v with Some i => Some (S i) | None => None end end.
Fixpoint prio_cmp (xs ys : list nat) (ovs : list (list nat)) : comparison :=
  match xs, ys, ovs with
  | x :: xs', y :: ys', ov :: ovs' =>
    match position ov x, position ov y with
    | Some i, Some j => if i <? j then Lt else if j <? i then Gt else prio_cmp xs' ys' ovs'
    | Some _, None => Lt
    | None, Some _ => Gt
    | None, None => prio_cmp xs' ys' ovs'
    end
  | _, _, _ => Eq
  end.
Fixpoint insert_rule (ovs : list (list nat)) (x : rule) (l : list rule) : list rule :=
  match l with
  | [] => [x]
  | y :: l' => match prio_cmp (outv y) (outv x) ovs with Lt => y :: insert_rule ovs x l' | _ => x :: l end
  end.
Definition prioritized (ovs : list (list nat)) (l : list rule) : list rule := fold_right (insert_rule ovs) [] l.

(* v[0] *)
Definition at0 {A B : Type} (l : list A) (site : nat) (k : A -> res B) : res B := match l with x :: _ => k x | [] => EvalPanic site end.
Definition is_empty {A : Type} (l : list A) : bool := match l with [] => true | _ => false end.

(* get_result.  Pinned commit: the last arm is output_entry_values[0] *)
Definition get_result_orig (n_names : nat) (r : rule) : res result :=
  let vs := outv r in
  if 1 <? length vs then
    if negb (length vs =? n_names) then Got RNull
    else if all_in_bounds (length vs) n_names then Got (RCtx (map Some vs)) else EvalPanic site_component_name
  else at0 vs site_output_value0 (fun v => Got (RNum v)).
(* now (012211c): `else if let Some(value) = output_entry_values.first() { value } else { null }` *)
Definition get_result (n_names : nat) (r : rule) : res result :=
  let vs := outv r in
  if 1 <? length vs then
    if negb (length vs =? n_names) then Got RNull
    else if all_in_bounds (length vs) n_names then Got (RCtx (map Some vs)) else EvalPanic site_component_name
  else match vs with v :: _ => Got (RNum v) | [] => Got RNull end.

Fixpoint map_res {A B : Type} (f : A -> res B) (l : list A) : res (list B) :=
  match l with
  | [] => Got []
  | x :: r => bind (f x) (fun y => bind (map_res f r) (fun ys => Got (y :: ys)))
  end.

(* evaluate_default_output_value *)
Definition is_none {A : Type} (o : option A) : bool := match o with None => true | Some _ => false end.
Definition default_value (t : table) : res value :=
  let ds := map odefault (outs t) in
  if forallb is_none ds then Got (One RNull)
  else if length ds =? 1 then at0 ds site_default0 (fun d => Got (One (match d with Some v => RNum v | None => RNull end)))
  else if negb (length ds =? names t) then Got (One RNull)
  else Got (One (RCtx ds)).

(* the first output entry value of every matching rule.  Before d6b0858: output_entry_values[0] for every rule *)
Definition first_values_orig (l : list rule) : res (option (list nat)) :=
  bind (map_res (fun r => at0 (outv r) site_aggregate_value0 (fun v => Got v)) l) (fun vs => Got (Some vs)).
(* now: `.first().cloned()` collected into an Option: None when some rule has no output entry *)
Fixpoint first_values_opt (l : list rule) : option (list nat) :=
  match l with
  | [] => Some []
  | r :: rest => match outv r, first_values_opt rest with v :: _, Some vs => Some (v :: vs) | _, _ => None end
  end.
Definition first_values (l : list rule) : res (option (list nat)) := Got (first_values_opt l).

Definition aggregate (a : aggregator) (vs : list nat) : result :=
  match a, vs with
  | ASum, _ => RNum (fold_right Nat.add 0 vs)
  | AMin, v :: r => RNum (fold_right Nat.min v r)
  | AMax, v :: r => RNum (fold_right Nat.max v r)
  | _, _ => RNull
  end.

Section eval.
  Variable gr : nat -> rule -> res result.                          (* get_result *)
  Variable fv : list rule -> res (option (list nat)).             (* the first output values, for the aggregators *)

  (* hit policy ANY: `for rule in matching { if get_result(rule) != first_result { return null } } first_result` *)
  Fixpoint any_loop (n : nat) (first : result) (l : list rule) : res result :=
    match l with
    | [] => Got first
    | r :: rest => bind (gr n r) (fun x => if result_eqb x first then any_loop n first rest else Got RNull)
    end.

  Definition table_eval_with (t : table) (m : list bool) : res value :=
    let n := names t in
    let matching := matching_rules (rules t) m in
    let sorted := prioritized (map ovalues (outs t)) matching in
    let one (l : list rule) := if is_empty l then default_value t else at0 l site_matching0 (fun r => bind (gr n r) (fun x => Got (One x))) in
    let all (l : list rule) := if is_empty l then default_value t else bind (map_res (gr n) l) (fun xs => Got (Many xs)) in
    match policy t with
    | Unique => if is_empty matching then default_value t
                else if 1 <? length matching then Got (One RNull)
                else one matching
    | Any => if is_empty matching then default_value t
             else at0 matching site_matching0 (fun r => bind (gr n r) (fun first => bind (any_loop n first matching) (fun x => Got (One x))))
    | Priority => one sorted
    | First => one matching
    | RuleOrder => all matching
    | OutputOrder => all sorted
    | Collect AList => all matching
    | Collect ACount => if is_empty matching then default_value t else Got (One (RNum (length matching)))
    | Collect a => if 1 <? n then Got (One RNull)
                   else if is_empty matching then default_value t
                   else bind (fv matching) (fun o => match o with Some vs => Got (One (aggregate a vs)) | None => Got (One RNull) end)
    end.
End eval.

(* the code now; the pinned commit f2b7a1b at these index sites; the code between 012211c and d6b0858 *)
Definition table_eval : table -> list bool -> res value := table_eval_with get_result first_values.
Definition table_eval_orig : table -> list bool -> res value := table_eval_with get_result_orig first_values_orig.
Definition table_eval_orig2 : table -> list bool -> res value := table_eval_with get_result first_values_orig.
Definition is_aggregate (p : hit_policy) : bool := match p with Collect ASum | Collect AMin | Collect AMax => true | _ => false end.
Definition eval_outcome {A : Type} (x : res A) : outcome := match x with Got _ => Ok | EvalPanic s => Panic s end.

(* ------------------------------------------------------------------ the dependency graph: node -> required nodes.
   Nodes are decisions, knowledge models, decision services and item definitions (all in one id space); a reference to an id that
   is not a node is dangling (an error for knowledge requirements, ignored for required decisions: never a recursion). *)
Definition graph := list (nat * list nat).

Fixpoint targets (g : graph) (n : nat) : option (list nat) :=
  match g with
  | [] => None
  | (m, ts) :: rest => if m =? n then Some ts else targets rest n
  end.

(* the recursion of the builders / evaluators: follow every requirement of n, then theirs, ...  (fuel = stack) *)
Fixpoint follow (fuel : nat) (g : graph) (n : nat) : outcome :=
  match fuel with
  | O => Diverge
  | S f =>
    match targets g n with
    | None => Ok
    | Some ts => fold_left (fun acc m => match acc with
                                         | Ok => match targets g m with Some _ => follow f g m | None => Ok end   (* a dangling id is looked up and skipped *)
                                         | other => other
                                         end) ts Ok
    end
  end.

(* check_cyclic_dependencies: iterative depth-first search; colour: None = unvisited, Some false = on the current path, Some true = done *)
Definition colours := list (nat * bool).
Fixpoint colour (c : colours) (n : nat) : option bool :=
  match c with [] => None | (m, b) :: rest => if m =? n then Some b else colour rest n end.

Inductive dfsres := Cycle | NoCycle (c : colours) | DfsFuel.

Fixpoint dfs_loop (fuel : nat) (g : graph) (stack : list (nat * nat)) (c : colours) : dfsres :=
  match fuel with
  | O => DfsFuel
  | S f =>
    match stack with
    | [] => NoCycle c
    | (node, next) :: rest =>
      match targets g node with
      | None => dfs_loop f g rest ((node, true) :: c)
      | Some ts =>
        match nth_error ts next with
        | None => dfs_loop f g rest ((node, true) :: c)
        | Some t =>
          let stack' := (node, S next) :: rest in
          match colour c t with
          | Some false => Cycle
          | Some true => dfs_loop f g stack' c
          | None => match targets g t with
                    | Some _ => dfs_loop f g ((t, 0) :: stack') ((t, false) :: c)
                    | None => dfs_loop f g stack' c
                    end
          end
        end
      end
    end
  end.

Definition edge_count (g : graph) : nat := fold_right (fun e acc => length (snd e) + acc) 0 g.
Definition dfs_fuel (g : graph) : nat := 2 * (length g + edge_count g) + 2.

Fixpoint dfs_all (g : graph) (starts : list nat) (c : colours) : dfsres :=
  match starts with
  | [] => NoCycle c
  | s :: rest =>
    match colour c s with
    | Some _ => dfs_all g rest c
    | None => match dfs_loop (dfs_fuel g) g [(s, 0)] ((s, false) :: c) with
              | NoCycle c' => dfs_all g rest c'
              | other => other
              end
    end
  end.

Definition has_cycle (g : graph) : dfsres := dfs_all g (map fst g) [].

(* ------------------------------------------------------------------ a model = tables + dependency graph; the invocables are the nodes *)
Record definitions := mk_defs { tables : list table; deps : graph }.

Fixpoint first_not_ok (os : list outcome) : outcome :=
  match os with [] => Ok | Ok :: rest => first_not_ok rest | o :: _ => o end.

(* pinned commit: no cycle check, recursion limited only by the stack *)
Definition build_orig (fuel : nat) (d : definitions) : outcome :=
  first_not_ok (map table_build_orig (tables d) ++ map (follow fuel (deps d)) (map fst (deps d))).
(* evaluation: `ms` gives for every table which of its rules match (it depends on the input context); a table without a pattern: no rule matches *)
Fixpoint eval_tables (ev : table -> list bool -> res value) (ts : list table) (ms : list (list bool)) : list outcome :=
  match ts with
  | [] => []
  | t :: ts' => eval_outcome (ev t (hd [] ms)) :: eval_tables ev ts' (tl ms)
  end.
Definition evaluate_with (ev : table -> list bool -> res value) (fuel : nat) (d : definitions) (ms : list (list bool)) (n : nat) : outcome :=
  first_not_ok (follow fuel (deps d) n :: eval_tables ev (tables d) ms).
Definition evaluate_orig := evaluate_with table_eval_orig.
Definition evaluate_orig2 := evaluate_with table_eval_orig2.      (* between 012211c and d6b0858 *)

Definition build (fuel : nat) (d : definitions) : outcome :=
  match has_cycle (deps d) with
  | Cycle => Err
  | DfsFuel => Diverge
  | NoCycle _ => first_not_ok (map table_build (tables d) ++ map (follow fuel (deps d)) (map fst (deps d)))
  end.
Definition evaluate := evaluate_with table_eval.

(* reachability in at least one step through nodes of the graph *)
Inductive path (g : graph) : nat -> nat -> Prop :=
| path_one : forall n m ts, targets g n = Some ts -> In m ts -> path g n m
| path_step : forall n m k ts, targets g n = Some ts -> In m ts -> path g m k -> path g n k.
Definition on_cycle (g : graph) (n : nat) : Prop := path g n n.

(* all graphs over the nodes 0..k-1 in which every node is defined: a row of target lists per node (used by the finite sweep) *)
Fixpoint sublists (l : list nat) : list (list nat) :=
  match l with [] => [[]] | x :: r => let s := sublists r in s ++ map (cons x) s end.
Fixpoint all_rows (k : nat) (choices : list (list nat)) : list (list (list nat)) :=
  match k with O => [[]] | S j => flat_map (fun row => map (cons row) (all_rows j choices)) choices end.
Definition graphs_upto (k : nat) : list graph :=
  map (fun rows => combine (seq 0 k) rows) (all_rows k (sublists (seq 0 (S k)))).

(* reference notion of a cycle for the sweep: some node reaches itself within `length g` steps (boolean transitive closure) *)
Fixpoint reach (fuel : nat) (g : graph) (n target : nat) : bool :=
  match fuel with
  | O => false
  | S f => match targets g n with
           | None => false
           | Some ts => existsb (fun m => (m =? target) && (match targets g m with Some _ => true | None => false end) || reach f g m target) ts
           end
  end.
Definition cyclic_ref (g : graph) : bool := existsb (fun n => reach (length g) g n n) (map fst g).
Definition dfs_says_cycle (g : graph) : bool := match has_cycle g with Cycle => true | _ => false end.
Definition dfs_in_fuel (g : graph) : bool := match has_cycle g with DfsFuel => false | _ => true end.

(* ------------------------------------------------------------------ item definitions are trees: a type reference may sit in a component of a component ...
   check_cyclic_dependencies collects the references of the WHOLE tree of an item definition (collect_type_references, recursive) *)
Inductive itemdef := ItemDef (name : nat) (type_ref : option nat) (components : list itemdef).
Definition item_name (t : itemdef) : nat := match t with ItemDef n _ _ => n end.
Definition own_ref (t : itemdef) : list nat := match t with ItemDef _ (Some x) _ => [x] | _ => [] end.
Fixpoint collect_refs (t : itemdef) : list nat :=
  match t with ItemDef _ r cs => (match r with Some x => [x] | None => [] end) ++ flat_map collect_refs cs end.
(* a flat variant (the definition and its direct components only) — NOT what the code does; kept to state what it would miss *)
Definition flat_refs (t : itemdef) : list nat :=
  match t with ItemDef _ r cs => (match r with Some x => [x] | None => [] end) ++ flat_map own_ref cs end.
Definition item_graph (defs : list itemdef) : graph := map (fun t => (item_name t, collect_refs t)) defs.

(* x is the type reference of the definition or of a component at any depth *)
Inductive occurs (x : nat) : itemdef -> Prop :=
| occ_here : forall n cs, occurs x (ItemDef n (Some x) cs)
| occ_deep : forall n r cs c, In c cs -> occurs x c -> occurs x (ItemDef n r cs).

(* a chain of components of the given depth whose innermost component refers to x *)
Fixpoint nested (depth : nat) (x : nat) : itemdef :=
  match depth with O => ItemDef 0 (Some x) [] | S d => ItemDef 0 None [nested d x; ItemDef 0 (Some 99) []] end.
