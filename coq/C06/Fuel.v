(* C06 — the fuel parse_tokens uses (length + 1) is always enough.  Owner: builder-parse. *)
From Coq Require Import List NArith Bool Arith Lia.
From DV Require Import C06.Model.
Import ListNotations.

(* a parse that succeeds with some fuel consumes at least one token and succeeds with any fuel above the number of tokens it consumed *)
Definition Suff (pe : nat -> list token -> pres) : Prop := forall m ts t rest, pe m ts = Some (t, rest) ->
  length rest < length ts /\ forall f', S (length ts - length rest) <= f' -> parse_expr f' m ts = Some (t, rest).

Ltac inv_pe Hs :=
  match goal with
  | H : context [match ?pe ?m ?ts with _ => _ end] |- _ =>
    let E := fresh "E" in let x := fresh "x" in let r := fresh "r" in
    destruct (pe m ts) as [[x r]|] eqn:E; [destruct (Hs _ _ _ _ E) as [? ?]|discriminate H]
  end.

Lemma loop_suff : forall pe, Suff pe -> forall g m na l ts t rest, loop pe g m na l ts = Some (t, rest) ->
  length rest <= length ts /\
  forall f' g', length ts - length rest <= f' -> S (length ts - length rest) <= g' -> loop (parse_expr f') g' m na l ts = Some (t, rest).
Proof.
  intros pe Hs. induction g as [|g IH]; intros m na l ts t rest H; [discriminate H|].
  cbn [loop] in H.
  destruct ts as [|tk ts'].
  { inversion H; subst. split; [lia|]. intros f' g' _ Hg. destruct g'; [lia|]. reflexivity. }
  destruct tk.
  - inversion H; subst. split; [lia|]. intros f' g' _ Hg. destruct g'; [lia|]. reflexivity.
  - destruct (m <=? lv o) eqn:Em.
    + destruct (is_non o && (lv o =? na)) eqn:En; [discriminate H|]. inv_pe Hs.
      destruct (IH _ _ _ _ _ _ H) as [Hl Hk]. cbn [length] in *. split; [lia|].
      intros f' g' Hf Hg. destruct g' as [|g']; [lia|]. cbn [loop]. rewrite Em, En.
      rewrite H1 by lia. apply Hk; lia.
    + inversion H; subst. split; [lia|]. intros f' g' _ Hg. destruct g'; [lia|]. cbn [loop]. rewrite Em. reflexivity.
  - destruct (m <=? lv_post) eqn:Em.
    + inv_pe Hs. destruct r as [|t0 r]; [discriminate H|]. destruct t0; try discriminate H.
      destruct (IH _ _ _ _ _ _ H) as [Hl Hk]. cbn [length] in *. split; [lia|].
      intros f' g' Hf Hg. destruct g' as [|g']; [lia|]. cbn [loop]. rewrite Em.
      rewrite H1 by lia. apply Hk; lia.
    + inversion H; subst. split; [lia|]. intros f' g' _ Hg. destruct g'; [lia|]. cbn [loop]. rewrite Em. reflexivity.
  - inversion H; subst. split; [lia|]. intros f' g' _ Hg. destruct g'; [lia|]. reflexivity.
  - destruct (m <=? lv_post) eqn:Em.
    + inv_pe Hs. destruct r as [|t0 r]; [discriminate H|]. destruct t0; try discriminate H.
      destruct (IH _ _ _ _ _ _ H) as [Hl Hk]. cbn [length] in *. split; [lia|].
      intros f' g' Hf Hg. destruct g' as [|g']; [lia|]. cbn [loop]. rewrite Em.
      rewrite H1 by lia. apply Hk; lia.
    + inversion H; subst. split; [lia|]. intros f' g' _ Hg. destruct g'; [lia|]. cbn [loop]. rewrite Em. reflexivity.
  - inversion H; subst. split; [lia|]. intros f' g' _ Hg. destruct g'; [lia|]. reflexivity.
  - destruct (m <=? lv_between) eqn:Em.
    + inv_pe Hs. destruct r as [|t0 r]; [discriminate H|]. destruct t0; try discriminate H.
      inv_pe Hs.
      destruct (IH _ _ _ _ _ _ H) as [Hl Hk]. cbn [length] in *. split; [lia|].
      intros f' g' Hf Hg. destruct g' as [|g']; [lia|]. cbn [loop]. rewrite Em.
      rewrite H1 by lia. rewrite H3 by lia. apply Hk; lia.
    + inversion H; subst. split; [lia|]. intros f' g' _ Hg. destruct g'; [lia|]. cbn [loop]. rewrite Em. reflexivity.
  - inversion H; subst. split; [lia|]. intros f' g' _ Hg. destruct g'; [lia|]. reflexivity.
  - destruct (m <=? lv_inst) eqn:Em.
    + destruct (IH _ _ _ _ _ _ H) as [Hl Hk]. cbn [length] in *. split; [lia|].
      intros f' g' Hf Hg. destruct g' as [|g']; [lia|]. cbn [loop]. rewrite Em. apply Hk; lia.
    + inversion H; subst. split; [lia|]. intros f' g' _ Hg. destruct g'; [lia|]. cbn [loop]. rewrite Em. reflexivity.
  - destruct (m <=? lv_post) eqn:Em.
    + destruct (IH _ _ _ _ _ _ H) as [Hl Hk]. cbn [length] in *. split; [lia|].
      intros f' g' Hf Hg. destruct g' as [|g']; [lia|]. cbn [loop]. rewrite Em. apply Hk; lia.
    + inversion H; subst. split; [lia|]. intros f' g' _ Hg. destruct g'; [lia|]. cbn [loop]. rewrite Em. reflexivity.
Qed.

Lemma prefix_suff : forall pe, Suff pe -> forall ts l r, prefix pe ts = Some (l, r) ->
  length r < length ts /\ forall f', length ts - length r <= f' -> prefix (parse_expr f') ts = Some (l, r).
Proof.
  intros pe Hs ts l r H. unfold prefix in H. destruct ts as [|tk ts']; [discriminate H|].
  destruct tk; try discriminate H.
  - inversion H; subst. cbn [length]. split; [lia|]. intros. reflexivity.
  - destruct o; try discriminate H. inv_pe Hs. inversion H; subst. cbn [length] in *. split; [lia|].
    intros f' Hf. cbn [prefix]. rewrite H1 by lia. reflexivity.
  - inv_pe Hs. destruct r0 as [|t0 r0]; [discriminate H|]. destruct t0; try discriminate H. inversion H; subst.
    cbn [length] in *. split; [lia|]. intros f' Hf. cbn [prefix]. rewrite H1 by lia. reflexivity.
Qed.

Lemma parse_expr_suff : forall f, Suff (parse_expr f).
Proof.
  induction f as [|f IH]; intros m ts t rest H; [discriminate H|].
  cbn [parse_expr] in H.
  destruct (prefix (parse_expr f) ts) as [[l r]|] eqn:E; [|discriminate H].
  destruct (prefix_suff _ IH _ _ _ E) as [Hl Hp].
  destruct (loop_suff _ IH _ _ _ _ _ _ _ H) as [Hl2 Hk].
  split; [lia|]. intros f' Hf. destruct f' as [|f']; [lia|]. cbn [parse_expr].
  rewrite Hp by lia. apply Hk; lia.
Qed.

(* the fuel of parse_tokens is enough: whatever some fuel parses, parse_tokens parses *)
Theorem parse_tokens_complete : forall f ts t, parse_fuel f ts = Some t -> parse_tokens ts = Some t.
Proof.
  intros f ts t H. unfold parse_tokens, parse_fuel in *.
  destruct (parse_expr f 0 ts) as [[x rest]|] eqn:E; [|discriminate H].
  destruct rest; [|discriminate H]. inversion H; subst.
  destruct (parse_expr_suff f 0 ts t [] E) as [_ Hk]. rewrite Hk; [reflexivity|]. cbn [length]. lia.
Qed.

From DV Require Import C06.Proofs.

Theorem roundtrip_min_tokens : forall t, parse_tokens (render_min t) = Some t.
Proof. intro t. destruct (roundtrip_min t) as [f0 H]. eapply parse_tokens_complete. exact (H f0 (le_n f0)). Qed.

Theorem roundtrip_full_tokens : forall t, parse_tokens (render_full t) = Some t.
Proof. intro t. destruct (roundtrip_full t) as [f0 H]. eapply parse_tokens_complete. exact (H f0 (le_n f0)). Qed.
