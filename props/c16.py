"""C16 — type conformance is a preorder compatible with equivalence; coercion yields a conforming value or null.
Proof: coq/Props/C16.v (all types of any depth/arity).  Correspondence: FeelType::is_equivalent / is_conformant /
coerced / Value::type_of of the working tree vs coq/C16/Model.v on the exhaustive depth-1 universe and sampled deeper types."""
import itertools
import json

from vlib import core
from vlib.coqterm import App

HEADER = 'From Coq Require Import List NArith Bool.\nFrom DV Require Import C16.Model.\nImport ListNotations.\n'

SIMPLE = ['Any', 'Null', 'number', 'string', 'boolean', 'date', 'time', 'date and time', 'days and time duration', 'years and months duration']
COQ_S = dict(zip(SIMPLE, ['SAny', 'SNull', 'SNumber', 'SString', 'SBoolean', 'SDate', 'STime', 'SDateTime', 'SDtd', 'SYmd']))
S_OF = {v: k for k, v in COQ_S.items()}
KEYS = {'a': 1, 'b': 2, 'c': 3}
S4 = ['Any', 'Null', 'number', 'string']

# types as nested tuples: ('s', name) | ('list', t) | ('range', t) | ('ctx', ((k, t), ...)) | ('fun', (ps...), r)


def tj(t):
    k = t[0]
    if k == 's':
        return t[1]
    if k in ('list', 'range'):
        return {k: tj(t[1])}
    if k == 'ctx':
        return {'ctx': [[kk, tj(tt)] for kk, tt in t[1]]}
    return {'fun': [[tj(p) for p in t[1]], tj(t[2])]}


def tc(t):
    k = t[0]
    if k == 's':
        return '(TS %s)' % COQ_S[t[1]]
    if k == 'list':
        return '(TList %s)' % tc(t[1])
    if k == 'range':
        return '(TRange %s)' % tc(t[1])
    if k == 'ctx':
        return '(TCtx [%s])' % '; '.join('(%d%%N, %s)' % (KEYS[kk], tc(tt)) for kk, tt in sorted(t[1]))
    return '(TFun [%s] %s)' % ('; '.join(tc(p) for p in t[1]), tc(t[2]))


def tdisp(t):
    k = t[0]
    if k == 's':
        return t[1]
    if k == 'list':
        return 'list<%s>' % tdisp(t[1])
    if k == 'range':
        return 'range<%s>' % tdisp(t[1])
    if k == 'ctx':
        return 'context<%s>' % ', '.join('%s: %s' % (kk, tdisp(tt)) for kk, tt in sorted(t[1]))
    return 'function<%s>->%s' % (', '.join(tdisp(p) for p in t[1]), tdisp(t[2]))


def term_to_type(x):
    """parsed Coq ftype -> tuple form"""
    if x.name == 'TS':
        return ('s', S_OF[x.args[0].name])
    if x.name == 'TList':
        return ('list', term_to_type(x.args[0]))
    if x.name == 'TRange':
        return ('range', term_to_type(x.args[0]))
    if x.name == 'TCtx':
        inv = {v: k for k, v in KEYS.items()}
        return ('ctx', tuple((inv[k], term_to_type(t)) for k, t in x.args[0]))
    return ('fun', tuple(term_to_type(p) for p in x.args[0]), term_to_type(x.args[1]))


def universe1():
    s = [('s', n) for n in SIMPLE]
    s4 = [('s', n) for n in S4]
    u = list(s)
    u += [('list', t) for t in s] + [('range', t) for t in s]
    u.append(('ctx', ()))
    u += [('ctx', (('a', t),)) for t in s4] + [('ctx', (('b', t),)) for t in s4]
    u += [('ctx', (('a', t), ('b', t2))) for t in s4 for t2 in s4]
    u += [('fun', (), r) for r in s4]
    u += [('fun', (p,), r) for p in s4 for r in s4]
    u += [('fun', (p, q), r) for p in s4 for q in s4 for r in s4]
    return u


def rand_type(rng, depth):
    if depth == 0 or rng.random() < 0.25:
        return ('s', rng.choice(SIMPLE if rng.random() < 0.5 else S4))
    k = rng.choice(['list', 'range', 'ctx', 'fun', 'fun', 'ctx'])
    if k in ('list', 'range'):
        return (k, rand_type(rng, depth - 1))
    if k == 'ctx':
        ks = rng.sample(['a', 'b', 'c'], rng.randint(0, 3))
        return ('ctx', tuple(sorted((kk, rand_type(rng, depth - 1)) for kk in ks)))
    return ('fun', tuple(rand_type(rng, depth - 1) for _ in range(rng.randint(0, 2))), rand_type(rng, depth - 1))


def mutate(rng, t):
    """a type related to t (often a sub- or supertype)"""
    k = t[0]
    r = rng.random()
    if r < 0.15:
        return ('s', 'Null')
    if r < 0.3:
        return ('s', 'Any')
    if k == 's':
        return ('s', rng.choice(SIMPLE))
    if k in ('list', 'range'):
        return (k, mutate(rng, t[1]))
    if k == 'ctx':
        es = list(t[1])
        if es and rng.random() < 0.4:
            es.pop(rng.randrange(len(es)))
        elif es:
            i = rng.randrange(len(es))
            es[i] = (es[i][0], mutate(rng, es[i][1]))
        else:
            es.append(('a', ('s', 'number')))
        return ('ctx', tuple(sorted(es)))
    ps = list(t[1])
    if ps and rng.random() < 0.5:
        i = rng.randrange(len(ps))
        ps[i] = mutate(rng, ps[i])
        return ('fun', tuple(ps), t[2])
    return ('fun', tuple(ps), mutate(rng, t[2]))


def law_violation(U, eq, conf):
    """The laws of the property evaluated on the implementation's own answers; returns (text, witness types) or None."""
    n = len(U)
    idx = {t: i for i, t in enumerate(U)}
    for i in range(n):
        if not eq[i][i]:
            return 'equivalence is not reflexive', [U[i]]
        if not conf[i][i]:
            return 'conformance is not reflexive', [U[i]]
    anyi, nulli = idx.get(('s', 'Any')), idx.get(('s', 'Null'))
    for i in range(n):
        if anyi is not None and not conf[i][anyi]:
            return 'a type does not conform to Any', [U[i]]
        if nulli is not None and not conf[nulli][i]:
            return 'Null does not conform to a type', [U[i]]
        for j in range(n):
            if eq[i][j] != eq[j][i]:
                return 'equivalence is not symmetric', [U[i], U[j]]
            if eq[i][j] and not (conf[i][j] and conf[j][i]):
                return 'equivalent types do not conform to each other', [U[i], U[j]]
            a, b = U[i], U[j]
            if a[0] == 'fun' and b[0] == 'fun' and eq[i][j] and a[2] in idx and b[2] in idx and not eq[idx[a[2]]][idx[b[2]]]:
                return 'function types with non-equivalent result types are equivalent', [a, b]
            if a[0] == b[0] and a[0] in ('list', 'range') and a[1] in idx and b[1] in idx and conf[i][j] != conf[idx[a[1]]][idx[b[1]]]:
                return '%s types do not conform covariantly' % a[0], [a, b]
            if a[0] == 'fun' and b[0] == 'fun' and len(a[1]) == len(b[1]) and all(p in idx for p in a[1] + b[1]) and a[2] in idx and b[2] in idx:
                want = all(conf[idx[q]][idx[p]] for p, q in zip(a[1], b[1])) and conf[idx[a[2]]][idx[b[2]]]
                if conf[i][j] != want:
                    return 'function types do not conform contravariantly in parameters / covariantly in the result', [a, b]
    # transitivity via boolean row sets
    crow = [set(j for j in range(n) if conf[i][j]) for i in range(n)]
    erow = [set(j for j in range(n) if eq[i][j]) for i in range(n)]
    for i in range(n):
        for j in crow[i]:
            d = crow[j] - crow[i]
            if d:
                return 'conformance is not transitive', [U[i], U[j], U[min(d)]]
        for j in erow[i]:
            d = erow[j] - erow[i]
            if d:
                return 'equivalence is not transitive', [U[i], U[j], U[min(d)]]
    return None


def matrices_impl(ctx, U):
    r = ctx.run_impl('types', [{'op': 'matrix', 'types': [tj(t) for t in U]}])[0]
    if 'eq' not in r:
        raise RuntimeError('types matrix failed: %s' % r)
    return [[c == '1' for c in row] for row in r['eq']], [[c == '1' for c in row] for row in r['conf']]


def matrices_model(ctx, U, tag):
    # one Eval per row keeps the printed terms small; rows are sharded over coqc processes
    defs = HEADER + 'Definition U : list ftype := [%s].\n' % ';\n '.join(tc(t) for t in U)
    rows = ctx.run_model(defs, ['map (fun b => (equivalent %s b, conformant %s b)) U' % (tc(a), tc(a)) for a in U], shard_size=max(4, len(U) // 16 + 1), tag=tag)
    return [[p[0] for p in row] for row in rows], [[p[1] for p in row] for row in rows]


# ---------------------------------------------------------------- values
def rand_value(rng, t, depth=2):
    """a value whose type conforms (mostly) to t"""
    k = t[0]
    if rng.random() < 0.08:
        return None
    if k == 's':
        if t[1] == 'Any':
            return rand_value(rng, ('s', rng.choice(SIMPLE[2:])), depth)
        if t[1] == 'Null':
            return None
        return ('a', t[1], rng.randint(1, 3))
    if k == 'list':
        n = rng.choice([0, 1, 1, 2, 3])
        return ('l', tuple(rand_value(rng, t[1], depth - 1) for _ in range(n)))
    if k == 'range':
        return ('r', rand_value(rng, t[1], depth - 1), rand_value(rng, t[1], depth - 1))
    if k == 'ctx':
        es = [(kk, rand_value(rng, tt, depth - 1)) for kk, tt in t[1]]
        if rng.random() < 0.3:
            es.append(('c', ('a', 'number', 1)))
        return ('c', tuple(sorted(dict(es).items())))
    return ('f', t[1], t[2])


def vj(v):
    if v is None:
        return None
    k = v[0]
    if k == 'a':
        return {'a': [v[1], v[2]]}
    if k == 'l':
        return {'l': [vj(x) for x in v[1]]}
    if k == 'c':
        return {'c': [[kk, vj(x)] for kk, x in v[1]]}
    if k == 'r':
        return {'r': [vj(v[1]), vj(v[2])]}
    return {'f': [[tj(p) for p in v[1]], tj(v[2])]}


def vc(v):
    if v is None:
        return 'VNull'
    k = v[0]
    if k == 'a':
        return '(VAtom %s %d%%N)' % (COQ_S[v[1]], v[2])
    if k == 'l':
        return '(VList [%s])' % '; '.join(vc(x) for x in v[1])
    if k == 'c':
        return '(VCtx [%s])' % '; '.join('(%d%%N, %s)' % (KEYS[kk], vc(x)) for kk, x in v[1])
    if k == 'r':
        return '(VRange %s %s)' % (vc(v[1]), vc(v[2]))
    return '(VFun [%s] %s)' % ('; '.join(tc(p) for p in v[1]), tc(v[2]))


def classify_model(res, vterm):
    if res == vterm:
        return 'same'
    if isinstance(res, App) and res.name == 'VList' and len(res.args[0]) == 1 and res.args[0][0] == vterm:
        return 'wrap'
    if isinstance(vterm, App) and vterm.name == 'VList' and len(vterm.args[0]) == 1 and vterm.args[0][0] == res:
        return 'unwrap'
    if isinstance(res, App) and res.name == 'VNull':
        return 'null'
    return 'other'


def run(ctx):
    ctx.proof_gate()
    ctx.build_harness()
    rng = ctx.rng
    # ---- exhaustive depth-1 universe
    U = universe1()
    eq_i, conf_i = matrices_impl(ctx, U)
    eq_m, conf_m = matrices_model(ctx, U, 'u1')
    batches = [('depth-1 universe (exhaustive, %d types)' % len(U), U, eq_i, conf_i, eq_m, conf_m)]
    # ---- sampled deeper types with related variants
    n2 = ctx.pick(70, 260)
    seen, U2 = set(), []
    while len(U2) < n2:
        t = rand_type(rng, rng.choice([2, 2, 3]))
        for x in [t] + [mutate(rng, t) for _ in range(3)] + [('list', t), ('fun', (t,), t)]:
            if x not in seen:
                seen.add(x)
                U2.append(x)
    # close under the components needed by the variance laws
    for t in list(U2):
        for comp in ([t[1]] if t[0] in ('list', 'range') else (list(t[1]) + [t[2]] if t[0] == 'fun' else [])):
            if comp not in seen:
                seen.add(comp)
                U2.append(comp)
    U2 += [x for x in [('s', 'Any'), ('s', 'Null')] if x not in seen]
    e2i, c2i = matrices_impl(ctx, U2)
    e2m, c2m = matrices_model(ctx, U2, 'u2')
    batches.append(('sampled deeper types with related variants (%d types)' % len(U2), U2, e2i, c2i, e2m, c2m))
    for name, UU, ei, ci, em, cm in batches:
        n = len(UU)
        ctx.evaluations += n * n
        lv = law_violation(UU, ei, ci)
        if lv:
            ctx.violation('%s: %s' % (lv[0], [tdisp(t) for t in lv[1]]), {'types': [tj(t) for t in lv[1]], 'law': lv[0]})
        for i in range(n):
            for j in range(n):
                ctx.corr_checked += 1
                if ei[i][j] or ci[i][j] or UU[i][0] == UU[j][0] != 's':
                    ctx.nontrivial.add((UU[i], UU[j]))
                if ei[i][j] != em[i][j] or ci[i][j] != cm[i][j]:
                    ctx.corr_broken('is_equivalent/is_conformant', {'a': tdisp(UU[i]), 'b': tdisp(UU[j])},
                                    {'equivalent': ei[i][j], 'conformant': ci[i][j]}, {'equivalent': em[i][j], 'conformant': cm[i][j]})
        ctx.sample({'batch': name, 'example_pair': [tdisp(UU[-1]), tdisp(UU[len(UU) // 2])],
                    'equivalent': ei[-1][len(UU) // 2], 'conformant': ci[-1][len(UU) // 2]})
    # ---- coercion
    cases = []
    pool = U + U2
    for _ in range(ctx.pick(2500, 30000)):
        t = rng.choice(pool)
        src = t
        r = rng.random()
        if r < 0.25:
            src = ('list', t)                  # unwrap candidates
        elif r < 0.45 and t[0] == 'list':
            src = t[1]                         # wrap candidates
        elif r < 0.6:
            src = rng.choice(pool)             # unrelated
        v = rand_value(rng, src)
        if r < 0.25 and v is not None and v[0] == 'l' and rng.random() < 0.7:
            v = ('l', v[1][:1] if v[1] else (rand_value(rng, t),))
        cases.append((t, v))
    # corpus: the two fixed defects
    cases = [(('list', ('s', 'number')), ('l', (('l', (('a', 'number', 1),)),))), (('s', 'number'), ('l', (('a', 'number', 1),)))] + cases
    impl = ctx.run_impl('types', [{'op': 'coerce', 't': tj(t), 'v': vj(v)} for t, v in cases])
    model = ctx.run_model(HEADER, ['(coerced %s %s, type_of %s, %s)' % (tc(t), vc(v), vc(v), vc(v)) for t, v in cases], shard_size=400, tag='co')
    classes = {}
    for (t, v), ri, rm in zip(cases, impl, model):
        ctx.evaluations += 1
        case = {'target': tdisp(t), 'value': vj(v)}
        if 'class' not in ri:
            ctx.violation('coerced panicked or failed: %s' % ri, case, impl=ri)
            continue
        classes[ri['class']] = classes.get(ri['class'], 0) + 1
        if ri['class'] != 'same':
            ctx.nontrivial.add((t, v))
        if ri['class'] == 'other' or not (ri['result_null'] or ri['result_conforms']) or not ri['idempotent']:
            ctx.violation('coercion result neither conforms to the target nor is null, or coercing twice changes it: %s' % ri, case, impl=ri)
            continue
        ctx.corr_checked += 1
        mclass = classify_model(rm[0], rm[2])
        mtype = tdisp(term_to_type(rm[1]))
        if mclass != ri['class'] or mtype != ri['type_of']:
            # the model's coerced is proved to follow the property's wording (identity / wrap / unwrap / null): a class mismatch is a failing input
            if mclass != ri['class']:
                ctx.violation('coerced gives %s where the property prescribes %s (type of value %s, target %s)' % (ri['class'], mclass, ri['type_of'], tdisp(t)),
                              case, impl=ri, model={'class': mclass, 'type_of': mtype})
            else:
                ctx.corr_broken('type_of', case, ri['type_of'], mtype)
    ctx.sample({'coerce': {'target': tdisp(cases[5][0]), 'value': vj(cases[5][1]), 'impl': impl[5]}})
    return ctx.finish(
        rule='all ordered pairs of the depth-1 universe (10 simple types; list/range of each; contexts with 0..2 entries and functions with 0..2 parameters over '
             '{Any, Null, number, string}) exhaustively, all ordered pairs of a random sample of deeper types together with mutated relatives and their components; '
             'laws (reflexivity, symmetry, transitivity over all triples, Any/Null, variance, function results) are evaluated on the implementation\'s own matrices; '
             'coercion on generated (target, value) pairs biased to wrap/unwrap candidates; non-trivial = related pair (same constructor or relation holds) / coercion that is not the identity',
        extra_cov={'exhaustive': False, 'universe1_size': len(U), 'sampled_types': len(U2), 'coercion_classes': classes},
        assumptions=['context keys a,b,c stand for all names (only key equality matters)', 'atom payloads are opaque to types'])


def replay(ctx, path):
    obj = json.load(open(path))
    ctx.build_harness()
    c = obj['case']
    if 'types' in c:
        r = ctx.run_impl('types', [{'op': 'matrix', 'types': c['types']}])[0]
        print('law:', c['law'], '\ntypes:', c['types'], '\nimplementation matrices:', r)
        return 1
    print(c)
    return 1


MANIFEST = dict(
    technique='Coq proof (fuelled transliteration of is_equivalent/is_conformant/coerced; preorder, equivalence, variance and coercion laws for all types) with model/code correspondence',
    text="Theorems (coq/Props/C16.v, closed under the global context) hold for every type of any depth and arity whose context keys are unique: equivalence is reflexive/symmetric/transitive and implies mutual conformance, conformance is reflexive/transitive with Any top and Null bottom, list/range/context/function variance, function results, coercion = identity/wrap/unwrap/null, conforms-or-null, idempotent. Fuel: the relations are transliterated with fuel and answer false when it runs out (C16_fuel_needed); once the fuel covers the two types (size a + size b for equivalence and type equality, one more for conformance) more fuel changes nothing and the value is that of the saturated functions the theorems are about (C16_equiv_fuel_adequate, C16_conf_fuel_adequate, C16_type_eq_fuel_adequate, C16_equiv_saturated, C16_conf_saturated). Conformance is also given as an inductive relation Conf without fuel whose rules are the sentences of the property; the implementation's relation decides it on types with unique context keys (C16_conformant_iff_Conf, C16_conf_decides_Conf), and reflexivity, transitivity (no hypothesis), Null bottom / Any top and the four variance sentences are restated for Conf (C16_Conf_*); equivalence has no inductive counterpart. Coercion as one equation: coerced T v = the first of v, [v], (x when v = [x]) whose type conforms to T, else null (C16_coerced_characterisation, decision procedure coerced_spec written with find, independently of the branches of coerced; the branch-shaped theorems C16_coerced_identity/_wrap/_unwrap remain as corollaries, C16_coerced_cases). Tied to feel/src/types.rs by comparing both relations on the exhaustive depth-1 universe and sampled deeper types, and coerced/type_of on generated values; the laws are also evaluated on the implementation's own answers.",
    note='Trusted: Coq kernel + vm_compute, hand-written model of types.rs / Value::type_of (correspondence-checked, not verified), harness. Atom payloads and names are abstract.')
