(* C09 — the UTF-8 byte order of two strings is the lexicographic order of their code points.
   Rust's `String::cmp` / `str::cmp` compares the UTF-8 byte sequences; the model (C09/Values.v `lcmp`)
   compares lists of Unicode scalar values.  Here: the encoding, and the proof that both orders coincide
   for all strings of scalar values (any length).  No finite sweep: the facts about the 0x110000 code points
   are arithmetic on the four length classes. *)
From Coq Require Import List NArith ZArith Bool Lia.
From DV Require Import C09.Values.
Import ListNotations.
Open Scope N_scope.

(* lia on N with division by constants *)
Ltac Zify.zify_post_hook ::= Z.to_euclidean_division_equations.

(* ---------------- the encoding (RFC 3629 / core::char::encode_utf8_raw) ---------------- *)

(* a Unicode scalar value: 0..0x10FFFF without the surrogates D800..DFFF (exactly the values of a Rust `char`) *)
Definition scalar (c : N) : Prop := c < 0xD800 \/ (0xE000 <= c /\ c < 0x110000).
Definition scalarb (c : N) : bool := (c <? 0xD800) || ((0xE000 <=? c) && (c <? 0x110000)).

Definition utf8 (c : N) : list N :=
  if c <? 0x80 then [c]
  else if c <? 0x800 then [0xC0 + c / 64; 0x80 + c mod 64]
  else if c <? 0x10000 then [0xE0 + c / 4096; 0x80 + (c / 64) mod 64; 0x80 + c mod 64]
  else [0xF0 + c / 262144; 0x80 + (c / 4096) mod 64; 0x80 + (c / 64) mod 64; 0x80 + c mod 64].

Fixpoint encode (s : list N) : list N :=
  match s with
  | [] => []
  | c :: r => utf8 c ++ encode r
  end.

(* lexicographic order of lists of N (what `<[u8] as Ord>::cmp` computes on the bytes) *)
Fixpoint cmp_list (a b : list N) : comparison :=
  match a, b with
  | [], [] => Eq
  | [], _ :: _ => Lt
  | _ :: _, [] => Gt
  | x :: a', y :: b' => match N.compare x y with Eq => cmp_list a' b' | c => c end
  end.

(* ---------------- the model's string comparison is cmp_list on code points ---------------- *)
Lemma lcmp_is_cmp_list : forall a b, lcmp a b = cmp_list a b.
Proof. intros a b. reflexivity. Qed.   (* the two definitions are the same fixpoint *)

(* ---------------- cmp_list ---------------- *)
Lemma cmp_list_refl : forall a, cmp_list a a = Eq.
Proof. induction a as [|x a IH]; cbn [cmp_list]; [reflexivity|]. rewrite N.compare_refl. exact IH. Qed.

Lemma cmp_list_app_same : forall l r s, cmp_list (l ++ r) (l ++ s) = cmp_list r s.
Proof. induction l as [|x l IH]; intros r s; cbn [app cmp_list]; [reflexivity|]. rewrite N.compare_refl. apply IH. Qed.

Lemma cmp_cons_lt : forall x y a b, x < y \/ (x = y /\ cmp_list a b = Lt) -> cmp_list (x :: a) (y :: b) = Lt.
Proof.
  intros x y a b [H | [H1 H2]]; cbn [cmp_list].
  - apply N.compare_lt_iff in H. rewrite H. reflexivity.
  - subst y. rewrite N.compare_refl. exact H2.
Qed.

Lemma cmp_cons_gt : forall x y a b, y < x \/ (x = y /\ cmp_list a b = Gt) -> cmp_list (x :: a) (y :: b) = Gt.
Proof.
  intros x y a b [H | [H1 H2]]; cbn [cmp_list].
  - apply N.compare_gt_iff in H. rewrite H. reflexivity.
  - subst y. rewrite N.compare_refl. exact H2.
Qed.

(* ---------------- shape of one encoding ---------------- *)
Ltac fa_bytes := repeat (apply Forall_cons; [cbv beta; lia|]); apply Forall_nil.
Lemma utf8_bytes : forall c, c < 0x110000 -> Forall (fun b => b < 256) (utf8 c).
Proof.
  intros c H. unfold utf8.
  destruct (c <? 0x80) eqn:E1; [apply N.ltb_lt in E1 | apply N.ltb_ge in E1].
  { fa_bytes. }
  destruct (c <? 0x800) eqn:E2; [apply N.ltb_lt in E2 | apply N.ltb_ge in E2].
  { fa_bytes. }
  destruct (c <? 0x10000) eqn:E3; [apply N.ltb_lt in E3 | apply N.ltb_ge in E3].
  { fa_bytes. }
  fa_bytes.
Qed.

Lemma utf8_length : forall c, (1 <= length (utf8 c) <= 4)%nat.
Proof. intros c. unfold utf8. destruct (c <? 0x80), (c <? 0x800), (c <? 0x10000); cbn [length]; lia. Qed.

Lemma utf8_nonempty : forall c, exists b t, utf8 c = b :: t.
Proof. intros c. unfold utf8. destruct (c <? 0x80), (c <? 0x800), (c <? 0x10000); eauto. Qed.

(* the leading byte tells the length class; continuation bytes are 0x80..0xBF: never a leading byte *)
Lemma utf8_lead : forall c, c < 0x110000 -> exists b t, utf8 c = b :: t /\
  (b < 0x80 \/ 0xC2 <= b) /\ b < 0xF5 /\ Forall (fun x => 0x80 <= x /\ x < 0xC0) t /\
  length t = (if b <? 0x80 then 0%nat else if b <? 0xE0 then 1%nat else if b <? 0xF0 then 2%nat else 3%nat).
Proof.
  intros c H. unfold utf8.
  destruct (c <? 0x80) eqn:E1; [apply N.ltb_lt in E1 | apply N.ltb_ge in E1].
  { exists c, []. rewrite (proj2 (N.ltb_lt _ _) E1). repeat split; try apply Forall_nil; lia. }
  destruct (c <? 0x800) eqn:E2; [apply N.ltb_lt in E2 | apply N.ltb_ge in E2].
  { eexists _, _. split; [reflexivity|].
    assert (Hb : 0xC2 <= 0xC0 + c / 64 /\ 0xC0 + c / 64 < 0xE0) by lia.
    replace (0xC0 + c / 64 <? 0x80) with false by (symmetry; apply N.ltb_ge; lia).
    rewrite (proj2 (N.ltb_lt _ _) (proj2 Hb)).
    repeat split; try fa_bytes; lia. }
  destruct (c <? 0x10000) eqn:E3; [apply N.ltb_lt in E3 | apply N.ltb_ge in E3].
  { eexists _, _. split; [reflexivity|].
    assert (Hb : 0xE0 <= 0xE0 + c / 4096 /\ 0xE0 + c / 4096 < 0xF0) by lia.
    replace (0xE0 + c / 4096 <? 0x80) with false by (symmetry; apply N.ltb_ge; lia).
    replace (0xE0 + c / 4096 <? 0xE0) with false by (symmetry; apply N.ltb_ge; lia).
    rewrite (proj2 (N.ltb_lt _ _) (proj2 Hb)).
    repeat split; try fa_bytes; lia. }
  eexists _, _. split; [reflexivity|].
  assert (Hb : 0xF0 <= 0xF0 + c / 262144 /\ 0xF0 + c / 262144 < 0xF5) by lia.
  replace (0xF0 + c / 262144 <? 0x80) with false by (symmetry; apply N.ltb_ge; lia).
  replace (0xF0 + c / 262144 <? 0xE0) with false by (symmetry; apply N.ltb_ge; lia).
  replace (0xF0 + c / 262144 <? 0xF0) with false by (symmetry; apply N.ltb_ge; lia).
  repeat split; try fa_bytes; lia.
Qed.

(* ---------------- one code point: the encoding is strictly monotone, whatever follows ---------------- *)

(* decide the next byte pair: smaller -> done; equal -> go on; greater -> contradicts x < y *)
Ltac byte_lt :=
  lazymatch goal with
  | |- cmp_list (?p :: _) (?q :: _) = Lt =>
      apply cmp_cons_lt;
      let Hlt := fresh "Hlt" in let Heq := fresh "Heq" in let Hgt := fresh "Hgt" in
      destruct (N.lt_total p q) as [Hlt | [Heq | Hgt]];
      [ left; exact Hlt | right; split; [exact Heq|] | exfalso; lia ]
  end.

Lemma utf8_lt : forall x y r s, x < y -> y < 0x110000 -> cmp_list (utf8 x ++ r) (utf8 y ++ s) = Lt.
Proof.
  intros x y r s Hxy Hy. unfold utf8.
  destruct (x <? 0x80) eqn:X1; [apply N.ltb_lt in X1 | apply N.ltb_ge in X1];
  [| destruct (x <? 0x800) eqn:X2; [apply N.ltb_lt in X2 | apply N.ltb_ge in X2];
     [| destruct (x <? 0x10000) eqn:X3; [apply N.ltb_lt in X3 | apply N.ltb_ge in X3]]];
  (destruct (y <? 0x80) eqn:Y1; [apply N.ltb_lt in Y1 | apply N.ltb_ge in Y1];
   [| destruct (y <? 0x800) eqn:Y2; [apply N.ltb_lt in Y2 | apply N.ltb_ge in Y2];
      [| destruct (y <? 0x10000) eqn:Y3; [apply N.ltb_lt in Y3 | apply N.ltb_ge in Y3]]]);
  try (exfalso; lia); cbn [app];
  (* different classes (and one byte both): the leading bytes already differ *)
  try (apply cmp_cons_lt; left; lia).
  - (* 2 bytes both *) byte_lt. apply cmp_cons_lt; left; lia.
  - (* 3 bytes both *) byte_lt. byte_lt. apply cmp_cons_lt; left; lia.
  - (* 4 bytes both *) byte_lt. byte_lt. byte_lt. apply cmp_cons_lt; left; lia.
Qed.

Lemma cmp_list_opp : forall a b, cmp_list b a = CompOpp (cmp_list a b).
Proof.
  induction a as [|x a IH]; destruct b as [|y b]; cbn [cmp_list]; try reflexivity.
  rewrite (N.compare_antisym x y). destruct (N.compare x y); cbn [CompOpp]; auto.
Qed.

(* the key lemma: the first differing code point decides, because neither encoding can be a proper
   prefix of the other and the encoding is monotone *)
Lemma utf8_cmp : forall x y r s, x < 0x110000 -> y < 0x110000 ->
  cmp_list (utf8 x ++ r) (utf8 y ++ s) = match N.compare x y with Eq => cmp_list r s | c => c end.
Proof.
  intros x y r s Hx Hy. destruct (N.compare_spec x y) as [E | L | G].
  - subst y. apply cmp_list_app_same.
  - apply utf8_lt; assumption.
  - rewrite cmp_list_opp. rewrite (utf8_lt y x s r G Hx). reflexivity.
Qed.

(* prefix-freeness in the form used above, and injectivity of the string encoding *)
Lemma utf8_prefix_free : forall x y r s, x < 0x110000 -> y < 0x110000 -> utf8 x ++ r = utf8 y ++ s -> x = y /\ r = s.
Proof.
  intros x y r s Hx Hy E.
  assert (C : cmp_list (utf8 x ++ r) (utf8 y ++ s) = Eq) by (rewrite E; apply cmp_list_refl).
  rewrite utf8_cmp in C by assumption.
  destruct (N.compare_spec x y) as [E' | L | G]; try discriminate.
  subst y. split; [reflexivity|]. exact (app_inv_head _ _ _ E).
Qed.

Lemma scalar_lt : forall c, scalar c -> c < 0x110000.
Proof. intros c [H | [_ H]]; lia. Qed.

Lemma scalarb_spec : forall c, scalarb c = true <-> scalar c.
Proof.
  intros c. unfold scalarb, scalar.
  rewrite orb_true_iff, andb_true_iff, !N.ltb_lt, N.leb_le. reflexivity.
Qed.

(* ---------------- strings ---------------- *)
Theorem utf8_order_is_code_point_order : forall a b, Forall scalar a -> Forall scalar b ->
  cmp_list (encode a) (encode b) = cmp_list a b.
Proof.
  induction a as [|x a IH]; intros b Ha Hb.
  - destruct b as [|y b]; [reflexivity|]. cbn [encode cmp_list].
    destruct (utf8_nonempty y) as (h & t & E). rewrite E. reflexivity.
  - destruct b as [|y b].
    + cbn [encode cmp_list]. destruct (utf8_nonempty x) as (h & t & E). rewrite E. reflexivity.
    + inversion Ha as [|? ? Hx Ha']; subst. inversion Hb as [|? ? Hy Hb']; subst.
      cbn [encode]. rewrite utf8_cmp by (apply scalar_lt; assumption).
      cbn [cmp_list]. destruct (N.compare x y); try reflexivity. apply IH; assumption.
Qed.

(* the statement about the model's comparison function *)
Theorem utf8_order_is_lcmp : forall a b, Forall scalar a -> Forall scalar b ->
  cmp_list (encode a) (encode b) = lcmp a b.
Proof. intros a b Ha Hb. rewrite (lcmp_is_cmp_list a b). apply utf8_order_is_code_point_order; assumption. Qed.

Theorem encode_injective : forall a b, Forall scalar a -> Forall scalar b -> encode a = encode b -> a = b.
Proof.
  intros a b Ha Hb E.
  pose proof (utf8_order_is_code_point_order a b Ha Hb) as C. rewrite E, cmp_list_refl in C. symmetry in C.
  revert b C Ha Hb E. induction a as [|x a IH]; destruct b as [|y b]; cbn [cmp_list]; intros C Ha Hb E; try discriminate; [reflexivity|].
  destruct (N.compare_spec x y) as [E' | L | G]; try discriminate. subst y. f_equal.
  inversion Ha; inversion Hb; subst. cbn [encode] in E. apply app_inv_head in E. apply IH; assumption.
Qed.

(* every byte of an encoded string is a byte *)
Lemma encode_bytes : forall a, Forall scalar a -> Forall (fun b => b < 256) (encode a).
Proof.
  induction a as [|x a IH]; intros H; cbn [encode]; [constructor|].
  inversion H; subst. apply Forall_app. split; [apply utf8_bytes, scalar_lt; assumption | apply IH; assumption].
Qed.

(* sample encodings: both ends of every length class and of the surrogate gap ("é", "€", U+1F600) *)
Example utf8_samples :
  map utf8 [0; 0x7F; 0x80; 0xE9; 0x7FF; 0x800; 0x20AC; 0xD7FF; 0xE000; 0xFFFF; 0x10000; 0x1F600; 0x10FFFF] =
  [[0]; [0x7F]; [0xC2; 0x80]; [0xC3; 0xA9]; [0xDF; 0xBF]; [0xE0; 0xA0; 0x80]; [0xE2; 0x82; 0xAC]; [0xED; 0x9F; 0xBF];
   [0xEE; 0x80; 0x80]; [0xEF; 0xBF; 0xBF]; [0xF0; 0x90; 0x80; 0x80]; [0xF0; 0x9F; 0x98; 0x80]; [0xF4; 0x8F; 0xBF; 0xBF]].
Proof. vm_compute. reflexivity. Qed.

(* the order really differs from UTF-16 code-unit order (U+FFFF vs U+10000), so the statement is not empty *)
Example utf8_order_nonvacuous :
  Forall scalar [0xFFFF] /\ Forall scalar [0x10000; 0x41] /\
  cmp_list (encode [0xFFFF]) (encode [0x10000; 0x41]) = Lt /\ lcmp [0xFFFF] [0x10000; 0x41] = Lt /\
  cmp_list (encode [0xE9]) (encode [0x7A; 0x7A]) = Gt.
Proof.
  assert (S : forall c, scalarb c = true -> scalar c) by (intros c; apply scalarb_spec).
  split; [|split; [|split; [|split]]].
  1, 2: repeat (apply Forall_cons; [apply S; vm_compute; reflexivity|]); apply Forall_nil.
  all: vm_compute; reflexivity.
Qed.
