(* C01/C13 — ImplModel: the evaluator as a machine that threads the scope STACK through every
   step, pushing and popping exactly where feel-evaluator/src/builders.rs and iterations.rs do:
   build_context (push an empty context, set_entry per entry, pop), build_filter (push the element
   context and/or {item: v}, pop both), for/some/every (one push/pop per tuple, `partial` entry),
   eval_function_definition (push the argument context on the CALLER's stack, pop).
   `run` returns the value and the stack it leaves behind.  No proofs in this file. *)
From Coq Require Import List ZArith NArith Bool.
From DV Require Import C01.Syntax C01.Spec.
Import ListNotations.
Open Scope Z_scope.

Definition push (c : ctx) (S : stack) : stack := c :: S.
Definition pop (S : stack) : stack := tl S.

(* evaluates a list of things left to right, threading the stack *)
Fixpoint thread {A B : Type} (r : stack -> A -> B * stack) (S : stack) (l : list A) : list B * stack :=
  match l with
  | [] => ([], S)
  | a :: t => let (b, S1) := r S a in let (bs, S2) := thread r S1 t in (b :: bs, S2)
  end.

Definition test_run (r : stack -> expr -> value * stack) (S : stack) (t : test) : value * stack :=
  match t with
  | TVal e => r S e
  | TCmp o e => let (v, S1) := r S e in (VUnary o v, S1)
  | TRange lo lc hi hc => let (a, S1) := r S lo in let (b, S2) := r S1 hi in (VRange a lc b hc, S2)
  end.

Definition dom_run (r : stack -> expr -> value * stack) (S : stack) (nd : N * dom) : (N * option (list value) * bool) * stack :=
  match snd nd with
  | DList e => let (v, S1) := r S e in ((fst nd, Some (dom_values v), false), S1)
  | DRange lo hi =>
      let (a, S1) := r S lo in let (b, S2) := r S1 hi in
      ((fst nd, match a, b with
                | VNum x, VNum y => match num_int x, num_int y with Some x', Some y' => Some (range_values x' y') | _, _ => None end
                | _, _ => None end, poison a || poison b), S2)
  end.

Section Machine.
Variable cartf : list (N * list value) -> list ctx.

Fixpoint run (fuel : nat) (S : stack) (e : expr) : value * stack :=
  match fuel with O => (VPoison, S) | Datatypes.S f =>
  match e with
  | ENull => (VNull, S) | EBool b => (VBool b, S) | ENum z => (VNum z, S) | EStr s => (VStr s, S)
  | EName n => (match lookup n S with Some v => v | None => VNull end, S)
  | EBin o a b => let (va, S1) := run f S a in let (vb, S2) := run f S1 b in (binop_eval o va vb, S2)
  | ENeg a => let (va, S1) := run f S a in (neg_eval va, S1)
  | EIf c t e' =>
      let (vc, S1) := run f S c in
      match vc with VBool true => run f S1 t | VBool false | VNull => run f S1 e' | VPoison => (VPoison, S1) | _ => (VNull, S1) end
  | EBetween x lo hi =>
      let (vx, S1) := run f S x in let (vl, S2) := run f S1 lo in let (vh, S3) := run f S2 hi in (between_eval vx vl vh, S3)
  | EIn x ts =>
      let (vx, S1) := run f S x in
      let (vts, S2) := thread (test_run (run f)) S1 ts in
      (match vts with [t] => in_eval vx t | _ => in_tests_eval vx vts end, S2)
  | EInList x l => let (vx, S1) := run f S x in let (vl, S2) := run f S1 l in (in_eval vx vl, S2)
  | EList es => let (vs, S1) := thread (run f) S es in (VList vs, S1)
  | ECtx es =>
      let S0 := push [] S in
      let (acc, S1) := fold_left (fun (st : ctx * stack) ke =>
                         let (v, S') := run f (snd st) (snd ke) in (ctx_set (fst ke) v (fst st), set_top (fst ke) v S')) es ([], S0) in
      (VCtx acc, pop S1)
  | EPath e' k => let (v, S1) := run f S e' in (path_eval v k, S1)
  | EFilter e' fe =>
      let (v, S1) := run f S e' in
      match v with
      | VList items =>
          let (rs, S2) := thread (fun S' item =>
                let S'' := match item with
                           | VCtx c => let Sc := push c S' in
                                       match ctx_get n_item c with Some _ => Sc | None => push [(n_item, item)] Sc end
                           | _ => push [(n_item, item)] S' end in
                let (r, S3) := run f S'' fe in
                (r, match item with
                    | VCtx c => match ctx_get n_item c with Some _ => pop S3 | None => pop (pop S3) end
                    | _ => pop S3 end)) S1 items in
          let (outer, S4) := run f S2 fe in
          (if existsb poison rs then VPoison
           else filter_finish items (map fst (filter (fun vr => is_true (snd vr)) (combine items rs))) outer, S4)
      | VPoison => (VPoison, S1)
      | VNum _ | VBool _ | VStr _ | VCtx _ => let (outer, S2) := run f S1 fe in (filter_scalar v outer, S2)
      | _ => (VNull, S1)
      end
  | EFor ds body =>
      let (dl, S1) := thread (dom_run (run f)) S ds in
      if existsb (fun d => snd d) dl then (VPoison, S1) else
      match flat_map (fun d => match snd (fst d) with Some vs => [(fst (fst d), vs)] | None => [] end) dl with
      | [] => (VList [], S1)
      | doms =>
          let (acc, S2) := fold_left (fun (st : list value * stack) t =>
                             let (v, S') := run f (push (ctx_set n_partial (VList (fst st)) t) (snd st)) body in
                             (fst st ++ [v], pop S')) (cartf doms) ([], S1) in
          (VList acc, S2)
      end
  | ESome ds body =>
      let (dl, S1) := thread (fun S' nd => let (v, S'') := run f S' (snd nd) in ((fst nd, dom_values v), S'')) S ds in
      let (rs, S2) := thread (fun S' t => let (v, S'') := run f (push t S') body in (v, pop S'')) S1 (cartf dl) in
      (quant_some rs, S2)
  | EEvery ds body =>
      let (dl, S1) := thread (fun S' nd => let (v, S'') := run f S' (snd nd) in ((fst nd, dom_values v), S'')) S ds in
      let (rs, S2) := thread (fun S' t => let (v, S'') := run f (push t S') body in (v, pop S'')) S1 (cartf dl) in
      (quant_every rs, S2)
  | EFun ps body => (VFun ps body, S)
  | ECall fe args =>
      let (vf, S1) := run f S fe in
      let (vs, S2) := thread (run f) S1 args in
      match vf with
      | VFun ps body =>
          match mk_args ps vs with
          | Some c => let (r, S3) := run f (push c S2) body in (r, pop S3)
          | None => (VNull, S2)
          end
      | VPoison => (VPoison, S2)
      | _ => (VNull, S2)
      end
  | ECallN fe nargs =>
      let (vf, S1) := run f S fe in
      let (nvs, S2) := thread (fun S' ne => let (v, S'') := run f S' (snd ne) in ((fst ne, v), S'')) S1 nargs in
      match vf with
      | VFun ps body =>
          match mk_named ps nvs [] with
          | Some c => let (r, S3) := run f (push c S2) body in (r, pop S3)
          | None => (VNull, S2)
          end
      | VPoison => (VPoison, S2)
      | _ => (VNull, S2)
      end
  end end.
End Machine.

(* the code as it is *)
Definition run_impl := run cart_impl.
