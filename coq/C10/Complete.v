(* C10 — the collected parts are THE reading of the input: any name (words and additional symbols, white space between them)
   that is written at the start position is a prefix of the collected parts, whatever its spacing.  Hence the token of the
   lexer is at least as long as every bound name written there: "longest" does not depend on how the collector cuts the input.
   Owner: prover-C10. *)
From Coq Require Import List NArith Bool Arith Lia.
From DV Require Import C10.Model C10.Proofs C10.Layout C10.NoLoss C10.Shape.
Import ListNotations.

Definition starts (P : N -> bool) (t : str) : bool := match t with c :: _ => P c | [] => false end.

(* a maximal run of P-characters at the head of a text is unique *)
Lemma run_unique : forall (P : N -> bool) w w' t t',
  Forall (fun c => P c = true) w -> Forall (fun c => P c = true) w' -> starts P t = false -> starts P t' = false ->
  w ++ t = w' ++ t' -> w = w' /\ t = t'.
Proof.
  intros P. induction w as [|c w IH]; intros w' t t' Hw Hw' Ht Ht' E.
  - destruct w' as [|c' w']; [split; [reflexivity|exact E]|].
    cbn in E. subst t. cbn in Ht. inversion Hw'; subst. congruence.
  - destruct w' as [|c' w'].
    + cbn in E. subst t'. cbn in Ht'. inversion Hw; subst. congruence.
    + cbn in E. inversion E; subst. inversion Hw; inversion Hw'; subst. destruct (IH w' t t') as [E1 E2]; auto. subst. split; reflexivity.
Qed.

(* a character of a word: a name character that is not white space at the same time *)
Definition wordc (c : N) : Prop := is_name_part c = true /\ is_ws c = false.

(* gs, qs is a reading of a name followed by the text R: gaps of white space (none of it a name character), parts that are words or
   single additional symbols, a non-empty gap between two words, and a word is not followed by a name character *)
Fixpoint canon (R : str) (prev_word : bool) (gs qs : list str) : Prop :=
  match gs, qs with
  | [], [] => prev_word = true -> starts is_name_part R = false
  | g :: gs', q :: qs' =>
      all_ws g /\ Forall (fun c => is_name_part c = false) g /\
      ((q <> [] /\ Forall wordc q /\ (prev_word = true -> g <> []) /\ canon R true gs' qs') \/
       (exists c, q = [c] /\ is_add_sym c = true /\ canon R false gs' qs'))
  | _, _ => False
  end.

Lemma canon_follow : forall R gs qs, canon R true gs qs -> starts is_name_part (weave gs qs ++ R) = false.
Proof.
  intros R gs qs H. destruct gs as [|g gs]; destruct qs as [|q qs]; cbn [canon] in H; try contradiction.
  - cbn. apply H. reflexivity.
  - destruct H as (_ & Hnp & [(_ & _ & Hg & _)|(c & -> & Hc & _)]).
    + destruct g as [|c0 g]; [exfalso; apply Hg; reflexivity|]. inversion Hnp; subst. cbn. assumption.
    + destruct g as [|c0 g]; [cbn; apply add_sym_not_name_part; exact Hc|]. inversion Hnp; subst. cbn. assumption.
Qed.

(* where the collector stops: white space, then a character that cannot belong to a name *)
Definition stop_ok (R : str) : Prop :=
  exists tail rest, R = tail ++ rest /\ all_ws tail /\ Forall (fun c => is_name_part c = false) tail /\
    starts is_ws rest = false /\ starts is_name_part rest = false /\ starts is_add_sym rest = false.

Lemma part_head : forall q, (q <> [] /\ Forall wordc q) \/ (exists c, q = [c] /\ is_add_sym c = true) ->
  exists c q', q = c :: q' /\ is_ws c = false /\ (is_name_part c = true \/ is_add_sym c = true).
Proof.
  intros q [[Hne Hw]|(c & -> & Hc)].
  - destruct q as [|c q']; [contradiction|]. pose proof (Forall_inv Hw) as [Hc1 Hc2]. exists c, q'. auto.
  - exists c, []. split; [reflexivity|]. split; [apply add_sym_not_ws; exact Hc|right; exact Hc].
Qed.

Lemma canon_prefix : forall qs gs parts gaps b R R',
  canon R b gs qs -> canon R' b gaps parts -> stop_ok R' ->
  weave gs qs ++ R = weave gaps parts ++ R' ->
  exists parts2 gaps2, parts = qs ++ parts2 /\ gaps = gs ++ gaps2.
Proof.
  induction qs as [|q qs IH]; intros gs parts gaps b R R' Hq Hp Hstop E.
  - destruct gs as [|g gs]; [|cbn [canon] in Hq; contradiction]. exists parts, gaps. split; reflexivity.
  - destruct gs as [|g gs]; [cbn [canon] in Hq; contradiction|].
    cbn [canon] in Hq. destruct Hq as (Hgws & Hgnp & Hqshape).
    assert (Hqh : exists c q', q = c :: q' /\ is_ws c = false /\ (is_name_part c = true \/ is_add_sym c = true)).
    { apply part_head. destruct Hqshape as [(H1 & H2 & _)|(c & H1 & H2 & _)]; [left; split; assumption|right; exists c; split; assumption]. }
    destruct parts as [|p parts]; destruct gaps as [|g0 gaps]; cbn [canon] in Hp; try contradiction.
    + (* the collector has stopped, the name goes on *)
      exfalso. destruct Hstop as (tail & rest & -> & Htws & _ & Hr1 & Hr2 & Hr3).
      cbn [weave app] in E. rewrite <- !app_assoc in E.
      destruct Hqh as (c & q' & -> & Hc1 & Hc2).
      destruct (run_unique is_ws g tail ((c :: q') ++ weave gs qs ++ R) rest Hgws Htws) as [_ E2]; [cbn; exact Hc1|exact Hr1|exact E|].
      subst rest. cbn in Hr2, Hr3. destruct Hc2 as [Hc2|Hc2]; congruence.
    + destruct Hp as (Hg0ws & Hg0np & Hpshape).
      assert (Hph : exists c p', p = c :: p' /\ is_ws c = false /\ (is_name_part c = true \/ is_add_sym c = true)).
      { apply part_head. destruct Hpshape as [(H1 & H2 & _)|(c & H1 & H2 & _)]; [left; split; assumption|right; exists c; split; assumption]. }
      cbn [weave] in E. rewrite <- !app_assoc in E.
      destruct (run_unique is_ws g g0 (q ++ weave gs qs ++ R) (p ++ weave gaps parts ++ R') Hgws Hg0ws) as [Eg E2].
      { destruct Hqh as (c & q' & -> & Hc1 & _). cbn. exact Hc1. }
      { destruct Hph as (c & p' & -> & Hc1 & _). cbn. exact Hc1. }
      { exact E. }
      subst g0. clear E.
      destruct Hqshape as [(Hqne & Hqw & Hqg & Hqc)|(c & -> & Hc & Hqc)]; destruct Hpshape as [(Hpne & Hpw & Hpg & Hpc)|(c' & -> & Hc' & Hpc)].
      * (* word, word *)
        destruct (run_unique is_name_part q p (weave gs qs ++ R) (weave gaps parts ++ R')) as [Eq E3].
        { eapply Forall_impl; [|exact Hqw]. intros x [Hx _]. exact Hx. }
        { eapply Forall_impl; [|exact Hpw]. intros x [Hx _]. exact Hx. }
        { apply canon_follow. exact Hqc. }
        { apply canon_follow. exact Hpc. }
        { exact E2. }
        subst p. destruct (IH gs parts gaps true R R' Hqc Hpc Hstop E3) as (parts2 & gaps2 & -> & ->).
        exists parts2, gaps2. split; reflexivity.
      * (* word, symbol *)
        exfalso. destruct q as [|c q']; [contradiction|]. pose proof (Forall_inv Hqw) as [H1 _].
        cbn in E2. inversion E2; subst. rewrite (add_sym_not_name_part _ Hc') in H1. discriminate H1.
      * (* symbol, word *)
        exfalso. destruct p as [|c0 p']; [contradiction|]. pose proof (Forall_inv Hpw) as [H1 _].
        cbn in E2. inversion E2; subst. rewrite (add_sym_not_name_part _ Hc) in H1. discriminate H1.
      * (* symbol, symbol *)
        cbn in E2. inversion E2; subst.
        destruct (IH gs parts gaps false R R' Hqc Hpc Hstop H1) as (parts2 & gaps2 & -> & ->).
        exists parts2, gaps2. split; reflexivity.
Qed.

(* ------------------------------------------------------------------ the collector's output is such a reading *)

(* no character of the input is a name character and white space at once (before the repair this excluded U+1680, U+180E, U+FEFF) *)
Definition unambiguous (inp : str) : Prop := Forall (fun c => is_name_part c = true -> is_ws c = false) inp.

(* since the repair of is_name_start_char every input is *)
Lemma unambiguous_all : forall inp, unambiguous inp.
Proof. intro inp. unfold unambiguous. rewrite Forall_forall. intros c _. apply name_part_not_ws. Qed.

Lemma Forall_weave : forall (P : N -> Prop) gs ps, length gs = length ps -> Forall P (weave gs ps) ->
  Forall (Forall P) gs /\ Forall (Forall P) ps.
Proof.
  intros P. induction gs as [|g gs IH]; intros ps Hl H; destruct ps as [|p ps]; try discriminate Hl; [split; constructor|].
  cbn [weave] in H. apply Forall_app in H. destruct H as [Hg H]. apply Forall_app in H. destruct H as [Hp H].
  destruct (IH ps ltac:(cbn in Hl; lia) H) as [H1 H2]. split; constructor; assumption.
Qed.

Lemma skipn_app_len : forall (a b : str) n, length a = n -> skipn n (a ++ b) = b.
Proof. intros a b n H. subst n. induction a as [|x a IH]; [reflexivity|exact IH]. Qed.

Lemma next_is_starts : forall P inp e, next_is P inp e = starts P (skipn (S e) inp).
Proof.
  intros P inp e. unfold next_is. generalize (S e) as n. intro n. revert inp.
  induction n as [|n IH]; intros inp; destruct inp as [|x inp]; try reflexivity. cbn [nth_error skipn]. apply IH.
Qed.

Lemma Forall2_nth : forall A B (R : A -> B -> Prop) l1 l2 d1 d2, Forall2 R l1 l2 -> forall k, k < length l1 -> R (nth k l1 d1) (nth k l2 d2).
Proof.
  intros A B R l1 l2 d1 d2 H. induction H; intros k Hk; [cbn in Hk; lia|].
  destruct k as [|k]; [exact H|]. cbn [nth]. apply IHForall2. cbn in Hk. lia.
Qed.

(* the conditions from which canon is built: every part is a word or a symbol, and the text after a word does not begin with a name character *)
Lemma canon_build : forall R gs ps b,
  length gs = length ps ->
  Forall all_ws gs -> Forall (Forall (fun c => is_name_part c = false)) gs ->
  Forall (fun p => (p <> [] /\ Forall wordc p) \/ symp p) ps ->
  (forall k, k < length ps -> Forall wordc (nth k ps []) -> nth k ps [] <> [] ->
     starts is_name_part (weave (skipn (S k) gs) (skipn (S k) ps) ++ R) = false) ->
  (b = true -> starts is_name_part (weave gs ps ++ R) = false) ->
  canon R b gs ps.
Proof.
  intros R. induction gs as [|g gs IH]; intros ps b Hl Hws Hnp Hsh Hfol Hb; destruct ps as [|p ps]; try discriminate Hl.
  - cbn [canon]. exact Hb.
  - inversion Hws; subst. inversion Hnp; subst. inversion Hsh; subst. cbn [canon]. split; [assumption|]. split; [assumption|].
    assert (Hfol' : forall k, k < length ps -> Forall wordc (nth k ps []) -> nth k ps [] <> [] ->
      starts is_name_part (weave (skipn (S k) gs) (skipn (S k) ps) ++ R) = false).
    { intros k Hk H1' H2'. apply (Hfol (S k)); [cbn [length]; lia|exact H1'|exact H2']. }
    match goal with Hx : (p <> [] /\ Forall wordc p) \/ symp p |- _ => destruct Hx as [[Hne Hw]|(c & -> & Hc)] end.
    + left. split; [exact Hne|]. split; [exact Hw|]. split.
      * intros Hbt Eg. subst g. specialize (Hb Hbt). cbn [weave app] in Hb. destruct p as [|c p]; [contradiction|].
        inversion Hw; subst. match goal with Hx : wordc c |- _ => destruct Hx as [Hx _] end. cbn in Hb. congruence.
      * apply IH; try assumption; [cbn in Hl; lia|]. intros _. apply (Hfol 0); [cbn; lia|exact Hw|exact Hne].
    + right. exists c. split; [reflexivity|]. split; [exact Hc|].
      apply IH; try assumption; [cbn in Hl; lia|]. intro Hf. discriminate Hf.
Qed.

Theorem collect_canon : forall inp pos parts cps endpos,
  pos < length inp -> is_name_start (ch inp pos) = true -> unambiguous inp -> collect inp pos = (parts, cps, endpos) ->
  exists gaps tail, layout inp pos parts gaps cps /\
    skipn pos inp = weave gaps parts ++ tail ++ skipn endpos inp /\
    canon (tail ++ skipn endpos inp) false gaps parts /\ stop_ok (tail ++ skipn endpos inp).
Proof.
  intros inp pos parts cps endpos Hpos Hstart Hna Hc.
  destruct (collect_layout _ _ _ _ _ Hpos Hc) as (gaps & tail & HL & Htail & Hlen & Hend & Hcov).
  destruct (collect_shape _ _ _ _ _ Hpos Hstart Hc) as (Hsh & Hs1 & Hs2 & Hs3).
  pose proof (lo_gaps _ _ _ _ _ HL) as Lg. pose proof (lo_cps _ _ _ _ _ HL) as Lc.
  assert (Hinp : inp = firstn pos inp ++ weave gaps parts ++ tail ++ skipn endpos inp).
  { rewrite <- (firstn_skipn endpos inp) at 1. rewrite Hcov. rewrite <- !app_assoc. reflexivity. }
  assert (Hskip : skipn pos inp = weave gaps parts ++ tail ++ skipn endpos inp).
  { rewrite Hinp at 1. rewrite skipn_app. rewrite firstn_length, Nat.min_l by lia. rewrite Nat.sub_diag. cbn [skipn].
    rewrite skipn_all2 by (rewrite firstn_length; lia). reflexivity. }
  assert (Hna' : Forall (fun c => is_name_part c = true -> is_ws c = false) (weave gaps parts) /\
                 Forall (fun c => is_name_part c = true -> is_ws c = false) tail).
  { unfold unambiguous in Hna. rewrite Hinp in Hna. apply Forall_app in Hna. destruct Hna as [_ Hna].
    apply Forall_app in Hna. destruct Hna as [H1 Hna]. apply Forall_app in Hna. destruct Hna as [H2 _]. split; assumption. }
  destruct Hna' as [Hna1 Hna2]. destruct (Forall_weave _ _ _ Lg Hna1) as [Hnag Hnap].
  assert (Hwsnp : forall g, all_ws g -> Forall (fun c => is_name_part c = true -> is_ws c = false) g -> Forall (fun c => is_name_part c = false) g).
  { intros g H1 H2. unfold all_ws in H1. rewrite Forall_forall in *. intros c Hin. specialize (H1 c Hin). specialize (H2 c Hin).
    destruct (is_name_part c); [|reflexivity]. rewrite H2 in H1 by reflexivity. discriminate H1. }
  assert (Hend1 : 1 <= endpos).
  { destruct (prefix_cover _ _ _ _ _ Hpos Hc) as (gaps' & _ & Hk). destruct (Hk 1 (conj (le_n 1) Hlen)) as [H _]. lia. }
  exists gaps, tail. split; [exact HL|]. split; [exact Hskip|]. split.
  - apply canon_build.
    + exact Lg.
    + exact (lo_ws _ _ _ _ _ HL).
    + pose proof (lo_ws _ _ _ _ _ HL) as Hws. rewrite Forall_forall in *. intros g Hin. apply Hwsnp; [apply Hws; exact Hin|apply Hnag; exact Hin].
    + assert (Hshape : Forall (fun p => word p \/ symp p) parts).
      { clear -Hsh. induction Hsh; constructor; [|assumption]. destruct H as [[H _]|H]; [left|right]; exact H. }
      rewrite Forall_forall in *. intros p Hin. destruct (Hshape p Hin) as [[Hne Hw]|Hs]; [left|right; exact Hs].
      split; [exact Hne|]. specialize (Hnap p Hin). rewrite Forall_forall in *. intros c Hc'. split; [apply Hw; exact Hc'|apply Hnap; [exact Hc'|apply Hw; exact Hc']].
    + intros k Hk Hw Hne.
      pose proof (Forall2_nth _ _ _ _ _ [] 0 Hsh k Hk) as Hpk.
      destruct Hpk as [[_ Hnext]|Hs].
      2:{ exfalso. apply (word_not_symp (nth k parts [])); [|exact Hs]. split; [exact Hne|].
          eapply Forall_impl; [|exact Hw]. intros x [Hx _]. exact Hx. }
      rewrite next_is_starts in Hnext.
      assert (Hk' : 1 <= S k <= length parts) by (unfold str in *; lia).
      pose proof (lo_pos _ _ _ _ _ HL (S k) Hk') as Hek. replace (S k - 1) with k in Hek by lia.
      assert (Hsk : skipn (S (nth k cps 0)) inp = weave (skipn (S k) gaps) (skipn (S k) parts) ++ tail ++ skipn endpos inp).
      { rewrite Hinp at 1. rewrite (weave_split (S k) gaps parts). rewrite <- !app_assoc.
        rewrite app_assoc. apply skipn_app_len.
        rewrite app_length, firstn_length, Nat.min_l by lia. lia. }
      rewrite Hsk in Hnext. exact Hnext.
    + intro Hf. discriminate Hf.
  - exists tail, (skipn endpos inp). split; [reflexivity|]. split; [exact Htail|]. split; [apply Hwsnp; assumption|].
    replace endpos with (S (endpos - 1)) at 1 2 3 by lia. rewrite <- !next_is_starts. repeat split; assumption.
Qed.

(* ------------------------------------------------------------------ longest, independent of the collector *)

Lemma weave_len_mono : forall gs ps j k, j <= k -> length (weave (firstn j gs) (firstn j ps)) <= length (weave (firstn k gs) (firstn k ps)).
Proof.
  intros gs ps j k Hjk. rewrite (weave_split j (firstn k gs) (firstn k ps)). rewrite !firstn_firstn, !Nat.min_l by lia.
  rewrite app_length. lia.
Qed.

(* a name qs (with gaps gs) is written at pos and followed by R.  Then qs is the prefix of the collected parts of the same length; if its
   normal form is a scope key, the token of the lexer is a bound prefix of at least that many parts and the lexer resumes at or after
   the end of the written name: no bound name written at pos is longer than the token *)
Theorem longest_written : forall keys inp pos parts cps endpos,
  pos < length inp -> is_name_start (ch inp pos) = true -> unambiguous inp -> collect inp pos = (parts, cps, endpos) ->
  (match parts with p :: _ => str_eqb p str_item | [] => false end) = false ->
  forall gs qs R, qs <> [] -> skipn pos inp = weave gs qs ++ R -> canon R false gs qs ->
    firstn (length qs) parts = qs /\
    (mem (flatten_parts qs) keys = true ->
     exists k, length qs <= k <= length parts /\ bound keys parts k /\
       (forall j, k < j <= length parts -> ~ bound keys parts j) /\
       lex_name keys false inp pos = LName (name_new (firstn k parts)) (S (nth (k - 1) cps 0)) /\
       pos + length (weave gs qs) <= S (nth (k - 1) cps 0)).
Proof.
  intros keys inp pos parts cps endpos Hpos Hstart Hna Hc Hitem gs qs R Hne Hwr Hcan.
  destruct (collect_canon _ _ _ _ _ Hpos Hstart Hna Hc) as (gaps & tail & HL & Hskip & Hcanp & Hstop).
  rewrite Hskip in Hwr. symmetry in Hwr.
  destruct (canon_prefix qs gs parts gaps false R _ Hcan Hcanp Hstop Hwr) as (parts2 & gaps2 & -> & ->).
  assert (Hfq : firstn (length qs) (qs ++ parts2) = qs).
  { rewrite firstn_app, Nat.sub_diag, firstn_all. cbn [firstn]. apply app_nil_r. }
  split; [exact Hfq|]. intro Hmem.
  assert (Hlq : 1 <= length qs) by (destruct qs; [contradiction|cbn; lia]).
  assert (Hlgs : length gs = length qs).
  { clear -Hcan. revert gs Hcan. generalize false as b. induction qs as [|q qs IH]; intros b gs H; destruct gs as [|g gs]; cbn [canon] in H; try contradiction; [reflexivity|].
    destruct H as (_ & _ & [(_ & _ & _ & H)|(c & _ & _ & H)]); cbn [length]; f_equal; eapply IH; exact H. }
  assert (Hb : bound keys (qs ++ parts2) (length qs)).
  { unfold bound. rewrite Hfq. exact Hmem. }
  assert (Hr : 1 <= length qs <= length (qs ++ parts2)) by (rewrite app_length; lia).
  destruct (search_complete keys (qs ++ parts2) (length (qs ++ parts2)) (length qs) Hr Hb) as (k & Hs & Hle).
  destruct (search_some _ _ _ _ Hs) as (Hrk & Hbk & Hmax).
  exists k. split; [lia|]. split; [exact Hbk|]. split; [exact Hmax|]. split.
  - destruct (lex_name_longest keys inp pos (qs ++ parts2) cps endpos Hc Hitem) as [H _]. exact (H k Hrk Hbk Hmax).
  - rewrite (lo_pos _ _ _ _ _ HL k Hrk).
    pose proof (weave_len_mono (gs ++ gaps2) (qs ++ parts2) (length qs) k Hle) as Hm.
    rewrite Hfq in Hm. replace (firstn (length qs) (gs ++ gaps2)) with gs in Hm.
    2:{ rewrite <- Hlgs. rewrite firstn_app, Nat.sub_diag, firstn_all. cbn [firstn]. rewrite app_nil_r. reflexivity. }
    lia.
Qed.

(* ------------------------------------------------------------------ a witness: `ab cd-ef` written as `ab  cd - ef` and followed by ` + 1` *)

Definition rest_three_words : str := [32; 43; 32; 49]%N.

Ltac chars := repeat (constructor; [first [reflexivity | split; reflexivity]|]); try constructor.

Lemma three_words_written :
  skipn 0 inp_three_words = weave gaps_three_words (firstn 4 parts_three_words) ++ rest_three_words /\
  canon rest_three_words false gaps_three_words (firstn 4 parts_three_words) /\
  unambiguous inp_three_words /\ is_name_start (ch inp_three_words 0) = true /\
  mem (flatten_parts (firstn 4 parts_three_words)) [key_ab; key_ab_cd_ef] = true.
Proof.
  split; [reflexivity|]. split; [|split; [unfold unambiguous, inp_three_words; repeat (constructor; [first [intros _; reflexivity | intro H; vm_compute in H; discriminate H]|]); constructor|split; reflexivity]].
  unfold gaps_three_words, parts_three_words. cbn [firstn canon].
  split; [chars|]. split; [chars|]. left. split; [discriminate|]. split; [chars|]. split; [intro H; discriminate H|].
  split; [chars|]. split; [chars|]. left. split; [discriminate|]. split; [chars|]. split; [intros _; discriminate|].
  split; [chars|]. split; [chars|]. right. exists 45%N. split; [reflexivity|]. split; [reflexivity|].
  split; [chars|]. split; [chars|]. left. split; [discriminate|]. split; [chars|]. split; [intro H; discriminate H|].
  intros _. reflexivity.
Qed.

(* the three code points that were white space and name characters at once: with the original character classes they were read as part
   of the word directly after a name character (one part `a<U+1680>b`) and skipped as white space after a blank (parts `a`, `b`); now
   they are white space in both places *)
Lemma overlap_reading_witness :
  collect_orig [97; 5760; 98]%N 0 = ([[97; 5760; 98]%N], [2], 3) /\
  collect_orig [97; 32; 5760; 98]%N 0 = ([[97%N]; [98%N]], [0; 3], 4) /\
  collect [97; 5760; 98]%N 0 = ([[97%N]; [98%N]], [0; 2], 3) /\
  collect [97; 32; 5760; 98]%N 0 = ([[97%N]; [98%N]], [0; 3], 4).
Proof. repeat split; vm_compute; reflexivity. Qed.
