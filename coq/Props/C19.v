(* C19 — a decision table drawn as text is recognised exactly as drawn: property theorems.
   PLANE level (first part): models in C19/Model.v (recognize_horizontal = recognizer.rs over plane.rs queries; layout_h = the plane a
   drawing denotes), proofs in C19/Proofs.v, C19/Columns.v.
   CHARACTER level (characters -> plane = canvas.rs, and text -> table): model C19/Canvas.v; drawings C19/CanvasDraw.v (regular),
   C19/CanvasMerged.v (merged cells), C19/CanvasHeadersDraw.v / CanvasColumnsDraw.v (tables with header lines, rules as rows / columns),
   C19/CanvasBoxDraw.v (information item name box); the sections below say which files hold the proofs. *)
From Coq Require Import List NArith Bool Arith.
From DV Require Import C19.Model C19.Proofs C19.Columns.
Import ListNotations.

(* headline, unbounded: for EVERY well-shaped table (any numbers of inputs, outputs, annotations and rules, any texts, with or
   without output label and allowed values) the plane-level recogniser reads back exactly the table that was laid out *)
Theorem C19_plane_roundtrip_h : forall t, wf t = true -> recognize_horizontal (layout_h t) = Some (fields_of t).
Proof. exact roundtrip_h. Qed.

(* rules as rows, the WHOLE plane with the marker / rule-number column: orientation, hit policy, rule count and every field are
   read back, for any text parsers that read the marker text as the hit policy and the number texts as the numbers *)
Theorem C19_plane_roundtrip_rows : forall parse_hp parse_num hp_text hp num_text,
  parse_hp hp_text = Some hp -> (forall k, parse_num (num_text k) = Some k) ->
  forall t, wf t = true -> t_rules t <> [] ->
  recognize_plane parse_hp parse_num (layout_rows hp_text num_text t) = Some (AsRow, hp, length (t_rules t), fields_of t).
Proof. exact roundtrip_rows. Qed.

(* rules as columns: taking the marker line off and pivoting yields exactly the plane of the table, for every table ... *)
Theorem C19_columns_normalise : forall hp_text num_text t, wf t = true ->
  pivot (removelast (layout_columns hp_text num_text t)) = layout_h t.
Proof. exact columns_normalise. Qed.

(* ... and on the WHOLE rules-as-columns plane (pivoted table plane + the marker / rule-number line below) orientation, hit policy,
   rule count and every field are read back, for EVERY table (any sizes, any texts) and any text parsers, under the two hypotheses
   the detection needs (boolean predicates, C19/Columns.v): the first input expression is not read as a marker
   (first_input_not_marker) and the text in the top-left cell of the output block - the label, or the first component name when
   several outputs are drawn without a label - is not read as a number (first_output_not_number) *)
Theorem C19_plane_roundtrip_columns : forall parse_hp parse_num hp_text hp num_text,
  parse_hp hp_text = Some hp -> (forall k, parse_num (num_text k) = Some k) ->
  forall t, wf t = true -> t_rules t <> [] ->
  first_input_not_marker parse_hp t = true -> first_output_not_number parse_num t = true ->
  recognize_plane parse_hp parse_num (layout_columns hp_text num_text t) = Some (AsColumn, hp, length (t_rules t), fields_of t).
Proof. exact roundtrip_columns. Qed.

(* the hypotheses are met by a non-trivial table (two outputs with label, one annotation, allowed values) ... *)
Example C19_columns_nonvacuous :
  let t := shape_table 2 2 1 2 true true in
  wf t = true /\ first_input_not_marker sw_parse_hp t = true /\ first_output_not_number sw_parse_num t = true /\
  first_out_text t = 5000%N /\ first_out_text (shape_table 2 2 1 2 false true) = 3000%N /\
  length (layout_columns 77%N sw_num_text t) = 8 /\
  recognize_plane sw_parse_hp sw_parse_num (layout_columns 77%N sw_num_text t) = Some (AsColumn, 1%N, 2, fields_of t).
Proof. exact columns_nonvacuous. Qed.

(* ... and they cannot be dropped: a table whose first input expression reads as a marker, and one whose first output name reads
   as the number 2, are both REJECTED (None = Err; the code does the same: "expected left-below rule numbers placement",
   "plane invalid rule number: 2"), not misread *)
Theorem C19_columns_hypotheses_needed :
  wf marker_first_table = true /\ first_input_not_marker sw_parse_hp marker_first_table = false /\
  recognize_plane sw_parse_hp sw_parse_num (layout_columns 77%N sw_num_text marker_first_table) = None /\
  wf number_first_table = true /\ first_output_not_number sw_parse_num number_first_table = false /\
  recognize_plane sw_parse_hp sw_parse_num (layout_columns 77%N sw_num_text number_first_table) = None.
Proof. exact columns_hypotheses_needed. Qed.

(* which cells a pivoted plane contains: every cell is the pivoted image of a cell of the plane; its first line is the first
   column of the plane, its first column the first line *)
Theorem C19_pivot_cells : forall p r c, In r (pivot p) -> In c r -> exists r' c', In r' p /\ In c' r' /\ c = pivot_cell c'.
Proof. exact in_pivot. Qed.

Theorem C19_pivot_first_line_and_column : forall r p,
  heads (pivot (r :: p)) = map pivot_cell r /\ (0 < length r -> exists rest, pivot (r :: p) = map pivot_cell (heads (r :: p)) :: rest).
Proof. intros r p. split; [apply pivot_first_column|exact (pivot_first_row (r :: p))]. Qed.

Theorem C19_pivot_involutive : forall p, rectangular p = true -> pivot (pivot p) = p.
Proof. exact pivot_involutive. Qed.

(* every shape read from a drawn table passes the size validation of builder.rs *)
Theorem C19_size_validation_complete : forall t, wf t = true -> t_rules t <> [] ->
  validate_size (length (t_inputs t)) (length (t_outputs t)) (length (t_annotations t)) (length (t_rules t)) (fields_of t) = true.
Proof. exact size_validation_complete. Qed.

(* where the recogniser finds the crossings of a laid-out table *)
Theorem C19_crossings : forall t, wf t = true ->
  find_plane is_main (layout_h t) = Some (length (t_inputs t), hdr t) /\
  find_plane is_hcross (layout_h t) = match t_annotations t with [] => None | _ => Some (length (t_inputs t) + 1 + length (t_outputs t), hdr t) end.
Proof. intros t Hwf. split; [apply main_position | apply hcross_position]. Qed.

(* the header-row-count based detection of the allowed-values line is exact *)
Theorem C19_values_line_detected : forall t, wf t = true ->
  input_values_present (layout_h t) (length (t_inputs t)) (hdr t) = Some (t_values t).
Proof. exact ivp_eq. Qed.

(* PARTIAL (kept as a cross-check of the general proof): the round trip is proved for every table SHAPE within the bounds of the property's quantifier
   (1..5 inputs, 1..3 outputs, 0..2 annotations, 1..8 rules, with/without output label, with/without allowed values)
   over pairwise distinct texts, by a finite sweep; what is missing is the generalisation to unbounded sizes and
   to arbitrary (possibly coinciding) texts.  Also shown per shape: pivot is involutive on the laid-out plane. *)
Theorem C19_plane_roundtrip_bounded_partial : forall n_in n_out n_ann n_rules lbl vals,
  1 <= n_in <= 5 -> 1 <= n_out <= 3 -> n_ann <= 2 -> 1 <= n_rules <= 8 ->
  let t := shape_table n_in n_out n_ann n_rules lbl vals in
  recognize_horizontal (layout_h t) = Some (fields_of t) /\ pivot (pivot (layout_h t)) = layout_h t.
Proof. exact plane_roundtrip_bounded. Qed.

(* for all cells / rows / tables *)
Theorem C19_pivot_cell_involutive : forall c, pivot_cell (pivot_cell c) = c.
Proof. exact pivot_cell_involutive. Qed.

Theorem C19_main_crossing_column : forall t, find_cell is_main (cross_row t) = Some (length (t_inputs t)).
Proof. exact main_crossing_column. Qed.

Theorem C19_input_block_query : forall (a : list cell) x b, cols 0 (length a) (a ++ x :: b) = a.
Proof. exact cols_block. Qed.

Theorem C19_output_block_query : forall (a : list cell) x b y c, cols (S (length a)) (S (length a) + length b) (a ++ x :: b ++ y :: c) = b.
Proof. exact cols_block2. Qed.

Theorem C19_region_texts : forall (l : list (N * N)), texts (map (fun x => Region (1%N, fst x) (snd x)) l) = Some (map snd l).
Proof. intros l. exact (texts_regions (fun x => (1%N, fst x)) snd l). Qed.

Example C19_nonvacuous :
  let t := shape_table 2 2 1 2 true true in
  f_label (fields_of t) = Some 5000%N /\ f_components (fields_of t) = [3000%N; 3001%N] /\ length (layout_h t) = 6 /\
  recognize_horizontal (layout_h t) = Some (fields_of t).
Proof. exact nonvacuous19. Qed.

Print Assumptions C19_plane_roundtrip_h.
Print Assumptions C19_plane_roundtrip_rows.
Print Assumptions C19_columns_normalise.
Print Assumptions C19_plane_roundtrip_columns.
Print Assumptions C19_columns_nonvacuous.
Print Assumptions C19_columns_hypotheses_needed.
Print Assumptions C19_pivot_cells.
Print Assumptions C19_pivot_first_line_and_column.
Print Assumptions C19_pivot_involutive.
Print Assumptions C19_size_validation_complete.
Print Assumptions C19_crossings.
Print Assumptions C19_values_line_detected.
Print Assumptions C19_plane_roundtrip_bounded_partial.
Print Assumptions C19_pivot_cell_involutive.
Print Assumptions C19_main_crossing_column.
Print Assumptions C19_input_block_query.
Print Assumptions C19_output_block_query.
Print Assumptions C19_region_texts.
Print Assumptions C19_nonvacuous.

(* ================================================================== characters -> plane (canvas.rs), owner: ext-canvas.
   Model: C19/Canvas.v (executable transliteration of scan + Canvas::plane + Plane::finalize, compared with the code cell by cell
   in the check).  Drawing: C19/CanvasDraw.v (regular style: every cell its own frame, one line of text per cell, any column widths,
   any texts without box characters; `CanvasProofs.T d` is the character grid of the drawing d followed by the extra last line the
   Rust canvas always has, `CanvasProofs.B d` the initial content of the other layers). *)
From DV Require Import C19.Canvas C19.CanvasDraw C19.CanvasProofs C19.CanvasSweep.

(* for EVERY well-formed regular drawing (any numbers of columns and lines, any widths, any plain texts) the passes of `scan` succeed:
   no information item name, the main crossing at the first double cross (column rd_v1, line 2), the annotation crossing exactly when
   drawn, no vertical crossing, the body rectangle = the whole drawing, and the THIN, BODY and GRID layers all equal to the drawing
   with its double lines made single and its texts blanked (nothing to add to the grid of a regular drawing) *)
Theorem C19_canvas_scan_regular : forall d, wf_rdraw d = true ->
  CanvasProofs.T d = draw_grid d ++ [repeat cOuter (Wd d)] /\
  scan_from (CanvasProofs.T d) (CanvasProofs.B d) = Ok (regular_canvas d) /\
  cv_cross (regular_canvas d) = (X (rd_ws d) (rd_v1 d), 2) /\
  cv_horz (regular_canvas d) = option_map (fun k => (X (rd_ws d) k, 2)) (rd_v2 d) /\
  cv_vert (regular_canvas d) = None /\ cv_name (regular_canvas d) = None /\
  cv_rect (regular_canvas d) = (0, 0, Wd d, Hd d) /\
  cv_body (regular_canvas d) = cv_thin (regular_canvas d) /\ cv_grid (regular_canvas d) = cv_thin (regular_canvas d).
Proof. intros d Hwf. split; [apply T_is_grid|]. split; [now apply scan_regular_drawing|]. repeat split. Qed.

(* for EVERY cell of EVERY well-formed regular drawing: the region walk on THIN and the rectangle walk on GRID started at the cell's
   top-left corner both close on the frame of the cell as drawn, and the text read from that frame is the cell text as drawn *)
Theorem C19_canvas_cells_regular : forall d i j, wf_rdraw d = true -> i < nrows d -> j < ncols d ->
  recognize_region (cv_thin (regular_canvas d)) (X (rd_ws d) j, 2 * i) = Ok (cell_rect d i j) /\
  recognize_rectangle (cv_grid (regular_canvas d)) (X (rd_ws d) j, 2 * i) = Ok (cell_rect d i j) /\
  text_from_rect (cv_text (regular_canvas d)) (cell_rect d i j) = Ok (cell_text d i j).
Proof. exact cells_regular_drawing. Qed.

(* text -> plane for EVERY well-formed regular drawing (C19/CanvasAssembly.v; any numbers of columns and lines, any widths, any plain texts):
   the text made by `draw` splits back into the lines of the grid, and the whole chain lines -> canvas -> regions -> walk of Canvas::plane ->
   Plane::finalize gives exactly the drawn plane: no information item name, every cell with its region NUMBER (row-major), RECTANGLE and TEXT,
   the cells of the double lines and the line of the crossings *)
From DV Require Import C19.CanvasAssembly C19.CanvasTable.

Theorem C19_scan_layers_regular : forall d, wf_rdraw d = true -> scan_layers (draw d) = (CanvasProofs.T d, CanvasProofs.B d).
Proof. exact scan_layers_regular. Qed.

Theorem C19_draw_roundtrip_regular : forall code d, wf_rdraw d = true ->
  canvas_cplane (draw d) = Ok (None, expected_plane d) /\
  canvas_to_plane code (draw d) = Some (map (map (abs_cell code)) (expected_plane d)).
Proof. exact draw_roundtrip_regular. Qed.

(* two planes that differ only in the names of their regions are recognised alike when one is a rules-as-rows plane with ONE header line
   (the recogniser compares region names only to tell two or three header lines apart) *)
Theorem C19_recognize_plane_names_erased : forall parse_hp parse_num p q hp n px,
  E p = E q -> orientation parse_hp parse_num p = Some (AsRow, hp, n) -> find_plane is_main (tails p) = Some (px, 1) ->
  recognize_plane parse_hp parse_num q = recognize_plane parse_hp parse_num p.
Proof. exact recognize_plane_erased. Qed.

(* text -> table END TO END for every rules-as-rows table drawn in the regular style with one header line (any numbers of inputs, outputs,
   annotations and rules, any column widths, any plain texts: wf_stable, C19/CanvasTable.v): the plane built from the characters
   (region texts through any coding of strings) is recognised by the plane-level model as rules-as-rows with the drawn hit policy, the
   drawn number of rules and exactly the fields of the drawn table, for any text parsers that read the hit-policy cell and the number
   cell of the k-th rule (k from 0) as S k *)
Theorem C19_text_to_table_regular : forall code s, wf_stable s = true ->
  forall parse_hp parse_num hp, parse_hp (code (s_hp s)) = Some hp ->
  (forall k n i o a, nth_error (s_rules s) k = Some (n, i, o, a) -> parse_num (code n) = Some (S k)) ->
  exists p, canvas_to_plane code (draw (table_drawing s)) = Some p /\
            recognize_plane parse_hp parse_num p = Some (AsRow, hp, length (s_rules s), fields_of (abs_table code s)).
Proof. exact text_to_table. Qed.

(* TOTALITY of the characters -> plane model (C19/CanvasTotal.v): for EVERY text (any code points: no picture, several pictures, broken
   frames, ragged lines) `canvas_cplane` is Ok or Err, never Panic - Panic being the model's value for an index out of bounds, an
   ill-formed slice or a usize underflow at the points where canvas.rs indexes.  Invariant: the layers are h x w rectangles (or the
   one-line canvas of a text without a picture), every point returned by a search lies inside, every rectangle closed by a walk has its
   text area inside, the passes that rewrite layers keep their shape.  The second form is the same for any rectangular grid given to
   the passes directly (not only the grids `scan_layers` makes) *)
From DV Require Import C19.CanvasTotal.

Theorem C19_canvas_total : forall text, canvas_cplane text <> Panic.
Proof. exact canvas_total. Qed.

Theorem C19_canvas_total_grid : forall h w txt blank, 0 < h -> 0 < w -> rectl h w txt -> rectl h w blank ->
  (cv <- scan_from txt blank ;; p <- plane_of cv ;; Ok (cv_name cv, p)) <> Panic.
Proof. exact canvas_total_grid. Qed.

(* the hypotheses of the two general theorems are met by a non-trivial table; the two sweeps of C19/CanvasSweep.v (81 shapes, vm_compute,
   formerly the bounded `_partial` theorems, now subsumed) are kept there as an independent computation of the same statements *)
Example C19_canvas_nonvacuous :
  let d := table_drawing (sample 2 2 1 2) in
  wf_rdraw d = true /\ wf_stable (sample 2 2 1 2) = true /\
  ncols d = 6 /\ nrows d = 3 /\ rd_v1 d = 3 /\ rd_v2 d = Some 5 /\ length (draw d) = 161 /\ plane_ok (2, 2, 1, 2) = true /\ table_ok (2, 2, 1, 2) = true /\
  CanvasSweep.parse_hp (CanvasSweep.code (s_hp (sample 2 2 1 2))) = Some 1%N /\
  forallb (fun k => match nth_error (s_rules (sample 2 2 1 2)) k with
                    | Some (n, _, _, _) => match CanvasSweep.parse_num (CanvasSweep.code n) with Some r => r =? S k | None => false end
                    | None => false end) [0; 1] = true.
Proof. vm_compute. repeat split. Qed.

Print Assumptions C19_canvas_scan_regular.
Print Assumptions C19_canvas_cells_regular.
Print Assumptions C19_scan_layers_regular.
Print Assumptions C19_draw_roundtrip_regular.
Print Assumptions C19_recognize_plane_names_erased.
Print Assumptions C19_text_to_table_regular.
Print Assumptions C19_canvas_total.
Print Assumptions C19_canvas_total_grid.
Print Assumptions C19_canvas_nonvacuous.

(* ================================================================== characters -> plane for drawings with MERGED cells, owner: ext-merged.
   Drawing: C19/CanvasMerged.v.  A merged drawing `mdraw` is a grid (grid columns of any inner widths from 1, grid lines of any inner
   heights from 1: a grid line holds one or more lines of text) tiled by rectangular merged cells (`md_reg i j` = the merged cell of
   grid cell (i, j)); a separator is drawn exactly between grid cells of different merged cells; the text of a merged cell is a block
   of characters without box characters that fills its whole inside; double vertical lines in front of the grid columns md_v1 / md_v2,
   double horizontal lines above the grid lines md_h1 / md_h2.  `drawm` makes the text with the junction conventions of
   props/c19draw.py (every run checks that drawm reproduces the drawings of c19draw character by character and that canvas.rs builds
   `mplane` from them), `mplane` is the plane: every grid cell with the NUMBER (merged cells numbered by their first grid cells in
   the order of the lines), the RECTANGLE and the TEXT of its merged cell, the cells of the double lines, the lines of the crossings.
   `wf_mdraw` (boolean): the tiling is a tiling, the texts fit, the double lines run through the whole drawing, between two double
   crossings the double line is crossed by full separators only, every separator of the grid is drawn somewhere.
   This covers the output label over several output columns, input expressions / annotation names / the hit-policy cell over several
   header lines, merged input entries, cells with several lines of text, and rules as columns. *)
From DV Require Import C19.CanvasMerged C19.CanvasMergedGeom C19.CanvasMergedScan C19.CanvasMergedPlane.

(* the text splits back into the grid of characters (TM d = the grid followed by the extra last line of the Rust canvas) *)
Theorem C19_scan_layers_merged : forall d, wf_mdraw d = true -> scan_layers (drawm d) = (TM d, BM d).
Proof. exact scan_layers_merged. Qed.

(* the passes of `scan`: no information item name, the main crossing at the first double cross (X v1, Y h1), the second crossing to the
   right (annotations, rules as rows) and / or below (annotations, rules as columns) exactly when drawn, the body rectangle = the whole
   drawing, THIN = BODY = the drawing with single lines and blanked texts (THM d), GRID = the FULL grid, every separator drawn over its
   whole length (GM d: make_grid really adds the missing pieces) *)
Theorem C19_canvas_scan_merged : forall d, wf_mdraw d = true ->
  scan_from (TM d) (BM d) = Ok (merged_canvas d) /\
  cv_name (merged_canvas d) = None /\ cv_rect (merged_canvas d) = (0, 0, MW d, MH d) /\
  cv_cross (merged_canvas d) = (X (md_ws d) (md_v1 d), X (md_hs d) (md_h1 d)) /\
  cv_horz (merged_canvas d) = option_map (fun k => (X (md_ws d) k, X (md_hs d) (md_h1 d))) (md_v2 d) /\
  cv_vert (merged_canvas d) = option_map (fun k => (X (md_ws d) (md_v1 d), X (md_hs d) k)) (md_h2 d) /\
  cv_thin (merged_canvas d) = THM d /\ cv_body (merged_canvas d) = THM d /\ cv_grid (merged_canvas d) = GM d /\
  GM d = TL (md_hs d) (md_ws d) (fun _ _ => true) (fun _ _ => true).
Proof. intros d Hwf. split; [now apply scan_merged|]. repeat split. Qed.

(* for every grid cell: the region walk on THIN from the first grid cell of its merged cell closes on the frame of the merged cell, the
   rectangle walk on GRID closes on the frame of the grid cell, the text read from the frame of the merged cell is its block of text *)
Theorem C19_canvas_cells_merged : forall d i j r0 c0 r1 c1, wf_mdraw d = true -> i < mrows d -> j < mcols d ->
  md_reg d i j = (r0, c0, r1, c1) ->
  recognize_region (THM d) (X (md_ws d) c0, X (md_hs d) r0) = Ok (mrect d (r0, c0, r1, c1)) /\
  recognize_rectangle (GM d) (X (md_ws d) j, X (md_hs d) i) = Ok (mrect d (i, j, S i, S j)) /\
  text_from_rect (TM d) (mrect d (r0, c0, r1, c1)) = Ok (text_rows (md_txt d r0 c0) false).
Proof.
  intros d i j r0 c0 r1 c1 Hwf Hi Hj E. split; [now apply (region_walk d Hwf i j)|]. split; [now apply rectangle_walk|now apply (text_walk d Hwf i j)].
Qed.

(* HEADLINE for merged drawings: text -> plane for EVERY well-formed merged drawing *)
Theorem C19_draw_roundtrip_merged : forall code d, wf_mdraw d = true ->
  canvas_cplane (drawm d) = Ok (None, mplane d) /\
  canvas_to_plane code (drawm d) = Some (map (map (abs_cell code)) (mplane d)).
Proof. exact draw_roundtrip_merged. Qed.

(* ================================================================== text -> table with one, two or three header lines (C19/CanvasHeadersDraw.v, CanvasHeaders.v).
   The plane-level recogniser looks at the names of the regions only to compare a header cell with the cell below it; so two planes with
   the same cells up to names and the same partition of the h header lines into regions (`same_partition`: erased planes equal, and for
   every header line above line h the same pattern "this cell and the cell below are one region") are recognised alike *)
From DV Require Import C19.CanvasPartition C19.CanvasHeadersDraw C19.CanvasHeaders C19.CanvasHeadersSweep.

Theorem C19_recognize_plane_same_partition : forall parse_hp parse_num p q hp n px h,
  same_partition h p q -> orientation parse_hp parse_num p = Some (AsRow, hp, n) -> find_plane is_main (tails p) = Some (px, h) ->
  recognize_plane parse_hp parse_num q = recognize_plane parse_hp parse_num p.
Proof. exact recognize_plane_partition. Qed.

(* text -> table END TO END for every rules-as-rows table drawn with ONE, TWO or THREE header lines and merged input entries (`htable`: optional output label
   line over all output columns - several outputs -, the line of input expressions and component names, optional allowed-values line;
   the hit-policy cell and the annotation names span all header lines, an input expression spans the label line and the name line;
   the entries of an input in consecutive rules can be one merged cell (ht_merge; every rule of the group holds the block of the cell); any
   numbers of inputs / outputs / annotations / rules, any column widths and line heights from 1, every text a block of one or more
   lines without box characters, any alignment): the plane built from the characters is recognised as rules-as-rows with the drawn hit
   policy, the drawn number of rules and exactly the fields of the drawn table - input expressions, allowed input values, output label,
   component names, allowed output values, annotation names, all rule entries - for any coding of texts and any text parsers that read
   the hit-policy cell and the number cell of the k-th rule (k from 0) as S k.  `wf_htable s` (boolean) = the merged drawing of s is
   well formed (wf_mdraw), the grid has one column per marker / input / output / annotation and one line per header line / rule, at
   least one input, output and rule, one entry per column in every rule *)
Theorem C19_text_to_table_headers : forall code s, wf_htable s = true ->
  forall parse_hp parse_num hp, parse_hp (bc code (ht_hp s)) = Some hp ->
  (forall k n i o a, nth_error (ht_rules s) k = Some (n, i, o, a) -> parse_num (bc code n) = Some (S k)) ->
  exists p, canvas_to_plane code (drawm (header_drawing s)) = Some p /\
            recognize_plane parse_hp parse_num p = Some (AsRow, hp, h_nr s, fields_of (abs_htable s code)).
Proof. exact text_to_table_headers. Qed.

(* the hypotheses are met by a drawing with an OUTPUT LABEL OVER TWO OUTPUT COLUMNS, ALLOWED VALUES (three header lines), an
   annotation and two rules (hsample, picture in C19/CanvasHeadersSweep.v) and by a one-header-line table with a two-line header
   (hsample1) and by a table whose first input has ONE MERGED ENTRY CELL OVER TWO RULES (hsample2: its fifth text line ├───┤    ├────╫────┤
   has no separator under the merged cell); the conclusions are recomputed by vm_compute (hplane_ok: text -> plane = mplane; htable_ok: text -> table); the second
   and third text lines of hsample show the label cell without a separator inside and the input expression cells continuing below the
   label line; the label and both component names and output values are among the recognised fields *)
Example C19_headers_nonvacuous :
  wf_htable hsample = true /\ hplane_ok hsample = true /\ htable_ok hsample = true /\ parsers_ok hsample = true /\
  wf_htable hsample1 = true /\ hplane_ok hsample1 = true /\ htable_ok hsample1 = true /\ parsers_ok hsample1 = true /\
  wf_htable hsample2 = true /\ hplane_ok hsample2 = true /\ htable_ok hsample2 = true /\ parsers_ok hsample2 = true /\
  md_reg (header_drawing hsample2) 1 1 = (1, 1, 3, 2) /\ md_reg (header_drawing hsample2) 2 1 = (1, 1, 3, 2) /\
  nth 4 (mgrid (header_drawing hsample2)) [] = [9500; 9472; 9472; 9472; 9508; 32; 32; 32; 32; 9500; 9472; 9472; 9472; 9472; 9579; 9472; 9472; 9472; 9472; 9508]%N /\
  h_hdr hsample = 3 /\ h_hdr hsample1 = 1 /\ mcols (header_drawing hsample) = 6 /\ mrows (header_drawing hsample) = 5 /\
  length (drawm (header_drawing hsample)) = 352 /\
  hsample_line 1 = [9474; 32; 85; 32; 9474; 65; 97; 32; 32; 9474; 65; 98; 32; 32; 9553; 76; 66; 32; 32; 32; 32; 32; 32; 32; 9553; 67; 97; 32; 32; 32; 9474]%N /\
  hsample_line 2 = [9474; 32; 32; 32; 9474; 32; 32; 32; 32; 9474; 32; 32; 32; 32; 9567; 9472; 9472; 9472; 9472; 9516; 9472; 9472; 9472; 9472; 9570; 32; 32; 32; 32; 32; 9474]%N /\
  md_reg (header_drawing hsample) 0 3 = (0, 3, 1, 5) /\ md_reg (header_drawing hsample) 0 4 = (0, 3, 1, 5) /\
  md_reg (header_drawing hsample) 1 1 = (0, 1, 2, 2) /\ md_reg (header_drawing hsample) 2 0 = (0, 0, 3, 1) /\
  f_label (fields_of (abs_htable hsample CanvasSweep.code)) = Some (CanvasSweep.code (pad_to 9 [76; 66]%N)) /\
  length (f_components (fields_of (abs_htable hsample CanvasSweep.code))) = 2 /\
  length (f_output_values (fields_of (abs_htable hsample CanvasSweep.code))) = 2.
Proof. exact headers_sweep. Qed.

(* ================================================================== rules as COLUMNS at the character level (C19/CanvasColumnsDraw.v, CanvasColumns.v).
   The same record `htable` drawn transposed: the header columns ([label column] / expressions and names / [values column]), one column
   per rule, one line per input / output / annotation, the hit-policy cell under the header columns and the rule numbers in the last
   line; double vertical line after the header columns, double horizontal lines above the outputs and above the annotations.
   With rules as columns the recogniser compares the header cells of the PIVOTED plane: *)
From DV Require Import C19.CanvasColumnsDraw C19.CanvasColumns.

Theorem C19_recognize_plane_same_partition_columns : forall parse_hp parse_num p q hp n px h,
  E p = E q -> (forall k, S k < h -> below_pattern (pivot (removelast p)) k = below_pattern (pivot (removelast q)) k) ->
  orientation parse_hp parse_num p = Some (AsColumn, hp, n) -> find_plane is_main (pivot (removelast p)) = Some (px, h) ->
  recognize_plane parse_hp parse_num q = recognize_plane parse_hp parse_num p.
Proof. exact recognize_plane_partition_columns. Qed.

(* text -> table END TO END for every table drawn with rules as columns (any numbers of inputs / outputs / annotations / rules, one to
   three header columns, any widths and heights from 1, every text a block of lines): the plane built from the characters is
   recognised as rules-as-columns with the drawn hit policy, rule count and fields, under the two hypotheses of the plane-level theorem
   (known finding columns-first-text-is-marker): the first input expression is not read as a hit-policy marker, the top-left text of
   the output block is not read as a number; rule numbers need to be read back for the drawn rules only *)
Theorem C19_text_to_table_columns : forall code s, wf_ctable s = true ->
  forall parse_hp parse_num hp, parse_hp (bc code (ht_hp s)) = Some hp ->
  (forall k n i o a, nth_error (ht_rules s) k = Some (n, i, o, a) -> parse_num (bc code n) = Some (S k)) ->
  first_input_not_marker parse_hp (abs_htable s code) = true -> first_output_not_number parse_num (abs_htable s code) = true ->
  exists p, canvas_to_plane code (drawm (column_drawing s)) = Some p /\
            recognize_plane parse_hp parse_num p = Some (AsColumn, hp, h_nr s, fields_of (abs_htable s code)).
Proof. exact text_to_table_columns. Qed.

(* the hypotheses are met by the table of hsample drawn with rules as columns (csample, picture in C19/CanvasHeadersSweep.v): label
   cell over the two output lines, three header columns, double lines above the outputs and the annotation *)
Example C19_columns_text_nonvacuous :
  wf_ctable csample = true /\ cplane_ok csample = true /\ ctable_ok csample = true /\ parsers_ok csample = true /\
  first_input_not_marker (php csample) (abs_htable csample CanvasSweep.code) = true /\
  first_output_not_number (pnum csample) (abs_htable csample CanvasSweep.code) = true /\
  mcols (column_drawing csample) = 5 /\ mrows (column_drawing csample) = 6 /\
  md_v1 (column_drawing csample) = 3 /\ md_h1 (column_drawing csample) = 2 /\ md_h2 (column_drawing csample) = Some 4 /\
  md_reg (column_drawing csample) 2 0 = (2, 0, 4, 1) /\ md_reg (column_drawing csample) 3 0 = (2, 0, 4, 1) /\
  md_reg (column_drawing csample) 0 1 = (0, 0, 1, 2) /\ md_reg (column_drawing csample) 5 2 = (5, 0, 6, 3) /\
  nth 4 (mgrid (column_drawing csample)) [] = [9566; 9552; 9552; 9552; 9572; 9552; 9552; 9552; 9578; 9552; 9552; 9552; 9580; 9552; 9552; 9552; 9552; 9578; 9552; 9552; 9552; 9552; 9569]%N /\
  nth 8 (mgrid (column_drawing csample)) [] = [9566; 9552; 9552; 9552; 9575; 9552; 9552; 9552; 9575; 9552; 9552; 9552; 9580; 9552; 9552; 9552; 9552; 9578; 9552; 9552; 9552; 9552; 9569]%N.
Proof. exact columns_sweep. Qed.

(* ================================================================== the INFORMATION ITEM NAME box above the table (C19/CanvasBoxDraw.v, CanvasShift.v, CanvasBox.v, CanvasBoxTable.v).
   On top of any merged drawing d: a top line ┌──┐, the lines of the name │name│, and the top border of the table becomes the bottom line
   of the box (first character ├; the character under the right edge of the box gets an upward arm: ─ becomes ┴, ┬ becomes ┼, ┐
   becomes ┤); the right edge anywhere on the top border except on a double line; nothing is drawn to the right of the box (`drawb`;
   every run checks that drawb reproduces the boxed drawings of props/c19draw.py character by character).  `wf_ibox d b`: at least
   one line of name, every line as wide as the inside of the box and without box characters, the right edge on the top border and not
   on a double vertical line.  `bplane d b` = the plane of the table with every rectangle moved down by the height of the box and
   every region number raised by one (the box is region 0 of the THIN layer), `bname b` = the lines of the name joined by line feeds *)
From DV Require Import C19.CanvasBoxDraw C19.CanvasShift C19.CanvasBox C19.CanvasBoxTable.

(* the passes of `scan` on the text with the box: the lines (the box lines are shorter, the Rust canvas pads them), the information
   item name = the drawn name, the crossings and the body rectangle = those of the table moved down, BODY = the table's THIN layer
   under lines without box characters (remove_information_item_region restores the top border), GRID = the table's full grid *)
Theorem C19_canvas_scan_box : forall d b, wf_mdraw d = true -> wf_ibox d b = true ->
  scan_layers (drawb d b) = (TB d b, BB d b) /\ scan_from (TB d b) (BB d b) = Ok (boxed_canvas d b) /\
  cv_name (boxed_canvas d b) = Some (bname b) /\ cv_rect (boxed_canvas d b) = (0, btp b, MW d, btp b + MH d) /\
  cv_cross (boxed_canvas d b) = (X (md_ws d) (md_v1 d), btp b + X (md_hs d) (md_h1 d)).
Proof. intros d b Hwf Hb. split; [now apply scan_layers_box|]. split; [now apply scan_box|]. repeat split. Qed.

(* HEADLINE with the box: text -> information item name and plane, for EVERY well-formed merged drawing and EVERY well-formed box *)
Theorem C19_draw_roundtrip_box : forall code d b, wf_mdraw d = true -> wf_ibox d b = true ->
  canvas_cplane (drawb d b) = Ok (Some (bname b), bplane d b) /\
  canvas_to_plane code (drawb d b) = Some (map (map (abs_cell code)) (bplane d b)).
Proof. exact draw_roundtrip_box. Qed.

(* the plane-level recogniser gives the same result when all region names are raised (RN) *)
Theorem C19_recognize_plane_renamed : forall parse_hp parse_num p res,
  recognize_plane parse_hp parse_num p = Some res -> recognize_plane parse_hp parse_num (RN p) = Some res.
Proof. exact recognize_plane_RN. Qed.

(* text -> name and table END TO END with the box, rules as rows (1..3 header lines, merged cells) and rules as columns *)
Theorem C19_text_to_table_headers_box : forall code s b, wf_htable s = true -> wf_ibox (header_drawing s) b = true ->
  forall parse_hp parse_num hp, parse_hp (bc code (ht_hp s)) = Some hp ->
  (forall k n i o a, nth_error (ht_rules s) k = Some (n, i, o, a) -> parse_num (bc code n) = Some (S k)) ->
  canvas_cplane (drawb (header_drawing s) b) = Ok (Some (bname b), bplane (header_drawing s) b) /\
  exists p, canvas_to_plane code (drawb (header_drawing s) b) = Some p /\
            recognize_plane parse_hp parse_num p = Some (AsRow, hp, h_nr s, fields_of (abs_htable s code)).
Proof. exact text_to_table_headers_box. Qed.

Theorem C19_text_to_table_columns_box : forall code s b, wf_ctable s = true -> wf_ibox (column_drawing s) b = true ->
  forall parse_hp parse_num hp, parse_hp (bc code (ht_hp s)) = Some hp ->
  (forall k n i o a, nth_error (ht_rules s) k = Some (n, i, o, a) -> parse_num (bc code n) = Some (S k)) ->
  first_input_not_marker parse_hp (abs_htable s code) = true -> first_output_not_number parse_num (abs_htable s code) = true ->
  canvas_cplane (drawb (column_drawing s) b) = Ok (Some (bname b), bplane (column_drawing s) b) /\
  exists p, canvas_to_plane code (drawb (column_drawing s) b) = Some p /\
            recognize_plane parse_hp parse_num p = Some (AsColumn, hp, h_nr s, fields_of (abs_htable s code)).
Proof. exact text_to_table_columns_box. Qed.

(* the hypotheses are met: a box whose right edge is in the middle of a grid column (┴), one on a separator (┼, two lines of name) and
   one on the right corner (┤, on the rules-as-columns drawing); recomputed by vm_compute *)
Example C19_box_nonvacuous :
  bplane_ok (header_drawing hsample) box_mid = true /\ btable_ok hsample (header_drawing hsample) box_mid AsRow = true /\
  bplane_ok (header_drawing hsample) box_sep = true /\ btable_ok hsample (header_drawing hsample) box_sep AsRow = true /\
  bplane_ok (column_drawing csample) box_corner = true /\ btable_ok csample (column_drawing csample) box_corner AsColumn = true /\
  bname box_sep = [79; 114; 100; 101; 114; 32; 32; 32; 10; 32; 32; 32; 32; 32; 32; 32; 32]%N /\
  nth 2 (box_lines box_mid ++ table_lines (header_drawing hsample) box_mid) [] =
    [9500; 9472; 9472; 9472; 9516; 9472; 9472; 9524; 9472; 9516; 9472; 9472; 9472; 9472; 9573; 9472; 9472; 9472; 9472; 9472; 9472; 9472; 9472; 9472; 9573; 9472; 9472; 9472; 9472; 9472; 9488]%N /\
  nth 3 (box_lines box_sep ++ table_lines (header_drawing hsample) box_sep) [] =
    [9500; 9472; 9472; 9472; 9516; 9472; 9472; 9472; 9472; 9532; 9472; 9472; 9472; 9472; 9573; 9472; 9472; 9472; 9472; 9472; 9472; 9472; 9472; 9472; 9573; 9472; 9472; 9472; 9472; 9472; 9488]%N /\
  last (nth 2 (box_lines box_corner ++ table_lines (column_drawing csample) box_corner) []) 0%N = 9508%N.
Proof. exact box_sweep. Qed.

Print Assumptions C19_scan_layers_merged.
Print Assumptions C19_canvas_scan_merged.
Print Assumptions C19_canvas_cells_merged.
Print Assumptions C19_draw_roundtrip_merged.
Print Assumptions C19_recognize_plane_same_partition.
Print Assumptions C19_text_to_table_headers.
Print Assumptions C19_headers_nonvacuous.
Print Assumptions C19_recognize_plane_same_partition_columns.
Print Assumptions C19_text_to_table_columns.
Print Assumptions C19_columns_text_nonvacuous.
Print Assumptions C19_canvas_scan_box.
Print Assumptions C19_draw_roundtrip_box.
Print Assumptions C19_recognize_plane_renamed.
Print Assumptions C19_text_to_table_headers_box.
Print Assumptions C19_text_to_table_columns_box.
Print Assumptions C19_box_nonvacuous.
