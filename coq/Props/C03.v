(* C03 — decision tables return what their hit policy prescribes: property theorems only.
   Proofs are in C03/Proofs.v; the models (Spec: sat, hits, dt_spec; ImplModel: in_test, matching,
   dt_impl = decision_table.rs after the three fix commits, dt_impl_orig = the pinned commit) in C03/Model.v. *)
From Coq Require Import List ZArith NArith Bool Permutation Sorted.
From DV Require Import C03.Model C03.Proofs C03.LinkC01.
Import ListNotations.

(* headline: for every well-shaped table and every well-typed input tuple the code's algorithm returns
   what the declarative hit-policy Spec prescribes (all 11 policies, any number of inputs, outputs, rules) *)
Theorem C03_policy_refines : forall t xs, wf t = true -> typed t xs = true -> dt_impl t xs = dt_spec t xs.
Proof. exact policy_refines. Qed.

(* the three-valued evaluation of an input entry decides satisfaction *)
Theorem C03_entry_satisfied : forall x u, value_typed x u = true -> in_test false true in_neg_list x u = of_bool (sat x u).
Proof. exact in_test_sat. Qed.

(* the rules the code collects are exactly the rules whose every entry is satisfied, in rule order *)
Theorem C03_matching_exact : forall t xs, typed t xs = true ->
  matching false false t xs = map (eval_rule false false t xs) (filter (rule_sat t xs) (t_rules t)).
Proof. exact matching_exact. Qed.

Theorem C03_first_is_least_index : forall t xs, wf t = true -> typed t xs = true -> t_policy t = PFirst ->
  forall h hs, hits t xs = h :: hs ->
  dt_impl t xs = OOne (spec_out t h) /\
  exists before after, t_rules t = before ++ h :: after /\ rule_sat t xs h = true /\ forall r, In r before -> rule_sat t xs r = false.
Proof. exact first_is_least_index. Qed.

Theorem C03_collect_is_filter_map_in_rule_order : forall t xs, wf t = true -> typed t xs = true ->
  t_policy t = PRuleOrder \/ t_policy t = PCollect AList -> hits t xs <> [] ->
  dt_impl t xs = OMany (map (spec_out t) (filter (rule_sat t xs) (t_rules t))).
Proof. exact collect_in_rule_order. Qed.

Theorem C03_output_order_perm_sorted_stable : forall t l,
  Permutation l (by_priority t l) /\
  Sorted (fun x y => cmp_keys (key t x) (key t y) <> Gt) (by_priority t l) /\
  forall k, filter (fun r => key_eqb (key t r) k) (by_priority t l) = filter (fun r => key_eqb (key t r) k) l.
Proof. exact output_order_perm_sorted_stable. Qed.

Theorem C03_output_order_result : forall t xs, wf t = true -> typed t xs = true -> t_policy t = POutputOrder -> hits t xs <> [] ->
  dt_impl t xs = OMany (map (spec_out t) (by_priority t (hits t xs))).
Proof. exact output_order_result. Qed.

Theorem C03_priority_result : forall t xs, wf t = true -> typed t xs = true -> t_policy t = PPriority ->
  forall h hs, hits t xs = h :: hs ->
  exists top rest, by_priority t (h :: hs) = top :: rest /\ dt_impl t xs = OOne (spec_out t top).
Proof. exact priority_result. Qed.

Theorem C03_unique_any : forall t xs, wf t = true -> typed t xs = true ->
  (t_policy t = PUnique ->
     (forall h, hits t xs = [h] -> dt_impl t xs = OOne (spec_out t h)) /\
     (2 <= length (hits t xs) -> dt_impl t xs = onull)) /\
  (t_policy t = PAny -> forall h hs, hits t xs = h :: hs ->
     ((forall r, In r hs -> spec_out t r = spec_out t h) -> dt_impl t xs = OOne (spec_out t h)) /\
     ((exists r, In r hs /\ spec_out t r <> spec_out t h) -> dt_impl t xs = onull)).
Proof. exact unique_any. Qed.

Theorem C03_count_length : forall t xs, wf t = true -> typed t xs = true -> t_policy t = PCollect ACount -> hits t xs <> [] ->
  dt_impl t xs = OOne (RAtom (ANum (Z.of_nat (length (filter (rule_sat t xs) (t_rules t)))))).
Proof. exact count_length. Qed.

Theorem C03_aggregates : forall t xs, wf t = true -> typed t xs = true -> length (t_outputs t) = 1 -> hits t xs <> [] ->
  (t_policy t = PCollect ASum -> dt_impl t xs = OOne (RAtom (spec_sum (map (single_out t) (hits t xs))))) /\
  (t_policy t = PCollect AMin -> dt_impl t xs = OOne (RAtom (spec_min (map (single_out t) (hits t xs))))) /\
  (t_policy t = PCollect AMax -> dt_impl t xs = OOne (RAtom (spec_max (map (single_out t) (hits t xs))))).
Proof. exact aggregates. Qed.

Theorem C03_no_hit_default : forall t xs, wf t = true -> typed t xs = true -> hits t xs = [] ->
  (forall a, t_policy t <> PCollect a \/ length (t_outputs t) = 1 \/ a = AList \/ a = ACount) ->
  dt_impl t xs = OOne (spec_default t).
Proof. exact no_hit_default. Qed.

Theorem C03_compound_keyed_by_names : forall names vals k v,
  NoDup names -> length names = length vals -> In (k, v) (combine names vals) -> ctx_get k (mk_ctx names vals) = Some v.
Proof. exact compound_keyed_by_names. Qed.

Theorem C03_no_crash_if_well_shaped : forall t xs, wf t = true -> typed t xs = true ->
  dt_impl t xs <> OCrash /\ dt_impl t xs <> OBuildCrash.
Proof. exact no_crash_if_well_shaped. Qed.

Theorem C03_crash_if_ill_shaped :
  wf t_noout = false /\ dt_impl t_noout [ANum 1%Z] = OCrash /\ wf t_short = false /\ dt_impl t_short [ANum 1%Z; ANum 2%Z] = OBuildCrash.
Proof. exact crash_if_ill_shaped. Qed.

(* the code at the pinned commit violated the property (repaired by fix: commits in /repo) *)
Theorem C03_orig_negated_interval_refuted :
  wf t_neg = true /\ typed t_neg [ANum 9%Z] = true /\
  dt_spec t_neg [ANum 9%Z] = OOne (RAtom (ANum 7)) /\ dt_impl_orig t_neg [ANum 9%Z] = onull /\ dt_impl t_neg [ANum 9%Z] = OOne (RAtom (ANum 7)).
Proof. exact orig_negated_interval_refuted. Qed.

Theorem C03_orig_priority_flattened_refuted :
  wf t_prio = true /\ typed t_prio [ANum 0%Z] = true /\
  dt_spec t_prio [ANum 0%Z] = OMany [RCtx [(0%N, ANum 1); (1%N, ANum 2)]; RCtx [(0%N, ANum 1); (1%N, ANum 1)]] /\
  dt_impl_orig t_prio [ANum 0%Z] = OMany [RCtx [(0%N, ANum 1); (1%N, ANum 1)]; RCtx [(0%N, ANum 1); (1%N, ANum 2)]] /\
  dt_impl t_prio [ANum 0%Z] = dt_spec t_prio [ANum 0%Z].
Proof. exact orig_priority_flattened_refuted. Qed.

Theorem C03_orig_default_compound_refuted :
  wf t_dflt = true /\ typed t_dflt [ANum 0%Z] = true /\ hits t_dflt [ANum 0%Z] = [] /\
  dt_spec t_dflt [ANum 0%Z] = OOne (RCtx [(0%N, AStr 3); (1%N, AStr 5)]) /\
  dt_impl_orig t_dflt [ANum 0%Z] = onull /\ dt_impl t_dflt [ANum 0%Z] = dt_spec t_dflt [ANum 0%Z].
Proof. exact orig_default_compound_refuted. Qed.

Theorem C03_orig_dash_null_refuted :
  wf t_dash = true /\ typed t_dash [ANull] = true /\
  dt_spec t_dash [ANull] = OOne (RAtom (ANum 7)) /\ dt_impl_orig t_dash [ANull] = onull /\ dt_impl t_dash [ANull] = OOne (RAtom (ANum 7)).
Proof. exact orig_dash_null_refuted. Qed.

(* KNOWN FINDING null-literal-entry (listed in known_findings.txt): the literal null is not handled as a unary test
   (an input entry `null` never matches, a list of tests is cut short at a null item).  C03_policy_refines therefore
   excludes tables with null literals (no_null_lits, part of `typed`); with the literal handled the refinement holds
   for them too (dt_impl_nl), and the witness shows the difference. *)
Theorem C03_policy_refines_if_null_literal_handled : forall t xs, wf t = true -> typed_nl t xs = true -> dt_impl_nl t xs = dt_spec t xs.
Proof. exact policy_refines_nl. Qed.

Theorem C03_null_literal_known :
  wf t_nulllit = true /\ typed_nl t_nulllit [ANull] = true /\ typed_nl t_nulllit [ANum 1%Z] = true /\ no_null_lits t_nulllit = false /\
  dt_spec t_nulllit [ANull] = OMany [RAtom (ANum 7); RAtom (ANum 9)] /\ dt_impl t_nulllit [ANull] = onull /\
  dt_spec t_nulllit [ANum 1%Z] = OMany [RAtom (ANum 8); RAtom (ANum 9)] /\ dt_impl t_nulllit [ANum 1%Z] = OMany [RAtom (ANum 9)] /\
  dt_impl_nl t_nulllit [ANull] = dt_spec t_nulllit [ANull] /\ dt_impl_nl t_nulllit [ANum 1%Z] = dt_spec t_nulllit [ANum 1%Z].
Proof. exact null_literal_known. Qed.

Example C03_nonvacuous :
  wf t_ex = true /\ typed t_ex [ANum 5%Z; AStr 2] = true /\ length (hits t_ex [ANum 5%Z; AStr 2]) = 3 /\
  dt_impl t_ex [ANum 5%Z; AStr 2] = OOne (RCtx [(0%N, AStr 5); (1%N, ANum 3)]).
Proof. exact nonvacuous. Qed.

(* LINK TO C01 (C03/LinkC01.v): the unary-test evaluation of this model IS the FEEL `in` operator of the evaluator model
   coq/C01/Syntax.v (in_tests_eval = eval_in_list over Value::ExpressionList, written independently from the same
   builders.rs), for EVERY entry (`-`, list of tests, not(...)) and EVERY input value (null and ill-kinded included),
   three-valued: TT/TF/TN = true/false/null.  Numbers z |-> VNum (nenc z), strings s |-> VStr (senc s) for any order
   embeddings (instances: of_Z z 0, one-code-point strings).  F = C01.Syntax; feel_in adds the two arms of build_in C01
   does not model (Irrelevant => true, NegatedCommaList => negation of eval_in_list). *)
Theorem C03_matching_is_feel_in : forall nenc senc, num_embedding nenc -> str_embedding senc -> forall x u,
  feel_in (tr_atom nenc senc x) (tr_utest nenc senc u) = tv_val (in_test false false (in_neg_list_gen false) x u) /\
  is_tt (in_test false false (in_neg_list_gen false) x u) = F.is_true (feel_in (tr_atom nenc senc x) (tr_utest nenc senc u)).
Proof. intros nenc senc Hn Hs x u. split; [exact (in_test_is_feel_in nenc senc Hn Hs x u) | exact (entry_satisfied_is_feel_in nenc senc Hn Hs x u)]. Qed.

(* an entry under allowed input values is And(In(x, values), In(x, entry)); a rule matches iff every such evaluator is true *)
Theorem C03_rule_matches_is_feel_in : forall nenc senc, num_embedding nenc -> str_embedding senc ->
  (forall x ic e, entry_true false false x ic e = F.is_true (feel_entry nenc senc x ic e)) /\
  (forall t xs r, matches (eval_rule false false t xs r) = feel_rule nenc senc xs (t_inputs t) (r_in r)).
Proof. intros nenc senc Hn Hs. split; [exact (entry_true_is_feel nenc senc Hn Hs) | exact (matches_is_feel nenc senc Hn Hs)]. Qed.

(* the same through C01's evaluator of expressions (any enumeration of iteration tuples, any fuel >= 2, any scope
   binding the input name): `x in (t1, …, tn)` is true exactly when the entry t1, …, tn is satisfied.  For ONE test C01's
   EIn takes build_in's scalar arm, where a comparison / interval against null is null instead of false: satisfaction agrees,
   the three-valued answer does not (C03_matching_is_feel_in_nonvacuous, last line but one). *)
Theorem C03_feel_in_expression : forall nenc senc, num_embedding nenc -> str_embedding senc -> forall cartf f St n x l,
  F.lookup n St = Some (tr_atom nenc senc x) ->
  F.is_true (FS.eval cartf (S (S f)) St (F.EIn (F.EName n) (map (tr_item nenc senc) l))) = is_tt (in_list_gen false x l).
Proof. exact eval_in_is_in_list. Qed.

Example C03_matching_is_feel_in_nonvacuous :
  num_embedding nenc0 /\ str_embedding senc0 /\
  (feel_in (tr_atom nenc0 senc0 (ANum 7)) (tr_utest nenc0 senc0 (UPos [ILit (ANum 3); IRange (ANum 5) true (ANum 9) false])) = F.VBool true /\
   feel_in (tr_atom nenc0 senc0 (ANum 9)) (tr_utest nenc0 senc0 (UPos [ILit (ANum 3); IRange (ANum 5) true (ANum 9) false])) = F.VBool false /\
   feel_in (tr_atom nenc0 senc0 (ANum (-4))) (tr_utest nenc0 senc0 (UNeg [ICmp CGe (ANum (-3)); ILit (ANum 0)])) = F.VBool true /\
   feel_in (tr_atom nenc0 senc0 (AStr 4)) (tr_utest nenc0 senc0 (UPos [ICmp CGt (AStr 4); ILit (AStr 4)])) = F.VBool true /\
   feel_in (tr_atom nenc0 senc0 (AStr 4)) (tr_utest nenc0 senc0 (UPos [ILit ANull; ILit (AStr 4)])) = F.VNull /\
   feel_in (tr_atom nenc0 senc0 ANull) (tr_utest nenc0 senc0 UAny) = F.VBool true /\
   feel_in (tr_atom nenc0 senc0 ANull) (tr_utest nenc0 senc0 (UPos [ICmp CLt (ANum 5); ILit (ANum 1)])) = F.VBool false /\
   feel_in (tr_atom nenc0 senc0 (ABool true)) (tr_utest nenc0 senc0 (UNeg [ILit (ABool false)])) = F.VBool true /\
   F.is_true (FS.eval_spec 5 [[(1%N, F.VNum (Dec.of_Z 7 0))]]
      (F.EIn (F.EName 1%N) (map (tr_item nenc0 senc0) [ILit (ANum 3); IRange (ANum 5) true (ANum 9) false]))) = true) /\
  (F.in_eval (tr_atom nenc0 senc0 ANull) (tr_item_v nenc0 senc0 (ICmp CLt (ANum 5))) = F.VNull /\
   feel_in (tr_atom nenc0 senc0 ANull) (tr_utest nenc0 senc0 (UPos [ICmp CLt (ANum 5)])) = F.VBool false /\
   in_test false false (in_neg_list_gen false) ANull (UPos [ICmp CLt (ANum 5)]) = TF /\
   feel_in (tr_atom nenc0 senc0 ANull) (tr_utest nenc0 senc0 (UNeg [ICmp CLt (ANum 5)])) = F.VBool true).
Proof. exact (conj nenc0_embedding (conj senc0_embedding (conj link_nonvacuous single_test_null_differs))). Qed.

Print Assumptions C03_policy_refines.
Print Assumptions C03_entry_satisfied.
Print Assumptions C03_matching_exact.
Print Assumptions C03_first_is_least_index.
Print Assumptions C03_collect_is_filter_map_in_rule_order.
Print Assumptions C03_output_order_perm_sorted_stable.
Print Assumptions C03_output_order_result.
Print Assumptions C03_priority_result.
Print Assumptions C03_unique_any.
Print Assumptions C03_count_length.
Print Assumptions C03_aggregates.
Print Assumptions C03_no_hit_default.
Print Assumptions C03_compound_keyed_by_names.
Print Assumptions C03_no_crash_if_well_shaped.
Print Assumptions C03_crash_if_ill_shaped.
Print Assumptions C03_orig_negated_interval_refuted.
Print Assumptions C03_orig_priority_flattened_refuted.
Print Assumptions C03_orig_default_compound_refuted.
Print Assumptions C03_orig_dash_null_refuted.
Print Assumptions C03_policy_refines_if_null_literal_handled.
Print Assumptions C03_null_literal_known.
Print Assumptions C03_nonvacuous.
Print Assumptions C03_matching_is_feel_in.
Print Assumptions C03_rule_matches_is_feel_in.
Print Assumptions C03_feel_in_expression.
Print Assumptions C03_matching_is_feel_in_nonvacuous.
