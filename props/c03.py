"""C03 — decision tables return what their hit policy prescribes.
Proof: coq/Props/C03.v (ImplModel of decision_table.rs refines the declarative hit-policy Spec for every table and input tuple).
Correspondence: generated tables -> DMN XML -> ModelEvaluator::evaluate_invocable (and, drawn as text, -> dmntk_recognizer ->
build_decision_table_evaluator) vs coq/C03/Model.v (dt_impl and dt_spec evaluated by vm_compute)."""
import json
from xml.sax.saxutils import escape

from vlib import core
from vlib.coqterm import App

HEADER = ('From Coq Require Import List ZArith NArith Bool.\nFrom DV Require Import C03.Model C03.Spec2.\nImport ListNotations.\n')

# strings of the model are codes; the code order is the byte order of these texts
STRS = ['A', 'Ab', 'B', 'High', 'Low', 'Medium', 'a', 'a b', 'aa', 'b', 'z', 'é']
assert STRS == sorted(STRS, key=lambda s: s.encode('utf-8'))
NAMES = ['Alpha', 'Beta rate', 'Gamma', 'Rate', 'Status']          # output component names, sorted
assert NAMES == sorted(NAMES)
INPUT_NAMES = ['a', 'b', 'Order size', 'd', 'e']
POLICIES = ['UNIQUE', 'ANY', 'PRIORITY', 'FIRST', 'RULE ORDER', 'OUTPUT ORDER', 'COLLECT', 'C#', 'C+', 'C<', 'C>']
POLICY_XML = {'UNIQUE': ('UNIQUE', None), 'ANY': ('ANY', None), 'PRIORITY': ('PRIORITY', None), 'FIRST': ('FIRST', None),
              'RULE ORDER': ('RULE ORDER', None), 'OUTPUT ORDER': ('OUTPUT ORDER', None), 'COLLECT': ('COLLECT', None),
              'C#': ('COLLECT', 'COUNT'), 'C+': ('COLLECT', 'SUM'), 'C<': ('COLLECT', 'MIN'), 'C>': ('COLLECT', 'MAX')}
POLICY_COQ = {'UNIQUE': 'PUnique', 'ANY': 'PAny', 'PRIORITY': 'PPriority', 'FIRST': 'PFirst', 'RULE ORDER': 'PRuleOrder',
              'OUTPUT ORDER': 'POutputOrder', 'COLLECT': '(PCollect AList)', 'C#': '(PCollect ACount)', 'C+': '(PCollect ASum)',
              'C<': '(PCollect AMin)', 'C>': '(PCollect AMax)'}
TYPEREF = {'n': 'number', 's': 'string', 'b': 'boolean'}

# ------------------------------------------------------------------ atoms: ('null',) ('n', int) ('s', code) ('b', bool)
NULL = ('null',)


def feel_atom(a):
    if a[0] == 'null':
        return 'null'
    if a[0] == 'n':
        return str(a[1])
    if a[0] == 's':
        return '"%s"' % STRS[a[1]]
    return 'true' if a[1] else 'false'


def coq_atom(a):
    if a[0] == 'null':
        return 'ANull'
    if a[0] == 'n':
        return '(ANum (%d)%%Z)' % a[1]
    if a[0] == 's':
        return '(AStr %d%%N)' % a[1]
    return '(ABool %s)' % ('true' if a[1] else 'false')


# items: ('lit', a) ('cmp', op, a) ('rng', lo, lc, hi, hc, style)
CMP_FEEL = {'lt': '<', 'le': '<=', 'gt': '>', 'ge': '>='}
CMP_COQ = {'lt': 'CLt', 'le': 'CLe', 'gt': 'CGt', 'ge': 'CGe'}


def feel_item(i):
    if i[0] == 'lit':
        return feel_atom(i[1])
    if i[0] == 'cmp':
        return '%s %s' % (CMP_FEEL[i[1]], feel_atom(i[2]))
    _, lo, lc, hi, hc, style = i
    if style == 0:
        return '%s%s..%s%s' % ('[' if lc else '(', feel_atom(lo), feel_atom(hi), ']' if hc else ')')
    return '%s%s..%s%s' % ('[' if lc else ']', feel_atom(lo), feel_atom(hi), ']' if hc else '[')


def coq_bool(b):
    return 'true' if b else 'false'


def coq_item(i):
    if i[0] == 'lit':
        return '(ILit %s)' % coq_atom(i[1])
    if i[0] == 'cmp':
        return '(ICmp %s %s)' % (CMP_COQ[i[1]], coq_atom(i[2]))
    _, lo, lc, hi, hc, _ = i
    return '(IRange %s %s %s %s)' % (coq_atom(lo), coq_bool(lc), coq_atom(hi), coq_bool(hc))


# unary tests: ('any',) ('pos', [items]) ('neg', [items])
def feel_utest(u):
    if u[0] == 'any':
        return '-'
    body = ', '.join(feel_item(i) for i in u[1])
    return body if u[0] == 'pos' else 'not(%s)' % body


def coq_list(xs):
    return '[' + '; '.join(xs) + ']'


def coq_utest(u):
    if u[0] == 'any':
        return 'UAny'
    return '(%s %s)' % ('UPos' if u[0] == 'pos' else 'UNeg', coq_list([coq_item(i) for i in u[1]]))


def coq_opt(x, f):
    return 'None' if x is None else '(Some %s)' % f(x)


def coq_table(t):
    ins = coq_list(['(Build_iclause %s)' % coq_opt(ic['values'], lambda v: coq_list([coq_item(i) for i in v])) for ic in t['inputs']])
    outs = coq_list(['(Build_oclause %s %s %s)' % (coq_opt(oc['name'], lambda n: '%d%%N' % n),
                                                  coq_opt(oc['values'], lambda v: coq_list([coq_atom(a) for a in v])),
                                                  coq_opt(oc['default'], coq_atom)) for oc in t['outputs']])
    rules = coq_list(['(Build_rule %s %s)' % (coq_list([coq_utest(u) for u in r['in']]), coq_list([coq_atom(a) for a in r['out']])) for r in t['rules']])
    return '(Build_table %s %s %s %s)' % (POLICY_COQ[t['hp']], ins, outs, rules)


def coq_tuple(xs):
    return coq_list([coq_atom(a) for a in xs])


# ------------------------------------------------------------------ DMN XML
def table_xml(t):
    s = ['<?xml version="1.0" encoding="UTF-8"?><definitions namespace="https://verif/c03" name="m" id="d1" '
         'xmlns="https://www.omg.org/spec/DMN/20191111/MODEL/">']
    for i, ic in enumerate(t['inputs']):
        s.append('<inputData name="%s" id="i%d"><variable name="%s" typeRef="%s"/></inputData>' % (INPUT_NAMES[i], i, INPUT_NAMES[i], TYPEREF[ic['kind']]))
    s.append('<decision name="dec" id="dd1"><variable name="dec"/>')
    for i in range(len(t['inputs'])):
        s.append('<informationRequirement><requiredInput href="#i%d"/></informationRequirement>' % i)
    hp, agg = POLICY_XML[t['hp']]
    s.append('<decisionTable hitPolicy="%s"%s>' % (hp, ' aggregation="%s"' % agg if agg else ''))
    for i, ic in enumerate(t['inputs']):
        s.append('<input><inputExpression><text>%s</text></inputExpression>' % INPUT_NAMES[i])
        if ic['values'] is not None:
            s.append('<inputValues><text>%s</text></inputValues>' % escape(', '.join(feel_item(x) for x in ic['values'])))
        s.append('</input>')
    for oc in t['outputs']:
        s.append('<output%s>' % (' name="%s"' % NAMES[oc['name']] if oc['name'] is not None else ''))
        if oc['values'] is not None:
            s.append('<outputValues><text>%s</text></outputValues>' % escape(', '.join(feel_atom(a) for a in oc['values'])))
        if oc['default'] is not None:
            s.append('<defaultOutputEntry><text>%s</text></defaultOutputEntry>' % escape(feel_atom(oc['default'])))
        s.append('</output>')
    for r in t['rules']:
        s.append('<rule>')
        for u in r['in']:
            s.append('<inputEntry><text>%s</text></inputEntry>' % escape(feel_utest(u)))
        for a in r['out']:
            s.append('<outputEntry><text>%s</text></outputEntry>' % escape(feel_atom(a)))
        s.append('</rule>')
    s.append('</decisionTable></decision></definitions>')
    return ''.join(s)


def ctx_text(t, xs):
    return '{' + ', '.join('%s: %s' % (INPUT_NAMES[i], feel_atom(a)) for i, a in enumerate(xs)) + '}'


# ------------------------------------------------------------------ canonical outcomes
def canon_impl_value(v):
    if v is None:
        return NULL
    if isinstance(v, bool):
        return ('b', v)
    if isinstance(v, str):
        return ('s', STRS.index(v)) if v in STRS else ('str?', v)
    if isinstance(v, dict) and 'p' in v:
        try:
            return ('n', int(v['p']))
        except ValueError:
            return ('num?', v['p'])
    if isinstance(v, dict) and 'c' in v:
        return ('ctx', tuple(sorted(((NAMES.index(k) if k in NAMES else k, canon_impl_value(x)) for k, x in v['c']), key=lambda kv: (isinstance(kv[0], str), str(kv[0])))))
    return ('other', json.dumps(v))


def canon_impl(ans):
    """answer of one call of `dv model` -> canonical outcome"""
    if 'panic' in ans or 'crash' in ans:
        return ('crash',)
    if 'v' not in ans:
        return ('err', json.dumps(ans))
    v = ans['v']
    if isinstance(v, list):
        return ('many', tuple(canon_impl_value(x) for x in v))
    return ('one', canon_impl_value(v))


def canon_model_atom(a):
    if a.name == 'ANull':
        return NULL
    if a.name == 'ANum':
        return ('n', a.args[0])
    if a.name == 'AStr':
        return ('s', a.args[0])
    return ('b', a.args[0])


def canon_model_rv(r):
    if r.name == 'RAtom':
        return canon_model_atom(r.args[0])
    return ('ctx', tuple(sorted((k, canon_model_atom(v)) for k, v in r.args[0])))


def canon_model(o):
    if o.name == 'OOne':
        return ('one', canon_model_rv(o.args[0]))
    if o.name == 'OMany':
        return ('many', tuple(canon_model_rv(x) for x in o.args[0]))
    if o.name == 'OCrash':
        return ('crash',)
    return ('buildcrash',)


# ------------------------------------------------------------------ steering semantics (used only to choose input tuples)
def _lt(a, b):
    return a[0] == b[0] and a[0] in ('n', 's') and a[1] < b[1]


def _sat_item(x, i):
    if i[0] == 'lit':
        return x == i[1]
    if i[0] == 'cmp':
        op, a = i[1], i[2]
        return {'lt': _lt(x, a), 'le': _lt(x, a) or x == a, 'gt': _lt(a, x), 'ge': _lt(a, x) or x == a}[op]
    _, lo, lc, hi, hc, _ = i
    return (_lt(lo, x) or (lc and lo == x)) and (_lt(x, hi) or (hc and hi == x))


def _sat(x, u):
    if u[0] == 'any':
        return True
    r = any(_sat_item(x, i) for i in u[1])
    return r if u[0] == 'pos' else not r


def steer_hits(t, xs):
    n = 0
    for r in t['rules']:
        ok = len(r['in']) >= len(t['inputs'])
        if ok:
            for x, ic, u in zip(xs, t['inputs'], r['in']):
                if ic['values'] is not None and not any(_sat_item(x, i) for i in ic['values']):
                    ok = False
                if not _sat(x, u):
                    ok = False
        n += 1 if ok else 0
    return n


# ------------------------------------------------------------------ generator
def gen_atom(rng, kind, lo=-2, hi=9):
    if kind == 'n':
        return ('n', rng.randint(lo, hi))
    if kind == 's':
        return ('s', rng.randrange(len(STRS)))
    return ('b', rng.random() < 0.5)


def gen_item(rng, kind, odd):
    if odd and rng.random() < 0.05:     # a literal, comparison or interval of another kind than the input / the null literal
        k2 = rng.choice(['null', 'n', 's', 'b'])
        if k2 in ('n', 's') and rng.random() < 0.5:
            if rng.random() < 0.5:
                return ('cmp', rng.choice(['lt', 'le', 'gt', 'ge']), gen_atom(rng, k2, 0, 9))
            a, b = sorted([gen_atom(rng, k2, 0, 9), gen_atom(rng, k2, 0, 9)])
            return ('rng', a, rng.random() < 0.5, b, rng.random() < 0.5, 0)
        return ('lit', NULL if k2 == 'null' else gen_atom(rng, k2))
    if rng.random() < 0.03:
        return ('lit', NULL)                # the null literal is a test like any other literal
    if kind == 'b':
        return ('lit', gen_atom(rng, 'b'))
    c = rng.random()
    if c < 0.4:
        return ('lit', gen_atom(rng, kind))
    if c < 0.7:
        return ('cmp', rng.choice(['lt', 'le', 'gt', 'ge']), gen_atom(rng, kind, 0, 9))     # (the parser rejects `< -1`)
    a, b = gen_atom(rng, kind, 0, 9), gen_atom(rng, kind, 0, 9)
    if rng.random() < 0.85 and a[1] > b[1]:
        a, b = b, a
    return ('rng', a, rng.random() < 0.5, b, rng.random() < 0.5, 0 if rng.random() < 0.7 else 1)


def gen_utest(rng, kind, odd):
    c = rng.random()
    if c < 0.22:
        return ('any',)
    if c < 0.78:
        return ('pos', [gen_item(rng, kind, odd) for _ in range(rng.choice([1, 1, 1, 2, 2, 3]))])
    return ('neg', [gen_item(rng, kind, odd) for _ in range(rng.choice([1, 1, 2, 3]))])


def gen_table(rng, odd=True, max_in=4, hp=None):
    hp = hp or rng.choice(POLICIES)
    n_in = rng.randint(1, max_in)
    n_out = rng.choice([1, 1, 1, 2, 2, 3])
    inputs = []
    for _ in range(n_in):
        kind = rng.choice(['n', 'n', 'n', 's', 's', 'b'])
        values = None
        if rng.random() < 0.25:
            if kind == 'b':
                values = [('lit', ('b', True)), ('lit', ('b', False))]
            elif kind == 'n' and rng.random() < 0.5:
                values = [('rng', ('n', rng.randint(0, 3)), True, ('n', rng.randint(5, 9)), rng.random() < 0.6, 0)]
            else:
                values = [('lit', gen_atom(rng, kind)) for _ in range(rng.randint(2, 6))]
        inputs.append({'kind': kind, 'values': values})
    outputs = []
    name_ids = rng.sample(range(len(NAMES)), n_out)
    shared_pool = None
    for k in range(n_out):
        okind = 'n' if hp in ('C+',) or (hp in ('C<', 'C>') and rng.random() < 0.7) else rng.choice(['n', 's', 's'])
        if hp == 'ANY':
            pool = [gen_atom(rng, okind) for _ in range(rng.choice([1, 1, 2]))]
        else:
            pool = [gen_atom(rng, okind, 0, 6) for _ in range(rng.randint(2, 5))]
        if shared_pool is not None and rng.random() < 0.25:
            pool = shared_pool                       # two clauses over the same values (priority lists may then differ in order)
        shared_pool = pool
        values = None
        if rng.random() < (0.85 if hp in ('PRIORITY', 'OUTPUT ORDER') else 0.3):
            values = list(dict.fromkeys(pool))
            if rng.random() < 0.35 and len(values) > 1:
                values.pop(rng.randrange(len(values)))        # an output entry outside the output values
            if rng.random() < 0.3:
                values.append(gen_atom(rng, okind))
            rng.shuffle(values)
        default = rng.choice(pool + [gen_atom(rng, okind)]) if rng.random() < 0.35 else None
        name = name_ids[k] if (n_out > 1 or rng.random() < 0.4) else None
        if odd and n_out > 1 and rng.random() < 0.02:
            name = None if rng.random() < 0.5 else name_ids[0]         # missing / duplicate component name
        outputs.append({'name': name, 'values': values, 'default': default, 'pool': pool, 'kind': okind})
    rules = []
    for _ in range(rng.choice([0, 1, 2, 3, 3, 4, 4, 5, 6, 7, 8])):
        ins = [gen_utest(rng, ic['kind'], odd) for ic in inputs]
        outs = [rng.choice(oc['pool']) if rng.random() < 0.97 or not odd else NULL for oc in outputs]
        rules.append({'in': ins, 'out': outs})
    return {'hp': hp, 'inputs': inputs, 'outputs': outputs, 'rules': rules}


def candidate_values(rng, t, col):
    kind = t['inputs'][col]['kind']
    vals = set()
    for r in t['rules']:
        u = r['in'][col]
        if u[0] == 'any':
            continue
        for i in u[1]:
            lits = [i[1]] if i[0] == 'lit' else [i[2]] if i[0] == 'cmp' else [i[1], i[3]]
            for a in lits:
                if a[0] == kind:
                    vals.add(a)
                    if kind == 'n':
                        vals.add(('n', a[1] - 1))
                        vals.add(('n', a[1] + 1))
                    if kind == 's':
                        vals.add(('s', max(0, a[1] - 1)))
                        vals.add(('s', min(len(STRS) - 1, a[1] + 1)))
    for _ in range(3):
        vals.add(gen_atom(rng, kind, -3, 11))
    return sorted(vals)


def gen_tuples(rng, t, n, odd=True):
    cands = [candidate_values(rng, t, c) for c in range(len(t['inputs']))]
    pool = []
    for _ in range(40):
        xs = [rng.choice(c) for c in cands]
        pool.append((steer_hits(t, xs), xs))
    chosen = []
    for want in (lambda h: h == 0, lambda h: h == 1, lambda h: h >= 2, lambda h: h >= 3, lambda h: h == 1, lambda h: h >= 2):
        for h, xs in pool:
            if want(h) and xs not in chosen:
                chosen.append(xs)
                break
    for h, xs in pool:
        if len(chosen) >= n:
            break
        if xs not in chosen:
            chosen.append(xs)
    chosen = chosen[:n]
    if odd and rng.random() < 0.3 and chosen:          # a null input value (inside the theorems: the Spec is compared)
        xs = list(chosen[-1])
        xs[rng.randrange(len(xs))] = NULL
        chosen[-1] = xs
    return chosen


# the witnesses of coq/C03 (null_literal_known, scope_hypotheses_needed) as generator tables: every run demonstrates the
# known finding null-literal-entry against the real code
def _t1(hp, rules):
    return {'hp': hp, 'inputs': [{'kind': 'n', 'values': None}], 'outputs': [{'name': None, 'values': None, 'default': None, 'pool': [], 'kind': 'n'}],
            'rules': [{'in': [u], 'out': [('n', o)]} for u, o in rules]}


WITNESSES = [
    (_t1('COLLECT', [(('pos', [('lit', NULL)]), 7), (('neg', [('lit', NULL)]), 8), (('pos', [('lit', ('n', 1)), ('lit', NULL)]), 9)]),
     [[NULL], [('n', 1)], [('n', 5)]]),
    (_t1('FIRST', [(('pos', [('lit', ('n', 1)), ('lit', NULL), ('lit', ('n', 2))]), 7)]),
     [[('n', 1)], [('n', 2)], [NULL], [('n', 3)]]),
    (_t1('COLLECT', [(('neg', [('cmp', 'lt', ('n', 5))]), 1), (('pos', [('cmp', 'lt', ('n', 5))]), 2), (('any',), 3), (('neg', [('rng', ('n', 1), True, ('n', 5), True, 0)]), 4),
                     (('pos', [('cmp', 'le', ('s', 2)), ('lit', ('b', True))]), 5), (('neg', [('cmp', 'ge', ('s', 2)), ('lit', ('b', True))]), 6)]),
     [[NULL], [('n', 3)], [('n', 7)]]),
    # booleans are not ordered: `<= true` holds of no value (not of true either), not(<= true) of every value
    (dict(_t1('COLLECT', [(('pos', [('cmp', 'le', ('b', True))]), 1), (('neg', [('cmp', 'le', ('b', True))]), 2), (('any',), 3)]), inputs=[{'kind': 'b', 'values': None}]),
     [[('b', True)], [('b', False)], [NULL]]),
]


# ------------------------------------------------------------------ the check
def model_term(t, tuples):
    return ('let t := %s in map (fun xs => (dt_impl t xs, dt_impl_orig t xs, dt_spec t xs, (wf t && in_scope t xs)%%bool, length (hits t xs), '
            '(wf t && arity_ok t xs)%%bool, (wf t && agreeing t xs)%%bool)) %s'
            % (coq_table(t), coq_list([coq_tuple(xs) for xs in tuples])))


def strip(t):
    """table without generator-only fields (for replay files)"""
    return {'hp': t['hp'], 'inputs': [{'kind': ic['kind'], 'values': ic['values']} for ic in t['inputs']],
            'outputs': [{'name': oc['name'], 'values': oc['values'], 'default': oc['default']} for oc in t['outputs']], 'rules': t['rules']}


def describe(t, xs):
    return {'table': strip(t), 'inputs': xs, 'xml': table_xml(t), 'context': ctx_text(t, xs)}


def has_null_literal(t):
    def items(u):
        return [] if u[0] == 'any' else u[1]
    return (any(i == ('lit', NULL) for r in t['rules'] for u in r['in'] for i in items(u)) or
            any(i == ('lit', NULL) for ic in t['inputs'] if ic['values'] for i in ic['values']) or
            any(a == NULL for oc in t['outputs'] if oc['values'] for a in oc['values']))


def known_class(t, xs, nhits):
    """classes of listed known findings (key or None)"""
    if has_null_literal(t):
        return 'null-literal-entry'
    return None


def judge(ctx, t, tuples, ans, mres, stats):
    """ans: answer of `dv model` for the table; mres: model results per tuple"""
    if not isinstance(ans, dict) or 'results' not in ans:
        ctx.violation('evaluating a generated decision table killed the process: %s' % json.dumps(ans)[:200], describe(t, tuples[0] if tuples else []), impl=ans)
        return
    for k, xs in enumerate(tuples):
        m_impl, m_orig, m_spec, hyp, nhits, shaped, hyp_ag = mres[k]
        # hyp: wf && in_scope (C03_policy_refines); hyp_ag: wf && agreeing (C03_policy_refines_agreeing, implied by hyp);
        # shaped: wf && one value per input clause (outside it only code = ImplModel is judged)
        m_impl, m_orig, m_spec = canon_model(m_impl), canon_model(m_orig), canon_model(m_spec)
        if ans.get('parse') != 'ok':
            got = ('parse-' + str(ans.get('parse')),)
        elif ans.get('build') == 'panic':
            got = ('buildcrash',)
        elif ans.get('build') != 'ok':
            got = ('build-err',)
        else:
            got = canon_impl(ans['results'][k])
        ctx.evaluations += 1
        ctx.corr_checked += 1
        hb = '0' if nhits == 0 else '1' if nhits == 1 else '2+'
        stats['hits'][hb] = stats['hits'].get(hb, 0) + 1
        stats['policy'][t['hp']] = stats['policy'].get(t['hp'], 0) + 1
        cls = 'in_scope' if hyp else 'agreeing (null literal not reached)' if hyp_ag else 'null literal reached' if shaped else 'ill-shaped table'
        stats['hyp'][cls] = stats['hyp'].get(cls, 0) + 1
        if NULL in xs:
            stats['hyp']['of which with a null input value'] = stats['hyp'].get('of which with a null input value', 0) + 1
        ctx.nontrivial.add((t['hp'], hb, len(t['outputs']), len(t['inputs']), got[0], min(len(t['rules']), 5)))
        case = describe(t, xs)
        show = dict(impl=list(got), model=list(m_impl), spec=list(m_spec))
        if hyp_ag and m_impl != m_spec:
            ctx.violation('the model contradicts theorem C03_policy_refines_agreeing (ImplModel %s, Spec %s)' % (m_impl, m_spec), case, **show)
            continue
        if got == m_impl:
            if m_impl == m_spec or not shaped:
                if len(ctx.samples) < 4 and nhits >= 2 and len(t['rules']) <= 4 and len(t['inputs']) <= 2 and hyp:
                    ctx.sample({'hit_policy': t['hp'], 'rules': [[feel_utest(u) for u in r['in']] + ['=>'] + [feel_atom(a) for a in r['out']] for r in t['rules']],
                                'context': ctx_text(t, xs), 'result': list(got)})
                continue
            # a Spec deviation of a well-shaped table outside `agreeing`: a null literal is reached — the listed known finding
            key = known_class(t, xs, nhits)
            if not (key and ctx.known(key, case)):
                ctx.violation('decision table result %s is not what the hit policy %s prescribes (%s); the code behaves as its model' % (got, t['hp'], m_spec), case, **show)
            continue
        # the code is not the modelled algorithm here
        if got in (('crash',), ('buildcrash',)):
            if m_impl != got:
                ctx.violation('decision table evaluation panicked (%s) where the model gives %s' % (got, m_impl), case, **show)
            continue
        if hyp_ag and got != m_spec:
            ctx.violation('decision table result %s is not what the hit policy %s prescribes (%s)' % (got, t['hp'], m_spec), case, **show)
        elif hyp_ag:
            ctx.corr_broken('decision_table.rs vs dt_impl (result agrees with the Spec)', case, list(got), list(m_impl))
        elif shaped and got != m_spec and not (known_class(t, xs, nhits) and ctx.known(known_class(t, xs, nhits), case)):
            ctx.violation('decision table result %s is not what the hit policy %s prescribes (%s)' % (got, t['hp'], m_spec), case, **show)
        else:
            ctx.corr_broken('decision_table.rs vs dt_impl (outside the hypotheses of the refinement theorems)', case, list(got), list(m_impl))


def run(ctx):
    ctx.proof_gate()
    ctx.build_harness()
    rng = ctx.rng
    n_tables = ctx.pick(1500, 60000)
    tables, tuples = [], []
    for t, tp in WITNESSES:
        tables.append(t)
        tuples.append(tp)
    for i in range(n_tables):
        t = gen_table(rng)
        tables.append(t)
        tuples.append(gen_tuples(rng, t, 6))
    reqs = [{'xml': table_xml(t), 'calls': [['dec', ctx_text(t, xs)] for xs in tp]} for t, tp in zip(tables, tuples)]
    impl = ctx.run_impl('model', reqs, shards=16)
    model = ctx.run_model(HEADER, [model_term(t, tp) for t, tp in zip(tables, tuples)], shard_size=ctx.pick(100, 400))
    stats = {'hits': {}, 'policy': {}, 'hyp': {}}
    for t, tp, ans, mres in zip(tables, tuples, impl, model):
        judge(ctx, t, tp, ans, mres, stats)
    return ctx.finish(
        rule='random tables (1..4 typed inputs, 1..3 outputs, 0..8 rules, all 11 hit policies/aggregators; entries: -, literals, < <= > >=, four interval forms in both '
             'bracket styles, disjunctions, not(..); optional input values, output values, defaults; a few ill-typed literals, null inputs, missing component names; comparisons and intervals of another kind than the input; null input values in 30 % of the tables) as DMN XML, preceded by the four witness tables of coq/C03 (null literal entries, not(..) against null); '
             '6 input tuples per table chosen so that 0, 1 and >=2 rules match; non-trivial = distinct (policy, hits 0/1/2+, #outputs, #inputs, outcome kind, #rules)',
        extra_cov={'exhaustive': False, 'tables': n_tables, 'hits_histogram': stats['hits'], 'policy_histogram': stats['policy'],
                   'within_theorem_hypotheses': stats['hyp']},   # in_scope / agreeing: compared with the Spec; null literal reached: known finding class
        assumptions=['input expressions are plain input names (expression evaluation is C01/C04), values are integers, strings and booleans',
                     'an input value outside the allowed input values satisfies no entry (interpretive choice, follows the code)',
                     'the parser rejects negative endpoints (`< -1`, `[-1..2]`): comparisons and intervals are generated with non-negative endpoints'],
        trusted=['dv model (dmntk_model::parse + ModelEvaluator::new + evaluate_invocable)'])


def replay(ctx, path):
    obj = json.load(open(path))
    case = obj['case']
    t = case['table']

    def fix(x):
        return tuple(fix(y) for y in x) if isinstance(x, list) and x and isinstance(x[0], str) else [fix(y) for y in x] if isinstance(x, list) else x
    t = json.loads(json.dumps(t))
    t['inputs'] = [{'kind': ic['kind'], 'values': None if ic['values'] is None else [fix(i) for i in ic['values']]} for ic in t['inputs']]
    t['outputs'] = [{'name': oc['name'], 'values': None if oc['values'] is None else [fix(a) for a in oc['values']],
                     'default': None if oc['default'] is None else fix(oc['default'])} for oc in t['outputs']]
    t['rules'] = [{'in': [fix(u) for u in r['in']], 'out': [fix(a) for a in r['out']]} for r in t['rules']]
    xs = [fix(a) for a in case['inputs']]
    ctx.build_harness()
    ans = ctx.run_impl('model', [{'xml': table_xml(t), 'calls': [['dec', ctx_text(t, xs)]]}])[0]
    mres = ctx.run_model(HEADER, [model_term(t, [xs])])[0]
    print('xml     :', table_xml(t))
    print('context :', ctx_text(t, xs))
    print('implementation:', json.dumps(ans)[:500])
    print('ImplModel     :', canon_model(mres[0][0]))
    print('Spec          :', canon_model(mres[0][2]), '(wf && in_scope: %s, hits: %s; wf && one value per input: %s; wf && agreeing: %s)' % (mres[0][3], mres[0][4], mres[0][5], mres[0][6]))
    stats = {'hits': {}, 'policy': {}, 'hyp': {}}
    judge(ctx, t, [xs], ans, mres, stats)
    fail = bool(ctx.violations or ctx.broken)
    print('REPRODUCED' if fail else 'not reproduced')
    return 1 if fail else 0


MANIFEST = dict(
    technique='Coq proof (refinement of a declarative hit-policy Spec by a transliteration of decision_table.rs and of the unary-test evaluation) with model/code correspondence on generated DMN XML',
    text='Theorems (coq/Props/C03.v, closed under the global context), any number of inputs, outputs and rules. HYPOTHESES, all boolean and evaluated by the check for every case: '
         'wf t (at least one output clause, every rule has one entry per input and per output clause, several output clauses are named distinctly) and in_scope t xs '
         '(no literal `null` in an input entry, in allowed input values or in output values — known finding null-literal-entry — and one input value per input clause). '
         'NOTHING is assumed about the input values: null inputs and values of another kind than the literals of an entry are inside. Under wf and in_scope the ImplModel of the code AS IT IS '
         '(dt_impl = dt_impl_gen false false) returns what the hit policy prescribes over exactly the satisfied rules (C03_policy_refines, all 11 policies/aggregators); '
         'C03_policy_refines_agreeing weakens in_scope to `agreeing t xs` (null literals may occur where the evaluation of (t, xs) does not reach them; C03_entry_agrees_iff characterises exactly '
         'the (value, entry) pairs on which the code matches as the Spec says), C03_scope_hypotheses_needed_refuted has witnesses outside. '
         'Entries: C03_entry_satisfied (an entry without the literal null — `-`, literals, comparisons, intervals, lists, not(..) — is decided by the three-valued evaluation of the current code for EVERY value, never null), '
         'C03_entry_code_exact (every entry, null literal included: a list is read up to its first null literal), C03_sat_cases / C03_sat_null_input (what satisfied means; a null input satisfies `-`, the literal null and every not(..) without it). '
         'The known finding is a theorem about the current model, C03_null_literal_entry_never_matches (`null`, not(null) match no value; a list none of whose tests before its first null literal is satisfied is answered null), '
         'C03_null_literal_spec is the intended behaviour it violates, C03_null_literal_known the table-level witness (run against the real code in every run); with the literal handled no hypothesis about null remains '
         '(C03_entry_satisfied_if_null_literal_handled, C03_policy_refines_if_null_literal_handled: wf and one value per input clause only). '
         'Hit policies, each as a sentence about the Spec written without the code\'s sort/comparator: FIRST = least index, RULE ORDER/COLLECT = filter-map in rule order, UNIQUE/ANY nulls, count, sum/min/max (fold over the numbers / strings, null otherwise), '
         'PRIORITY = the output of the one matching rule that precedes every matching rule before it and is preceded by none after it (C03_priority_spec, C03_priority_winner_unique), '
         'OUTPUT ORDER = the permutation of the matching outputs in which none stands behind one it precedes, equal priorities in rule order (C03_output_order_spec), where `precedes` is the lexicographic order over the output clauses of the rank '
         'in the clause\'s output values, unlisted last (C03_precedes_is_lexicographic); no-hit default and contexts keyed by component names in the words of the property (C03_default_spec, C03_rule_output_spec), no index panic on well-shaped tables. '
         'The entry evaluation of this model is proved equal, three-valued and for every entry and input value (null included), to the FEEL `in` operator of the independently written evaluator model of C01 (C03_matching_is_feel_in, C03_rule_matches_is_feel_in, C03_feel_in_expression; coq/C03/LinkC01.v). '
         'The model is tied to decision_table.rs / builders.rs by evaluating thousands of generated tables (null inputs, literals / comparisons / intervals of another kind than the input, null literals included) through ModelEvaluator and comparing with the model evaluated by vm_compute; '
         'inside wf and agreeing the code is compared with the Spec.',
    note='Outside wf (no output clause, short rules, unnamed or duplicate components) only code = ImplModel is checked (C03_crash_if_ill_shaped). '
         'Interpretive choices of the Spec, shared with the code: an input value outside the allowed input values satisfies no entry; not(< 5) holds of a null input (the comparison does not hold). '
         'Values are abstract (integers, strings, booleans); input expressions are plain names; FEEL parsing of entries is sampled, not proved. Four defects of the pinned commit were repaired (fix: commits) and are refuted for dt_impl_orig.')
