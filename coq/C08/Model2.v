(* C08 — second model file (owner: prover-C08): the built-ins that C08/Model.v leaves out.
   sort(list, precedes)       core.rs sort: slice::sort_by with the comparator Less when the body evaluates to true, Equal otherwise;
                              slice::sort_by is a stable sort that only asks `is_less`, so the result is the stable sort by `precedes`
                              whenever `precedes` is a strict weak order on the items (for other relations Rust leaves the result open).
                              Modelled as the stable insertion sort that C08/Model.v uses for numbers (ninsert / nsort), for any relation.
   stddev(list)               core.rs stddev: two loops (sum, squared deviations) over the shared decimal128 layer Base/DecRound.v
                              (C08/Model.v nadd / nsub / ndiv / nsqrt, nsquare for decNumberPower(x, 2)).
   split / replace / matches  on LITERAL patterns (no metacharacters, no flags): the regular expression is a plain substring search,
                              leftmost non-overlapping occurrences; the empty pattern matches at every position (Regex::split /
                              replace_all: split("abc", "") = ["", "a", "b", "c", ""], replace("abc", "", "-") = "-a-b-c-").  replace_lit is the specified value; the code additionally trims the
                              result (known finding replace-trim), modelled by replace_lit_impl.
   No proofs here. *)
From Coq Require Import List NArith ZArith Bool Arith.
From DV Require Import Base.DecRound.
From DV Require Import C09.Values C09.Model C08.Model.
Import ListNotations.
Open Scope Z_scope.

(* ---------------- sort ---------------- *)
Section SortBy.
Context {A : Type}.
Variable lt : A -> A -> bool.
(* x goes in front of the first item it strictly precedes *)
Fixpoint insert_by (x : A) (l : list A) : list A :=
  match l with [] => [x] | y :: r => if lt x y then x :: l else y :: insert_by x r end.
Definition sort_by (l : list A) : list A := fold_left (fun acc x => insert_by x acc) l [].
End SortBy.

(* `precedes` is a function value of two parameters; its body evaluated on (x, y) is `f x y` *)
Definition b_sort (l : value) (arity : N) (f : value -> value -> value) : value :=
  match l with
  | VList xs => if N.eqb arity 2 then VList (sort_by (fun x y => is_true (f x y)) xs) else VNull
  | _ => VNull
  end.

(* the order of numbers that median and mode sort by *)
Definition nlt (a b : Z * Z) : bool := is_lt (ncmp (fst a) (snd a) (fst b) (snd b)).
Definition neqv (a b : Z * Z) : bool := is_eq (ncmp (fst a) (snd a) (fst b) (snd b)).

(* ---------------- stddev ---------------- *)
(* core.rs stddev, every operator being the decimal128 operation of Base/DecRound.v followed by `reduced` (C08/Model.v nadd / nsub /
   ndiv / nsqrt; nsquare = FeelNumber::square = decNumberPower(x, 2), two roundings: 37 digits, then 34):
     sum = 0; for x: sum += x;  n = count;  avg = sum / n;  sum2 = 0; for x: sum2 += (x - avg).square()?;  (sum2 / (n - 1)).sqrt()?
   A step that leaves the number range makes the result null: an infinite sum makes (x - avg).square() not finite, an infinite
   sum2 makes the square root not finite, and both `?` return null. *)
(* first loop: the running sum and the numbers, None at the first item that is not a number *)
Fixpoint stddev_collect (vs : list value) (sum : option (Z * Z)) (numbers : list (Z * Z)) : option (option (Z * Z) * list (Z * Z)) :=
  match vs with
  | [] => Some (sum, numbers)
  | VNum c e :: r => stddev_collect r (nadd_opt sum (c, e)) (numbers ++ [(c, e)])
  | _ :: _ => None
  end.
(* one turn of the second loop *)
Definition add_square_dev (avg : Z * Z) (sum2 : option (Z * Z)) (x : Z * Z) : option (Z * Z) :=
  obind sum2 (fun s => obind (nsub x avg) (fun d => obind (nsquare d) (fun q => nadd s q))).
(* the value under the square root *)
Definition stddev_radicand (sum : option (Z * Z)) (numbers : list (Z * Z)) : option (Z * Z) :=
  let n := (zlen numbers, 0) in
  obind sum (fun s =>
  obind (ndiv s n) (fun avg =>
  obind (fold_left (add_square_dev avg) numbers (Some (0, 0))) (fun sum2 =>
  obind (nsub n (1, 0)) (fun n1 => ndiv sum2 n1)))).
Definition b_stddev (vs : list value) : value :=
  match vs with
  | [] | [_] => VNull
  | _ => match stddev_collect vs (Some (0, 0)) [] with
         | Some (sum, numbers) => vopt (obind (stddev_radicand sum numbers) nsqrt)
         | None => VNull
         end
  end.
(* positional.rs bif_stddev: one list argument is spread, one argument of another kind is null *)
Definition pos_stddev (args : list value) : value :=
  match args with
  | [] => VNull
  | [VList xs] => b_stddev xs
  | [_] => VNull
  | _ => b_stddev args
  end.
(* the radicand of stddev(vs) *)
Definition stddev_radicand_of (vs : list value) : option (Z * Z) :=
  match vs with
  | [] | [_] => None
  | _ => match stddev_collect vs (Some (0, 0)) [] with Some (sum, numbers) => stddev_radicand sum numbers | None => None end
  end.

(* ---------------- split / replace / matches on literal patterns ---------------- *)
(* Regex::split: the pieces between the leftmost non-overlapping occurrences of d (d not empty) *)
Fixpoint split_fuel (fuel : nat) (d s : list N) : list (list N) :=
  match fuel with
  | O => [s]
  | S f => match find d s with
           | Some i => firstn i s :: split_fuel f d (skipn (i + length d) s)
           | None => [s]
           end
  end.
(* an empty delimiter matches at every position, also before the first and after the last character: "", each character, "" *)
Definition split_lit (s d : list N) : list (list N) :=
  match d with
  | [] => [] :: map (fun c => [c]) s ++ [[]]
  | _ :: _ => split_fuel (S (length s)) d s
  end.

(* Regex::replace_all with a replacement text without `$` *)
Fixpoint replace_fuel (fuel : nat) (p r s : list N) : list N :=
  match fuel with
  | O => s
  | S f => match find p s with
           | Some i => firstn i s ++ r ++ replace_fuel f p r (skipn (i + length p) s)
           | None => s
           end
  end.
Fixpoint join (d : list N) (ps : list (list N)) : list N :=
  match ps with [] => [] | [p] => p | p :: r => p ++ d ++ join d r end.
(* an empty pattern: the replacement is inserted at every position *)
Definition replace_lit (s p r : list N) : list N :=
  match p with
  | [] => join r (split_lit s [])
  | _ :: _ => replace_fuel (S (length s)) p r s
  end.

(* str::trim removes White_Space code points at both ends; the ones below U+0100 and the common BMP ones *)
Definition is_space (c : N) : bool :=
  ((9 <=? c) && (c <=? 13) || (c =? 32) || (c =? 133) || (c =? 160) || (c =? 5760) || ((8192 <=? c) && (c <=? 8202))
   || (c =? 8232) || (c =? 8233) || (c =? 8239) || (c =? 8287) || (c =? 12288))%N.
Fixpoint trim_start (s : list N) : list N := match s with c :: r => if is_space c then trim_start r else s | [] => [] end.
Definition trim (s : list N) : list N := rev (trim_start (rev (trim_start s))).

Definition b_split (s d : value) : value := str2 (fun s d => VList (map VStr (split_lit s d))) s d.
Definition b_replace (s p r : value) : value :=
  match r with VStr r' => str2 (fun s p => VStr (replace_lit s p r')) s p | _ => VNull end.
Definition b_replace_impl (s p r : value) : value :=
  match r with VStr r' => str2 (fun s p => VStr (trim (replace_lit s p r'))) s p | _ => VNull end.
Definition b_matches (s p : value) : value := str2 (fun s p => VBool (containsb s p)) s p.
