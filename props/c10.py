"""C10 — names with spaces and symbols resolve to their bound value (longest match).

Proof: coq/Props/C10.v (the longest-prefix loop, for all key sets and inputs; the two normalisers).
Correspondence: scopes built programmatically (dv ast, names given as part lists -> Name::new), expressions in which bound names are
spelled with and without spaces around the additional symbols and stand next to operators, keywords and brackets;
the real parser's leaves (in order) are compared with the token stream of coq/C10/Model.v (lex_all over the scope keys the
implementation reports), the evaluated value with the arithmetic over the bound values; then the same name texts in every
expression position (argument, if / for / some / every / filter sub-expression, context entry, path head) and names introduced by
context entries, formal parameters and iteration variables."""
import json
import re

from vlib import core
from vlib.coqterm import App

HEADER = 'From Coq Require Import List NArith Bool.\nFrom DV Require Import C10.Model.\nImport ListNotations.\nOpen Scope N_scope.\n'

WORDS = ['a', 'b', 'c', 'x1', 'Total', 'żółw', 'ν', 'd_2']
SYMS = ['.', '/', '-', "'", '+', '*']
VALUES = [1000003, 20011, 307, 41, 5000011, 60013, 709]


def coq_str(s):
    return '[' + '; '.join(str(ord(c)) for c in s) + ']'


def name_new(parts):
    """Name::new (feel/src/names.rs)."""
    out, prev = '', False
    for i, p in enumerate(parts):
        p = p.strip()
        cur = p in SYMS
        if i > 0 and not prev and not cur and p != '':
            out += ' '
        out += p
        prev = cur
    return out


def gen_name(rng, single_syms=True):
    """Parts of a name: 1..4 words, joined by a space or by one additional symbol."""
    n = rng.choice([1, 1, 2, 2, 3, 4])
    parts = [rng.choice(WORDS)]
    for _ in range(n - 1):
        if rng.random() < 0.5:
            parts.append(rng.choice(SYMS))
            if rng.random() < 0.12:
                parts.append(rng.choice(SYMS))          # two symbols in a row
        parts.append(rng.choice(WORDS))
    if rng.random() < 0.08:
        parts.append(rng.choice(SYMS))                  # a name ending in a symbol
    return parts


def spell(rng, parts):
    """The name as written in an expression: single / several spaces between words, symbols with or without spaces around them."""
    out = ''
    for i, p in enumerate(parts):
        if i:
            if p in SYMS or parts[i - 1] in SYMS:
                out += rng.choice(['', '', ' ', '  ', '\t'])
            else:
                out += rng.choice([' ', ' ', '  ', '\t', ' \n '])
        out += p
    return out


def gen_scope(rng):
    """2..6 bound names: random ones, prefixes of them, and operator-joined combinations of bound names."""
    names = []
    base = gen_name(rng)
    names.append(base)
    for _ in range(rng.choice([1, 2, 3])):
        k = rng.random()
        if k < 0.3 and len(base) > 1:
            cut = rng.choice([i for i in range(1, len(base)) if base[i - 1] not in SYMS] or [1])
            names.append(base[:cut])
        elif k < 0.6:
            other = gen_name(rng)
            names.append(other)
            if rng.random() < 0.7:
                names.append(base + [rng.choice(['-', '+', '*', '/', '.'])] + other)
        elif k < 0.8:
            names.append(base + [rng.choice(WORDS)])
        else:
            names.append(gen_name(rng))
    uniq, seen = [], set()
    for p in names:
        t = name_new(p)
        if t not in seen and not any(w in ('in', 'item', 'and', 'or') for w in p):
            seen.add(t)
            uniq.append(p)
    return uniq


def gen_text(rng, scope):
    """An arithmetic text over the bound names (and a few unbound combinations) with every spacing."""
    n = rng.choice([1, 1, 2, 2, 3])
    out = ''
    for i in range(n):
        if i:
            out += rng.choice([' ', '', '  ']) + rng.choice(['+', '-', '*', '-', '-']) + rng.choice([' ', '', '  '])
        k = rng.random()
        if k < 0.7:
            out += spell(rng, rng.choice(scope))
        elif k < 0.8:
            out += str(rng.choice([1, 2, 17]))
        elif k < 0.9:
            # words of bound names recombined (may or may not be bound)
            ws = [p for nm in scope for p in nm if p not in SYMS]
            out += spell(rng, [rng.choice(ws), rng.choice(SYMS + [' '] * 2).strip() or rng.choice(ws), rng.choice(ws)][:rng.choice([1, 3])])
        else:
            out += spell(rng, gen_name(rng))
    return out


# ------------------------------------------------------------------------------------------------ model <-> implementation

def model_tokens(term):
    """Parsed `option (list tok)` -> list of ('name', text) | ('num', text) | ('sym', char) or None."""
    if not (isinstance(term, App) and term.name == 'Some'):
        return None
    out = []
    for t in term.args[0]:
        if t.name == 'KName':
            out.append(('name', ''.join(chr(c) for c in t.args[0])))
        elif t.name == 'KNum':
            out.append(('num', ''.join(chr(c) for c in t.args[0])))
        else:
            out.append(('sym', chr(t.args[0])))
    return out


def leaves(ast):
    """In-order leaves of an arithmetic / path tree; None when the tree has another shape."""
    k = ast[0]
    if k == 'Name':
        return [('name', ast[1])]
    if k == 'Numeric':
        return [('num', ast[1])] if ast[2] == '' else None
    if k in ('Add', 'Sub', 'Mul', 'Div'):
        l, r = leaves(ast[1]), leaves(ast[2])
        return None if l is None or r is None else l + [('sym', {'Add': '+', 'Sub': '-', 'Mul': '*', 'Div': '/'}[k])] + r
    if k == 'Neg':
        x = leaves(ast[1])
        return None if x is None else [('sym', '-')] + x
    if k == 'Path':
        l, r = leaves(ast[1]), leaves(ast[2])
        return None if l is None or r is None else l + [('sym', '.')] + r
    return None


def well_formed(toks):
    """operand (op operand)*, operand = -* (name | num)  — what the grammar accepts of such a token stream (paths: name after dot)."""
    i, n = 0, len(toks)
    if n == 0:
        return False
    while True:
        while i < n and toks[i] == ('sym', '-'):
            i += 1
        if i >= n or toks[i][0] not in ('name', 'num'):
            return False
        i += 1
        if i == n:
            return True
        if toks[i][0] != 'sym' or toks[i][1] not in '+-*/.':
            return False
        if toks[i][1] == '.' and (i + 1 >= n or toks[i + 1][0] != 'name'):
            return False
        if toks[i][1] == '*' and i + 1 < n and toks[i + 1] == ('sym', '*'):
            return False
        i += 1


def value_of(toks, env):
    """Value of a well-formed stream without / and . over integer bindings; None when a name is unbound or the stream is outside that fragment."""
    expr = ''
    for k, t in toks:
        if k == 'name':
            if t not in env:
                return 'null'
            expr += '(%d)' % env[t]
        elif k == 'num':
            expr += str(int(t))
        else:
            if t in '/.':
                return None
            expr += t
    try:
        return eval(expr, {'__builtins__': {}})
    except Exception:
        return None


def impl_number(v):
    if isinstance(v, dict) and 'p' in v:
        try:
            return int(v['p'])
        except ValueError:
            return v['p']
    return 'null' if v is None else v


# ------------------------------------------------------------------------------------------------ positions

def positions(rng, T, val, single, star=False):
    """(expression, expected value) pairs: the text T (value val, a non-negative integer) in every position a name may occur in."""
    P = T if single else '(%s)' % T
    # `T * 2` with a bound name that continues T with `*` reads that longer name (longest match): parenthesise T there
    PM = '(%s)' % T if star else P
    out = [
        ('sum([%s])' % T, val), ('if %s = %s then %s else 0' % (T, T, T), val), ('for i in [1] return %s' % T, [val]),
        ('some i in [1] satisfies %s = %s' % (T, T), True), ('every i in [1] satisfies %s >= 0' % T, True),
        ('[%s][1]' % T, val), ('[7][%s = %s]' % (T, T), 7), ('{k: %s}.k' % T, val), ('%s between 0 and 99999999999999' % T, True),
        ('%s in [0..99999999999999]' % T, True), ('(%s)' % T, val), ('- %s' % P, -val), ('1 + %s' % P, 1 + val), ('%s * 2' % PM, 2 * val),
        ('if true then %s else %s' % (T, T), val), ('[1,2,3][item = 2 + 0 * %s]' % P, 2), ('max(0, %s)' % T, val),
        ('{r: %s, s: r + 1}.s' % T, val + 1),
    ]
    return out


def binder_cases(rng):
    """Names introduced by context entries, formal parameters and iteration variables (multi-word, with symbols)."""
    out = []
    for _ in range(6):
        p = gen_name(rng)
        if any(w in ('in', 'item') for w in p):
            continue
        s1, s2 = spell(rng, p), spell(rng, p)
        out += [
            ('{%s: 5, r: %s + 1}.r' % (s1, s2), 6, 'context entry'),
            ('{f: function(%s) %s + 1, r: f(5)}.r' % (s1, s2), 6, 'formal parameter'),
            ('for %s in [5] return %s + 1' % (s1, s2), [6], 'iteration variable'),
            ('some %s in [5] satisfies %s = 5' % (s1, s2), True, 'quantified variable'),
            ('{%s: 5, r: %s * 2 - %s}.r' % (s1, s2, s1), 5, 'context entry'),
        ]
    return out


def canon_v(v):
    if isinstance(v, list):
        return [canon_v(x) for x in v]
    return impl_number(v)


# ------------------------------------------------------------------------------------------------ run

def run(ctx):
    ctx.proof_gate()
    ctx.build_harness()
    rng = ctx.rng
    scopes = []
    # systematic scopes first: prefixes, operator-joined combinations, symbols
    for sym in SYMS:
        scopes.append([['a'], ['b'], ['a', sym, 'b']])
        scopes.append([['a'], ['b']])
        scopes.append([['a', sym, 'b'], ['a', sym, 'b', 'c']])
    scopes += [[['a'], ['a', 'b'], ['a', 'b', 'c']], [['a', 'b'], ['b', 'c'], ['c']], [['Total'], ['Total', 'x1'], ['x1', '-', 'a'], ['a']]]
    for _ in range(ctx.pick(250, 6000)):
        scopes.append(gen_scope(rng))
    cases = []
    for sc in scopes:
        bind = [[p, VALUES[i % len(VALUES)]] for i, p in enumerate(sc)]
        env = {name_new(p): VALUES[i % len(VALUES)] for i, p in enumerate(sc)}
        texts = [gen_text(rng, sc) for _ in range(ctx.pick(5, 8))]
        if len(sc) == 3 and sc[0] == ['a'] and len(sc[2]) == 3:
            s = sc[2][1]
            texts += ['a%sb' % s, 'a %s b' % s, 'a %sb' % s, 'a%s b' % s, 'a%sb%sa' % (s, s), 'b %s a' % s, 'a  %s\tb - a' % s]
        if sc[:2] == [['a'], ['b']] and len(sc) == 2:
            texts += ['a%sb' % s for s in SYMS] + ['a %s b' % s for s in SYMS]
            # U+1680, U+180E, U+FEFF are white space AND name characters (C10_char_classes): after a name character they continue the word
            texts += ['a\u1680b', 'a\u180eb', 'a\ufeffb', 'a \u1680b', 'a+\ufeffb']
        for t in texts:
            cases.append({'scope': sc, 'bind': bind, 'env': env, 'text': t})
    impl = ctx.run_impl('ast', [{'bind': c['bind'], 'e': c['text'], 'mode': 'expr', 'eval': True} for c in cases])
    terms = []
    for c, g in zip(cases, impl):
        keys = g.get('keys', [])
        c['keys'] = keys
        terms.append('lex_all [%s] %s' % ('; '.join(coq_str(k) for k in keys), coq_str(c['text'])))
    model = ctx.run_model(HEADER, terms, shard_size=120)
    kinds = {'one-name': 0, 'operators': 0, 'rejected': 0, 'unbound': 0}
    good_texts = []
    for c, g, m in zip(cases, impl, model):
        ctx.evaluations += 1
        ctx.corr_checked += 1
        if 'panic' in g or 'crash' in g:
            ctx.violation('the parser panicked on `%s` with the names %s bound' % (c['text'], sorted(c['env'])), {'text': c['text'], 'bound': c['scope']}, impl=g)
            continue
        want_keys = sorted(c['env'])
        if sorted(c['keys']) != want_keys:
            ctx.violation('scope keys %s differ from the bound names %s' % (c['keys'], want_keys), {'text': c['text'], 'bound': c['scope']}, impl=g)
            continue
        mt = model_tokens(m)
        ast = g.get('ast')
        lv = leaves(ast) if ast is not None else None
        # the property itself, on the implementation's own output: longest bound name at every name position
        if mt is None:
            continue
        ctx.nontrivial.add((tuple(want_keys), c['text']))
        if ast is None:
            kinds['rejected'] += 1
            if well_formed(mt):
                ctx.violation('`%s` with %s bound is rejected; longest match gives the tokens %s' % (c['text'], want_keys, mt),
                              {'text': c['text'], 'bound': c['scope']}, impl=g, model=mt)
            continue
        if lv != mt:
            ctx.violation('`%s` with %s bound: the parser read %s, longest match gives %s' % (c['text'], want_keys, lv, mt),
                          {'text': c['text'], 'bound': c['scope']}, impl=g, model=mt)
            continue
        kinds['one-name' if len(mt) == 1 else 'operators'] += 1
        ev = value_of(mt, c['env'])
        if ev is not None:
            got = impl_number(g.get('v'))
            if ev == 'null':
                kinds['unbound'] += 1
            if got != ev:
                ctx.violation('`%s` with %s evaluates to %s, the bound values give %s' % (c['text'], c['env'], got, ev),
                              {'text': c['text'], 'bound': c['scope'], 'values': c['env']}, impl=g, model=ev)
                continue
            if isinstance(ev, int) and 0 <= ev <= 99999999999999 and len(good_texts) < ctx.pick(120, 2000) and rng.random() < 0.3:
                good_texts.append((c, ev, len(mt) == 1))
        if len(ctx.samples) < 5 and len(mt) > 1 and any(' ' in t or any(s in t for s in SYMS) for k, t in mt if k == 'name'):
            ctx.sample({'bound': want_keys, 'text': c['text'], 'tokens': mt, 'value': g.get('v')})
    # every expression position
    pos_cases = []
    for c, ev, single in good_texts:
        star = any('*' in parts for parts in c['scope'])
        for e, want in positions(rng, c['text'], ev, single, star):
            pos_cases.append({'bind': c['bind'], 'e': e, 'want': want, 'what': 'position', 'bound': c['scope']})
    for e, want, what in binder_cases(rng):
        pos_cases.append({'bind': [], 'e': e, 'want': want, 'what': what, 'bound': []})
    # the keyword `in` as the first part of an iteration variable: no variable name before it, the text is an ordinary name (fixed 83bd59b: was a panic)
    for text in ('for in+x in [1] return 1', 'some in-x in [1] satisfies true', 'every in.a in [1] satisfies true'):
        pos_cases.append({'bind': [[['zz'], 1]], 'e': text, 'want': 'parse', 'what': 'in as first part', 'bound': [['zz']]})
    # listed findings: the witnesses run on every run
    for parts, text in ((['a', '+', '-', 'b'], 'a+-b + 0'), (['a', '+', '-', 'b'], 'a + - b - 0'), (['a', '.', '.', 'b'], 'a..b + 0'), (['Total', '+'], 'Total+ + 1 - 1'), (['Total', '+'], 'Total+ * 1')):
        pos_cases.append({'bind': [[parts, 41], [['zz'], 1]], 'e': text, 'want': 41, 'what': 'symbols in a row', 'bound': [parts, ['zz']]})
    for text, want in (('({vc: 4}).vc * 2', 8), ('{p: {vc: 4}}.p.vc - 1', 3), ('[{vc: 4}][1].vc + 1', 5), ('({vc: 4}).vc', 4), ('({vc: 4}).vc*2', 8)):
        pos_cases.append({'bind': [[['zz'], 1]], 'e': text, 'want': want, 'what': 'member after dot', 'bound': [['zz']], 'known': 'member-name-not-in-scope'})
    pimpl = ctx.run_impl('ast', [{'bind': c['bind'], 'e': c['e'], 'mode': 'expr', 'eval': True} for c in pos_cases])
    pk = {}
    for c, g in zip(pos_cases, pimpl):
        ctx.evaluations += 1
        pk[c['what']] = pk.get(c['what'], 0) + 1
        got = canon_v(g.get('v')) if 'v' in g else g.get('err', g)
        if got != c['want'] and c.get('known') and ctx.known(c['known'], c):
            continue
        if got != c['want']:
            ctx.violation('`%s` (%s) with %s bound gives %s, expected %s' % (c['e'], c['what'], [name_new(p) for p in c['bound']], got, c['want']),
                          {'text': c['e'], 'bound': c['bound'], 'expected': c['want']}, impl=g)
    return ctx.finish(
        rule='scopes of 2..6 bound names (1..4 words, additional symbols, prefixes and operator-joined combinations of other bound names; every symbol with '
             'a / b / a<sym>b systematically); texts spell the names with 0..2 spaces or tabs around symbols and between words and join them with + - *; '
             'then each resolved text in 18 expression positions and names introduced by context entries, parameters, iteration variables; non-trivial = distinct (scope, text)',
        extra_cov={'outcomes': kinds, 'positions': pk},
        assumptions=['names are bound through Name::new on part lists (normal form); words are not FEEL keywords or literals',
                     'token order is read off the AST leaves in order (tree shape itself is C06)'],
        trusted=['harness sub-command dv ast (scope built programmatically, flattened keys reported)'])


def replay(ctx, path):
    obj = json.load(open(path))
    c = obj['case']
    ctx.build_harness()
    bind = [[p, VALUES[i % len(VALUES)]] for i, p in enumerate(c.get('bound', []))]
    g = ctx.run_impl('ast', [{'bind': bind, 'e': c['text'], 'mode': 'expr', 'eval': True}])[0]
    print('bound names:', [name_new(p) for p in c.get('bound', [])])
    print('input      :', json.dumps(c['text']))
    print('parser     :', json.dumps(g))
    m = ctx.run_model(HEADER, ['lex_all [%s] %s' % ('; '.join(coq_str(k) for k in g.get('keys', [])), coq_str(c['text']))])[0]
    mt = model_tokens(m)
    print('model      :', mt)
    if 'expected' in c:
        got = canon_v(g.get('v')) if 'v' in g else g.get('err', g)
        fail = got != c['expected']
    else:
        ast = g.get('ast')
        fail = (ast is None and mt is not None and well_formed(mt)) or (ast is not None and leaves(ast) != mt) or \
               (ast is not None and mt is not None and value_of(mt, c.get('values', {})) not in (None, impl_number(g.get('v'))))
    print('REPRODUCED' if fail else 'not reproduced')
    return 1 if fail else 0


MANIFEST = dict(
    technique='Coq proof (longest-prefix loop of the name lexer, layout invariant of the part collector and uniqueness of the reading, for all key sets and inputs; normaliser agreement) with lexer/model correspondence',
    text='coq/Props/C10.v: for every set of scope keys and every input the modelled name lexer returns the longest bound prefix of the collected name parts and resumes right after it (else the whole candidate), for both values of the for/some/every flag with the `item` and `in` tweaks characterised exactly (C10_lex_name_cases); for every input the collected parts are non-empty, do not overlap, are separated by white space only, and consumed text ++ rest = input after any chosen prefix, so no character is lost or read twice (C10_parts_disjoint, C10_gaps_whitespace, C10_backtrack_no_loss, C10_lex_name_no_loss); every part is a maximal word or one additional symbol and any bound name written at the position with any spacing is a prefix of the collected parts, so no bound name written there is longer than the token (C10_collect_shape, C10_longest_written; hypothesis: the input has none of U+1680, U+180E, U+FEFF, which are white space and name characters at once, C10_char_classes); the two name normalisers are compared. The model (part-collecting state machine, position bookkeeping, back-tracking) is tied to lexer.rs by comparing token streams and evaluated values on generated scopes and spellings, then the resolved names are placed in every expression position and introduced by binders.',
    note='Trusted: Coq kernel + vm_compute, hand-written model of consume_name / Name::new / flatten_name_parts (correspondence-checked), harness dv ast, arithmetic oracle over the bound integers.')
