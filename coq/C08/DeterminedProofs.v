(* C08 — statements that DETERMINE the functions (audit round): flatten, distinct values / union as equations whose only solution
   is the function of the model; substring for every numeric position / length whatever its exponent. *)
From Coq Require Import List NArith ZArith Bool Arith Lia Permutation.
From DV Require Import C09.Values C09.Model C09.Proofs C08.Model C08.Proofs.
Import ListNotations.
Open Scope Z_scope.

(* ================= flatten: the left-to-right concatenation of the leaves ================= *)
(* the two equations of a function that lists the leaves of a list from left to right: a nested list contributes its own leaves,
   any other item (null included) contributes itself *)
Definition flatten_eqs (f : value -> list value) : Prop :=
  f (VList []) = [] /\
  forall x r, f (VList (x :: r)) = (if is_list x then f x else [x]) ++ f (VList r).

Theorem flatten_equations : flatten_eqs flatten_value.
Proof.
  split; [reflexivity|]. intros x r. rewrite !flatten_value_unfold. cbn [flat_items].
  destruct x; cbn [is_list]; try reflexivity.
Qed.

(* they have no other solution on lists: `fun _ => []` is not one *)
Theorem flatten_is_determined : forall f, flatten_eqs f -> forall xs, f (VList xs) = flatten_value (VList xs).
Proof.
  intros f [F0 F1].
  assert (G : forall v, is_list v = true -> f v = flatten_value v).
  { intros v. pattern v. apply value_rect'; clear v.
    - intros xs IH _. induction xs as [|x r IHr].
      + rewrite F0. reflexivity.
      + inversion IH as [|? ? Hx Hr]; subst. destruct flatten_equations as [_ E1]. rewrite F1, E1, (IHr Hr).
        destruct (is_list x) eqn:L; [rewrite (Hx eq_refl)|]; reflexivity.
    - intros es _ H. discriminate.
    - intros lo lc hi hc _ _ H. discriminate.
    - intros v Hv H. destruct v; try contradiction; discriminate. }
  intros xs. apply G. reflexivity.
Qed.

Theorem flatten_forms :
  (forall xs, b_flatten (VList xs) = VList (flatten_value (VList xs))) /\ (forall v, is_list v = false -> b_flatten v = VNull).
Proof. split; [reflexivity|]. intros v H. destruct v; try reflexivity; discriminate. Qed.

Lemma flatten_example :
  b_flatten (VList [VNum 1 0; VList [VNum 2 0; VList [VNum 3 0; VList []]]; VList [VList [VNum 4 0]]; VNull; VList [VNull]])
  = VList [VNum 1 0; VNum 2 0; VNum 3 0; VNum 4 0; VNull; VNull].
Proof. reflexivity. Qed.

(* ================= distinct values / union: the first occurrences, in the order of the list, under FEEL equality ================= *)
(* the results of distinct values as a function of the items *)
Definition dvals (xs : list value) : list value := fold_left (add_distinct) xs [].
(* FEEL equality `=` gives true (C09 teq) *)
Definition feel_eq (a b : value) : bool := match teq a b with Some true => true | _ => false end.

Lemma forallb_negb : forall (p : value -> bool) l, forallb (fun v => negb (p v)) l = negb (existsb p l).
Proof. intros p l. induction l as [|a l IH]; cbn [forallb existsb]; [reflexivity|]. rewrite IH. destruct (p a); reflexivity. Qed.

(* an item appended to the list is appended to the result exactly when no result so far is equal to it *)
Definition dvals_eqs (f : list value -> list value) : Prop :=
  f [] = [] /\
  forall pre x, f (pre ++ [x]) = if existsb (fun v => feel_eq v x) (f pre) then f pre else f pre ++ [x].

Theorem distinct_values_equations : dvals_eqs dvals.
Proof.
  split; [reflexivity|]. intros pre x. unfold dvals. rewrite fold_left_app. cbn [fold_left].
  unfold add_distinct at 1. fold (dvals pre). change (fun v => negb (veq v x)) with (fun v => negb (feel_eq v x)).
  rewrite forallb_negb. destruct (existsb _ (dvals pre)); reflexivity.
Qed.
Theorem distinct_values_is_determined : forall f, dvals_eqs f -> forall xs, f xs = dvals xs.
Proof.
  intros f [F0 F1] xs. induction xs as [|x pre IH] using rev_ind.
  - rewrite F0. reflexivity.
  - destruct distinct_values_equations as [_ E1]. rewrite F1, E1, IH. reflexivity.
Qed.
Theorem distinct_values_forms :
  (forall xs, b_distinct_values (VList xs) = VList (dvals xs)) /\
  (forall ls, b_union (map VList ls) = VList (dvals (concat ls))) /\
  (forall v, is_list v = false -> b_distinct_values v = VNull).
Proof.
  split; [reflexivity|]. split.
  - intros ls. unfold b_union. rewrite concat_lists_all. reflexivity.
  - intros v H. destruct v; try reflexivity; discriminate.
Qed.

(* consequence: the result keeps the order of the list - the results of a prefix come first, what follows are items of the rest *)
Lemma fold_add_distinct_tail : forall xs acc, exists tl, fold_left add_distinct xs acc = acc ++ tl /\ forall t, In t tl -> In t xs.
Proof.
  induction xs as [|x xs IH]; intros acc; cbn [fold_left].
  - exists []. rewrite app_nil_r. split; [reflexivity|intros t []].
  - destruct (forallb (fun v => negb (veq v x)) acc) eqn:F.
    + assert (A : add_distinct acc x = acc ++ [x]) by (unfold add_distinct; rewrite F; reflexivity). rewrite A.
      destruct (IH (acc ++ [x])) as (tl & E & Hin).
      exists (x :: tl). rewrite E, <- app_assoc. split; [reflexivity|]. intros t [<-|Ht]; [left; reflexivity|right; apply Hin; exact Ht].
    + assert (A : add_distinct acc x = acc) by (unfold add_distinct; rewrite F; reflexivity). rewrite A.
      destruct (IH acc) as (tl & E & Hin).
      exists tl. split; [exact E|]. intros t Ht. right. apply Hin. exact Ht.
Qed.
Theorem distinct_values_order : forall pre post,
  exists tl, dvals (pre ++ post) = dvals pre ++ tl /\ forall t, In t tl -> In t post.
Proof. intros pre post. unfold dvals. rewrite fold_left_app. apply fold_add_distinct_tail. Qed.

Lemma distinct_values_example :
  b_distinct_values (VList [VNum 1 0; VNum 2 0; VNum 10 (-1); VStr [97%N]; VNull; VNum 200 (-2); VNull; VList [VNum 1 0]; VList [VNum 10 (-1)]])
  = VList [VNum 1 0; VNum 2 0; VStr [97%N]; VNull; VList [VNum 1 0]] /\
  b_union [VList [VNum 2 0; VNum 1 0]; VList [VNum 10 (-1); VNum 3 0; VNum 2 0]] = VList [VNum 2 0; VNum 1 0; VNum 3 0].
Proof. split; vm_compute; reflexivity. Qed.

(* ================= substring: every numeric position and length, whatever the exponent ================= *)
(* the integer part of c * 10^e, towards zero (FeelNumber::trunc) *)
Definition trunc_int (c e : Z) : Z := if 0 <=? e then c * 10 ^ e else Z.quot c (10 ^ (- e)).

Lemma to_int_ntrunc : forall c e, to_int (fst (ntrunc c e)) (snd (ntrunc c e)) = Some (trunc_int c e).
Proof.
  intros c e. unfold ntrunc, trunc_int, to_int. destruct (0 <=? e) eqn:E; cbn [fst snd].
  - rewrite E. reflexivity.
  - cbn. f_equal. lia.
Qed.
Lemma lt_one_trunc : forall c e, is_lt (ncmp c e 1 0) = (trunc_int c e <? 1).
Proof.
  intros c e. unfold ncmp, trunc_int. destruct (0 <=? e) eqn:E.
  - apply Z.leb_le in E. rewrite Z.min_r by lia. rewrite Z.sub_0_r, Z.sub_diag, Z.pow_0_r, Z.mul_1_r.
    unfold Z.ltb. destruct (c * 10 ^ e ?= 1); reflexivity.
  - apply Z.leb_gt in E. rewrite Z.min_l by lia. rewrite Z.sub_diag, Z.pow_0_r, Z.mul_1_r, Z.mul_1_l. rewrite Z.sub_0_l.
    pose proof (pow10_pos (- e) ltac:(lia)) as P. set (T := 10 ^ (- e)) in *.
    assert (Q : c < T <-> Z.quot c T < 1).
    { destruct (Z.le_gt_cases 0 c) as [Hc|Hc].
      - rewrite Z.quot_div_nonneg by lia. split; intros H.
        + rewrite Z.div_small by lia. lia.
        + destruct (Z.lt_ge_cases c T) as [L|L]; [exact L|]. assert (1 <= c / T) by (apply Z.div_le_lower_bound; lia). lia.
      - split; [intros _|lia]. pose proof (Z.quot_opp_l c T ltac:(lia)) as O.
        assert (0 <= Z.quot (- c) T) by (rewrite Z.quot_div_nonneg by lia; apply Z.div_pos; lia). lia. }
    unfold Z.ltb. destruct (c ?= T) eqn:C1; destruct (Z.quot c T ?= 1) eqn:C2; try reflexivity; exfalso;
      rewrite ?Z.compare_eq_iff, ?Z.compare_lt_iff, ?Z.compare_gt_iff in *; lia.
Qed.

(* substring(string, start position): the position is any number that denotes an integer (1.0, 20E-1, ...) *)
Theorem substring2_general : forall cs c e p, zlen cs <= I64MAX -> to_int c e = Some p ->
  pos Substring [VStr cs; VNum c e] =
  Some (match spec_index (zlen cs) p with Some i => VStr (skipn (Z.to_nat i) cs) | None => VNull end).
Proof.
  intros cs c e p Hf Hp. unfold pos. cbn [positional b_substring]. unfold to_isize, to_isize_gen. rewrite Hp.
  unfold I64MAX, I64MIN in *. pose proof (zlen_nonneg _ cs) as Hn. set (n := zlen cs) in *.
  unfold spec_index. crush.
Qed.
(* substring(string, start position, length): the length is any number; below 1 the result is null, otherwise its integer part counts *)
Theorem substring3_general : forall cs c e p lc le, zlen cs <= I64MAX -> to_int c e = Some p ->
  let k := trunc_int lc le in
  pos Substring [VStr cs; VNum c e; VNum lc le] =
  Some (match spec_index (zlen cs) p with
        | Some i => if (1 <=? k) && (i + k <=? zlen cs) then VStr (firstn (Z.to_nat k) (skipn (Z.to_nat i) cs)) else VNull
        | None => VNull end).
Proof.
  intros cs c e p lc le Hf Hp k. unfold pos. cbn [positional b_substring]. unfold to_isize, to_isize_gen, to_usize, to_usize_gen.
  rewrite Hp, lt_one_trunc. fold k. destruct (ntrunc lc le) as [tc te] eqn:T.
  pose proof (to_int_ntrunc lc le) as TI. rewrite T in TI. cbn [fst snd] in TI. rewrite TI. fold k.
  unfold I64MAX, I64MIN, U64MAX in *. pose proof (zlen_nonneg _ cs) as Hn. set (n := zlen cs) in *.
  unfold spec_index. clear T TI Hp. crush.
Qed.
Lemma substring_general_example :
  pos Substring [VStr [97; 98; 99]%N; VNum 10 (-1)] = Some (VStr [97; 98; 99]%N) /\
  pos Substring [VStr [97; 98; 99]%N; VNum 20 (-1); VNum 10 (-1)] = Some (VStr [98]%N) /\
  pos Substring [VStr [97; 98; 99]%N; VNum 1 0; VNum 29 (-1)] = Some (VStr [97; 98]%N) /\
  pos Substring [VStr [97; 98; 99]%N; VNum 1 0; VNum 9 (-1)] = Some VNull /\
  pos Substring [VStr [97; 98; 99]%N; VNum 15 (-1)] = Some VNull /\
  pos Substring [VStr [97; 98; 99]%N; VNum (-10) (-1)] = Some (VStr [99]%N).
Proof. repeat split; reflexivity. Qed.
