(* C06 — extended expression language at the text level: for the trees without for / some / every / function (`binder_free`) the side
   condition `etok_wf` on the renderings comes down to the bounds on member names, keys and type numbers (`names_ok`).
   Owner: prover-C06. *)
From Coq Require Import List NArith Bool Arith Lia.
From DV Require Import C06.Model C06.ModelExt C06.Lexer C06.LexerProofs C06.LexerText C06.ExtLex.
From DV Require C06.ExtBase C06.ExtRound C06.ExtFull C06.ExtText.
Import ListNotations.

Definition binder_tok (t : etok) : bool :=
  match t with XFor | XSome | XEvery | XFun | XBind _ | XPar _ _ | XReturn | XSatisfies => true | _ => false end.

Definition names_ok (keys : list str) (t : etok) : bool :=
  match t with
  | XInst ty => (ty <? 6)%N
  | XDot n | XKey n => (n <? N.of_nat (length keys))%N
  | _ => true
  end.

Definition nb (t : etok) : bool := negb (binder_tok t).

Lemma etok_wf_split : forall keys t, etok_wf keys t = names_ok keys t && nb t.
Proof. intros keys t. destruct t; cbn; rewrite ?andb_true_r; reflexivity. Qed.

Lemma forallb_wf_split : forall keys ts, forallb (etok_wf keys) ts = forallb (names_ok keys) ts && forallb nb ts.
Proof.
  intros keys ts. induction ts as [|t r IH]; [reflexivity|]. cbn [forallb]. rewrite IH, etok_wf_split.
  destruct (names_ok keys t), (nb t), (forallb (names_ok keys) r), (forallb nb r); reflexivity.
Qed.

Lemma nb_flat : forall l : list (list etok), forallb (forallb nb) l = true -> forallb nb (flat_map (fun y => XComma :: y) l) = true.
Proof.
  induction l as [|x r IH]; intro H; [reflexivity|]. cbn [forallb] in H. apply andb_true_iff in H. destruct H as [Hx Hr].
  cbn [flat_map app forallb]. rewrite forallb_app, Hx, (IH Hr). reflexivity.
Qed.

Lemma nb_sepc : forall l : list (list etok), forallb (forallb nb) l = true -> forallb nb (sepc l) = true.
Proof.
  intros [|x r] H; [reflexivity|]. cbn [forallb] in H. apply andb_true_iff in H. destruct H as [Hx Hr].
  cbn [sepc]. rewrite forallb_app, Hx, (nb_flat _ Hr). reflexivity.
Qed.

Lemma nb_seq : forall (A : Type) (rd : A -> list etok) (bf : A -> bool) l,
  Forall (fun x => bf x = true -> forallb nb (rd x) = true) l -> forallb bf l = true -> forallb nb (sepc (map rd l)) = true.
Proof.
  intros A rd bf l HF Hb. apply nb_sepc. induction HF as [|x r Hx _ IH]; [reflexivity|].
  cbn [forallb] in Hb. apply andb_true_iff in Hb. destruct Hb as [Hbx Hbr]. cbn [map forallb]. rewrite (Hx Hbx), (IH Hbr). reflexivity.
Qed.

Definition Pfree (t : etree) : Prop := binder_free t = true -> forall m f, forallb nb (rat m f t) = true.

Lemma free_of_body : forall t, (binder_free t = true -> forall f, forallb nb (ExtRound.ebody f t) = true) -> Pfree t.
Proof.
  intros t H Hb m f. rewrite ExtRound.rat_eq. destruct (paren m f t); [|apply H; exact Hb].
  cbn [forallb nb binder_tok negb andb]. rewrite forallb_app, (H Hb false). reflexivity.
Qed.

Ltac split_bf H := repeat (apply andb_true_iff in H; let H2 := fresh "Hb" in destruct H as [H H2]).
Ltac app_nb := repeat (rewrite forallb_app || (cbn [forallb nb binder_tok negb andb])).

Lemma kv_free : forall l, Forall (ExtBase.Pkv Pfree) l ->
  Forall (fun q : N * etree => (let (_, e) := q in binder_free e) = true -> forallb nb (ExtRound.kvr q) = true) l.
Proof.
  intros l H. induction H as [|[k e] r Hx _ IH]; constructor; [|exact IH].
  intro Hb. cbn [ExtRound.kvr forallb nb binder_tok negb andb]. apply Hx. exact Hb.
Qed.

Theorem binder_free_tokens : forall t, Pfree t.
Proof.
  induction t using ExtBase.etree_ind'; apply free_of_body; intros Hb f; cbn [binder_free] in Hb; try discriminate Hb; cbn [ExtRound.ebody].
  - reflexivity.
  - split_bf Hb. app_nb. rewrite (IHt1 Hb), (IHt2 Hb0). reflexivity.
  - app_nb. apply IHt. exact Hb.
  - split_bf Hb. app_nb. rewrite (IHt1 Hb), (IHt2 Hb1), (IHt3 Hb0). reflexivity.
  - app_nb. rewrite (IHt Hb). reflexivity.
  - app_nb. rewrite (IHt Hb). reflexivity.
  - split_bf Hb. app_nb. rewrite (IHt1 Hb), (IHt2 Hb0). reflexivity.
  - split_bf Hb. app_nb. rewrite (IHt Hb).
    rewrite (nb_seq _ (rat 0 false) binder_free args); [reflexivity| |exact Hb0].
    eapply Forall_impl; [|exact H]. intros a Ha Hba. apply Ha. exact Hba.
  - split_bf Hb. app_nb. rewrite (IHt Hb).
    rewrite (nb_seq _ ExtRound.kvr (fun q : N * etree => let (_, e) := q in binder_free e) (a :: args)); [reflexivity|apply kv_free; constructor; assumption|].
    cbn [forallb]. rewrite Hb1, Hb0. reflexivity.
  - split_bf Hb. app_nb. rewrite (IHt1 Hb), (IHt2 Hb1), (IHt3 Hb0). reflexivity.
  - app_nb. rewrite (nb_seq _ (rat 0 false) binder_free l); [reflexivity| |exact Hb].
    eapply Forall_impl; [|exact H]. intros a Ha Hba. apply Ha. exact Hba.
  - app_nb. rewrite (nb_seq _ ExtRound.kvr (fun q : N * etree => let (_, e) := q in binder_free e) l); [reflexivity|apply kv_free; exact H|exact Hb].
  - destruct o, c; reflexivity.
Qed.

Lemma epar_free : forall x, binder_free x = true -> forallb nb (rfull x) = true -> forallb nb (ExtFull.epar x) = true.
Proof.
  intros x Hb H. unfold ExtFull.epar. destruct (bare x); [exact H|]. cbn [forallb nb binder_tok negb andb]. rewrite forallb_app, H. reflexivity.
Qed.

Definition Pfull (t : etree) : Prop := binder_free t = true -> forallb nb (rfull t) = true.

Lemma kv_full : forall l, Forall (ExtBase.Pkv Pfull) l ->
  Forall (fun q : N * etree => (let (_, e) := q in binder_free e) = true -> forallb nb (ExtFull.kvf q) = true) l.
Proof.
  intros l H. induction H as [|[k e] r Hx _ IH]; constructor; [|exact IH].
  intro Hb. cbn [ExtFull.kvf forallb nb binder_tok negb andb]. apply epar_free; [exact Hb|apply Hx; exact Hb].
Qed.

Theorem binder_free_tokens_full : forall t, Pfull t.
Proof.
  induction t using ExtBase.etree_ind'; intro Hb; rewrite ExtFull.rfull_eq; cbn [binder_free] in Hb; try discriminate Hb.
  - reflexivity.
  - split_bf Hb. app_nb. rewrite (epar_free _ Hb (IHt1 Hb)), (epar_free _ Hb0 (IHt2 Hb0)). reflexivity.
  - app_nb. apply epar_free; [exact Hb|apply IHt; exact Hb].
  - split_bf Hb. app_nb. rewrite (epar_free _ Hb (IHt1 Hb)), (epar_free _ Hb1 (IHt2 Hb1)), (epar_free _ Hb0 (IHt3 Hb0)). reflexivity.
  - app_nb. rewrite (epar_free _ Hb (IHt Hb)). reflexivity.
  - app_nb. rewrite (epar_free _ Hb (IHt Hb)). reflexivity.
  - split_bf Hb. app_nb. rewrite (epar_free _ Hb (IHt1 Hb)), (epar_free _ Hb0 (IHt2 Hb0)). reflexivity.
  - split_bf Hb. app_nb. rewrite (epar_free _ Hb (IHt Hb)).
    rewrite (nb_seq _ ExtFull.epar binder_free args); [reflexivity| |exact Hb0].
    eapply Forall_impl; [|exact H]. intros a Ha Hba. apply epar_free; [exact Hba|apply Ha; exact Hba].
  - split_bf Hb. app_nb. rewrite (epar_free _ Hb (IHt Hb)).
    rewrite (nb_seq _ ExtFull.kvf (fun q : N * etree => let (_, e) := q in binder_free e) (a :: args)); [reflexivity|apply kv_full; constructor; assumption|].
    cbn [forallb]. rewrite Hb1, Hb0. reflexivity.
  - split_bf Hb. app_nb. rewrite (epar_free _ Hb (IHt1 Hb)), (epar_free _ Hb1 (IHt2 Hb1)), (epar_free _ Hb0 (IHt3 Hb0)). reflexivity.
  - app_nb. rewrite (nb_seq _ ExtFull.epar binder_free l); [reflexivity| |exact Hb].
    eapply Forall_impl; [|exact H]. intros a Ha Hba. apply epar_free; [exact Hba|apply Ha; exact Hba].
  - app_nb. rewrite (nb_seq _ ExtFull.kvf (fun q : N * etree => let (_, e) := q in binder_free e) l); [reflexivity|apply kv_full; exact H|exact Hb].
  - destruct o, c; reflexivity.
Qed.

(* the text-level round trip for the trees without binders and function definitions: the proved part of the statement for all trees *)
Theorem text_roundtrip_ext_free : forall keys enc dec t, keys_ok keys = true -> atoms_ok keys enc dec -> binder_free t = true ->
  (eflag_ok false (erender_min t) = true -> forallb (names_ok keys) (erender_min t) = true ->
   parse_text_ext keys dec (unlex (econc_all keys enc (erender_min t))) = Some t) /\
  (eflag_ok false (erender_full t) = true -> forallb (names_ok keys) (erender_full t) = true ->
   parse_text_ext keys dec (unlex (econc_all keys enc (erender_full t))) = Some t).
Proof.
  intros keys enc dec t Hk Ha Hb. split; intros Hf Hn.
  - apply (ExtText.text_roundtrip_min_ext keys enc dec Hk Ha t Hf). rewrite forallb_wf_split, Hn. apply (binder_free_tokens t Hb).
  - apply (ExtText.text_roundtrip_full_ext keys enc dec Hk Ha t Hf). rewrite forallb_wf_split, Hn. apply (binder_free_tokens_full t Hb).
Qed.
