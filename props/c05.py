"""C05 — FEEL parsing and evaluation are total: a result or an error, never a crash.  (owner: builder-total)

Proof: coq/Props/C05.v over coq/C05/Model.v — machine-integer arithmetic (debug = trap on overflow, release = wrap), vector indexing,
the for/some/every odometer, the LALR table indexes and TERMINATION of the LALR driver loop (tables regenerated from
feel-parser/src/lalr.rs on every run: coq/C05/LrTermModel.v, LrTermination.v, LrTermDriver.v) and progress of the lexer model
(coq/C05/LexProgress.v over coq/C06/Lexer.v).
Correspondence, two parts:
  (1) model tie: sublist / substring / insert before / remove / filter index / years-and-months duration literals / multi-variable
      iterations are run through the real code in the DEBUG and the RELEASE build and through the model (vm_compute); the outcome
      class and the selected elements must agree (Panic in the model <-> a panic in the code);
  (2) totality run: every case runs in `dv guard` (fresh 8 MiB-stack thread, catch_unwind, wall-clock limit, process death observed)
      in both builds; anything that is not a value / an error is a violation with the input as replay.
"""
import json
import re

from vlib import core
from vlib.coqterm import App
from props import c05gen as G

HEADER = 'From Coq Require Import List ZArith Bool.\nFrom DV Require Import C05.Model.\nImport ListNotations.\nOpen Scope Z_scope.\n'
GUARD = 'guard %d 8 feel'
LIMIT_MS = 10000


def regen():
    import subprocess
    import sys
    for t in ('lalr2coq.py', 'lalrtokens2coq.py'):
        rc = subprocess.call([sys.executable, core.os.path.join(core.ROOT, 'translators', t), '-q'])
        if rc != 0:
            raise RuntimeError('translators/%s failed: feel-parser/src/lalr.rs no longer has the expected shape' % t)


# ------------------------------------------------------------------ outcome classes of the totality run
def klass(r):
    if not isinstance(r, dict):
        return 'garbled'
    for k in ('v', 'err', 'name', 'ast'):
        if k in r:
            return 'ok'
    for k in ('panic', 'crash', 'timeout', 'garbled'):
        if k in r:
            return k
    return 'garbled'


def settle(ctx, req, ri, rel):
    """A panic is deterministic; a timeout / process death may be an effect of machine load: the request is run again alone with a
    four times longer limit and only a repeated failure counts.  After three confirmed failures the rest is taken as it is
    (a real hang would otherwise cost minutes per case)."""
    k = klass(ri)
    if k in ('timeout', 'crash', 'garbled'):
        st = ctx.__dict__.setdefault('_settle', {'confirmed': 0})
        if st['confirmed'] >= 3 or len(ctx.violations) >= 20:
            return ri
        r2 = ctx.run_impl(GUARD % (4 * LIMIT_MS), [req], release=rel, shards=1)[0]
        if klass(r2) == 'ok':
            ctx.notes.append('a %s under load was not reproduced when the request ran alone: %s' % (k, json.dumps(req)[:160]))
        else:
            st['confirmed'] += 1
        return r2
    return ri


def zt(z):
    return '(%d)' % z


def num_term(x):
    """x: int -> Int z ; ('frac', neg, trunc) -> Frac"""
    if isinstance(x, int):
        return '(Int %s)' % zt(x)
    return '(Frac %s %s)' % ('true' if x[1] else 'false', zt(x[2]))


def frac(text):
    neg = text.startswith('-')
    t = int(float(text))
    return ('frac', neg, abs(t) if not neg else -abs(t), text)


def elems(n):
    return list(range(1, n + 1))


def lst(n):
    return '[' + ','.join(str(i) for i in elems(n)) + ']'


def strn(n):
    return '"' + ''.join(chr(ord('a') + i % 26) for i in range(n)) + '"'


def expected_value(kind, n, out):
    """the canonical value the code must return when the model's outcome is `out` (None = cannot say)"""
    name = out.name if isinstance(out, App) else out
    args = out.args if isinstance(out, App) else []
    if name == 'Null':
        return ('v', None)
    if name == 'Panic':
        return ('panic',)
    if kind == 'str':
        s = ''.join(chr(ord('a') + i % 26) for i in range(n))
        if name == 'Slice':
            return ('v', s[args[0]:args[1]])
    else:
        e = elems(n)
        if name == 'Slice':
            return ('v', e[args[0]:args[1]])
        if name == 'Inserted':
            return ('v', e[:args[0]] + [0] + e[args[0]:])
        if name == 'Removed':
            return ('v', e[:args[0]] + e[args[0] + 1:])
        if name == 'Item':
            return ('v', e[args[0]])
    return None


def plain(v):
    """canonical harness value -> python (numbers as int where integral)"""
    if isinstance(v, dict) and 'n' in v:
        try:
            return int(v['p'])
        except ValueError:
            return v['p']
    if isinstance(v, list):
        return [plain(x) for x in v]
    return v


def tie_cases(ctx):
    """(expression, coq term for Debug, coq term for Release, kind, n) for the modelled position functions"""
    rng = ctx.rng
    cases = []
    fr = [frac(t) for t in ['0.5', '1.5', '-0.5', '-1.5', '2.5', '-2.5']]
    for n in [0, 1, 2, 3, 5]:
        pos = G.positions(n)
        if ctx.quick:
            core_pos = [p for p in pos if abs(p) <= n + 2]
            far = [p for p in pos if abs(p) > n + 2]
            pos_a = core_pos + far
            pos_b = core_pos + rng.sample(far, 6)
        else:
            pos_a = pos_b = pos
        L, S = lst(n), strn(n)
        for p in pos_a + fr:
            pt, px = num_term(p), (str(p) if isinstance(p, int) else p[3])
            cases.append(('sublist(%s, %s)' % (L, px), 'sublist2 %%s %s %s' % (zt(n), pt), 'list', n))
            cases.append(('remove(%s, %s)' % (L, px), 'remove %%s %s %s' % (zt(n), pt), 'list', n))
            cases.append(('insert before(%s, %s, 0)' % (L, px), 'insert_before %%s %s %s' % (zt(n), pt), 'list', n))
            cases.append(('substring(%s, %s)' % (S, px), 'substring2 %%s %s %s' % (zt(n), pt), 'str', n))
            if isinstance(p, int) or p[3] not in ('1.0',):
                cases.append(('%s[%s]' % (L, px), 'filter_index %%s %s %s' % (zt(n), pt), 'list', n))
            for l in pos_b + fr[:3]:
                lt, lx = num_term(l), (str(l) if isinstance(l, int) else l[3])
                cases.append(('sublist(%s, %s, %s)' % (L, px, lx), 'sublist3 %%s %s %s %s' % (zt(n), pt, lt), 'list', n))
                cases.append(('substring(%s, %s, %s)' % (S, px, lx), 'substring3 %%s %s %s %s' % (zt(n), pt, lt), 'str', n))
    return cases


YM_VALUES = [0, 1, 11, 12, 13, 768614336404564650, 768614336404564651, G.I64 - 1, G.I64, G.I64 + 1, G.U64 - 1, G.U64, 9999999999999999999, 10 ** 30]


def ym_cases(ctx):
    out = []
    vals = YM_VALUES
    for y in [None] + vals:
        for m in [None] + vals:
            for neg in (False, True):
                if y is None and m is None:
                    continue
                text = ('-' if neg else '') + 'P' + ('%dY' % y if y is not None else '') + ('%dM' % m if m is not None else '')
                term = 'ym_parse %%s %s %s %s' % ('(Some %s)' % zt(y) if y is not None else 'None', '(Some %s)' % zt(m) if m is not None else 'None', 'true' if neg else 'false')
                out.append((text, term))
    if ctx.quick:
        out = out[::3] + [c for c in out if '9223372036854775808M' in c[0] or '768614336404564650Y' in c[0]]
    return out


def ym_text(months):
    sign = '-' if months < 0 else ''
    a = abs(months)
    y, m = a // 12, a % 12
    if y == 0 and m == 0:
        return 'P0M'
    return sign + 'P' + ('%dY' % y if y else '') + ('%dM' % m if m else '')


def odo_cases(ctx):
    """multi-variable iterations: (expression, coq states innermost first, variable count)"""
    rng = ctx.rng
    IMAX, IMIN = G.I64 - 1, -G.I64
    doms = [('r', 1, 3), ('r', 3, 1), ('r', 0, 0), ('r', IMAX - 1, IMAX), ('r', IMAX, IMAX), ('r', IMAX, IMAX - 2), ('r', IMIN, IMIN + 1), ('r', IMIN + 1, IMIN), ('r', IMIN, IMIN),
            ('r', -1, 1), ('l', 0), ('l', 1), ('l', 2), ('l', 3)]
    out = []
    combos = [[d] for d in doms] + [[a, b] for a in doms for b in doms] + [[rng.choice(doms) for _ in range(3)] for _ in range(ctx.pick(40, 300))]
    if ctx.quick:
        combos = combos[:len(doms)] + rng.sample(combos[len(doms):len(doms) + len(doms) ** 2], 70) + combos[len(doms) + len(doms) ** 2:]
    names = ['a', 'b', 'c']
    for combo in combos:
        parts, states = [], []
        for v, d in zip(names, combo):
            if d[0] == 'r':
                parts.append('%s in %d..%d' % (v, d[1], d[2]))
                states.append('range_state %s %s' % (zt(d[1]), zt(d[2])))
            else:
                parts.append('%s in %s' % (v, lst(d[1])))
                states.append('list_state %s' % zt(d[1]))
        vs = names[:len(combo)]
        e = 'for %s return [%s]' % (', '.join(parts), ', '.join(vs))
        term = 'visited_indexes (run 200 [%s] [])' % '; '.join('(%s)' % s for s in reversed(states))
        out.append((e, term, combo))
    return out


def run_tie(ctx):
    """part (1): model vs code, both builds"""
    cases = tie_cases(ctx)
    reqs = [{'e': c[0]} for c in cases]
    terms = []
    for c in cases:
        terms.append('(%s, %s)' % (c[1] % 'Debug', c[1] % 'Release'))
    model = ctx.run_model(HEADER, terms, shard_size=max(200, len(terms) // 16 + 1), tag='tie')
    for rel in (False, True):
        impl = ctx.run_impl(GUARD % LIMIT_MS, reqs, release=rel, shards=8)
        for c, ri, rm in zip(cases, impl, model):
            ctx.evaluations += 1
            case = {'e': c[0], 'build': 'release' if rel else 'debug', 'mode': 'expr'}
            want = expected_value(c[2], c[3], rm[1 if rel else 0])
            ri = settle(ctx, {'e': c[0]}, ri, rel)
            k = klass(ri)
            if k != 'ok':
                ctx.violation('%s in the %s build: %s' % (k, case['build'], c[0]), case, impl=ri, model=str(rm))
                continue
            ctx.corr_checked += 1
            if want is None:
                continue
            if want[0] == 'panic':
                ctx.corr_broken('position arithmetic (model panics, code does not)', case, ri, str(rm))
                continue
            got = plain(ri.get('v')) if 'v' in ri else ('err', ri.get('err'))
            if got is not None:
                ctx.nontrivial.add(c[0])
            if got != want[1]:
                ctx.corr_broken('position arithmetic', case, ri, {'model': str(rm), 'expected': want[1]})
    ctx.sample({'tie': cases[len(cases) // 2][0], 'model(debug,release)': str(model[len(cases) // 2])})
    n_tie = len(cases)
    # years and months duration literals
    yc = ym_cases(ctx)
    terms = ['(%s, %s)' % (t % 'Debug', t % 'Release') for _, t in yc]
    model = ctx.run_model(HEADER, terms, shard_size=max(200, len(terms) // 16 + 1), tag='ym')
    reqs = [{'e': 'string(duration("%s"))' % t} for t, _ in yc]
    for rel in (False, True):
        impl = ctx.run_impl(GUARD % LIMIT_MS, reqs, release=rel, shards=8)
        for (text, _), ri, rm in zip(yc, impl, model):
            ctx.evaluations += 1
            case = {'e': 'string(duration("%s"))' % text, 'build': 'release' if rel else 'debug', 'mode': 'expr'}
            ri = settle(ctx, {'e': case['e']}, ri, rel)
            k = klass(ri)
            if k != 'ok':
                ctx.violation('%s in the %s build: duration literal %s' % (k, case['build'], text), case, impl=ri, model=str(rm))
                continue
            ctx.corr_checked += 1
            m = rm[1 if rel else 0]
            name = m.name if isinstance(m, App) else m
            want = ym_text(m.args[0]) if name == 'YmOk' else None
            got = ri.get('v')
            if name == 'YmPanic':
                ctx.corr_broken('years and months duration literal (model panics, code does not)', case, ri, str(rm))
            elif got != want:
                # a literal that is not a years-and-months duration may still be a days-and-time duration: only P..Y..M forms are generated, so null is expected
                ctx.corr_broken('years and months duration literal', case, ri, {'model': str(rm), 'expected': want})
            if want:
                ctx.nontrivial.add(text)
    # odometer
    oc = odo_cases(ctx)
    model = ctx.run_model(HEADER, [t for _, t, _ in oc], shard_size=max(50, len(oc) // 16 + 1), tag='odo')
    reqs = [{'e': e} for e, _, _ in oc]
    for rel in (False, True):
        impl = ctx.run_impl(GUARD % LIMIT_MS, reqs, release=rel, shards=8)
        for (e, _, combo), ri, rm in zip(oc, impl, model):
            ctx.evaluations += 1
            case = {'e': e, 'build': 'release' if rel else 'debug', 'mode': 'expr'}
            ri = settle(ctx, {'e': e}, ri, rel)
            k = klass(ri)
            if k != 'ok':
                ctx.violation('%s in the %s build: %s' % (k, case['build'], e), case, impl=ri, model=str(rm))
                continue
            ctx.corr_checked += 1
            vis = rm.args[0] if isinstance(rm, App) and rm.name == 'Some' else None
            if vis is None:
                ctx.corr_broken('odometer (model does not finish)', case, ri, str(rm))
                continue
            got = plain(ri.get('v'))
            # the model lists index vectors innermost first; a list domain binds its element (index + 1 here), an empty list binds nothing
            want = []
            for idxs in vis:
                row = list(reversed(idxs))
                vals = []
                for d, i in zip(combo, row):
                    vals.append(i if d[0] == 'r' else (i + 1 if d[1] > 0 else None))
                want.append(vals)
            if not isinstance(got, list) or len(got) != len(want):
                # how many passes are made is the termination logic; which values an empty domain leaves bound is C01's subject
                if any(d[0] == 'l' and d[1] == 0 for d in combo) or any(d[0] == 'r' for d in combo[1:]) and len(combo) > 1:
                    continue
                ctx.corr_broken('odometer pass count', case, ri, {'model_passes': len(want)})
            elif not any(d[0] == 'l' and d[1] == 0 for d in combo) and not (len(combo) > 1 and any(d[0] == 'r' for d in combo)):
                if got != want:
                    ctx.corr_broken('odometer order', case, ri, {'model': want})
                else:
                    ctx.nontrivial.add(e)
    ctx.sample({'odometer': oc[-1][0], 'model': str(model[-1])[:200]})
    return n_tie, len(yc), len(oc)


LR_TOKENS = [('Numeric', '1'), ('String', '"s"'), ('Boolean', 'true'), ('Null', 'null'), ('Plus', '+'), ('Minus', '-'), ('Mul', '*'), ('Div', '/'), ('Exp', '**'), ('Eq', '='), ('Nq', '!='),
             ('Lt', '<'), ('Le', '<='), ('Gt', '>'), ('Ge', '>='), ('And', 'and'), ('Or', 'or'), ('LeftParen', '('), ('RightParen', ')'), ('LeftBracket', '['), ('RightBracket', ']'), ('Comma', ','),
             ('If', 'if'), ('Then', 'then'), ('Else', 'else')]
LR_HEADER = 'From Coq Require Import List ZArith.\nFrom DV Require Import Gen.LalrTables C05.LrDriver.\nImport ListNotations.\nOpen Scope Z_scope.\n'


def lr_sequences(ctx):
    """token sequences over a fragment whose tokens have one spelling each: grammar-shaped, then mutated"""
    rng = ctx.rng
    atoms = ['Numeric', 'String', 'Boolean', 'Null']
    ops = ['Plus', 'Minus', 'Mul', 'Div', 'Exp', 'Eq', 'Nq', 'Lt', 'Le', 'Gt', 'Ge', 'And', 'Or']

    def e(d):
        k = rng.randrange(8) if d > 0 else 0
        if k <= 1:
            return [rng.choice(atoms)]
        if k <= 3:
            return e(d - 1) + [rng.choice(ops)] + e(d - 1)
        if k == 4:
            return ['LeftParen'] + e(d - 1) + ['RightParen']
        if k == 5:
            return ['Minus'] + e(d - 1)
        if k == 6:
            return ['LeftBracket'] + _join(rng, [e(d - 1) for _ in range(rng.randrange(3))]) + ['RightBracket']
        return ['If'] + e(d - 1) + ['Then'] + e(d - 1) + ['Else'] + e(d - 1)
    seqs = []
    names = [n for n, _ in LR_TOKENS]
    for _ in range(ctx.pick(250, 3000)):
        s = e(rng.choice([1, 2, 3]))
        r = rng.random()
        if r < 0.5 and s:
            i = rng.randrange(len(s))
            m = rng.random()
            if m < 0.35:
                del s[i]
            elif m < 0.7:
                s.insert(i, rng.choice(names))
            else:
                s[i] = rng.choice(names)
        if s and len(s) <= 40:
            seqs.append(s)
    return seqs


def _join(rng, parts):
    out = []
    for i, p in enumerate(parts):
        if i:
            out.append('Comma')
        out += p
    return out


def run_lr(ctx):
    """the LR driver model (coq/C05/LrDriver.v) against parse_expression on the same token sequences"""
    text = dict(LR_TOKENS)
    seqs = lr_sequences(ctx)
    terms = ['run 3000 [0] (tok_StartExpression :: [%s])' % '; '.join('tok_' + t for t in s) for s in seqs]
    model = ctx.run_model(LR_HEADER, terms, shard_size=max(20, len(terms) // 16 + 1), tag='lr')
    reqs = [{'e': ' '.join(text[t] for t in s), 'parse_only': True} for s in seqs]
    impl = ctx.run_impl(GUARD % LIMIT_MS, reqs, shards=8)
    acc = 0
    for s, rq, ri, rm in zip(seqs, reqs, impl, model):
        ctx.evaluations += 1
        ri = settle(ctx, rq, ri, False)
        if klass(ri) != 'ok':
            ctx.violation('%s while parsing: %s' % (klass(ri), rq['e']), {'e': rq['e'], 'mode': 'expr', 'build': 'debug'}, impl=ri)
            continue
        ctx.corr_checked += 1
        m = rm.name if isinstance(rm, App) else str(rm)
        got = 'RError' if 'err' in ri else 'RAccept'
        if got == 'RAccept':
            acc += 1
            ctx.nontrivial.add(rq['e'])
        if m != got:
            ctx.corr_broken('LR driver (accept / syntax error)', {'e': rq['e'], 'tokens': s}, ri if 'err' in ri else 'accepted', m)
    ctx.sample({'lr': reqs[0]['e'], 'model': str(model[0])})
    return len(seqs), acc


def totality_cases(ctx):
    rng = ctx.rng
    cases = []

    def add(tag, e, c='', mode='expr'):
        cases.append({'tag': tag, 'e': e, 'ctx': c, 'mode': mode})

    H = G.harvest(core.REPO)
    hs = H if not ctx.quick else rng.sample(H, min(len(H), 1000))
    for c, e in hs:
        add('harvest', e, c)
        add('harvest', e, c, rng.choice(G.MODES[1:]))
    for c, e in (H if not ctx.quick else rng.sample(H, min(len(H), 1500))):
        for _ in range(ctx.pick(2, 12)):
            add('mutation', G.mutate(rng, e), c, rng.choice(G.MODES) if rng.random() < 0.3 else 'expr')
    for _ in range(ctx.pick(2000, 60000)):
        add('grammar', G.gen_expr(rng, rng.choice([1, 2, 3, 4])), G.GCTX, rng.choice(G.MODES) if rng.random() < 0.2 else 'expr')
    for _ in range(ctx.pick(300, 5000)):
        add('unary', G.gen_unary(rng), G.GCTX, 'unary')
    for _ in range(ctx.pick(1000, 30000)):
        add('unicode', G.gen_unicode(rng), '', rng.choice(G.MODES))
    for _ in range(ctx.pick(300, 5000)):
        add('escapes', G.gen_escapes(rng), '', rng.choice(['expr', 'name', 'context', 'boxed']))
    pool = G.EXTREME_NUMS + G.EXTREME_STRS + G.EXTREME_OTHERS
    for b in G.BIFS:
        add('bif', '%s()' % b)
        for a in (pool if not ctx.quick else rng.sample(pool, 30)):
            add('bif', '%s(%s)' % (b, a))
        for _ in range(ctx.pick(30, 1500)):
            add('bif', '%s(%s, %s)' % (b, rng.choice(pool), rng.choice(pool)))
        for _ in range(ctx.pick(12, 600)):
            add('bif', '%s(%s)' % (b, ', '.join(rng.choice(pool) for _ in range(rng.choice([3, 3, 4, 5])))))
        if b in G.NAMED:
            ps = G.NAMED[b]
            for _ in range(ctx.pick(8, 300)):
                add('bif-named', '%s(%s)' % (b, ', '.join('%s: %s' % (p, rng.choice(pool)) for p in rng.sample(ps, rng.randint(1, len(ps))))))
    # string functions with a second string argument: the match string occurs in the input and contains characters of every UTF-8 length (byte offsets
    # of str::find mixed with character counts is a classic slicing panic; seeded change C05_c: substring after with a non-ASCII match string)
    uni = ['\u00e9', '\u0142', '\u20ac', '\u2192', '\U0001F600', 'e\u0301', '\u00df\u00df', 'a\u20acb', '\u20ac\u20ac', '\U0001F600\u00e9']
    hay = ['%s', 'x%s', '%sx', 'x%sy', '%s%s', '\u00e9%s\u20ac', '\U0001F600%sz\u00e9', 'ab%s\u20ac%scd']
    for b in ('substring after', 'substring before', 'contains', 'starts with', 'ends with', 'split', 'matches', 'replace', 'string join', 'index of'):
        for m in uni:
            for h in (hay if not ctx.quick else rng.sample(hay, 4)):
                text = h.replace('%s', m)
                if b == 'replace':
                    add('bif-unicode', 'replace("%s", "%s", "%s")' % (text, m, rng.choice(['', 'z', m + m, '$0'])))
                elif b == 'string join':
                    add('bif-unicode', 'string join(["%s", "%s"], "%s")' % (text, m, m))
                elif b == 'index of':
                    add('bif-unicode', 'index of(["%s", "%s"], "%s")' % (text, m, m))
                else:
                    add('bif-unicode', '%s("%s", "%s")' % (b, text, m))
                    if b in G.NAMED and rng.random() < 0.3:
                        ps = G.NAMED[b]
                        add('bif-unicode', '%s(%s: "%s", %s: "%s")' % (b, ps[1], m, ps[0], text))
    # times / date-times built with an offset DURATION of a day or more (accepted by time(h, m, s, offset)) in every operation that needs the
    # instant, and sums of years-and-months durations at the ends of i64 printed / negated / compared (two panics found on the unchanged tree by
    # an outsider: FixedOffset::east out of bounds, i64::abs overflow in Display; fixed in /repo 745797a, a5568f0)
    # (the offset is narrowed to 32 bits: -2^31 seconds made Display for the zone negate i32::MIN, a panic in checked builds; found by an outsider, fixed in /repo d8d29d1)
    offs = ['duration("P1D")', 'duration("-P1D")', 'duration("PT24H")', 'duration("PT23H59M59S")', 'duration("P2D")', 'duration("-PT36H")', 'duration("P999999D")', 'duration("PT0S")',
            'duration("-PT2147483648S")', 'duration("PT2147483648S")', 'duration("PT2147483647S")', 'duration("-PT2147483649S")', 'duration("PT4294967296S")', 'duration("-PT6442450944S")']
    for o in offs:
        t = 'time(10, 0, 0, %s)' % o
        for e in ('%s = %s', '%s != time("10:00:00Z")', '%s < %s', '%s - time("09:00:00Z")', 'string(%s)', '(%s).time offset', '%s in [time("00:00:00Z")..time("23:59:59Z")]',
                  '%s between time("00:00:00Z") and %s', 'date and time(date("2021-03-28"), %s) = date and time("2021-03-28T10:00:00Z")',
                  'date and time(date("2021-03-28"), %s) - date and time("2021-03-28T10:00:00Z")', 'date and time(date("999999999-12-31"), %s) > date and time("2021-03-28T10:00:00Z")'):
            add('offset-duration', e.replace('%s', t))
    # user-defined functions with typed parameters / a typed result called with every shape of argument: the coercion (conforms / singleton list in both
    # directions / null) meets empty lists, nested empty lists, nulls and values of other types (seeded change C05_h: `[]` into a scalar parameter indexed item 0)
    tps = ['number', 'string', 'boolean', 'date', 'time', 'date and time', 'days and time duration', 'years and months duration', 'Any', 'Null', 'list<number>', 'list<Any>', 'list<list<number>>',
           'context<a: number>', 'range<number>', 'function<number> -> number']
    tvs = ['[]', '[[]]', '[[[]]]', '[null]', '[1]', '[1, 2]', '[[1]]', '[[], []]', 'null', '1', '"a"', 'true', '{}', '{a: 1}', '[{}]', '[{a: 1}]', '[1..2]', '[[1..2]]', '[1, 2][item > 5]', '[[]][1]',
           '[function(x: number) x]', 'function(x: number) x', '[date("2021-01-01")]', '[@"PT1H"]', '[[]][item = []]']
    for tp in tps:
        for v in (tvs if not ctx.quick else rng.sample(tvs, 12)):
            add('typed-param', '(function(x: %s) x)(%s)' % (tp, v))
            k = rng.random()
            if k < 0.3:
                add('typed-param', '{f: function(a: %s) a, r: f(a: %s)}.r' % (tp, v))
            elif k < 0.5:
                add('typed-param', '(function(x: %s, y: %s) [x, y])(%s, %s)' % (tp, rng.choice(tps), v, rng.choice(tvs)))
            elif k < 0.6:
                add('typed-param', 'count((function(x: %s) x)(%s))' % (tp, v))
    ends = ['duration("P768614336404564650Y7M")', 'duration("-P768614336404564650Y7M")', 'duration("P1M")', 'duration("-P1M")', 'duration("P768614336404564650Y")', 'duration("-P768614336404564650Y8M")']
    for a in ends:
        for b in ends:
            for e in ('%s + %s', 'string(%s + %s)', '-(%s + %s)', 'abs(%s + %s)', '(%s + %s) = %s', '(%s + %s) < %s', '(%s + %s).years', '(%s + %s).months', '%s - %s', 'string(-(%s) + %s)'):
                add('ym-ends', e.replace('%s', '\x00').replace('\x00', a, 1).replace('\x00', b, 1).replace('\x00', a))
    # the number of months between two dates / date-times that lie as far apart as FEEL years allow (seeded change C05_j: the difference of the years was
    # multiplied by 12 in 32 bits), positional and named, both orders, and the same through date arithmetic
    far = ['date("999999999-12-31")', 'date("-999999999-01-01")', 'date("2020-01-01")', 'date("178958991-06-15")', 'date("-178954951-06-15")', 'date and time("999999999-12-31T23:59:59")',
           'date and time("-999999999-01-01T00:00:00")', 'date("0001-01-01")']
    for a in far:
        for b in far:
            add('ym-far', 'years and months duration(%s, %s)' % (a, b))
            add('ym-far', 'string(years and months duration(from: %s, to: %s))' % (a, b))
            add('ym-far', 'years and months duration(%s, %s).years' % (a, b))
            add('ym-far', '%s + years and months duration(%s, %s)' % (a, a, b))
    for op in G.BINOPS + ['between']:
        for _ in range(ctx.pick(60, 3000)):
            a, b, c = rng.choice(pool), rng.choice(pool), rng.choice(pool)
            add('operator', '%s between %s and %s' % (a, b, c) if op == 'between' else '%s %s %s' % (a, op, b))
    props = ['year', 'month', 'day', 'weekday', 'hour', 'minute', 'second', 'time offset', 'timezone', 'years', 'months', 'days', 'hours', 'minutes', 'seconds', 'start', 'end', 'start included', 'a']
    idxs = ['0', '1', '-1', '18446744073709551615', '-18446744073709551616', '1.0', '0.5', 'true', 'item > 1', 'null', '1e40', '9223372036854775808', '-9223372036854775808']
    for a in pool:
        add('operator', '-%s' % a)
        add('operator', 'string(%s)' % a)
        for p in (props if not ctx.quick else rng.sample(props, 4)):
            add('property', '(%s).%s' % (a, p))
        for i in (idxs if not ctx.quick else rng.sample(idxs, 3)):
            add('filter', '(%s)[%s]' % (a, i))
    for e in G.dst_cases():
        add('dst', e)
    cc = G.comment_cases()
    for e in cc:
        for m in (G.MODES if not ctx.quick else ['expr', rng.choice(G.MODES[1:])]):
            add('comment', e, '', m)
    for e in G.in_name_cases():
        for m in (G.MODES if not ctx.quick else ['expr', rng.choice(G.MODES[1:])]):
            add('in-name', e, '{x: 1}', m)
    dc = G.duration_cases()
    for e in (dc if not ctx.quick else rng.sample(dc, 700)):
        add('duration', e)
    for d in ([200] if ctx.quick else [10, 50, 100, 200]):
        for e in G.nesting_cases(d):
            for m in (['expr', rng.choice(['unary', 'boxed', 'context', 'name', 'textual', 'textuals'])] if ctx.quick else G.MODES):
                add('nesting-%d' % d, e, '{a: 1, f: function(x) x}' if d <= 50 else '{f: function(x) x}', m)
    # constructs nested in the positions that are evaluated FIRST (the condition of an if, the left operand of and / or, the tested value of between and in,
    # the list of a filter, the domain of a for): once per level, whatever the condition gives (seeded change C05_k: a condition that is not true was
    # evaluated a second time - 2^depth evaluations)
    def nest(d, leaf, wrap):
        e = leaf
        for _ in range(d):
            e = wrap % e
        return e
    for d in (30, 60, 200):
        for leaf, wrap in (('false', 'if (%s) then false else false'), ('null', 'if (%s) then 1 else null'), ('1', 'if (%s) then false else false'), ('true', 'if (%s) then true else true'),
                           ('false', '(%s) or false'), ('true', '(%s) and true'), ('null', '(%s) and null'), ('1', '(%s) between 0 and 2'), ('1', 'if (%s) in [0..2] then 1 else 1'),
                           ('[1]', '(%s)[true]'), ('[1]', 'for x in (%s) return x'), ('false', 'if (%s) = null then false else false')):
            add('nesting-first-position', nest(d, leaf, wrap))
    # listed finding filter-index-nesting: a filter evaluates its second operand once per item (as a predicate) AND once more (as a possible index), so filters
    # nested in the INDEX position cost (items + 1)^depth evaluations; shallow nestings answer at once, the witness at depth 40 runs into the time limit
    def nest_ix(d):
        e = '1'
        for _ in range(d):
            e = '[1, 2][%s]' % e
        return e
    for d in (2, 6, 10, 40):
        add('filter-index-nest', nest_ix(d))
    # listed finding dtd-sum-beyond-i128: the witness (17 doublings of the largest literal leave the i128 of nanoseconds) and its neighbours that stay inside
    for n in (15, 16, 17, 18, 20):
        add('dtd-sum', 'for i in 1..%d return if i = 1 then duration("P18446744073709551615D") else partial[-1] + partial[-1]' % n)
        add('dtd-sum', 'for i in 1..%d return if i = 1 then duration("-P18446744073709551615D") else partial[-1] + partial[-1]' % n)
    for e in ['for in in [1] return 1', 'for in in in return in', 'some in in [1] satisfies in', 'for x in in return 1', 'in in in', 'for  in', 'for', 'for x', 'for x in', 'some', 'every x in', 'x in', 'in',
              'for x in 9223372036854775806..9223372036854775807 return x', 'for x in -9223372036854775807..-9223372036854775808 return x',
              'count(for x in 9223372036854775807..9223372036854775807, y in [1,2] return 1)', 'sublist([1,2,3], -4, 1)', 'duration("P9999999999999999999Y")',
              'sublist([1], 2, 18446744073709551615)', 'substring("abc", 2, 18446744073709551615)', 'string(duration("P9223372036854775808M"))',
              'date and time("2021-03-28T02:30:00@Europe/Warsaw").time offset', 'date and time("2011-12-30T12:00:00@Pacific/Apia") = date and time("2021-01-01T00:00:00Z")']:
        for m in G.MODES:
            add('corpus', e, '', m)
    for c in cases:
        if c['ctx'] == '' and c['tag'] in ('bif', 'bif-named', 'operator', 'property', 'filter'):
            c['ctx'] = G.ctx_for(c['e'])
    return cases


def run_totality(ctx):
    cases = totality_cases(ctx)
    # mixed batches: when a change makes a whole class of inputs hang (10 s each), the first batch already holds 20 failing inputs and the run stops
    ctx.rng.shuffle(cases)
    hist = {}
    kinds = {}
    done = 0
    size = 600
    for lo in range(0, len(cases), size):
        batch = cases[lo:lo + size]
        reqs = [{'e': c['e'], 'ctx': c['ctx'], 'mode': c['mode']} for c in batch]
        for rel in (False, True):
            impl = ctx.run_impl(GUARD % LIMIT_MS, reqs, release=rel, shards=8)
            if len(impl) != len(batch):
                ctx.broken.append('totality run: %d answers for %d requests' % (len(impl), len(batch)))
            for c, rq, ri in zip(batch, reqs, impl):
                ctx.evaluations += 1
                ri = settle(ctx, rq, ri, rel)
                k = klass(ri)
                tag = c['tag'].split('-')[0]
                hist[tag] = hist.get(tag, 0) + 1
                if k == 'ok':
                    ctx.corr_checked += 1
                    kk = 'value' if ri.get('v', 0) is not None and 'v' in ri else ('null' if 'v' in ri else 'error:' + str(ri.get('err', 'name')))
                    kinds[kk] = kinds.get(kk, 0) + 1
                    if 'v' in ri and ri['v'] is not None:
                        ctx.nontrivial.add((c['e'], c['mode']))
                    continue
                case = {'e': c['e'], 'ctx': c['ctx'], 'mode': c['mode'], 'build': 'release' if rel else 'debug', 'generator': c['tag']}
                # listed finding dtd-sum-beyond-i128, identified by its call site: the `+` of two days-and-time durations (dt_duration.rs, impl Add) is an
                # unchecked i128 addition; any other panic, also one in the same file, is a violation
                if (k == 'panic' and not rel and 'attempt to add with overflow' in str(ri.get('panic')) and str(ri.get('at', '')).rsplit(':', 1)[0].endswith('feel/src/temporal/dt_duration.rs')
                        and 'duration(' in c['e'] and '+' in c['e'] and ctx.known('dtd-sum-beyond-i128', case)):
                    continue
                if k == 'timeout' and c['tag'] == 'filter-index-nest' and c['e'].count('[1, 2][') >= 14 and ctx.known('filter-index-nesting', case):
                    continue
                ctx.violation('%s in the %s build (%s, mode %s): %s  %s' % (k, case['build'], c['tag'], c['mode'], c['e'][:200], json.dumps(ri)[:200]), case, impl=ri)
        done += len(batch)
        if len(ctx.violations) >= 20:
            ctx.notes.append('totality run stopped after %d of %d inputs: 20 failing inputs recorded' % (done, len(cases)))
            break
    ctx.sample({'totality': cases[len(cases) // 3]})
    return len(cases), hist, kinds


TERM_HEADER = 'From Coq Require Import List ZArith.\nFrom DV Require Import Gen.LalrTables C05.LrTermModel.\nImport ListNotations.\nOpen Scope Z_scope.\n'
TERM_CHECKS = [('rules_w_ok', 'rule_offenders', 'rules whose left-hand side does not weigh less than the right-hand side (or an empty rule that weighs something)'),
               ('terminals_w_ok', None, 'a terminal weighs more than W'),
               ('eps_ok', 'eps_offenders', '(state, lookahead symbol) where more than K reductions of empty rules follow each other: the loop may spin without reading input'),
               ('end_shift_ok', 'end_offenders', 'states that shift the end marker into a state other than the final one'),
               ('token_syms_ok', None, 'a token type of the lexer is not a terminal of the grammar')]


def termination_checks(ctx):
    """the finite checks behind the termination theorems (coq/C05/LrTermModel.v), evaluated as booleans on the regenerated tables: when
    the proof gate breaks because lalr.rs changed, this names the check that fails and the rules / states at fault"""
    rc, out = ctx.coq_make(['C05/LrTermModel.vo'])
    if rc != 0:
        ctx.broken.append('termination checks: coq/C05/LrTermModel.v does not build: %s' % out.strip().split('\n')[-3:])
        return {}
    terms = [c for c, _, _ in TERM_CHECKS] + [o for _, o, _ in TERM_CHECKS if o] + ['fuel_bound 0', 'fuel_bound 1']
    res = dict(zip(terms, ctx.run_model(TERM_HEADER, terms, tag='term')))
    out = {}
    for c, o, what in TERM_CHECKS:
        ok = str(res[c]) in ('True', 'true')
        out[c] = ok
        if not ok:
            ctx.broken.append('termination check %s = false on the tables of lalr.rs: %s%s' % (c, what, (': ' + str(res[o])[:300]) if o else ''))
    out['fuel_bound(n)'] = '%s * (n + 1) + %s' % (int(res['fuel_bound 1']) - int(res['fuel_bound 0']), 2 * int(res['fuel_bound 0']) - int(res['fuel_bound 1']))
    return out


def run(ctx):
    if not ctx.proof_gate(gen_cb=regen):
        # make stops at the first broken proof; the model files the correspondence below evaluates must still be rebuilt on the regenerated tables
        rc, out = ctx.coq_make(['C05/Model.vo', 'C05/LrDriver.vo'])
        if rc != 0:
            ctx.broken.append('the model files C05/Model.v, C05/LrDriver.v do not build on the regenerated tables: %s' % out.strip().split('\n')[-3:])
    term = termination_checks(ctx)
    ctx.build_harness()
    ctx.build_harness(release=True)
    n_tie, n_ym, n_odo = run_tie(ctx)
    n_lr, n_lr_acc = run_lr(ctx)
    if len(ctx.violations) >= 20:
        # the modelled functions already fail on 20 concrete inputs: the replay files are written, the totality run would add nothing
        ctx.notes.append('totality run skipped: the model tie already produced 20 failing inputs')
        n_tot, hist, kinds = 0, {}, {}
    else:
        n_tot, hist, kinds = run_totality(ctx)
    return ctx.finish(
        rule='(1) model tie, both builds: sublist/substring/insert before/remove/filter on lists and strings of 0,1,2,3,5 elements with every position and length from -(n+2) to n+2, '
             'the u32/i32/u64/i64/usize boundaries, 1e20, 1e40 and fractions; years-and-months literals over the i64/u64 boundaries of both digit groups and signs; iterations over 1-3 '
             'variables whose domains are ranges at the isize boundaries (both directions) and lists of 0-3 elements.  (2) totality, both builds, 7 parser entry points: every string '
             'literal of */src/tests/** (with the te_scope context of its test), token-level mutations of them, grammar-derived expressions, unary tests, arbitrary Unicode, escape '
             'sequences, block / line comments with runs of * and / (0..6) at every place of the body, unterminated, around tokens, iteration variables starting with the keyword in, every built-in with 0-5 positional and named extreme arguments (10^4-element lists, maximal durations, far dates, DST gaps/folds, regex bombs), string functions whose match string holds characters of every UTF-8 length, times built with offset durations of a day or more and at the ends of i32, '
             'sums of years-and-months durations at the ends of i64, user-defined functions with typed parameters (16 types) applied to empty / nested-empty / singleton / null / foreign arguments, operators, '
             'properties, filters, nesting depth 200 per recursive construct.  non-trivial = the code returned a non-null value',
        extra_cov={'exhaustive': False, 'builds': ['debug (overflow-checks on)', 'release (overflow-checks off)'], 'per_request': '8 MiB stack thread, catch_unwind, %d ms wall-clock limit, process death observed' % LIMIT_MS,
                   'termination_checks': term, 'tie_cases': n_tie, 'lr_token_sequences': n_lr, 'lr_accepted': n_lr_acc, 'ym_cases': n_ym, 'odometer_cases': n_odo, 'totality_cases_per_build': n_tot, 'generator_histogram(both builds)': hist, 'outcome_kinds': kinds},
        assumptions=['Vec / String lengths are at most isize::MAX (valid_len)', 'FeelIterator steps are +1 / -1 (add_range / add_list are the only constructors)',
                     'decQuad to-scientific-string prints d.ddd E+(e+ndigits-1) for exponent e > 0 (sci_zero_count)'],
        trusted=['PARTIAL: stack depth, allocator, regex engine, chrono / chrono-tz, decNumber C kernel are not modelled; they are observed by the totality run only',
                 'termination of the LR loop / the LR stack-depth invariant / progress of the lexer are theorems about the driver and lexer MODELS (C05.LrDriver, C06.Actions, C06.Lexer); '
                 'that Parser::parse and Lexer::next_token behave like them is the correspondence of C05 (accept / syntax error on token sequences) and C06 (trees node by node, tokens one by one), and the totality run',
                 'translators/lalr2coq.py and translators/lalrtokens2coq.py (read the const arrays, TokenType and reduce arms of lalr.rs by stable syntax)',
                 'harness dv guard (thread with fixed stack, catch_unwind, wall-clock limit)'])


def replay(ctx, path):
    obj = json.load(open(path))
    if 'case' not in obj:
        print(json.dumps(obj, indent=1)[:3000])
        return 1
    c = obj['case']
    rel = c.get('build') == 'release'
    ctx.build_harness(release=rel)
    r = ctx.run_impl(GUARD % LIMIT_MS, [{'e': c['e'], 'ctx': c.get('ctx', ''), 'mode': c.get('mode', 'expr')}], release=rel)[0]
    print('build: %s\nmode: %s\ncontext: %s\nexpression: %s\nanswer now: %s' % (c.get('build'), c.get('mode'), c.get('ctx', '')[:200], c['e'][:2000], json.dumps(r)[:500]))
    bad = klass(r) != 'ok'
    print('-> %s' % ('still fails (not a value / an error)' if bad else 'returns a value or an error now'))
    return 1 if bad else 0


MANIFEST = dict(
    technique='Coq proof over a machine-integer model (checked = debug, wrapping = release) of the position arithmetic, duration parsing, the iteration odometer and the regenerated LALR tables; '
              'model/code correspondence in both builds; totality run in guarded threads / child processes',
    text="PARTIAL. Proved for all inputs (coq/Props/C05.v, closed under the global context): sublist, substring, insert before, remove and the numeric filter never panic, give the same answer in "
         "the debug and the release build and only use indexes inside the collection, for every length, position and count; years-and-months duration literals never overflow (any digit groups); the sum of two days-and-time durations (an unchecked i128 addition of nanoseconds) is exact in both builds unless the exact sum leaves i128, traps exactly there in the checked build and wraps in the other (C05_dtd_sum_exact_unless_known / _known_class / _traps_iff; witness C05_dtd_sum_total_refuted = the listed finding dtd-sum-beyond-i128); "
         "the for/some/every odometer terminates for every list of ranges (any isize bounds, either direction) and lists, makes exactly the product-many passes and visits every combination once; "
         "the LALR driver loop over the current lalr.rs tables never indexes a table out of bounds for any token sequence and any number of steps (single-step sweeps over all states x tokens and rules x states, lifted by induction over the run); "
         "the driver loop TERMINATES: on every sequence of n lexer tokens it ends with accept or a syntax error within 27(n+1)+3 turns and never finds its state stack shorter than the right-hand side it pops "
         "(weights per grammar symbol computed from the regenerated tables: a shift adds at most 8, a reduction by a non-empty rule removes at least 1, at most 2 mid-rule-action reductions in a row; "
         "lifted through the automaton invariant of C06) -- stated for the checked driver of C05, for the full parser model of C06 with all 90 semantic actions (its own 40 turns per token are never used up: a tree or a syntax error, nothing else) and for the syntax-tree driver; "
         "the lexer model makes progress: every call of next_token that returns a token consumes at least one character, the token stream of n characters is complete after n+1 calls, the comment / white-space scan stops where nothing is left to skip, the name-part collector stops by its break. "
         "All table-dependent parts are re-proved whenever lalr.rs changes. The pinned code is refuted by witnesses (4 fixed defects + 1 fixed under C08). "
         "Not provable in this model and therefore only observed: stack depth, allocator, regex engine, chrono/chrono-tz, the decNumber C kernel; termination is proved for the driver / lexer models, whose agreement with Parser::parse and Lexer::next_token is sampled (C05 LR sequences, C06 trees and token traces). These are covered by the totality run: "
         "~45k (quick) inputs x 2 builds over 7 parser entry points, each in an 8 MiB-stack thread with catch_unwind, a wall-clock limit and process-death detection.",
    note='Trusted: Coq kernel + vm_compute, hand-written model of core.rs / builders.rs / iterations.rs / ym_duration.rs (correspondence-checked in both builds), lalr2coq translators, harness dv guard. '
         'A panic, abort, stack overflow or hang of any generated input in either build is a VIOLATION with the input as replay.')
