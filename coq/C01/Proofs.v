(* C01/C13 — proofs: the stack machine computes the environment semantics and restores the stack. *)
From Coq Require Import List ZArith NArith Bool Lia.
From DV Require Import C01.Syntax C01.Spec C01.Impl.
Import ListNotations.
Open Scope Z_scope.

Lemma thread_pure {A B : Type} (r : stack -> A -> B * stack) (g : A -> B) (S : stack) (l : list A) :
  (forall a, In a l -> r S a = (g a, S)) -> thread r S l = (map g l, S).
Proof. induction l as [|a t IH]; cbn [thread map]; intros H; [reflexivity|].
  rewrite (H a (or_introl eq_refl)). rewrite IH; [reflexivity|]. intros b Hb. apply H. right. exact Hb. Qed.

Lemma existsb_map_snd {A} (g : A -> N * option (list value) * bool) (p : A -> bool) l :
  (forall a, snd (g a) = p a) -> existsb (fun d => snd d) (map g l) = existsb p l.
Proof. intros H. induction l as [|a l IH]; cbn [map existsb]; [reflexivity|]. rewrite H, IH. reflexivity. Qed.

Lemma flat_map_map {A B C} (g : A -> B) (h : B -> list C) l : flat_map h (map g l) = flat_map (fun a => h (g a)) l.
Proof. induction l as [|a l IH]; cbn [map flat_map]; [reflexivity|]. rewrite IH. reflexivity. Qed.

Section Refine.
Variable cartf : list (N * list value) -> list ctx.

Lemma ctx_fold f S (IH : forall S e, run cartf f S e = (eval cartf f S e, S)) es : forall acc,
  fold_left (fun (st : ctx * stack) ke =>
     let (v, S') := run cartf f (snd st) (snd ke) in (ctx_set (fst ke) v (fst st), set_top (fst ke) v S')) es (acc, acc :: S)
  = (let acc' := fold_left (fun acc ke => ctx_set (fst ke) (eval cartf f (acc :: S) (snd ke)) acc) es acc in (acc', acc' :: S)).
Proof. induction es as [|[k e] es IHes]; intros acc; cbn [fold_left fst snd]; [reflexivity|].
  rewrite IH. cbn [set_top]. apply IHes. Qed.

Lemma for_fold f S body (IH : forall S e, run cartf f S e = (eval cartf f S e, S)) ts : forall acc,
  fold_left (fun (st : list value * stack) t =>
     let (v, S') := run cartf f (push (ctx_set n_partial (VList (fst st)) t) (snd st)) body in (fst st ++ [v], pop S')) ts (acc, S)
  = (fold_left (fun acc t => acc ++ [eval cartf f (ctx_set n_partial (VList acc) t :: S) body]) ts acc, S).
Proof. induction ts as [|t ts IHts]; intros acc; cbn [fold_left fst snd]; [reflexivity|].
  rewrite IH. unfold push, pop. cbn [tl]. apply IHts. Qed.

Theorem run_refines : forall f S e, run cartf f S e = (eval cartf f S e, S).
Proof.
  induction f as [|f IH]; intros S e; [reflexivity|].
  destruct e; cbn [run eval]; rewrite ?IH; try reflexivity.
  - (* EIf *) destruct (eval cartf f S e1) as [| [|] | | | | | | | |]; rewrite ?IH; reflexivity.
  - (* EIn *) rewrite (thread_pure _ (test_eval (eval cartf f S))).
    + destruct ts as [|t [|t' ts]]; reflexivity.
    + intros t _. destruct t; cbn [test_run test_eval]; rewrite ?IH; reflexivity.
  - (* EList *) rewrite (thread_pure _ (eval cartf f S)); [reflexivity|]. intros a _. apply IH.
  - (* ECtx *) unfold push. rewrite (ctx_fold f S IH). cbn zeta. unfold pop. reflexivity.
  - (* EFilter *) destruct (eval cartf f S e1) as [| | | |items| | | | |]; rewrite ?IH; try reflexivity.
    rewrite (thread_pure _ (fun v => eval cartf f (filter_env v ++ S) e2)).
    + rewrite IH. reflexivity.
    + intros v _. unfold push, pop, filter_env. destruct v as [| | | | |c| | | |]; rewrite ?IH; try reflexivity.
      destruct (ctx_get n_item c); rewrite ?IH; reflexivity.
  - (* EFor *) rewrite (thread_pure _ (fun nd => (fst nd, dom_eval (eval cartf f S) (snd nd), dom_poison (eval cartf f S) (snd nd)))).
    + rewrite (existsb_map_snd _ (fun nd => dom_poison (eval cartf f S) (snd nd))) by reflexivity.
      destruct (existsb _ ds) eqn:Ep; [reflexivity|].
      rewrite flat_map_map. cbn [fst snd]. unfold doms_eval. destruct (flat_map _ ds) as [|d0 doms] eqn:Ed; [reflexivity|].
      rewrite (for_fold f S e IH). reflexivity.
    + intros [x d] _. unfold dom_run. cbn [fst snd]. destruct d; cbn [dom_eval dom_poison]; rewrite ?IH; reflexivity.
  - (* ESome *) rewrite (thread_pure _ (fun nd => (fst nd, dom_values (eval cartf f S (snd nd))))).
    + rewrite (thread_pure _ (fun t => eval cartf f (t :: S) e)); [reflexivity|]. intros t _. unfold push, pop. rewrite IH. reflexivity.
    + intros nd _. rewrite IH. reflexivity.
  - (* EEvery *) rewrite (thread_pure _ (fun nd => (fst nd, dom_values (eval cartf f S (snd nd))))).
    + rewrite (thread_pure _ (fun t => eval cartf f (t :: S) e)); [reflexivity|]. intros t _. unfold push, pop. rewrite IH. reflexivity.
    + intros nd _. rewrite IH. reflexivity.
  - (* ECall *) rewrite (thread_pure _ (eval cartf f S)); [|intros a _; apply IH].
    destruct (eval cartf f S e) as [| | | | | | | |ps body|]; try reflexivity.
    destruct (mk_args ps _); [|reflexivity]. unfold push, pop. rewrite IH. reflexivity.
  - (* ECallN *) rewrite (thread_pure _ (fun ne => (fst ne, eval cartf f S (snd ne)))); [|intros a _; rewrite IH; reflexivity].
    destruct (eval cartf f S e) as [| | | | | | | |ps body|]; try reflexivity.
    destruct (mk_named ps _ _); [|reflexivity]. unfold push, pop. rewrite IH. reflexivity.
Qed.
End Refine.

(* ---------- the cartesian product ---------- *)
Lemma cart_empty ds : (exists d, In d ds /\ snd d = []) -> cart ds = [].
Proof. induction ds as [|[x vs] ds IH]; intros [d [Hd He]]; [destruct Hd|]. cbn [cart].
  destruct Hd as [<-|Hd]; cbn [snd] in *.
  - subst vs. reflexivity.
  - rewrite IH by (exists d; tauto). induction vs as [|v vs IHv]; [reflexivity|]. cbn [flat_map map app]. exact IHv. Qed.

Lemma flat_map_length_const {A B} (g : A -> list B) n l : (forall a, In a l -> length (g a) = n) -> length (flat_map g l) = (length l * n)%nat.
Proof. induction l as [|a l IH]; cbn [flat_map length]; intros H; [reflexivity|].
  rewrite app_length, (H a (or_introl eq_refl)), IH; [lia|]. intros b Hb. apply H. right. exact Hb. Qed.

Lemma cart_length ds : length (cart ds) = fold_right (fun d n => (length (snd d) * n)%nat) 1%nat ds.
Proof. induction ds as [|[x vs] ds IH]; cbn [cart fold_right snd]; [reflexivity|].
  rewrite (flat_map_length_const _ (length (cart ds))); [rewrite IH; reflexivity|]. intros v _. apply map_length. Qed.

(* the enumeration used by the code coincides with the product when no list domain is empty *)
Lemma cart_impl_nonempty ds : ds <> [] -> (forall d, In d ds -> snd d <> []) -> cart_impl ds = cart ds.
Proof. intros Hne H. unfold cart_impl.
  assert (E : filter (fun d : N * list value => match snd d with [] => false | _ => true end) ds = ds).
  { clear Hne. induction ds as [|d ds IH]; cbn [filter]; [reflexivity|].
    pose proof (H d (or_introl eq_refl)) as Hd. destruct (snd d); [congruence|]. rewrite IH; [reflexivity|]. intros d' Hd'. apply H. right. exact Hd'. }
  rewrite E. destruct ds; [congruence|reflexivity]. Qed.

Lemma cart_impl_all_empty ds : (forall d, In d ds -> snd d = []) -> cart_impl ds = [].
Proof. intros H. unfold cart_impl.
  assert (E : filter (fun d : N * list value => match snd d with [] => false | _ => true end) ds = []).
  { induction ds as [|d ds IH]; cbn [filter]; [reflexivity|]. rewrite (H d (or_introl eq_refl)). apply IH. intros d' Hd'. apply H. right. exact Hd'. }
  rewrite E. reflexivity. Qed.

(* for/some/every of the Spec: empty / false / true as soon as one domain is an empty list *)
Lemma doms_eval_dlist ev ds : doms_eval ev (map (fun xe => (fst xe, DList (snd xe))) ds) = map (fun xe => (fst xe, dom_values (ev (snd xe)))) ds.
Proof. unfold doms_eval. induction ds as [|[x e] ds IH]; cbn [map flat_map fst snd dom_eval app]; [reflexivity|]. rewrite IH. reflexivity. Qed.

Theorem spec_for_empty f S ds body x e :
  In (x, e) ds -> eval_spec f S e = VList [] ->
  eval_spec (Datatypes.S f) S (EFor (map (fun xe => (fst xe, DList (snd xe))) ds) body) = VList [].
Proof. intros Hin He. unfold eval_spec in *. cbn [eval].
  assert (Ep : existsb (fun nd : N * dom => dom_poison (eval cart f S) (snd nd)) (map (fun xe => (fst xe, DList (snd xe))) ds) = false).
  { clear. induction ds as [|d ds IH]; [reflexivity|]. cbn [map existsb snd dom_poison orb]. exact IH. }
  rewrite Ep, doms_eval_dlist. set (doms := map _ ds).
  assert (Hc : cart doms = []).
  { apply cart_empty. exists (x, dom_values (eval cart f S e)). split; [|rewrite He; reflexivity].
    apply (in_map (fun xe => (fst xe, dom_values (eval cart f S (snd xe)))) ds (x, e) Hin). }
  destruct doms as [|d0 l]; [reflexivity|]. rewrite Hc. reflexivity. Qed.

Theorem spec_some_empty f S ds body x e :
  In (x, e) ds -> eval_spec f S e = VList [] -> eval_spec (Datatypes.S f) S (ESome ds body) = VBool false.
Proof. intros Hin He. unfold eval_spec in *. cbn [eval]. rewrite cart_empty; [reflexivity|].
  exists (x, dom_values (eval cart f S e)). split; [|rewrite He; reflexivity].
  apply (in_map (fun nd => (fst nd, dom_values (eval cart f S (snd nd)))) ds (x, e) Hin). Qed.

Theorem spec_every_empty f S ds body x e :
  In (x, e) ds -> eval_spec f S e = VList [] -> eval_spec (Datatypes.S f) S (EEvery ds body) = VBool true.
Proof. intros Hin He. unfold eval_spec in *. cbn [eval]. rewrite cart_empty; [reflexivity|].
  exists (x, dom_values (eval cart f S e)). split; [|rewrite He; reflexivity].
  apply (in_map (fun nd => (fst nd, dom_values (eval cart f S (snd nd)))) ds (x, e) Hin). Qed.

(* the code = the Spec wherever the two enumerations agree on the expression; the listed known finding
   (C01 empty-domain) is exactly the class of (fuel, stack, expression) on which they do not *)
Theorem impl_refines_spec f S e : eval cart_impl f S e = eval cart f S e -> run_impl f S e = (eval_spec f S e, S).
Proof. intros H. unfold run_impl, eval_spec. rewrite run_refines, H. reflexivity. Qed.

Theorem empty_domain_refuted : exists e, fst (run_impl 10 [[]] e) <> eval_spec 10 [[]] e.
Proof. exists (EFor [(101%N, DList (EList [])); (102%N, DList (EList [enum 1; enum 2]))] (EName 102%N)).
  vm_compute. discriminate. Qed.

(* C13: any sequence of evaluations over one scope stack returns, per evaluation, its solo value, and leaves the stack as it was *)
Theorem evaluations_repeatable cartf f S es :
  thread (run cartf f) S es = (map (fun e => fst (run cartf f S e)) es, S).
Proof. apply thread_pure. intros e _. rewrite run_refines. reflexivity. Qed.

(* ---------- some / every are the three-valued or / and folds of the FEEL semantics ---------- *)
Definition tri_some (acc : value) (rs : list value) : value :=
  if is_true acc || existsb is_true rs then VBool true
  else if is_boolean acc && forallb is_boolean rs then VBool false else VNull.

Definition tri (v : value) : Prop := match v with VBool _ | VNull => True | _ => False end.
Lemma or3_tri a b : tri (or3 a b).
Proof. destruct a as [|[|]| | | | | | | |], b as [|[|]| | | | | | | |]; exact I. Qed.
Lemma and3_tri a b : tri (and3 a b).
Proof. destruct a as [|[|]| | | | | | | |], b as [|[|]| | | | | | | |]; exact I. Qed.

Lemma fold_or3 rs : forall acc, tri acc -> fold_left or3 rs acc = tri_some acc rs.
Proof. induction rs as [|r rs IH]; intros acc Ht.
  - unfold tri_some. cbn [fold_left existsb forallb]. destruct acc as [|[|]| | | | | | | |]; try reflexivity; destruct Ht.
  - cbn [fold_left]. rewrite IH by apply or3_tri. unfold tri_some. cbn [existsb forallb].
    destruct acc as [|[|]| | | | | | | |]; try destruct Ht; destruct r as [|[|]| | | | | | | |]; cbn [or3 is_true is_boolean orb andb];
    try reflexivity; destruct (existsb is_true rs); try reflexivity; destruct (forallb is_boolean rs); reflexivity. Qed.

Theorem some_is_or_fold rs : existsb poison rs = false -> quant_some rs = fold_left or3 rs (VBool false).
Proof. intros H. unfold quant_some. rewrite H, fold_or3 by exact I. unfold tri_some. cbn [is_true is_boolean orb andb].
  destruct (existsb is_true rs); reflexivity. Qed.

Definition tri_every (acc : value) (rs : list value) : value :=
  if is_false acc || existsb is_false rs then VBool false
  else if is_boolean acc && forallb is_boolean rs then VBool true else VNull.

Lemma fold_and3 rs : forall acc, tri acc -> fold_left and3 rs acc = tri_every acc rs.
Proof. induction rs as [|r rs IH]; intros acc Ht.
  - unfold tri_every. cbn [fold_left existsb forallb]. destruct acc as [|[|]| | | | | | | |]; try reflexivity; destruct Ht.
  - cbn [fold_left]. rewrite IH by apply and3_tri. unfold tri_every. cbn [existsb forallb].
    destruct acc as [|[|]| | | | | | | |]; try destruct Ht; destruct r as [|[|]| | | | | | | |]; cbn [and3 is_false is_boolean orb andb];
    try reflexivity; destruct (existsb is_false rs); try reflexivity; destruct (forallb is_boolean rs); reflexivity. Qed.

Theorem every_is_and_fold rs : existsb poison rs = false -> quant_every rs = fold_left and3 rs (VBool true).
Proof. intros H. unfold quant_every. rewrite H, fold_and3 by exact I. unfold tri_every. cbn [is_false is_boolean orb andb].
  destruct (existsb is_false rs); reflexivity. Qed.

Theorem quantifiers_orig_refuted :
  quant_some_orig [VNull] <> fold_left or3 [VNull] (VBool false) /\ quant_every_orig [VNull] <> fold_left and3 [VNull] (VBool true).
Proof. vm_compute. split; discriminate. Qed.
