(* C06 — extended expression language (C06.ModelExt): induction principle for the nested trees, fuel monotonicity of the
   parser, and the parser's moves as rules on "parses for all sufficiently large fuel".  Owner: prover-C06. *)
From Coq Require Import List NArith Bool Arith Lia.
From DV Require Import C06.Model C06.ModelExt.
Import ListNotations.

(* ------------------------------------------------------------------ induction over trees with lists of subtrees *)

Section EInd.
  Variable P : etree -> Prop.
  Definition Pkv (q : N * etree) : Prop := P (snd q).
  Definition Pfd (q : N * etree * option etree) : Prop :=
    P (snd (fst q)) /\ match snd q with Some e => P e | None => True end.
  Hypothesis H_atom : forall a, P (EAtom a).
  Hypothesis H_bin : forall o l r, P l -> P r -> P (EBin o l r).
  Hypothesis H_neg : forall x, P x -> P (ENeg x).
  Hypothesis H_btw : forall x lo hi, P x -> P lo -> P hi -> P (EBtw x lo hi).
  Hypothesis H_inst : forall x ty, P x -> P (EInst x ty).
  Hypothesis H_path : forall x n, P x -> P (EPath x n).
  Hypothesis H_filt : forall x i, P x -> P i -> P (EFilt x i).
  Hypothesis H_call : forall g args, P g -> Forall P args -> P (ECall g args).
  Hypothesis H_calln : forall g a args, P g -> Pkv a -> Forall Pkv args -> P (ECallN g a args).
  Hypothesis H_if : forall c a b, P c -> P a -> P b -> P (EIf c a b).
  Hypothesis H_for : forall d ds b, Pfd d -> Forall Pfd ds -> P b -> P (EFor d ds b).
  Hypothesis H_quant : forall q d ds b, Pkv d -> Forall Pkv ds -> P b -> P (EQuant q d ds b).
  Hypothesis H_fun : forall ps b, P b -> P (EFun ps b).
  Hypothesis H_list : forall l, Forall P l -> P (EList l).
  Hypothesis H_ctx : forall l, Forall Pkv l -> P (ECtx l).
  Hypothesis H_range : forall o a b c, P (ERange o a b c).

  Fixpoint etree_ind' (t : etree) : P t :=
    let all := fix all (l : list etree) : Forall P l :=
      match l with [] => Forall_nil P | x :: r => Forall_cons x (etree_ind' x) (all r) end in
    let kv := fun (q : N * etree) => match q return Pkv q with (k, e) => etree_ind' e end in
    let allkv := fix allkv (l : list (N * etree)) : Forall Pkv l :=
      match l with [] => Forall_nil Pkv | x :: r => Forall_cons x (kv x) (allkv r) end in
    let fd := fun (q : N * etree * option etree) =>
      match q return Pfd q with
      | (v, e, Some e2) => conj (etree_ind' e) (etree_ind' e2)
      | (v, e, None) => conj (etree_ind' e) I
      end in
    let allfd := fix allfd (l : list (N * etree * option etree)) : Forall Pfd l :=
      match l with [] => Forall_nil Pfd | x :: r => Forall_cons x (fd x) (allfd r) end in
    match t with
    | EAtom a => H_atom a
    | EBin o l r => H_bin o l r (etree_ind' l) (etree_ind' r)
    | ENeg x => H_neg x (etree_ind' x)
    | EBtw x lo hi => H_btw x lo hi (etree_ind' x) (etree_ind' lo) (etree_ind' hi)
    | EInst x ty => H_inst x ty (etree_ind' x)
    | EPath x n => H_path x n (etree_ind' x)
    | EFilt x i => H_filt x i (etree_ind' x) (etree_ind' i)
    | ECall g args => H_call g args (etree_ind' g) (all args)
    | ECallN g a args => H_calln g a args (etree_ind' g) (kv a) (allkv args)
    | EIf c a b => H_if c a b (etree_ind' c) (etree_ind' a) (etree_ind' b)
    | EFor d ds b => H_for d ds b (fd d) (allfd ds) (etree_ind' b)
    | EQuant q d ds b => H_quant q d ds b (kv d) (allkv ds) (etree_ind' b)
    | EFun ps b => H_fun ps b (etree_ind' b)
    | EList l => H_list l (all l)
    | ECtx l => H_ctx l (allkv l)
    | ERange o a b c => H_range o a b c
    end.
End EInd.

(* ------------------------------------------------------------------ fuel is monotone *)

Definition pe_le (pe pe' : nat -> list etok -> epres) : Prop := forall m ts r, pe m ts = Some r -> pe' m ts = Some r.
Definition it_le {A : Type} (it it' : list etok -> option (A * list etok)) : Prop := forall ts r, it ts = Some r -> it' ts = Some r.

Lemma sepseq_mono : forall (A : Type) (it it' : list etok -> option (A * list etok)), it_le it it' ->
  forall g g' ts r, g <= g' -> sepseq it g ts = Some r -> sepseq it' g' ts = Some r.
Proof.
  intros A it it' Hle. induction g as [|g IH]; intros g' ts r Hg H; [discriminate H|].
  destruct g' as [|g']; [lia|]. assert (Hg' : g <= g') by lia. cbn [sepseq] in *.
  destruct (it ts) as [[x r0]|] eqn:E; [|discriminate H]. rewrite (Hle _ _ E).
  destruct r0 as [|t0 r0]; [exact H|]. destruct t0; try exact H.
  destruct (sepseq it g r0) as [[[y ys] r']|] eqn:E2; [|discriminate H].
  rewrite (IH _ _ _ Hg' E2). exact H.
Qed.

Ltac use_pe Hpe :=
  match goal with
  | H : context [match ?pe ?m ?ts with _ => _ end] |- _ =>
    let E := fresh "E" in destruct (pe m ts) as [[? ?]|] eqn:E; [rewrite (Hpe _ _ _ E)|discriminate H]
  end.

Lemma it_expr_le : forall pe pe', pe_le pe pe' -> it_le (it_expr pe) (it_expr pe').
Proof. intros pe pe' Hpe ts r H. unfold it_expr in *. apply Hpe. exact H. Qed.

Lemma it_kv_le : forall pe pe', pe_le pe pe' -> it_le (it_kv pe) (it_kv pe').
Proof.
  intros pe pe' Hpe ts r H. unfold it_kv in *. destruct ts as [|t ts']; [discriminate H|].
  destruct t; try discriminate H. use_pe Hpe. exact H.
Qed.

Lemma it_qdom_le : forall pe pe', pe_le pe pe' -> it_le (it_qdom pe) (it_qdom pe').
Proof.
  intros pe pe' Hpe ts r H. unfold it_qdom in *. destruct ts as [|t ts']; [discriminate H|].
  destruct t; try discriminate H. use_pe Hpe. exact H.
Qed.

Lemma it_fdom_le : forall pe pe', pe_le pe pe' -> it_le (it_fdom pe) (it_fdom pe').
Proof.
  intros pe pe' Hpe ts r H. unfold it_fdom in *. destruct ts as [|t ts']; [discriminate H|].
  destruct t; try discriminate H. use_pe Hpe.
  match type of H with match ?l with _ => _ end = _ => destruct l as [|t0 l0]; [exact H|] end. destruct t0; try exact H.
  use_pe Hpe. exact H.
Qed.

Lemma it_le_refl : forall (A : Type) (it : list etok -> option (A * list etok)), it_le it it.
Proof. intros A it ts r H. exact H. Qed.

Ltac use_seq Hle Hg :=
  match goal with
  | H : context [match sepseq ?it ?g ?ts with _ => _ end] |- _ =>
    let E := fresh "E" in destruct (sepseq it g ts) as [[[? ?] ?]|] eqn:E;
      [rewrite (sepseq_mono _ _ _ Hle _ _ _ _ Hg E)|discriminate H]
  end.

(* the token a result is matched against *)
Ltac split_tok H :=
  match type of H with
  | match ?l with _ => _ end = _ =>
    let t0 := fresh "t0" in let l1 := fresh "l1" in destruct l as [|t0 l1]; [try discriminate H|destruct t0; try discriminate H]
  end.

Lemma eloop_mono : forall pe pe', pe_le pe pe' -> forall g g' m na l ts r, g <= g' ->
  eloop pe g m na l ts = Some r -> eloop pe' g' m na l ts = Some r.
Proof.
  intros pe pe' Hpe. induction g as [|g IH]; intros g' m na l ts r Hg H; [discriminate H|].
  destruct g' as [|g']; [lia|]. assert (Hg' : g <= g') by lia.
  cbn [eloop] in *. destruct ts as [|t ts']; [exact H|].
  destruct t; try exact H.
  - destruct (m <=? lv o); [|exact H].
    destruct (is_non o && (lv o =? na)); [discriminate H|].
    use_pe Hpe. eapply IH; eauto.
  - destruct (m <=? lv_post); [|exact H].
    destruct ts' as [|t1 ts1].
    + use_seq (it_expr_le _ _ Hpe) Hg'. split_tok H. eapply IH; eauto.
    + destruct t1;
        try (use_seq (it_expr_le _ _ Hpe) Hg'; split_tok H; eapply IH; eauto; fail).
      * eapply IH; eauto.
      * use_seq (it_kv_le _ _ Hpe) Hg'. split_tok H. eapply IH; eauto.
  - destruct (m <=? lv_post); [|exact H]. use_pe Hpe. split_tok H. eapply IH; eauto.
  - destruct (m <=? lv_between); [|exact H]. use_pe Hpe. split_tok H. use_pe Hpe. eapply IH; eauto.
  - destruct (m <=? lv_inst); [|exact H]. eapply IH; eauto.
  - destruct (m <=? lv_post); [|exact H]. eapply IH; eauto.
Qed.

Lemma binder_tail_mono : forall (A : Type) pe pe' (it it' : list etok -> option (A * list etok)) is_sep mk,
  pe_le pe pe' -> it_le it it' -> forall g g' r res, g <= g' ->
  binder_tail pe g it is_sep mk r = Some res -> binder_tail pe' g' it' is_sep mk r = Some res.
Proof.
  intros A pe pe' it it' is_sep mk Hpe Hle g g' r res Hg H. unfold binder_tail in *.
  use_seq Hle Hg.
  match type of H with match ?l with _ => _ end = _ => destruct l as [|s r1]; [discriminate H|] end.
  destruct (is_sep s); [|discriminate H]. use_pe Hpe. exact H.
Qed.

Lemma eprefix_mono : forall pe pe', pe_le pe pe' -> forall g g' ts r, g <= g' ->
  eprefix pe g ts = Some r -> eprefix pe' g' ts = Some r.
Proof.
  intros pe pe' Hpe g g' ts r Hg H. unfold eprefix in *. destruct ts as [|t ts']; [exact H|].
  destruct t; try exact H.
  - destruct o; try exact H. use_pe Hpe. exact H.
  - destruct (range_head ts'); [exact H|]. use_pe Hpe. exact H.
  - destruct (range_head ts'); [exact H|].
    assert (Hit : forall res, match sepseq (it_expr pe) g ts' with Some (x, xs, XRb :: r') => Some (EList (x :: xs), r') | _ => None end = Some res ->
                          match sepseq (it_expr pe') g' ts' with Some (x, xs, XRb :: r') => Some (EList (x :: xs), r') | _ => None end = Some res).
    { intros res H0. use_seq (it_expr_le _ _ Hpe) Hg. exact H0. }
    destruct ts' as [|t1 ts1]; [apply Hit; exact H|].
    destruct t1; try (apply Hit; exact H). destruct (range_start ts1); [apply Hit; exact H|exact H].
  - destruct ts' as [|t1 ts1].
    + use_seq (it_kv_le _ _ Hpe) Hg. exact H.
    + destruct t1; try (use_seq (it_kv_le _ _ Hpe) Hg; exact H). exact H.
  - use_pe Hpe. split_tok H. use_pe Hpe. split_tok H. use_pe Hpe. exact H.
  - eapply binder_tail_mono; [exact Hpe|apply it_fdom_le; exact Hpe|exact Hg|exact H].
  - eapply binder_tail_mono; [exact Hpe|apply it_qdom_le; exact Hpe|exact Hg|exact H].
  - eapply binder_tail_mono; [exact Hpe|apply it_qdom_le; exact Hpe|exact Hg|exact H].
  - destruct ts' as [|t1 ts1]; [exact H|]. destruct t1; try exact H.
    destruct ts1 as [|t2 ts2].
    + use_seq (it_le_refl _ it_par) Hg. split_tok H. use_pe Hpe. exact H.
    + destruct t2; try (use_seq (it_le_refl _ it_par) Hg; split_tok H; use_pe Hpe; exact H).
      use_pe Hpe. exact H.
Qed.

Lemma eparse_expr_mono : forall f f' m ts r, f <= f' -> eparse_expr f m ts = Some r -> eparse_expr f' m ts = Some r.
Proof.
  induction f as [|f IH]; intros f' m ts r Hf H; [discriminate H|].
  destruct f' as [|f']; [lia|]. assert (Hf' : f <= f') by lia.
  assert (Hle : pe_le (eparse_expr f) (eparse_expr f')) by (intros m0 ts0 r0 H0; eapply IH; eauto).
  cbn [eparse_expr] in *.
  destruct (eprefix (eparse_expr f) f ts) as [[l rest]|] eqn:E; [|discriminate H].
  rewrite (eprefix_mono _ _ Hle _ _ _ _ Hf' E). eapply eloop_mono; eauto.
Qed.

Lemma pe_le_fuel : forall f f', f <= f' -> pe_le (eparse_expr f) (eparse_expr f').
Proof. intros f f' H m ts r E. eapply eparse_expr_mono; eauto. Qed.

(* ------------------------------------------------------------------ tokens that continue an operand *)

(* level at which a token continues an operand (None: it does not) *)
Definition elbp (t : etok) : option nat :=
  match t with
  | XOp o => Some (lv o)
  | XBetween => Some lv_between
  | XInst _ => Some lv_inst
  | XDot _ | XLb | XLp => Some lv_post
  | _ => None
  end.

Definition estops (k : nat) (rest : list etok) : Prop :=
  match rest with
  | t :: _ => match elbp t with Some p => p < k | None => True end
  | [] => True
  end.

(* nothing follows that continues an expression *)
Definition eclosing (rest : list etok) : Prop := match rest with t :: _ => elbp t = None | [] => True end.

Lemma estops_mono : forall k k' rest, k <= k' -> estops k rest -> estops k' rest.
Proof. intros k k' [|t r] Hk H; [exact I|]. cbn in *. destruct (elbp t); [lia|exact I]. Qed.

Lemma eclosing_stops : forall k rest, eclosing rest -> estops k rest.
Proof. intros k [|t r] H; [exact I|]. cbn in *. rewrite H. exact I. Qed.

Lemma estops0_closing : forall rest, estops 0 rest -> eclosing rest.
Proof. intros [|t r] H; [exact I|]. cbn in *. destruct (elbp t); [lia|reflexivity]. Qed.

Lemma eloop_stops : forall pe g m na l rest, estops m rest -> eloop pe (S g) m na l rest = Some (l, rest).
Proof.
  intros pe g m na l [|t r] H; [reflexivity|]. cbn [eloop]. cbn in H.
  destruct t; cbn in H; try reflexivity;
    match goal with |- context [?a <=? ?b] => destruct (Nat.leb_spec a b) as [Hle|Hlt]; [exfalso; lia|reflexivity] end.
Qed.

(* ------------------------------------------------------------------ results that hold for all sufficiently large fuel *)

Definition Parses (m : nat) (ts : list etok) (r : etree * list etok) : Prop := exists f, eparse_expr f m ts = Some r.
Definition Loops (m na : nat) (l : etree) (ts : list etok) (r : etree * list etok) : Prop :=
  exists f g, eloop (eparse_expr f) g m na l ts = Some r.
Definition Prefixes (ts : list etok) (r : etree * list etok) : Prop := exists f g, eprefix (eparse_expr f) g ts = Some r.

(* item parsers that use the expression parser monotonically *)
Definition it_mono {A : Type} (it : (nat -> list etok -> epres) -> list etok -> option (A * list etok)) : Prop :=
  forall pe pe', pe_le pe pe' -> it_le (it pe) (it pe').
Definition Items {A : Type} (it : (nat -> list etok -> epres) -> list etok -> option (A * list etok)) (ts : list etok) (r : A * list etok) : Prop :=
  exists f, it (eparse_expr f) ts = Some r.
Definition Seqs {A : Type} (it : (nat -> list etok -> epres) -> list etok -> option (A * list etok)) (ts : list etok) (r : A * list A * list etok) : Prop :=
  exists f g, sepseq (it (eparse_expr f)) g ts = Some r.

Definition it_par_c (pe : nat -> list etok -> epres) := it_par.

Lemma it_expr_mono : it_mono it_expr. Proof. exact it_expr_le. Qed.
Lemma it_kv_mono : it_mono it_kv. Proof. exact it_kv_le. Qed.
Lemma it_qdom_mono : it_mono it_qdom. Proof. exact it_qdom_le. Qed.
Lemma it_fdom_mono : it_mono it_fdom. Proof. exact it_fdom_le. Qed.
Lemma it_par_mono : it_mono it_par_c. Proof. intros pe pe' _. apply it_le_refl. Qed.

Lemma Loops_norm : forall m na l ts r, Loops m na l ts r -> exists F, forall F', F <= F' -> eloop (eparse_expr F') F' m na l ts = Some r.
Proof.
  intros m na l ts r [f [g H]]. exists (max f g). intros F' HF.
  eapply eloop_mono; [apply (pe_le_fuel f F'); lia| |exact H]. lia.
Qed.

Lemma Seqs_norm : forall (A : Type) it ts (r : A * list A * list etok), it_mono it -> Seqs it ts r ->
  exists F, forall F' G', F <= F' -> F <= G' -> sepseq (it (eparse_expr F')) G' ts = Some r.
Proof.
  intros A it ts r Hm [f [g H]]. exists (max f g). intros F' G' HF HG.
  eapply sepseq_mono; [apply Hm; apply (pe_le_fuel f F'); lia| |exact H]. lia.
Qed.

Lemma Prefixes_norm : forall ts r, Prefixes ts r -> exists F, forall F' G', F <= F' -> F <= G' -> eprefix (eparse_expr F') G' ts = Some r.
Proof.
  intros ts r [f [g H]]. exists (max f g). intros F' G' HF HG.
  eapply eprefix_mono; [apply (pe_le_fuel f F'); lia| |exact H]. lia.
Qed.

Lemma Parses_norm : forall m ts r, Parses m ts r -> exists F, forall F', F <= F' -> eparse_expr F' m ts = Some r.
Proof. intros m ts r [f H]. exists f. intros F' HF. eapply eparse_expr_mono; eauto. Qed.

Lemma Loops_stop : forall m na l rest, estops m rest -> Loops m na l rest (l, rest).
Proof. intros. exists 0, 1. apply eloop_stops. assumption. Qed.

Lemma Parses_of_prefix : forall m ts l rest r, Prefixes ts (l, rest) -> Loops m 0 l rest r -> Parses m ts r.
Proof.
  intros m ts l rest r HP HL. destruct (Prefixes_norm _ _ HP) as [F1 H1]. destruct (Loops_norm _ _ _ _ _ HL) as [F2 H2].
  exists (S (max F1 F2)). cbn [eparse_expr]. rewrite H1 by lia. apply H2. lia.
Qed.

(* ------------------------------------------------------------------ sequences *)

Definition not_comma (rest : list etok) : Prop := match rest with XComma :: _ => False | _ => True end.

Lemma Seqs_last : forall (A : Type) it ts (x : A) rest, Items it ts (x, rest) -> not_comma rest -> Seqs it ts (x, [], rest).
Proof.
  intros A it ts x rest [f H] Hn. exists f, 1. cbn [sepseq]. rewrite H.
  destruct rest as [|t r]; [reflexivity|]. destruct t; try reflexivity. destruct Hn.
Qed.

Lemma Seqs_cons : forall (A : Type) it ts (x : A) r1 y ys rest, it_mono it ->
  Items it ts (x, XComma :: r1) -> Seqs it r1 (y, ys, rest) -> Seqs it ts (x, y :: ys, rest).
Proof.
  intros A it ts x r1 y ys rest Hm [f H] HS. destruct (Seqs_norm _ _ _ _ Hm HS) as [F HF].
  exists (max f F), (S F). cbn [sepseq].
  rewrite (Hm _ _ (pe_le_fuel f (max f F) (Nat.le_max_l f F)) _ _ H).
  rewrite HF by lia. reflexivity.
Qed.

Lemma Items_expr : forall ts r, Parses 0 ts r -> Items it_expr ts r.
Proof. intros ts r [f H]. exists f. exact H. Qed.

Lemma Items_kv : forall k ts e rest, Parses 0 ts (e, rest) -> Items it_kv (XKey k :: ts) ((k, e), rest).
Proof. intros k ts e rest [f H]. exists f. cbn [it_kv]. rewrite H. reflexivity. Qed.

Lemma Items_qdom : forall v ts e rest, Parses 0 ts (e, rest) -> Items it_qdom (XBind v :: ts) ((v, e), rest).
Proof. intros v ts e rest [f H]. exists f. cbn [it_qdom]. rewrite H. reflexivity. Qed.

Definition not_ell (rest : list etok) : Prop := match rest with XEll :: _ => False | _ => True end.

Lemma Items_fdom1 : forall v ts e rest, Parses 0 ts (e, rest) -> not_ell rest -> Items it_fdom (XBind v :: ts) ((v, e, None), rest).
Proof.
  intros v ts e rest [f H] Hn. exists f. cbn [it_fdom]. rewrite H.
  destruct rest as [|t r]; [reflexivity|]. destruct t; try reflexivity. destruct Hn.
Qed.

Lemma Items_fdom2 : forall v ts e r1 e2 rest, Parses 0 ts (e, XEll :: r1) -> Parses 0 r1 (e2, rest) ->
  Items it_fdom (XBind v :: ts) ((v, e, Some e2), rest).
Proof.
  intros v ts e r1 e2 rest [f1 H1] [f2 H2]. exists (max f1 f2). cbn [it_fdom].
  rewrite (eparse_expr_mono f1 _ _ _ _ (Nat.le_max_l f1 f2) H1).
  rewrite (eparse_expr_mono f2 _ _ _ _ (Nat.le_max_r f1 f2) H2). reflexivity.
Qed.

Lemma Items_par : forall n ty rest, Items it_par_c (XPar n ty :: rest) ((n, ty), rest).
Proof. intros. exists 0. reflexivity. Qed.

(* ------------------------------------------------------------------ one turn of the loop, as rules on Loops *)

Lemma Loops_op : forall m na l o ts x rest r,
  m <= lv o -> (is_non o && (lv o =? na)) = false ->
  Parses (rc o) ts (x, rest) -> Loops m (if is_non o then lv o else 0) (EBin o l x) rest r ->
  Loops m na l (XOp o :: ts) r.
Proof.
  intros m na l o ts x rest r Hm Hna [f1 H1] [f2 [g2 H2]].
  exists (max f1 f2), (S g2). cbn [eloop].
  destruct (Nat.leb_spec m (lv o)) as [_|Hlt]; [|lia]. rewrite Hna.
  rewrite (eparse_expr_mono f1 (max f1 f2) _ _ _ (Nat.le_max_l f1 f2) H1).
  eapply eloop_mono; [apply (pe_le_fuel f2); lia| |exact H2]. lia.
Qed.

Lemma Loops_between : forall m na l ts lo r1 hi rest r,
  m <= lv_between -> Parses 0 ts (lo, XBand :: r1) -> Parses rc_between r1 (hi, rest) ->
  Loops m 0 (EBtw l lo hi) rest r -> Loops m na l (XBetween :: ts) r.
Proof.
  intros m na l ts lo r1 hi rest r Hm [f1 H1] [f2 H2] [f3 [g3 H3]].
  exists (max f1 (max f2 f3)), (S g3). cbn [eloop].
  destruct (Nat.leb_spec m lv_between) as [_|Hlt]; [|lia].
  assert (L1 : f1 <= max f1 (max f2 f3)) by lia. assert (L2 : f2 <= max f1 (max f2 f3)) by lia.
  rewrite (eparse_expr_mono f1 _ _ _ _ L1 H1).
  rewrite (eparse_expr_mono f2 _ _ _ _ L2 H2).
  eapply eloop_mono; [apply (pe_le_fuel f3); lia| |exact H3]. lia.
Qed.

Lemma Loops_inst : forall m na l ty rest r, m <= lv_inst -> Loops m 0 (EInst l ty) rest r -> Loops m na l (XInst ty :: rest) r.
Proof.
  intros m na l ty rest r Hm [f [g H]]. exists f, (S g). cbn [eloop].
  destruct (Nat.leb_spec m lv_inst) as [_|Hlt]; [exact H|lia].
Qed.

Lemma Loops_dot : forall m na l n rest r, m <= lv_post -> Loops m 0 (EPath l n) rest r -> Loops m na l (XDot n :: rest) r.
Proof.
  intros m na l n rest r Hm [f [g H]]. exists f, (S g). cbn [eloop].
  destruct (Nat.leb_spec m lv_post) as [_|Hlt]; [exact H|lia].
Qed.

Lemma Loops_filter : forall m na l ts i rest r, m <= lv_post -> Parses 0 ts (i, XRb :: rest) ->
  Loops m 0 (EFilt l i) rest r -> Loops m na l (XLb :: ts) r.
Proof.
  intros m na l ts i rest r Hm [f1 H1] [f2 [g2 H2]]. exists (max f1 f2), (S g2). cbn [eloop].
  destruct (Nat.leb_spec m lv_post) as [_|Hlt]; [|lia].
  rewrite (eparse_expr_mono f1 (max f1 f2) _ _ _ (Nat.le_max_l f1 f2) H1).
  eapply eloop_mono; [apply (pe_le_fuel f2); lia| |exact H2]. lia.
Qed.

Lemma Loops_call0 : forall m na l rest r, m <= lv_post -> Loops m 0 (ECall l []) rest r -> Loops m na l (XLp :: XRp :: rest) r.
Proof.
  intros m na l rest r Hm [f [g H]]. exists f, (S g). cbn [eloop].
  destruct (Nat.leb_spec m lv_post) as [_|Hlt]; [exact H|lia].
Qed.

(* the first token of an argument list that is neither empty nor named *)
Definition arg_start (ts : list etok) : Prop := match ts with XRp :: _ | XKey _ :: _ => False | _ => True end.

Lemma Loops_call : forall m na l ts a args rest r, m <= lv_post -> arg_start ts ->
  Seqs it_expr ts (a, args, XRp :: rest) -> Loops m 0 (ECall l (a :: args)) rest r -> Loops m na l (XLp :: ts) r.
Proof.
  intros m na l ts a args rest r Hm Hs HS [f2 [g2 H2]].
  destruct (Seqs_norm _ _ _ _ it_expr_mono HS) as [F HF].
  exists (max F f2), (S (max F g2)). cbn [eloop].
  destruct (Nat.leb_spec m lv_post) as [_|Hlt]; [|lia].
  assert (E : sepseq (it_expr (eparse_expr (max F f2))) (max F g2) ts = Some (a, args, XRp :: rest)) by (apply HF; lia).
  assert (L : eloop (eparse_expr (max F f2)) (max F g2) m 0 (ECall l (a :: args)) rest = Some r)
    by (eapply eloop_mono; [apply (pe_le_fuel f2); lia| |exact H2]; lia).
  destruct ts as [|t ts']; [rewrite E; exact L|].
  destruct t; try (rewrite E; exact L); destruct Hs.
Qed.

Lemma Loops_calln : forall m na l k ts a args rest r, m <= lv_post ->
  Seqs it_kv (XKey k :: ts) (a, args, XRp :: rest) -> Loops m 0 (ECallN l a args) rest r -> Loops m na l (XLp :: XKey k :: ts) r.
Proof.
  intros m na l k ts a args rest r Hm HS [f2 [g2 H2]].
  destruct (Seqs_norm _ _ _ _ it_kv_mono HS) as [F HF].
  exists (max F f2), (S (max F g2)). cbn [eloop].
  destruct (Nat.leb_spec m lv_post) as [_|Hlt]; [|lia].
  rewrite HF by lia.
  eapply eloop_mono; [apply (pe_le_fuel f2); lia| |exact H2]. lia.
Qed.

(* ------------------------------------------------------------------ the operand forms *)

Lemma prefix_atom : forall a rest, Prefixes (XAtom a :: rest) (EAtom a, rest).
Proof. intros. exists 0, 0. reflexivity. Qed.

Lemma prefix_neg : forall ts x rest, Parses c_neg ts (x, rest) -> Prefixes (XOp Sub :: ts) (ENeg x, rest).
Proof. intros ts x rest [f H]. exists f, 0. cbn [eprefix]. rewrite H. reflexivity. Qed.

Lemma prefix_paren : forall ts x rest, range_head ts = None -> Parses 0 ts (x, XRp :: rest) -> Prefixes (XLp :: ts) (x, rest).
Proof. intros ts x rest Hr [f H]. exists f, 0. cbn [eprefix]. rewrite Hr, H. reflexivity. Qed.

Lemma range_head_range : forall a b c rest, range_head (XAtom a :: XEll :: XAtom b :: rclose_tok c :: rest) = Some (a, b, c, rest).
Proof. intros. destruct c; reflexivity. Qed.

Lemma prefix_range : forall o a b c rest, Prefixes (ropen_tok o :: XAtom a :: XEll :: XAtom b :: rclose_tok c :: rest) (ERange o a b c, rest).
Proof.
  intros. exists 0, 0. destruct o; cbn [eprefix ropen_tok]; rewrite range_head_range; reflexivity.
Qed.

Lemma prefix_list0 : forall rest, range_start rest = false -> Prefixes (XLb :: XRb :: rest) (EList [], rest).
Proof.
  intros rest Hr. exists 0, 0. cbn [eprefix].
  assert (E : range_head (XRb :: rest) = None) by reflexivity. rewrite E, Hr. reflexivity.
Qed.

(* the first token after the bracket of a list that is not empty: not a closing bracket, unless it opens a range *)
Definition item_start (ts : list etok) : Prop := match ts with XRb :: r => range_start r = true | _ => True end.

Lemma prefix_list : forall ts x xs rest, range_head ts = None -> item_start ts ->
  Seqs it_expr ts (x, xs, XRb :: rest) -> Prefixes (XLb :: ts) (EList (x :: xs), rest).
Proof.
  intros ts x xs rest Hr Hs [f [g H]]. exists f, g. cbn [eprefix]. rewrite Hr.
  destruct ts as [|t ts']; [rewrite H; reflexivity|].
  destruct t; try (rewrite H; reflexivity). cbn in Hs. rewrite Hs, H. reflexivity.
Qed.

Lemma prefix_ctx0 : forall rest, Prefixes (XLc :: XRc :: rest) (ECtx [], rest).
Proof. intros. exists 0, 0. reflexivity. Qed.

Lemma prefix_ctx : forall k ts x xs rest, Seqs it_kv (XKey k :: ts) (x, xs, XRc :: rest) -> Prefixes (XLc :: XKey k :: ts) (ECtx (x :: xs), rest).
Proof. intros k ts x xs rest [f [g H]]. exists f, g. cbn [eprefix]. rewrite H. reflexivity. Qed.

Lemma prefix_if : forall ts c r1 a r2 b rest, Parses 0 ts (c, XThen :: r1) -> Parses 0 r1 (a, XElse :: r2) -> Parses 0 r2 (b, rest) ->
  Prefixes (XIf :: ts) (EIf c a b, rest).
Proof.
  intros ts c r1 a r2 b rest [f1 H1] [f2 H2] [f3 H3]. exists (max f1 (max f2 f3)), 0. cbn [eprefix].
  rewrite (eparse_expr_mono f1 (max f1 (max f2 f3)) _ _ _ ltac:(lia) H1).
  rewrite (eparse_expr_mono f2 (max f1 (max f2 f3)) _ _ _ ltac:(lia) H2).
  rewrite (eparse_expr_mono f3 (max f1 (max f2 f3)) _ _ _ ltac:(lia) H3). reflexivity.
Qed.

Lemma binder_tail_rule : forall (A : Type) it is_sep mk ts (d : A) ds s r1 b rest, it_mono it -> is_sep s = true ->
  Seqs it ts (d, ds, s :: r1) -> Parses 0 r1 (b, rest) ->
  exists f g, binder_tail (eparse_expr f) g (it (eparse_expr f)) is_sep mk ts = Some (mk d ds b, rest).
Proof.
  intros A it is_sep mk ts d ds s r1 b rest Hm Hsep HS [f2 H2].
  destruct (Seqs_norm _ _ _ _ Hm HS) as [F HF].
  exists (max F f2), F. unfold binder_tail. rewrite HF by lia. rewrite Hsep.
  rewrite (eparse_expr_mono f2 (max F f2) _ _ _ ltac:(lia) H2). reflexivity.
Qed.

Lemma prefix_for : forall ts d ds r1 b rest, Seqs it_fdom ts (d, ds, XReturn :: r1) -> Parses 0 r1 (b, rest) ->
  Prefixes (XFor :: ts) (EFor d ds b, rest).
Proof.
  intros ts d ds r1 b rest HS HP.
  destruct (binder_tail_rule _ it_fdom is_return EFor ts d ds XReturn r1 b rest it_fdom_mono eq_refl HS HP) as [f [g H]].
  exists f, g. exact H.
Qed.

Lemma prefix_quant : forall q ts d ds r1 b rest, Seqs it_qdom ts (d, ds, XSatisfies :: r1) -> Parses 0 r1 (b, rest) ->
  Prefixes (quant_tok q :: ts) (EQuant q d ds b, rest).
Proof.
  intros q ts d ds r1 b rest HS HP.
  destruct (binder_tail_rule _ it_qdom is_satisfies (EQuant q) ts d ds XSatisfies r1 b rest it_qdom_mono eq_refl HS HP) as [f [g H]].
  exists f, g. destruct q; exact H.
Qed.

Lemma prefix_fun0 : forall ts b rest, Parses 0 ts (b, rest) -> Prefixes (XFun :: XLp :: XRp :: ts) (EFun [] b, rest).
Proof. intros ts b rest [f H]. exists f, 0. cbn [eprefix]. rewrite H. reflexivity. Qed.

Lemma prefix_fun : forall n ty ts p ps r1 b rest, Seqs it_par_c (XPar n ty :: ts) (p, ps, XRp :: r1) -> Parses 0 r1 (b, rest) ->
  Prefixes (XFun :: XLp :: XPar n ty :: ts) (EFun (p :: ps) b, rest).
Proof.
  intros n ty ts p ps r1 b rest [f1 [g H1]] [f2 H2]. exists f2, g. cbn [eprefix].
  unfold it_par_c in H1. rewrite H1, H2. reflexivity.
Qed.
