(* C07 — ImplModel of reading a plain decimal numeral back: `FeelNumber::from_str` = decQuadFromString
   (decimal128 context: 34 digits, round-half-even) followed by the `dec_is_finite` test, restricted to the texts
   `-?digits(.digits)?` that Display produces.
     decQuadFromString takes the sign, collects ALL digits of the numeral as the coefficient (leading zeros have no
     weight), takes minus the number of fraction digits as the exponent, and hands that exact datum to the common
     finishing step, which rounds it once to the format (Base/DecRound.v round34: at most 34 digits, half-even,
     exponent raised when digits are dropped, subnormal grid, clamping; overflow gives Infinity).
     from_str answers Err for a non-finite result: None here.
   None also stands for "not a plain numeral" (outside the fragment modelled here).
   No proofs in this file (see C07/ReadBack.v). *)
From Coq Require Import ZArith NArith Bool List Ascii.
From DV Require Import Base.Dec Base.DecRound C07.Model.
Import ListNotations.
Open Scope char_scope.
Open Scope Z_scope.

Definition from_plain (s : str) : option dec :=
  if is_plain s then
    let (sg, u) := strip_sign s in
    match split_char "." u with
    | (ip, None) => round34 sg (digits_val ip) 0
    | (ip, Some fp) => round34 sg (digits_val (ip ++ fp)) (- len fp)
    end
  else None.

(* Display followed by from_str *)
Definition read_back (d : dec) : option dec :=
  match print d with Some s => from_plain s | None => None end.

(* the datum that reading the printed text of a decimal128 datum d gives (proved in ReadBack.v):
   d itself when the exponent is not positive; otherwise the text is the integer coef * 10^expo written out —
   up to 34 digits are taken as they are (exponent 0), of a longer numeral the last (digits - 34) digits, all of
   them zeros, are dropped and counted in the exponent *)
Definition reread (d : dec) : dec :=
  if 0 <? expo d then
    if (coef d =? 0)%N then mkdec (neg d) 0 0
    else let k := Z.max 0 (Z.of_N (ndigits (coef d)) + expo d - Z.of_N PREC) in
         mkdec (neg d) (coef d * 10 ^ Z.to_N (expo d - k))%N k
  else d.

(* number of digits of the printed text counted from its first non-zero digit (the digits a reader has to keep);
   zero prints as "0" (positive exponent) or "0.00..0": one digit counts *)
Definition printed_digits (d : dec) : Z :=
  if (coef d =? 0)%N then 1 else Z.of_N (ndigits (coef d)) + Z.max 0 (expo d).

(* for the correspondence check: the scientific text of the datum read back *)
Definition read_back_sci (d : dec) : option String.string := show (option_map to_sci (read_back d)).
Definition from_plain_sci (s : String.string) : option String.string := show (option_map to_sci (from_plain (rd s))).
