"""C13 — evaluation is pure: the caller's scope is untouched and results are repeatable.
Model level (run_models): generated DMN models of props/c13gen.py (XML by the builders of props/c04.py) in which invocations of services /
knowledge models are surrounded by reads of the caller's names; each invocable twice per evaluator, values against a Python oracle.
Proof: coq/Props/C13.v (the scope-stack machine of coq/C01/Impl.v restores the stack for every expression and every stack; any sequence
of evaluations returns the solo values).  Correspondence: histories of evaluations of prepared evaluators over persistent multi-context
scopes (scope text before/after parse/after evaluation, value = first value = model value), and shuffled repeated invocations of a model."""
import json

from vlib import core
from vlib.coqterm import App
from props import c01gen as G
from props import c04 as M4          # XML builders of generated requirement graphs (xml_of, nm, ctx_text, norm): imported, not copied
from props import c13gen as MG       # the typed generator of models with colliding names and its Python evaluator
from props.c01 import mval, ival, Poison, numc

HEADER = ('From Coq Require Import List ZArith NArith Bool.\nFrom DV Require Import C01.Syntax C01.Spec C01.Impl.\nImport ListNotations.\nOpen Scope Z_scope.\n'
          '(* contexts are given bottom first; the machine stack has the top first *)\n'
          'Definition mkstack (cs : list (list (N * expr))) : option stack :=\n'
          '  fold_left (fun acc cx => match acc, run_impl 80 [[]] (ECtx cx) with Some st, (VCtx c, _) => Some (c :: st) | _, _ => None end) cs (Some []).\n'
          'Definition pcase (cs : list (list (N * expr))) (e : expr) :=\n'
          '  match mkstack cs with Some st => let r := run_impl 80 st e in Some (fst r, snd r, st) | None => None end.\n')

PT_HEADER = 'From Coq Require Import List ZArith NArith Bool.\nFrom DV Require Import C01.Syntax C13.ParseScope.\nImport ListNotations.\n'
# scope-relevant parser actions -> model actions
ACT = {'context_begin': 'P', 'context_entry': 'A', 'context_end': 'O', 'for_begin': 'PA', 'iteration_context_variable_name': 'A', 'for': 'O',
       'some_begin': 'P', 'every_begin': 'P', 'quantified_expression_variable_name': 'A', 'some': 'O', 'every': 'O',
       'function_formal_parameters_begin': 'P', 'function_formal_parameter_with_type': 'A', 'function_formal_parameter_without_type': 'A',
       'function_body': 'O', 'function_body_external': 'O'}


def parse_traces(ctx, reqs):
    """runs `dv ptrace` and returns, per request, (ok, shape string of the scope actions the real parser performed, scope before, scope after)"""
    import re, subprocess, os
    exe = os.path.join(core.TARGET, 'debug', 'dv')
    p = subprocess.run([exe, 'ptrace'], input='\n'.join(json.dumps(r) for r in reqs) + '\n', stdout=subprocess.PIPE, stderr=subprocess.PIPE, text=True, errors='replace', timeout=900)
    out = []
    for block in p.stdout.split('@@BEGIN')[1:]:
        body, _, tail = block.partition('@@END')
        names = re.findall(r'action: \[(?:\x1b\[[0-9;]*m)?([a-z_]+)', body)
        shape = ''.join(ACT.get(n, '') for n in names)
        try:
            j = json.loads(tail.strip().split('\n')[0])
        except Exception:
            j = {}
        out.append((j.get('ok'), shape, j.get('s0'), j.get('s1')))
    return out


def model_shape(t):
    return ''.join({'PPush': 'P', 'PPop': 'O', 'PAdd': 'A'}[a.name] for a in t)


XML = '''<?xml version="1.0" encoding="UTF-8"?><definitions namespace="ns13" name="m13" id="m13" xmlns="https://www.omg.org/spec/DMN/20191111/MODEL/">
<inputData name="va" id="i1"><variable name="va" typeRef="number"/></inputData>
<inputData name="vb" id="i2"><variable name="vb" typeRef="number"/></inputData>
<decision name="d1" id="d1"><variable name="d1"/><informationRequirement><requiredInput href="#i1"/></informationRequirement>
 <literalExpression><text>va + 1</text></literalExpression></decision>
<decision name="d2" id="d2"><variable name="d2"/><informationRequirement><requiredInput href="#i1"/></informationRequirement><informationRequirement><requiredInput href="#i2"/></informationRequirement>
 <context><contextEntry><variable name="vc"/><literalExpression><text>va * 2</text></literalExpression></contextEntry>
 <contextEntry><variable name="vd"/><literalExpression><text>for x in [1, 2, 3] return x * vb + vc</text></literalExpression></contextEntry>
 <contextEntry><variable name="ve"/><literalExpression><text>[{k: 1}, {k: 5}][k > va]</text></literalExpression></contextEntry></context></decision>
<decision name="d3" id="d3"><variable name="d3"/><informationRequirement><requiredDecision href="#d1"/></informationRequirement><informationRequirement><requiredDecision href="#d2"/></informationRequirement>
 <literalExpression><text>d1 + (d2.vc) + count((d2.vd))</text></literalExpression></decision>
<businessKnowledgeModel name="f1" id="b1"><variable name="f1"/><encapsulatedLogic><formalParameter name="p" typeRef="number"/><literalExpression><text>p * p</text></literalExpression></encapsulatedLogic></businessKnowledgeModel>
<decision name="d4" id="d4"><variable name="d4"/><informationRequirement><requiredInput href="#i2"/></informationRequirement><knowledgeRequirement><requiredKnowledge href="#b1"/></knowledgeRequirement>
 <literalExpression><text>f1(vb) + f1(2)</text></literalExpression></decision>
</definitions>'''


def model_expected(inv, va, vb):
    if inv == 'd1':
        return numc(va + 1)
    if inv == 'd2':
        ve = [k for k in (1, 5) if k > va]
        ve_v = {'c': [['k', numc(ve[0])]]} if len(ve) == 1 else [{'c': [['k', numc(k)]]} for k in ve]
        return {'c': sorted([['vc', numc(va * 2)], ['vd', [numc(x * vb + va * 2) for x in (1, 2, 3)]], ['ve', ve_v]])}
    if inv == 'd3':
        return numc(va + 1 + va * 2 + 3)
    return numc(vb * vb + 4)


def split_contexts(rng, entries):
    """distribute the entries of an input context over a stack of 1..3 contexts (bottom first), with some shadowing"""
    n = rng.choice([1, 1, 2, 3])
    cs = [[] for _ in range(n)]
    for v, e in entries:
        cs[rng.randrange(n)].append((v, e))
        if n > 1 and rng.random() < 0.2:
            cs[0].append((v, ('num', 99)))       # a shadowed binding lower in the stack
    cs = [tuple(sorted(dict(c).items())) for c in cs]
    return cs


def model_requests(ctx):
    """generated models; per model every invocable with 2 input contexts, every (invocable, input) TWICE, the two rounds in different orders"""
    rng = ctx.rng
    want_models = ctx.pick(1500, 20000)
    witnesses = MG.witness_models()
    reqs, meta = [], []
    dropped = 0
    while len(reqs) < want_models + len(witnesses) and dropped < 20 * want_models:
        if len(reqs) < len(witnesses):
            Gr, fn = witnesses[len(reqs)], {}
        else:
            g = MG.gen_model(rng, rng.randint(8, ctx.pick(13, 16)))
            Gr, fn = g.G, g.fn
        B = M4.by_id(Gr)
        mdl = MG.Model(Gr)
        pairs = []
        for n in Gr:
            if n['kind'] == 'input':
                continue
            for d in MG.input_sets(rng, B, fn, n):
                pairs.append((n['id'], d))
        first, second = list(pairs), list(pairs)
        rng.shuffle(first)
        rng.shuffle(second)
        if rng.random() < 0.3:
            second = list(reversed(first))
        seq = first + second
        exp = {}
        try:
            for i, d in pairs:
                key = (i, M4.ctx_text(d))
                if key not in exp:
                    exp[key] = MG.canon(mdl.invoke(i, d))
        except (MG.TooBig, RecursionError):
            dropped += 1          # functions composed so deeply that the values explode: not used (the evaluator under test would build them too)
            continue
        reqs.append({'xml': M4.xml_of(Gr, rng), 'calls': [[M4.nm(i), M4.ctx_text(d)] for i, d in seq]})
        meta.append((Gr, [exp[(i, M4.ctx_text(d))] for i, d in seq]))
    ctx.cov['models_dropped_because_values_explode'] = dropped
    return reqs, meta


def shrink_case(ctx, Gr, rq, bad):
    """a smaller failing input: the failing call alone, over the nodes of its requirement closure only - kept only when the evaluator
    answers exactly as it did in the sequence (a leak between evaluations would need the calls before it)"""
    import random
    call = rq['calls'][bad]
    B = M4.by_id(Gr)
    keep = M4.closure_names(B, M4.num_of(call[0]))
    small = [n for n in Gr if n['id'] in keep]
    cands = [(M4.xml_of(small, random.Random(0)), small), (rq['xml'], Gr)]
    rs = ctx.run_impl('model', [{'xml': x, 'calls': [call]} for x, _ in cands])
    return [(x, g, (r.get('results') or [r])[0] if isinstance(r, dict) else r) for (x, g), r in zip(cands, rs)]


def run_models(ctx):
    reqs, meta = model_requests(ctx)
    impl = ctx.run_impl('model', reqs, shards=16)
    feats, shown = {}, 0
    for rq, (Gr, exp), ri in zip(reqs, meta, impl):
        ctx.evaluations += 1
        desc = M4.describe(Gr)
        if not isinstance(ri, dict) or ri.get('build') != 'ok' or len(ri.get('results', [])) != len(rq['calls']):
            ctx.violation('a generated model did not load or the evaluator died: %s' % json.dumps(ri)[:300], {'xml': rq['xml'], 'calls': rq['calls'], 'graph': desc}, impl=ri)
            continue
        fs = MG.features(Gr)
        for f in fs:
            feats[f] = feats.get(f, 0) + 1
        if any('followed by a read' in f for f in fs):
            ctx.nontrivial.add(rq['xml'])
        seen = {}
        for ci, (call, r, want) in enumerate(zip(rq['calls'], ri['results'], exp)):
            got = M4.norm(r['v']) if 'v' in r else ('?', json.dumps(r))
            ctx.corr_checked += 1
            key = tuple(call)
            what = None
            node = M4.by_id(Gr)[M4.num_of(call[0])]
            logic = M4.box(node.get('logic') or node.get('body')) if node['kind'] != 'svc' else M4.coq_node(node)
            case = {'xml': rq['xml'], 'calls': rq['calls'], 'failing_call': call, 'failing_index': ci, 'logic': logic, 'node': M4.coq_node(node), 'graph': desc}
            if got != want:
                # the same call alone, on the nodes it needs only: the smallest input that is answered the same way is the one recorded
                for x, g, r1 in shrink_case(ctx, Gr, rq, ci):
                    if isinstance(r1, dict) and r1 == r:
                        case = {'xml': x, 'calls': [call], 'failing_call': call, 'failing_index': 0, 'logic': logic, 'node': M4.coq_node(node), 'graph': M4.describe(g)}
                        break
                what = ('%s %s invoked with %s returns %s; its logic evaluated over the names of its own scope gives %s (call %d of %d of one evaluator; recorded input: %d call(s), %d nodes). '
                        'logic: %s' % (node['kind'], call[0], call[1], json.dumps(r.get('v', r))[:200], repr(want)[:200], ci + 1, len(rq['calls']), len(case['calls']), len(case['graph']), logic[:400]))
            elif key in seen and seen[key] != got:
                what = '%s invoked with %s returned %s first and %s later from the same evaluator' % (call[0], call[1], repr(seen[key])[:200], repr(got)[:200])
            seen.setdefault(key, got)
            if what:
                ctx.violation(what, case, impl=r, model=repr(want))
                break
        if shown < 2:
            shown += 1
            ctx.sample({'graph': desc, 'calls': rq['calls'][:4], 'results': ri['results'][:4]})
    ctx.cov['models'] = len(reqs)
    ctx.cov['model_features'] = dict(sorted(feats.items()))
    return feats


CNT_HEADER = ('From Coq Require Import List ZArith NArith Bool.\nFrom DV Require Import C01.Syntax C01.Spec C01.Impl C13.ParseScope C13.ParseDiscipline C13.Counting.\n'
              'Import ListNotations.\nOpen Scope Z_scope.\n'
              'Definition mkstack (cs : list (list (N * expr))) : option stack :=\n'
              '  fold_left (fun acc cx => match acc, run_impl 80 [[]] (ECtx cx) with Some st, (VCtx c, _) => Some (c :: st) | _, _ => None end) cs (Some []).\n'
              'Definition ccase (cs : list (list (N * expr))) (e : expr) :=\n'
              '  (count_push (pacts 80 e), count_pop (pacts 80 e),\n'
              '   match mkstack cs with Some st => let r := run_counting code cart_impl 80 (cstart st) e in Some (fst r, pushes (snd r), pops (snd r)) | None => None end).\n')

# one expression per error path named in C13_every_path_balanced (and the ordinary path next to it), over the scope {va: 5, vb: [1, 2], vc: {vd: 1}}
F2 = ('fun', (101, 102), ('name', 101))
ERROR_PATHS = [
    ('invocation: too few positional arguments', ('call', F2, (('num', 1),))),
    ('invocation: enough positional arguments', ('call', F2, (('num', 1), ('num', 2)))),
    ('invocation: surplus positional arguments', ('call', F2, (('num', 1), ('num', 2), ('num', 3)))),
    ('invocation: a named argument is missing', ('calln', F2, ((102, ('num', 1)),))),
    ('invocation: all named arguments', ('calln', F2, ((102, ('num', 1)), (101, ('num', 2))))),
    ('invocation of a number', ('call', ('name', 101), (('num', 1),))),
    ('invocation of null', ('call', ('name', 108), (('num', 1),))),
    ('invocation inside an invocation with too few arguments', ('call', F2, (('call', F2, (('num', 1),)), ('num', 2)))),
    ('every: non-boolean body value', ('every', ((104, ('list', (('num', 1), ('bool', True)))),), ('name', 104))),
    ('every: null body value', ('every', ((104, ('list', (('null',), ('bool', False)))),), ('name', 104))),
    ('some: non-boolean body value', ('some', ((104, ('list', (('num', 1), ('bool', True)))),), ('name', 104))),
    ('every: null domain', ('every', ((104, ('null',)),), ('bool', True))),
    ('some: empty domain next to a non-empty one', ('some', ((104, ('list', ())), (105, ('list', (('num', 1),)))), ('bool', True))),
    ('for: null domain', ('for', ((104, ('dlist', ('null',))),), ('name', 104))),
    ('for: range with a null bound', ('for', ((104, ('drange', ('num', 1), ('null',))),), ('name', 104))),
    ('for: range with a non-integer bound', ('for', ((104, ('drange', ('num', 1), ('dec', 25, -1))),), ('name', 104))),
    ('for: empty list domain', ('for', ((104, ('dlist', ('list', ()))),), ('name', 104))),
    ('for: body with a failing invocation', ('for', ((104, ('dlist', ('name', 102))),), ('call', F2, (('name', 104),)))),
    ('filter: element context with an entry named item', ('filter', ('list', (('ctx', ((50, ('num', 1)),)),)), ('bin', 'Eq', ('name', 50), ('num', 1)))),
    ('filter: element context without it', ('filter', ('list', (('ctx', ((104, ('num', 1)),)),)), ('bin', 'Eq', ('name', 104), ('num', 1)))),
    ('filter: null operand', ('filter', ('null',), ('num', 1))),
    ('filter: scalar operand', ('filter', ('name', 101), ('bool', True))),
    ('filter: null predicate', ('filter', ('name', 102), ('null',))),
    ('filter: predicate that is a failing invocation', ('filter', ('name', 102), ('call', F2, (('name', 50),)))),
    ('if: non-boolean condition', ('if', ('num', 1), ('ctx', ((104, ('num', 2)),)), ('ctx', ((104, ('num', 3)),)))),
    ('if: null condition', ('if', ('null',), ('ctx', ((104, ('num', 2)),)), ('ctx', ((104, ('num', 3)),)))),
    ('context: an entry that is a failing invocation, read by the next entry', ('ctx', ((104, ('call', F2, (('num', 1),))), (105, ('name', 104))))),
    ('path into a context literal', ('path', ('ctx', ((104, ('num', 1)),)), 104)),
    ('quantifier with two variables', ('some', ((104, ('list', (('num', 1),))), (105, ('list', (('num', 2),)))), ('bin', 'Eq', ('name', 104), ('name', 105)))),
]
ERROR_SCOPE = (((101, ('num', 5)), (102, ('list', (('num', 1), ('num', 2)))), (103, ('ctx', ((104, ('num', 1)),)))),)


def count_phase(ctx, hist):
    """The number of Scope::push and Scope::pop calls the RUNNING code makes while it parses and while it evaluates an expression, against
    the counting models (count_push / count_pop of pacts; pushes / pops of run_counting): `dv pure` under gdb, breakpoints on
    dmntk_feel::scope::Scope::push / pop counted per phase (phase borders: parse_expression, evaluators::prepare).  No hook: symbols of the
    unoptimised harness build.  Cases: every error path of C13_every_path_balanced (ERROR_PATHS) and generated expressions of the histories."""
    import os, re, shutil, subprocess, tempfile
    exe = os.path.join(core.TARGET, 'debug', 'dv')
    if not shutil.which('gdb') or not shutil.which('nm'):
        ctx.notes.append('push / pop counts of the running code not observed: gdb / nm not installed')
        ctx.cov['push_pop_counts_observed'] = {'observed': False}
        return
    names = [l.split()[-1] for l in subprocess.run(['nm', exe], stdout=subprocess.PIPE, text=True).stdout.split('\n') if l.strip()]

    def sym(rx):
        return [n for n in names if re.search(rx, n)]
    s_push, s_pop = sym(r'dmntk_feel5scope5Scope4push17h'), sym(r'dmntk_feel5scope5Scope3pop17h')
    s_parse, s_prep = sym(r'dmntk_feel_parser6parser16parse_expression17h'), sym(r'dmntk_feel_evaluator10evaluators7prepare17h')
    if not (s_push and s_pop and s_parse and s_prep):
        ctx.notes.append('push / pop counts of the running code not observed: symbols missing in the harness binary')
        ctx.cov['push_pop_counts_observed'] = {'observed': False}
        return
    cases = [(name, ERROR_SCOPE, e) for name, e in ERROR_PATHS]
    for scopes, exprs, seq in hist[:ctx.pick(120, 1500)]:
        ei, si = seq[0]
        cases.append(('generated', scopes[si], exprs[ei]))
    req = {'scopes': [[G.feel(('ctx', c)) for c in cs] for _, cs, _ in cases], 'exprs': [G.feel(e) for _, _, e in cases], 'seq': [[i, i] for i in range(len(cases))]}
    tmp = tempfile.mkdtemp(prefix='c13cnt-', dir=core.BUILD)
    try:
        open(os.path.join(tmp, 'req.json'), 'w').write(json.dumps(req) + '\n')
        g = ['set pagination off', 'set confirm off', 'set $u = 0', 'set $o = 0']
        for n in s_parse:
            g += ["break '%s'" % n, 'commands', 'silent', 'printf "@@E %d %d\\n", $u, $o', 'set $u = 0', 'set $o = 0', 'continue', 'end']
        for n in s_prep:
            g += ["break '%s'" % n, 'commands', 'silent', 'printf "@@P %d %d\\n", $u, $o', 'set $u = 0', 'set $o = 0', 'continue', 'end']
        for n in s_push:
            g += ["break '%s'" % n, 'commands', 'silent', 'set $u = $u + 1', 'continue', 'end']
        for n in s_pop:
            g += ["break '%s'" % n, 'commands', 'silent', 'set $o = $o + 1', 'continue', 'end']
        g += ['run pure < %s > %s' % (os.path.join(tmp, 'req.json'), os.path.join(tmp, 'out.json')), 'printf "@@E %d %d\\n", $u, $o', 'quit']
        open(os.path.join(tmp, 'cnt.gdb'), 'w').write('\n'.join(g) + '\n')
        try:
            out = subprocess.run(['gdb', '-batch', '-nx', '-x', os.path.join(tmp, 'cnt.gdb'), exe], stdout=subprocess.PIPE, stderr=subprocess.STDOUT, text=True, timeout=600).stdout
            steps = json.loads(open(os.path.join(tmp, 'out.json')).read().split('\n')[0]).get('steps')
        except Exception as ex:
            ctx.notes.append('push / pop counts of the running code not observed: %s' % str(ex)[:200])
            ctx.cov['push_pop_counts_observed'] = {'observed': False}
            return
    finally:
        shutil.rmtree(tmp, ignore_errors=True)
    ev = [(m.group(1), int(m.group(2)), int(m.group(3))) for m in re.finditer(r'@@([EP]) (\d+) (\d+)', out)]
    # E (start of expression 0; counts of the set-up) [P parse counts] E (evaluation counts = start of the next expression) ...
    per = []
    i = 1
    while i < len(ev):
        if ev[i][0] == 'P' and i + 1 < len(ev) and ev[i + 1][0] == 'E':
            per.append((ev[i][1:], ev[i + 1][1:]))
            i += 2
        else:
            per.append((ev[i][1:], None))       # the parse failed: no evaluator prepared
            i += 1
    if not steps or len(per) != len(cases) or len(steps) != len(cases):
        ctx.corr_broken('push / pop counting run: %d phase records and %d answers for %d expressions' % (len(per), len(steps or []), len(cases)), {'exprs': req['exprs'][:3]}, len(per), len(cases))
        return
    terms = ['ccase [%s] %s' % ('; '.join('[%s]' % '; '.join('(%d%%N, %s)' % (n, G.coq(x)) for n, x in c) for c in cs), G.coq(e)) for _, cs, e in cases]
    model = ctx.run_model(CNT_HEADER, terms, shard_size=300, tag='cnt')
    compared = unbalanced_seen = 0
    kinds = {}
    for (name, cs, e), (pc, ec), st, rm in zip(cases, per, steps, model):
        ctx.evaluations += 1
        case = {'scope': [G.feel(('ctx', c)) for c in cs], 'e': G.feel(e), 'path': name}
        if ec is None or 'v' not in st:
            if name != 'generated':
                ctx.corr_broken('an error-path expression was rejected by the parser', case, st, None)
            continue
        mpu, mpo, me = rm
        # the property itself, on the code's own counts
        if pc[0] != pc[1]:
            ctx.violation('a successful parse made %d pushes and %d pops on the parsing scope (%s)' % (pc[0], pc[1], name), case, impl=pc)
            continue
        if ec[0] != ec[1]:
            ctx.violation('the evaluation made %d pushes and %d pops on the caller\'s scope (%s)' % (ec[0], ec[1], name), case, impl=ec)
            continue
        ctx.corr_checked += 1
        if (mpu, mpo) != tuple(pc):
            ctx.corr_broken('pushes / pops of the parser differ from count_push / count_pop of pacts', case, list(pc), [mpu, mpo])
        if isinstance(me, App) and me.name == 'Some':
            mv, mu, mo = me.args[0]
            try:
                mval(mv)
            except Poison:
                continue
            compared += 1
            kinds[name] = kinds.get(name, 0) + 1
            if (mu, mo) != tuple(ec):
                ctx.corr_broken('pushes / pops of the evaluation differ from run_counting', case, list(ec), [mu, mo])
            if ec[0] > 0:
                ctx.nontrivial.add('count:' + case['e'])
    ctx.cov['push_pop_counts_observed'] = {'observed': True, 'expressions': len(cases), 'evaluation_counts_compared_with_run_counting': compared,
                                           'error_paths': len(ERROR_PATHS), 'error_paths_compared': sum(v for k, v in kinds.items() if k != 'generated')}


def shared_phase(ctx):
    """ONE prepared evaluator per expression, evaluated over SEVERAL scopes in shuffled order: every value must be the value the same expression has
    when it is prepared for that scope alone (nothing may be remembered inside a prepared evaluator from one evaluation to the next; seeded change
    C13_h: the built-in a call site resolved to was cached in the evaluator and survived a scope that binds the name to a user function)"""
    rng = ctx.rng
    shadow = ['abs', 'sum', 'count', 'max', 'floor', 'string length', 'not']
    reqs = []
    for f in shadow:
        arg = {'sum': '[x, 1]', 'count': '[x, 1]', 'max': '[x, 1]', 'string length': '"abc"', 'not': 'x < 0'}.get(f, 'x')
        user = {'sum': 'function(l) 700', 'count': 'function(l) 700', 'max': 'function(l) 700', 'string length': 'function(s) 700', 'not': 'function(b) 700'}.get(f, 'function(n) n + 100')
        scopes = [['{x: -5}'], ['{x: -5, %s: %s}' % (f, user)], ['{x: 3}', '{%s: %s}' % (f, user)], ['{x: 3}']]
        exprs = ['%s(%s)' % (f, arg), 'for f in [%s] return %s(%s)' % (user, f, arg), '{r: %s(%s)}.r' % (f, arg), 'if true then %s(%s) else 0' % (f, arg)]
        for _ in range(ctx.pick(3, 20)):
            seq = [[rng.randrange(len(exprs)), rng.randrange(len(scopes))] for _ in range(rng.randint(6, 16))]
            reqs.append({'scopes': scopes, 'exprs': exprs, 'seq': seq, 'shared': True})
    shared = ctx.run_impl('pure', reqs, shards=4)
    alone = ctx.run_impl('pure', [dict(r, shared=False) for r in reqs], shards=4)
    for rq, a, b in zip(reqs, shared, alone):
        ctx.evaluations += 1
        if 'steps' not in a or 'steps' not in b:
            ctx.violation('history of evaluations crashed or failed: %s' % json.dumps(a)[:200], rq, impl=a)
            continue
        ctx.corr_checked += 1
        ctx.nontrivial.add('shared:' + json.dumps(rq['seq']))
        for k, ((ei, si), x, y) in enumerate(zip(rq['seq'], a['steps'], b['steps'])):
            if x.get('after') != x.get('before'):
                ctx.violation("evaluation altered the caller's scope: %s -> %s (expression %s)" % (x.get('before'), x.get('after'), rq['exprs'][ei]), rq, impl=a)
                break
            if x.get('v') != y.get('v'):
                ctx.violation('one prepared evaluator of `%s` evaluated over several scopes: over the scope %s it returns %s as evaluation number %d of the sequence, and %s when it is '
                              'prepared for that scope alone' % (rq['exprs'][ei], rq['scopes'][si], json.dumps(x.get('v'))[:100], k + 1, json.dumps(y.get('v'))[:100]),
                              dict(rq, first_difference=k), impl=a['steps'][:k + 1])
                break


def run(ctx):
    ctx.proof_gate()
    ctx.build_harness()
    rng = ctx.rng
    gen = G.Gen(rng)
    hist, reqs, terms, index = [], [], [], {}
    for h in range(ctx.pick(400, 6000)):
        scopes, envs = [], []
        for _ in range(rng.choice([1, 2, 2, 3])):
            env, entries = gen.input_context()
            scopes.append(split_contexts(rng, entries))
            envs.append(env)
        exprs, home = [], []
        for _ in range(rng.choice([2, 3, 4])):
            kind = rng.choice(['lnum', 'lnum', 'bool', 'num', 'ctx', 'lctx', 'any'])
            si = rng.randrange(len(scopes))
            # every free name of an expression is bound in its scope (token boundaries of unbound names depend on the scope: C10)
            exprs.append(gen.gen(kind, rng.choice([2, 3, 4]), envs[si]))
            home.append(si)
        seq = []
        for _ in range(rng.randint(4, ctx.pick(14, 50))):
            ei = rng.randrange(len(exprs))
            seq.append((ei, home[ei]))
        hist.append((scopes, exprs, seq))
        reqs.append({'scopes': [[G.feel(('ctx', c)) for c in s] for s in scopes], 'exprs': [G.feel(e) for e in exprs], 'seq': [list(p) for p in seq]})
        for ei, si in set(seq):
            index[(h, ei, si)] = len(terms)
            terms.append('pcase [%s] %s' % ('; '.join('[%s]' % '; '.join('(%d%%N, %s)' % (n, G.coq(x)) for n, x in c) for c in scopes[si]), G.coq(exprs[ei])))
    shared_phase(ctx)
    impl = ctx.run_impl('pure', reqs, shards=16)
    model = ctx.run_model(HEADER, terms, shard_size=300)
    pushing = 0
    for h, ((scopes, exprs, seq), rq, ri) in enumerate(zip(hist, reqs, impl)):
        ctx.evaluations += 1
        case = rq
        if 'steps' not in ri:
            ctx.violation('history of evaluations crashed or failed: %s' % json.dumps(ri)[:200], case, impl=ri)
            continue
        first = {}
        bad = None
        for (ei, si), st in zip(seq, ri['steps']):
            if 'v' not in st:
                # a rejected text: the property speaks about successful parses only
                ctx.corr_broken('generated expression rejected by the parser', {'e': rq['exprs'][ei]}, st, None)
                continue
            if st.get('after_parse') != st.get('before'):
                bad = 'a successful parse altered the parsing scope: %s -> %s (expression %s)' % (st.get('before'), st.get('after_parse'), rq['exprs'][ei])
                break
            if st.get('after') != st.get('before'):
                bad = 'evaluation altered the caller\'s scope: %s -> %s (expression %s)' % (st.get('before'), st.get('after'), rq['exprs'][ei])
                break
            if (ei, si) in first and first[(ei, si)] != st['v']:
                bad = 'the same prepared expression over the same scope returned %s first and %s later (expression %s)' % (json.dumps(first[(ei, si)])[:150], json.dumps(st['v'])[:150], rq['exprs'][ei])
                break
            first.setdefault((ei, si), st['v'])
        if bad:
            ctx.violation(bad, case, impl=ri)
            continue
        if any(k in e for e in rq['exprs'] for k in ('for ', 'some ', 'every ', 'function', ')[', '{')):
            ctx.nontrivial.add(json.dumps(rq['exprs']))
            pushing += 1
        # values against the machine model
        for (ei, si), v in first.items():
            rm = model[index[(h, ei, si)]]
            if not (isinstance(rm, App) and rm.name == 'Some'):
                continue
            rv, rs, s0 = rm.args[0]
            if rs != s0:
                ctx.broken.append('model self-check: machine did not restore the stack for %s' % rq['exprs'][ei])
            try:
                mv = mval(rv)
            except Poison:
                continue
            ctx.corr_checked += 1
            if ival(v) != mv:
                # value disagreements are C01's subject; here they only mean the model does not describe this evaluation
                ctx.corr_broken('value of a prepared expression (C01 decides whether it is wrong)', {'scopes': rq['scopes'][si], 'e': rq['exprs'][ei]}, ival(v), mv)
        ctx.sample({'scopes': rq['scopes'], 'exprs': rq['exprs'][:2], 'seq': rq['seq'][:8]})
    # ---- pushes and pops counted in the running code, per phase, against the counting models (every error path of the discipline theorem)
    count_phase(ctx, hist)
    # ---- the parser's own scope discipline: action trace of the real parser vs coq/C13/ParseScope.v
    pt = []
    for (scopes, exprs, seq), rq in list(zip(hist, reqs))[:ctx.pick(250, 3000)]:
        ei = seq[0][0]
        si = seq[0][1]
        merged = {}
        for c in scopes[si]:
            merged.update(dict(c))
        pt.append((exprs[ei], {'ctx': G.feel(('ctx', tuple(sorted(merged.items())))) if merged else '', 'e': rq['exprs'][ei]}))
    traces = parse_traces(ctx, [r for _, r in pt])
    shapes = ctx.run_model(PT_HEADER, ['pacts 80 %s' % G.coq(e) for e, _ in pt], shard_size=300, tag='pt')
    pushing_traces = 0
    for (e, r), tr, ms in zip(pt, traces, shapes):
        ctx.evaluations += 1
        ok, shape, s0, s1 = tr
        if not ok:
            continue
        ctx.corr_checked += 1
        if s0 != s1:
            ctx.violation('a successful parse altered the parsing scope: %s -> %s' % (s0, s1), r)
            continue
        if 'P' in shape:
            pushing_traces += 1
            ctx.nontrivial.add('parse:' + r['e'])
        if shape != model_shape(ms):
            ctx.corr_broken('scope actions of the parser differ from coq/C13/ParseScope.v', r, shape, model_shape(ms))
    ctx.cov['parse_traces_with_scope_actions'] = pushing_traces
    # constructs the evaluator model does not have (external function definitions, typed and untyped parameters, inside contexts / iterations / other
    # functions), parsed over a scope the caller keeps: the scope is as it was (seeded change C13_k: the `external` body popped once more)
    ext = 'external {java: {class: "java.lang.Math", method signature: "cos(double)"}}'
    extra = ['function(x) %s' % ext, 'function() %s' % ext, 'function(x: number, y) %s' % ext, '{f: function(x) %s, r: va}' % ext, '[function(x) %s, va]' % ext,
             'for i in [1, 2] return function(x) %s' % ext, 'function(q) function(x) %s' % ext, '{a: {f: function(x) %s}, b: va + 1}' % ext,
             'some i in [function(x) %s] satisfies true' % ext, 'if true then function(x) %s else va' % ext, 'function(x) x + va', 'function() va']
    xreqs = [{'ctx': c, 'e': e} for e in extra for c in ('{va: 1, vb: {vc: 2}}', '')]
    for rq, (ok, shape, s0, s1) in zip(xreqs, parse_traces(ctx, xreqs)):
        ctx.evaluations += 1
        if not ok:
            ctx.corr_broken('directed text rejected by the parser', rq, 'rejected', 'accepted')
            continue
        ctx.corr_checked += 1
        ctx.nontrivial.add('parse:' + rq['e'] + rq['ctx'])
        if s0 != s1:
            ctx.violation('a successful parse altered the parsing scope: %s -> %s' % (s0, s1), rq)
    # ---- shuffled repeated invocations of one model evaluator (decisions, boxed context, BKM)
    mreqs, mexp = [], []
    for _ in range(ctx.pick(60, 600)):
        calls, exp = [], []
        pool = [(inv, rng.randint(-3, 6), rng.randint(-3, 6)) for inv in ('d1', 'd2', 'd3', 'd4') for _ in range(2)]
        for _ in range(rng.randint(8, 40)):
            inv, va, vb = rng.choice(pool)
            extra = ', zz: "unrelated"' if rng.random() < 0.3 else ''
            calls.append([inv, '{va: %d, vb: %d%s}' % (va, vb, extra)])
            exp.append(model_expected(inv, va, vb))
        mreqs.append({'xml': XML, 'calls': calls})
        mexp.append(exp)
    mimpl = ctx.run_impl('model', mreqs, shards=8)
    for rq, ri, exp in zip(mreqs, mimpl, mexp):
        ctx.evaluations += 1
        if ri.get('build') != 'ok' or 'results' not in ri:
            ctx.violation('model used for repeatability did not load: %s' % json.dumps(ri)[:200], {'calls': rq['calls']}, impl=ri)
            continue
        ctx.nontrivial.add(json.dumps(rq['calls']))
        for call, r, want in zip(rq['calls'], ri['results'], exp):
            got = ival(r.get('v')) if 'v' in r else r
            ctx.corr_checked += 1
            if got != want:
                ctx.violation('invocable %s with %s returned %s, expected %s in a sequence of interleaved invocations' % (call[0], call[1], json.dumps(got)[:200], json.dumps(want)[:200]),
                              {'calls': rq['calls'], 'failing_call': call}, impl=got, model=want)
                break
    # ---- model level: generated models in which invocations are surrounded by reads of the caller's names
    run_models(ctx)
    return ctx.finish(
        rule='histories: 1..3 persistent scopes (stacks of 1..3 contexts with shadowed bindings), 2..4 prepared expressions of the C01 generator biased to constructs that push '
             'contexts (context literals, filters, for/some/every, invocations), 4..%d evaluations in random order with repetitions; checked: scope text before = after parse = after evaluation, '
             'every value equals the first value of the same (expression, scope) and the machine model\'s value; plus shuffled repeated invocations of four invocables '
             '(literal, boxed context with for and filter, decision requiring decisions, BKM) of one model evaluator; model level: %d generated typed DMN models (props/c13gen.py, serialised by the '
             'builders of props/c04.py) of 8..%d nodes - decision services (input / encapsulated / one or two output decisions), knowledge models with literal, boxed-context (with and without result '
             'entry, nested), boxed-invocation and service-calling bodies, decisions with literal / context / invocation / relation logic - in which every invocation is preceded / followed by reads '
             'of names of the enclosing scope (required inputs and decisions, earlier context entries, formal parameters) and the callees bind the SAME names (parameters and entries named like the '
             'caller\'s inputs, decisions and entries; service parameters = input data names) to other values (arguments `name + k`); shapes call + read, read + call, read + call + read, call + call, '
             'call(call) + read in literal expressions, context entries, bindings, relation cells, bodies; every invocable invoked through evaluate_invocable with 2 input contexts, each call TWICE '
             'from one evaluator in two different orders; oracle = value computed by a Python evaluator of the node semantics over ints and strings (no nulls), and equal answers to equal calls; '
             'a failing call is shrunk to the call alone over its requirement closure. non-trivial = history containing a pushing construct / model with a read after an invocation'
             % (ctx.pick(14, 50), ctx.cov.get('models', 0), ctx.pick(13, 16)),
        extra_cov={'exhaustive': False, 'histories_with_pushing_constructs': pushing},
        assumptions=['Scope Display text identifies the contexts and entries held by a scope', 'times of day in named zones are not generated (excluded by the property)',
                     'model level: the scope of the caller inside a model evaluation is not exposed by the crate; it is observed through the values of the names read after / before an invocation '
                     '(every generated name has a non-null value that differs from the value the callee binds to the same name)',
                     'model level: bodies of knowledge models refer to their parameters, their own context entries and their required knowledge only (what a body sees of the CALLER\'s scope is C04\'s subject)'])


def replay(ctx, path):
    obj = json.load(open(path))
    ctx.build_harness()
    c = obj['case']
    if 'path' in c and 'e' in c:
        # a case of the push / pop counting phase: the expression twice over its scope; an unbalanced push or pop shows in the scope text
        r = ctx.run_impl('pure', [{'scopes': [c['scope']], 'exprs': [c['e']], 'seq': [[0, 0], [0, 0]]}])[0]
        print(json.dumps(r, ensure_ascii=False)[:3000])
        print('what was recorded:', obj.get('what'))
        bad = any(st.get('before') != st.get('after') or st.get('before') != st.get('after_parse') for st in r.get('steps', []))
        print('REPRODUCED (the scope text changes)' if bad else 'not reproduced')
        return 1 if bad else 0
    if 'scopes' in c:
        r = ctx.run_impl('pure', [c])[0]
        print(json.dumps(r, ensure_ascii=False)[:3000])
    else:
        r = ctx.run_impl('model', [{'xml': c.get('xml', XML), 'calls': c['calls']}])[0]
        if 'xml' in c:
            print(c['xml'])
            i = c.get('failing_index', 0)
            now = (r.get('results') or [r])[i] if isinstance(r, dict) else r
            print('call          :', c['calls'][i])
            print('implementation:', json.dumps(now)[:600])
            print('recorded      :', json.dumps(obj.get('impl'))[:600], ' expected:', obj.get('model'))
            print('what          :', obj.get('what'))
            same = now == obj.get('impl')
            print('REPRODUCED' if same else 'not reproduced (the implementation now answers differently)')
            return 1 if same else 0
        print(json.dumps(r)[:3000])
    print('what was recorded:', obj.get('what'))
    return 1


MANIFEST = dict(
    technique='Coq proof (scope-stack machine restores the stack; push / pop discipline proved construct by construct on an instrumented machine that counts pushes and pops, for every '
              'outcome of the sub-evaluations; parser scope discipline on the transliterated action list; model-level scope of the C04 ImplModel) with history correspondence and push / pop '
              'counts observed in the running code',
    text='Theorems (coq/Props/C13.v, 21 obligations, all closed). (1) Machine of coq/C01/Impl.v (it threads a scope stack and pushes / pops where builders.rs and iterations.rs do): '
         'C13_stack_restored, C13_repeatable (= Gallina purity + C13_stack_restored, kept), C13_value_is_semantic. (2) WHY the stack is restored: run_counting (coq/C13/Counting.v) is that machine '
         'with every Scope::push and Scope::pop counted (C13_counting_is_run: same value, same stack); C13_every_path_balanced: ONE construct over an ARBITRARY balanced evaluator r of its '
         'sub-expressions and function bodies makes k pushes and k pops and ends on the stack it started with - for every construct of the fragment and every answer r may give (null / non-boolean / '
         'poisoned conditions, too few positional or missing named arguments, null / empty / non-integer domains, non-list and null filter operands, element contexts with and without an entry named '
         'item); C13_run_counting_balanced closes the recursion for all expressions, fuels and start states; C13_stack_restored_by_discipline re-derives C13_stack_restored from pushes = pops. The '
         'discipline is a property of where the pushes and pops sit: the placements of the seeded changes C13_b / C01_d (arguments bound on the scope, early return), C13_d (every pops only on a '
         'boolean) and C13_a (filter pop nested in the wrong if) are variants of the same layer and C13_seeded_C13_b/_d/_a_refuted show each unbalanced on its error path and balanced off it. '
         '(3) Parser: pacts (coq/C13/ParseScope.v) transliterates the scope actions of the reduce actions of parser.rs in reduction order (compared with the action trace of the real parser); '
         'C13_parse_scope_balanced (final state), C13_parse_discipline / C13_parse_never_touches_callers_scope (at EVERY prefix of the action list of a successful parse the scope is the caller\'s scope '
         'with the parser\'s own contexts on top: no pop and no name added below them), C13_parse_pushes_equal_pops; not by construction: pacts is the member `false` of a family of placements '
         '(C13_pacts_is_placement_false) whose other member - one push per quantified variable, one pop: seeded change C13_c - satisfies every clause for one variable and none for two '
         '(C13_seeded_C13_c_refuted). (4) Model level: the ImplModel of C04 threads a flattened scope through the evaluation of a decision\'s logic (C04.Model.tev); C13_invocation_restores_scope: after ANY '
         'expression (invocations of knowledge models and decision services, boxed contexts with / without result entry, relations), any fuel, any service behaviour, the scope is the one it started with; '
         'C13_invocations_repeatable, C13_decision_logic_restores_scope (the evaluation inside body / impl_invoke); C13_leaky_context_orig_refuted (the pinned variant / seeded change C04_d violates it). '
         'impl_invoke / body of C04 take the caller\'s input context by value (the code: &FeelContext), there is no caller scope to restore at that level; the seeded change C13_e (service body pops the '
         'argument context) is not expressible in the flattened model and is tied by the correspondence only. '
         'Tied to the code by: histories of prepared evaluators over persistent multi-context scopes (scope text before = after parse = after evaluation; value = first value = model value); the NUMBER of '
         'Scope::push / Scope::pop calls of the running code per parse and per evaluation (gdb breakpoints on the unoptimised harness, no hook) = count_push / count_pop of pacts and pushes / pops of '
         'run_counting, on 29 error-path expressions (one per path named above) and 120 generated ones, and pushes = pops judged on the code\'s own counts; parser action traces = pacts; shuffled repeated '
         'model invocations; generated DMN models in which every invocation is surrounded by reads of names the callee binds to other values.',
    note='Trusted: Coq kernel + vm_compute, the machine model of builders.rs/iterations.rs and the action list of parser.rs (both correspondence-checked, including their push / pop counts), Scope Display as '
         'observation of the scope, gdb + symbol names of the debug build for the counts. Built-ins and temporal values are outside the fragment; C13_e-style defects inside decision_service.rs are caught by '
         'the model-level correspondence, not by a theorem.')
