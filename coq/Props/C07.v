(* C07 — property theorems only.  Proofs are in C07/Proofs.v, C07/Digits.v, C07/ReadBack.v, C07/LiteralProofs.v, C07/LexLink.v;
   models in C07/Model.v (printing), C07/Reader.v (reading the printed text back), C07/Literal.v (reading literals and typed input
   texts; the value a numeral denotes; the JSON number grammar). *)
From Coq Require Import String ZArith NArith Bool List Ascii.
From DV Require Import Base.Dec Base.DecRound C07.Model C07.Proofs C07.Reader C07.ReadBack C07.Literal C07.LiteralProofs C07.LexLink.
From DV Require Import C02.Exact.
Import ListNotations.
Open Scope Z_scope.

(* Every finite number — every sign, every coefficient, every exponent — is printed (the usize arithmetic of
   scientific_to_plain never traps), the text is `-?digits(.digits)?` without exponent, it is a JSON number,
   and it denotes exactly the number's value (equal as values: same sign, coefficients equal after cross-scaling). *)
Theorem C07_plain_exact : forall d : dec, exists s p,
  print d = Some s /\ is_plain s = true /\ is_json s = true /\
  denotes s = Some p /\ neg p = neg d /\ veq p d.
Proof. exact plain_exact. Qed.

Theorem C07_no_underflow : forall d : dec, print d <> None.
Proof. exact print_total. Qed.

(* the printed text is the positional rendering of the digits: no detour through scientific notation is visible *)
Theorem C07_print_render : forall d : dec, print d = Some (sign_of d ++ render_unsigned (coef d) (expo d)).
Proof. exact print_render. Qed.

(* JSON: the rendering (jsonify is the same scientific_to_plain (dec_to_string d) as Display) of EVERY number is a JSON number by
   the grammar of RFC 8259 section 6 (json_number: an inductive grammar of its own, C07/Literal.v) and denotes exactly the value *)
Theorem C07_json_number_valid : forall d : dec, exists s p,
  print d = Some s /\ json_number s /\ denotes s = Some p /\ neg p = neg d /\ veq p d.
Proof. exact json_number_valid. Qed.

(* the grammar rejects what the pinned commit printed (0000, 0.000000-15) and other non-numbers *)
Example C07_json_grammar_examples :
  ~ json_number (rd "0000") /\ ~ json_number (rd "0.000000-15") /\ ~ json_number (rd ".5") /\ ~ json_number (rd "5.") /\
  ~ json_number (rd "-") /\ ~ json_number (rd "+1") /\ ~ json_number (rd "1e") /\ ~ json_number (rd "01") /\
  json_number (rd "-0.00000015") /\ json_number (rd "0") /\ json_number (rd "1E+3").
Proof. exact json_number_rejects. Qed.

(* ---------------------------------------------------------------- LITERALS AND TYPED INPUT TEXTS
   numeral n = (sign, integer digits, fraction digits, exponent part).  The value it DENOTES is defined by positional weights
   (weigh: every digit times 10^position), independently of the reader:  |value| = text_num n / 10^(text_scale n),
   denoted n = that value as an exact datum.  sig_digits n = the digits of the mantissa from its first non-zero digit on.
   The reader (read_numeral: decQuadFromString + finite test) takes ALL digits as the coefficient and rounds ONCE: *)
Theorem C07_reader_takes_the_denoted_value : forall n,
  read_numeral n = round34 (n_neg n) (text_num n) (- text_scale n).
Proof. exact read_numeral_round. Qed.

(* the lexer (coq/C06/Lexer.v `numeric`): a text that begins with a digit gives the token Numeric(before, after); its digits are the
   characters of the source text, in order, the longest run of digits and the longest run behind a point followed by a digit *)
Theorem C07_literal_lexer_token : forall c r, NM.is_digit c = true ->
  exists b a rest, Lx.numeric (c :: r) = (Lx.LNum b a, rest) /\ b <> [] /\
    forallb NM.is_digit b = true /\ forallb NM.is_digit a = true /\
    c :: r = b ++ (match a with [] => [] | _ => 46%N :: a end) ++ rest /\
    match rest with x :: _ => NM.is_digit x = false | [] => True end.
Proof. exact numeric_token. Qed.

(* FEEL LITERAL, at most 34 significant digits (leading zeros not counted) and at most 6176 fraction digits: the evaluator's number
   (literal_value: the text before.after through from_str) is the datum `all digits, minus the number of fraction digits` —
   EXACTLY the value the text denotes; nothing is rounded, nothing normalised (0.10 stays 10E-2) *)
Theorem C07_literal_exact_upto_34 : forall b a, all_digits b = true -> all_digits a = true -> b <> [] ->
  (sig_digits (literal_numeral b a) <= 34)%nat -> len a <= 6176 ->
  literal_value b a = Some (denoted (literal_numeral b a)) /\ in_format (denoted (literal_numeral b a)) = true.
Proof. exact literal_exact_upto_34. Qed.

(* FEEL LITERAL, any number of digits: the evaluator's number is THE correctly rounded decimal128 value of the denoted value
   (C02/Exact.v correctly_rounded: the quantum fixed by the exact value, nearest, ties to even, subnormal grid, clamping; unique by
   C02_correctly_rounded_unique), and the literal is refused (None: the value null) exactly when the denoted value reaches the
   overflow threshold (10^34 - 1/2) * 10^6111 *)
Theorem C07_literal_rounded_beyond_34 : forall b a, all_digits b = true -> all_digits a = true -> b <> [] ->
  correctly_rounded (Quot (text_num (literal_numeral b a)) 1 (- text_scale (literal_numeral b a))) false (literal_value b a).
Proof. exact literal_rounded_beyond_34. Qed.

(* both, for the token the lexer produces (code points of the source text) *)
Theorem C07_literal_token_value : forall b a, b <> [] -> forallb NM.is_digit b = true -> forallb NM.is_digit a = true ->
  let n := literal_numeral (text_of_codes b) (text_of_codes a) in
  literal_value (text_of_codes b) (text_of_codes a) = read_numeral n /\
  correctly_rounded (Quot (text_num n) 1 (- text_scale n)) false (read_numeral n) /\
  ((sig_digits n <= 34)%nat -> len (text_of_codes a) <= 6176 -> read_numeral n = Some (denoted n) /\ in_format (denoted n) = true).
Proof. exact token_value. Qed.

(* the rounding in integers, about the result d: d is c units of the quantum 10^e1 fixed by the text (34 digits kept, not below the
   subnormal grid), c * 10^e1 lies within half a quantum of the denoted value, c is even on an exact tie, c is the written
   coefficient when no digit is dropped *)
Theorem C07_numeral_nearest_even : forall n d, (0 < text_num n)%N -> read_numeral n = Some d ->
  let e := - text_scale n in let e1 := target_exp (text_num n) e in let b := Z.min e ETINY in
  neg d = n_neg n /\ ETINY <= expo d <= ETOP /\
  exists c : N,
    Z.of_N (coef d) * 10 ^ (expo d - b) = Z.of_N c * 10 ^ (e1 - b) /\
    2 * Z.abs (Z.of_N c * 10 ^ (e1 - b) - Z.of_N (text_num n) * 10 ^ (e - b)) <= 10 ^ (e1 - b) /\
    (2 * Z.abs (Z.of_N c * 10 ^ (e1 - b) - Z.of_N (text_num n) * 10 ^ (e - b)) = 10 ^ (e1 - b) -> N.even c = true) /\
    (e1 = e -> c = text_num n).
Proof. exact numeral_nearest_even. Qed.

(* TYPED INPUT DATA and from_str in general.  The grammar: every text spelled  sign? (digits [. digits*] | . digits+) ([eE] sign? digits+)?
   (the lexical forms of xsd:integer, xsd:decimal and the finite xsd:double values; also the text `12.` a FEEL literal 12 becomes) is
   parsed as the numeral it spells *)
Theorem C07_text_grammar : forall sign ip dot fp x,
  sign_ok sign -> all_digits ip = true -> all_digits fp = true -> (ip <> [] \/ fp <> []) -> (dot = false -> fp = []) -> exp_ok x ->
  parse_numeral (spelled sign ip dot fp x) = Some (mknum (is_minus sign) ip fp (exp_val x)).
Proof. exact parse_spelled. Qed.

(* at most 34 significant digits and the exponent of the written datum within -6176..6111: exactly the written datum *)
Theorem C07_text_exact_upto_34 : forall s n, parse_numeral s = Some n -> (sig_digits n <= 34)%nat -> ETINY <= - text_scale n <= ETOP ->
  from_text s = Some (denoted n) /\ in_format (denoted n) = true.
Proof. exact text_exact_upto_34. Qed.

(* ... an exponent above 6111 whose value still fits (1E6144): same value, clamped representation *)
Theorem C07_text_exact_wide : forall s n, parse_numeral s = Some n -> (sig_digits n <= 34)%nat -> ETINY <= - text_scale n ->
  (text_num n = 0%N \/ - text_scale n + Z.of_N (ndigits (text_num n)) - 1 <= EMAX) ->
  exists d, from_text s = Some d /\ veq d (denoted n) /\ neg d = n_neg n /\ in_format d = true.
Proof. exact text_exact_wide. Qed.

(* any numeral: correctly rounded; refused exactly on overflow *)
Theorem C07_text_rounded_beyond_34 : forall s n, parse_numeral s = Some n ->
  correctly_rounded (Quot (text_num n) 1 (- text_scale n)) (n_neg n) (from_text s).
Proof. exact text_rounded_beyond_34. Qed.

Example C07_literal_examples :
  Lx.lex [] (codes ".5") = Some [Lx.LNum (codes "0") (codes "5")] /\
  literal_value (rd "0") (rd "5") = Some (mkdec false 5 (-1)) /\
  Lx.lex [] (codes "0.10") = Some [Lx.LNum (codes "0") (codes "10")] /\
  sig_digits (literal_numeral (rd "0") (rd "10")) = 2%nat /\
  literal_value (rd "0") (rd "10") = Some (mkdec false 10 (-2)) /\
  Lx.lex [] (codes "12") = Some [Lx.LNum (codes "12") []] /\ literal_text (rd "12") [] = rd "12." /\
  literal_value (rd "12") [] = Some (mkdec false 12 0) /\
  sig_digits (literal_numeral (rd "1234567890123456789012345678901234") []) = 34%nat /\
  literal_value (rd "1234567890123456789012345678901234") [] = Some (mkdec false num34 0) /\
  literal_value (rd "123456789012345678901234567890") (rd "1234") = Some (mkdec false num34 (-4)) /\
  sig_digits (literal_numeral (rd "12345678901234567890123456789012345") []) = 35%nat /\
  literal_value (rd "12345678901234567890123456789012345") [] = Some (mkdec false num34 1) /\
  literal_value (rd "12345678901234567890123456789012355") [] = Some (mkdec false (num34 + 2) 1) /\
  literal_value (rd "1234567890123456789012345678901234") (rd "51") = Some (mkdec false (num34 + 1) 0) /\
  literal_value (rd "1234567890123456789012345678901234") (rd "49") = Some (mkdec false num34 0) /\
  literal_value (rd "999999999999999999999999999999999999") [] = Some (mkdec false (10 ^ 33) 3) /\
  sig_digits (literal_numeral (rd "0") (zeros 40 ++ rd "1234567890123456789012345678901234")) = 34%nat /\
  literal_value (rd "0") (zeros 40 ++ rd "1234567890123456789012345678901234") = Some (mkdec false num34 (-74)).
Proof. exact literal_examples. Qed.

(* the bound `at most 6176 fraction digits` of C07_literal_exact_upto_34 is needed (decimal128 has no quantum below 1E-6176): a literal
   with ONE significant digit behind 6176 zeros is read as 0, with a 6 there as 1E-6176 — not the denoted value *)
Example C07_literal_underflow_refuted :
  let a1 := zeros (N.to_nat 6176) ++ rd "1" in let a6 := zeros (N.to_nat 6176) ++ rd "6" in
  sig_digits (literal_numeral (rd "0") a1) = 1%nat /\ len a1 = 6177 /\
  denoted (literal_numeral (rd "0") a1) = mkdec false 1 (-6177) /\
  literal_value (rd "0") a1 = Some (mkdec false 0 (-6176)) /\
  veqb (mkdec false 0 (-6176)) (mkdec false 1 (-6177)) = false /\
  denoted (literal_numeral (rd "0") a6) = mkdec false 6 (-6177) /\
  literal_value (rd "0") a6 = Some (mkdec false 1 (-6176)) /\
  veqb (mkdec false 1 (-6176)) (mkdec false 6 (-6177)) = false /\
  literal_value (rd "0") (zeros (N.to_nat 6175) ++ rd "1") = Some (mkdec false 1 (-6176)).
Proof. exact literal_underflow. Qed.

Example C07_text_examples :
  from_text (rd "-12.50") = Some (mkdec true 1250 (-2)) /\ from_text (rd "+7") = Some (mkdec false 7 0) /\
  from_text (rd "-.5") = Some (mkdec true 5 (-1)) /\ from_text (rd "5.") = Some (mkdec false 5 0) /\
  from_text (rd "1.5E3") = Some (mkdec false 15 2) /\ from_text (rd "-1.5e-3") = Some (mkdec true 15 (-4)) /\
  from_text (rd "0E3") = Some (mkdec false 0 3) /\ from_text (rd "1E6144") = Some (mkdec false (10 ^ 33) 6111) /\
  from_text (rd "1E6145") = None /\ from_text (rd "12345678901234567890123456789012345E-1") = Some (mkdec false num34 0) /\
  from_text (rd "") = None /\ from_text (rd ".") = None /\ from_text (rd "1.2.3") = None /\ from_text (rd "1E") = None /\
  from_text (rd "INF") = None /\ from_text (rd "NaN") = None /\ from_text (rd "--1") = None.
Proof. exact text_examples. Qed.

(* ---------------------------------------------------------------- READ-BACK.
   from_plain (C07/Reader.v) models FeelNumber::from_str on the texts Display produces; it is the text reader above on them *)
Theorem C07_reader_is_text_reader : forall s, is_plain s = true -> from_plain s = from_text s.
Proof. exact from_plain_is_from_text. Qed.

(* definitional (unfolding of from_plain): the datum the text denotes, rounded once *)
Theorem C07_reader_is_denotes_then_round_def : forall s,
  from_plain s = match denotes s with Some p => round34 (neg p) (coef p) (expo p) | None => None end.
Proof. exact from_plain_denotes. Qed.

(* For EVERY decimal128 datum d (in_format: coefficient < 10^34, -6176 <= exponent <= 6111 — all signs, zeros included):
   the printed text is read back without error, as a decimal128 datum with the same sign and exactly the same value
   (veq: coefficients equal after cross-scaling).  However long the text is (up to 34 + 6111 digits). *)
Theorem C07_read_back : forall d, in_format d = true ->
  exists s d', print d = Some s /\ from_plain s = Some d' /\ veq d' d /\ neg d' = neg d /\ in_format d' = true.
Proof. exact read_back_equal. Qed.

(* ... and which datum it is: d itself when the exponent is not positive; otherwise reread d (C07/Reader.v) *)
Theorem C07_read_back_datum : forall d, in_format d = true ->
  read_back d = Some (reread d) /\ veq (reread d) d /\ neg (reread d) = neg d /\ in_format (reread d) = true.
Proof. exact read_back_exact. Qed.

(* at most 34 digits from the first non-zero digit on: the reader rounds nothing, it returns the number the text denotes *)
Theorem C07_read_back_short : forall d, in_format d = true -> printed_digits d <= 34 ->
  exists s p, print d = Some s /\ denotes s = Some p /\ from_plain s = Some p /\ veq p d.
Proof. exact read_back_short. Qed.

(* more than 34 digits (a positive exponent, e.g. 1E+40 prints 41 digits): the reader keeps 34 digits and drops exactly the
   last k = digits - 34 ones; they are among the expo d zeros the printer appended (k <= expo d), so nothing is lost:
   the result is coef * 10^(expo - k) (34 digits) with exponent k, equal in value *)
Theorem C07_read_back_long : forall d, in_format d = true -> 34 < printed_digits d ->
  let k := printed_digits d - 34 in
  0 < k <= expo d /\
  read_back d = Some (mkdec (neg d) (coef d * 10 ^ Z.to_N (expo d - k)) k) /\
  ndigits (coef d * 10 ^ Z.to_N (expo d - k)) = 34%N /\
  veq (mkdec (neg d) (coef d * 10 ^ Z.to_N (expo d - k)) k) d.
Proof. exact read_back_long. Qed.

Example C07_read_back_examples :
  read_back (mkdec false 1 40) = Some (mkdec false (10 ^ 33) 7) /\ printed_digits (mkdec false 1 40) = 41 /\
  read_back (mkdec true 1230 (-2)) = Some (mkdec true 1230 (-2)) /\
  read_back (mkdec true 0 3) = Some (mkdec true 0 0) /\
  read_back (mkdec false 15 (-8)) = Some (mkdec false 15 (-8)) /\
  read_back (mkdec false 12 32) = Some (mkdec false (12 * 10 ^ 32) 0) /\
  read_back (mkdec false 12 33) = Some (mkdec false (12 * 10 ^ 32) 1).
Proof. exact read_back_examples. Qed.

(* the hypothesis in_format is needed: a 35-digit coefficient (not a decimal128 datum) is rounded by the reader *)
Example C07_read_back_needs_format :
  read_back (mkdec false (10 ^ 34 + 1) 0) = Some (mkdec false (10 ^ 33) 1) /\
  veqb (mkdec false (10 ^ 33) 1) (mkdec false (10 ^ 34 + 1) 0) = false /\
  in_format (mkdec false (10 ^ 34 + 1) 0) = false.
Proof. exact read_back_needs_format. Qed.

(* the function at the pinned commit violated the property on two classes *)
Theorem C07_print_orig_refuted :
  (exists d s, print_orig d = Some s /\ is_plain s = false) /\
  (exists d s, print_orig d = Some s /\ is_plain s = true /\ is_json s = false).
Proof. exact print_orig_refuted. Qed.

Example C07_nonvacuous :
  print (mkdec true 15 (-8)) = Some (rd "-0.00000015"%string) /\
  print (mkdec false 1230 2) = Some (rd "123000"%string) /\
  print (mkdec true 12345 (-2)) = Some (rd "-123.45"%string) /\
  print (mkdec false 0 3) = Some (rd "0"%string).
Proof. exact print_nontrivial. Qed.

Print Assumptions C07_plain_exact.
Print Assumptions C07_no_underflow.
Print Assumptions C07_print_render.
Print Assumptions C07_json_number_valid.
Print Assumptions C07_json_grammar_examples.
Print Assumptions C07_reader_takes_the_denoted_value.
Print Assumptions C07_literal_lexer_token.
Print Assumptions C07_literal_exact_upto_34.
Print Assumptions C07_literal_rounded_beyond_34.
Print Assumptions C07_literal_token_value.
Print Assumptions C07_numeral_nearest_even.
Print Assumptions C07_text_grammar.
Print Assumptions C07_text_exact_upto_34.
Print Assumptions C07_text_exact_wide.
Print Assumptions C07_text_rounded_beyond_34.
Print Assumptions C07_literal_examples.
Print Assumptions C07_literal_underflow_refuted.
Print Assumptions C07_text_examples.
Print Assumptions C07_reader_is_text_reader.
Print Assumptions C07_reader_is_denotes_then_round_def.
Print Assumptions C07_read_back.
Print Assumptions C07_read_back_datum.
Print Assumptions C07_read_back_short.
Print Assumptions C07_read_back_long.
Print Assumptions C07_read_back_examples.
Print Assumptions C07_read_back_needs_format.
Print Assumptions C07_print_orig_refuted.
Print Assumptions C07_nonvacuous.
