(* C06 — every pair of parentheses of the minimal rendering is needed, for ALL trees of the operator fragment.

   Soundness direction of the Spec parser, as a counting invariant: whatever token list `ts` the parser turns into a tree `t`
   (any fuel, any parentheses, redundant ones included), `ts` contains at least as many opening parentheses as the minimal
   rendering of `t` (`parse_count`).  The invariant of the operator loop says how many parentheses the tokens consumed so far
   contain, compared with what the operand read so far needs when it becomes the left operand of the next operator: an operand
   that was closed by a parenthesis has one to spare, an open one is followed by a token its right edge did not consume
   (`edge_stops`), and the precedence table then excludes every next operator that would need the operand in parentheses.
   Removing one pair from the minimal rendering leaves one opening parenthesis too few, so the result never parses back to `t`.
   The executable model (Model.v) is used as it is.  No finite sweep in this file. *)
From Coq Require Import List NArith Bool Arith Lia.
From DV Require Import C06.Model C06.Proofs.
Import ListNotations.

(* ------------------------------------------------------------------ counting opening parentheses *)

Definition is_lp (x : token) : nat := match x with TLp => 1 | _ => 0 end.

Lemma count_lp_cons : forall x r, count_lp (x :: r) = is_lp x + count_lp r.
Proof. intros x r. unfold count_lp. cbn [filter]. destruct x; reflexivity. Qed.

Lemma count_lp_app : forall a b, count_lp (a ++ b) = count_lp a + count_lp b.
Proof. intros a b. unfold count_lp. rewrite filter_app, app_length. reflexivity. Qed.

Lemma count_lp_nil : count_lp [] = 0.
Proof. reflexivity. Qed.

(* the number of opening parentheses of the minimal rendering, by recursion on the tree *)
Fixpoint needb (t : tree) : nat :=
  let nd (m : nat) (x : tree) := (if lvl x <? m then 1 else 0) + needb x in
  match t with
  | Atom _ => 0
  | Bin o l r => nd (lc o) l + nd (rc o) r
  | Neg x => nd r_neg x
  | Btw x lo hi => nd lv_between x + (nd 0 lo + nd rc_between hi)
  | Inst x _ => nd c_post x
  | Path x _ => nd c_post x
  | Filt x i => nd c_post x + (nd 0 i + 0)
  | Call f a => nd c_post f + S (nd 0 a + 0)
  end.

Definition need (m : nat) (t : tree) : nat := (if lvl t <? m then 1 else 0) + needb t.

Lemma needb_eq : forall t, needb t =
  match t with
  | Atom _ => 0
  | Bin o l r => need (lc o) l + need (rc o) r
  | Neg x => need r_neg x
  | Btw x lo hi => need lv_between x + (need 0 lo + need rc_between hi)
  | Inst x _ => need c_post x
  | Path x _ => need c_post x
  | Filt x i => need c_post x + (need 0 i + 0)
  | Call f a => need c_post f + S (need 0 a + 0)
  end.
Proof. destruct t; reflexivity. Qed.

Lemma count_render_at : forall t m, count_lp (render_at m t) = need m t.
Proof.
  induction t; intro m; rewrite render_at_eq; unfold need; rewrite needb_eq; cbn [body_of];
    destruct (_ <? m);
    repeat (rewrite ?count_lp_app, ?count_lp_cons, ?count_lp_nil; cbn [is_lp]);
    rewrite ?IHt, ?IHt1, ?IHt2, ?IHt3; lia.
Qed.

Lemma count_render_min : forall t, count_lp (render_min t) = needb t.
Proof. intro t. unfold render_min. rewrite count_render_at. unfold need. cbn. reflexivity. Qed.

Lemma need_le : forall m t, need m t <= S (needb t).
Proof. intros m t. unfold need. destruct (lvl t <? m); lia. Qed.

Lemma need_open : forall m t, m <= lvl t -> need m t = needb t.
Proof. intros m t H. unfold need. destruct (Nat.ltb_spec (lvl t) m); [lia|reflexivity]. Qed.

(* ------------------------------------------------------------------ the invariant *)

Definition m12 (m : nat) : nat := Nat.min m 12.

(* what a successful call of the expression parser guarantees *)
Definition Sound (pe : nat -> list token -> pres) : Prop := forall m ts t rest, pe m ts = Some (t, rest) ->
  stops m rest /\ count_lp rest + need (m12 m) t <= count_lp ts.

(* the state of the operator loop: l is the operand read so far, c the number of opening parentheses consumed for it;
   either l was closed by a parenthesis (one to spare), or it is open and the next token was left over by its right edge *)
Definition LInv (m na : nat) (l : tree) (c : nat) (ts : list token) : Prop :=
  (S (needb l) <= c /\ na = 0) \/ (needb l <= c /\ na = na0 l /\ edge_stops l ts /\ m12 m <= lvl l).

Lemma LInv_final : forall m na l c ts, LInv m na l c ts -> need (m12 m) l <= c.
Proof.
  intros m na l c ts [[H _]|[H [_ [_ Hm]]]].
  - pose proof (need_le (m12 m) l). lia.
  - rewrite need_open; assumption.
Qed.

(* the left operand of the next operator needs no more parentheses than were consumed *)
Lemma left_op : forall m na l c o r, LInv m na l c (TOp o :: r) -> (is_non o && (lv o =? na)) = false -> need (lc o) l <= c.
Proof.
  intros m na l c o r [[H _]|[H [Hna [He _]]]] Hb.
  - pose proof (need_le (lc o) l). lia.
  - destruct (Nat.lt_ge_cases (lvl l) (lc o)) as [Hlt|Hge]; [exfalso|rewrite need_open; assumption].
    unfold edge_stops in He. subst na.
    destruct l; cbn [edge na0 lvl stops lbp] in *.
    + destruct o; lvls; lia.
    + destruct o, o0; lvls; cbn in Hb; try discriminate Hb; lia.
    + destruct o; lvls; lia.
    + destruct o; lvls; lia.
    + destruct o; lvls; lia.
    + destruct o; lvls; lia.
    + destruct o; lvls; lia.
    + destruct o; lvls; lia.
Qed.

Lemma left_between : forall m na l c r, LInv m na l c (TBetween :: r) -> need lv_between l <= c.
Proof.
  intros m na l c r [[H _]|[H [Hna [He _]]]].
  - pose proof (need_le lv_between l). lia.
  - destruct (Nat.lt_ge_cases (lvl l) lv_between) as [Hlt|Hge]; [exfalso|rewrite need_open; assumption].
    unfold edge_stops in He.
    destruct l; cbn [edge lvl stops lbp] in *; lvls; try lia.
    destruct o; lvls; lia.
Qed.

Lemma left_post : forall m na l c tk p r, LInv m na l c (tk :: r) -> lbp tk = Some p -> 13 <= p -> need c_post l <= c.
Proof.
  intros m na l c tk p r [[H _]|[H [Hna [He _]]]] Hp Hp13.
  - pose proof (need_le c_post l). lia.
  - destruct (Nat.lt_ge_cases (lvl l) c_post) as [Hlt|Hge]; [exfalso|rewrite need_open; assumption].
    unfold edge_stops in He.
    destruct l; cbn [edge lvl stops] in *; rewrite ?Hp in He; lvls; try lia.
    destruct o; lvls; lia.
Qed.

Lemma rc_m12 : forall o, m12 (rc o) = rc o.
Proof. destruct o; reflexivity. Qed.

Lemma stops_false : forall m tk p r, lbp tk = Some p -> (m <=? p) = false -> stops m (tk :: r).
Proof. intros m tk p r Hp Hm. cbn [stops]. rewrite Hp. apply Nat.leb_gt in Hm. exact Hm. Qed.

(* ------------------------------------------------------------------ the operator loop keeps the invariant *)

Lemma loop_sound : forall pe, Sound pe -> forall g m na l ts c t rest, LInv m na l c ts ->
  loop pe g m na l ts = Some (t, rest) ->
  stops m rest /\ count_lp rest + need (m12 m) t <= c + count_lp ts.
Proof.
  intros pe Hs. induction g as [|g IH]; intros m na l ts c t rest HI H; [discriminate H|].
  cbn [loop] in H.
  assert (Hstop : forall ts0, stops m ts0 -> LInv m na l c ts0 -> Some (l, ts0) = Some (t, rest) ->
                  stops m rest /\ count_lp rest + need (m12 m) t <= c + count_lp ts0).
  { intros ts0 Hst HI0 E. inversion E; subst. split; [exact Hst|]. pose proof (LInv_final _ _ _ _ _ HI0). lia. }
  destruct ts as [|tk ts']; [apply Hstop; [exact I|exact HI|exact H]|].
  destruct tk.
  - apply Hstop; [exact I|exact HI|exact H].
  - (* binary operator *)
    destruct (m <=? lv o) eqn:Em; [|apply Hstop; [eapply stops_false; [reflexivity|exact Em]|exact HI|exact H]].
    destruct (is_non o && (lv o =? na)) eqn:En; [discriminate H|].
    destruct (pe (rc o) ts') as [[x r']|] eqn:E; [|discriminate H].
    destruct (Hs _ _ _ _ E) as [Hst Hc]. rewrite rc_m12 in Hc.
    pose proof (left_op _ _ _ _ _ _ HI En) as Hl.
    apply (IH _ _ _ _ (c + count_lp ts' - count_lp r')) in H.
    + destruct H as [H1 H2]. split; [exact H1|]. rewrite count_lp_cons. cbn [is_lp]. lia.
    + right. rewrite needb_eq. split; [lia|]. split; [reflexivity|]. split; [exact Hst|].
      cbn [lvl]. apply Nat.leb_le in Em. unfold m12. lia.
  - (* invocation *)
    destruct (m <=? lv_post) eqn:Em; [|apply Hstop; [eapply stops_false; [reflexivity|exact Em]|exact HI|exact H]].
    destruct (pe 0 ts') as [[x r0]|] eqn:E; [|discriminate H].
    destruct r0 as [|t0 r']; [discriminate H|]. destruct t0; try discriminate H.
    destruct (Hs _ _ _ _ E) as [_ Hc]. rewrite count_lp_cons in Hc. cbn [is_lp m12 Nat.min] in Hc.
    pose proof (left_post _ _ _ _ _ lv_post _ HI eq_refl ltac:(lvls; lia)) as Hl.
    apply (IH _ _ _ _ (c + S (count_lp ts') - count_lp r')) in H.
    + destruct H as [H1 H2]. split; [exact H1|]. rewrite count_lp_cons. cbn [is_lp]. lia.
    + right. rewrite needb_eq. split; [lia|]. split; [reflexivity|]. split; [exact I|].
      cbn [lvl]. apply Nat.leb_le in Em. unfold m12. lia.
  - apply Hstop; [exact I|exact HI|exact H].
  - (* filter *)
    destruct (m <=? lv_post) eqn:Em; [|apply Hstop; [eapply stops_false; [reflexivity|exact Em]|exact HI|exact H]].
    destruct (pe 0 ts') as [[x r0]|] eqn:E; [|discriminate H].
    destruct r0 as [|t0 r']; [discriminate H|]. destruct t0; try discriminate H.
    destruct (Hs _ _ _ _ E) as [_ Hc]. rewrite count_lp_cons in Hc. cbn [is_lp m12 Nat.min] in Hc.
    pose proof (left_post _ _ _ _ _ lv_post _ HI eq_refl ltac:(lvls; lia)) as Hl.
    apply (IH _ _ _ _ (c + count_lp ts' - count_lp r')) in H.
    + destruct H as [H1 H2]. split; [exact H1|]. rewrite count_lp_cons. cbn [is_lp]. lia.
    + right. rewrite needb_eq. split; [lia|]. split; [reflexivity|]. split; [exact I|].
      cbn [lvl]. apply Nat.leb_le in Em. unfold m12. lia.
  - apply Hstop; [exact I|exact HI|exact H].
  - (* between *)
    destruct (m <=? lv_between) eqn:Em; [|apply Hstop; [eapply stops_false; [reflexivity|exact Em]|exact HI|exact H]].
    destruct (pe 0 ts') as [[lo r0]|] eqn:E; [|discriminate H].
    destruct r0 as [|t0 r1]; [discriminate H|]. destruct t0; try discriminate H.
    destruct (pe rc_between r1) as [[hi r']|] eqn:E2; [|discriminate H].
    destruct (Hs _ _ _ _ E) as [_ Hc]. rewrite count_lp_cons in Hc. cbn [is_lp m12 Nat.min] in Hc.
    destruct (Hs _ _ _ _ E2) as [Hst2 Hc2]. change (m12 rc_between) with rc_between in Hc2.
    pose proof (left_between _ _ _ _ _ HI) as Hl.
    apply (IH _ _ _ _ (c + count_lp ts' - count_lp r')) in H.
    + destruct H as [H1 H2]. split; [exact H1|]. rewrite count_lp_cons. cbn [is_lp]. lia.
    + right. rewrite needb_eq. split; [lia|]. split; [reflexivity|]. split; [exact Hst2|].
      cbn [lvl]. apply Nat.leb_le in Em. unfold m12. lia.
  - apply Hstop; [exact I|exact HI|exact H].
  - (* instance of *)
    destruct (m <=? lv_inst) eqn:Em; [|apply Hstop; [eapply stops_false; [reflexivity|exact Em]|exact HI|exact H]].
    pose proof (left_post _ _ _ _ _ lv_inst _ HI eq_refl ltac:(lvls; lia)) as Hl.
    apply (IH _ _ _ _ c) in H.
    + destruct H as [H1 H2]. split; [exact H1|]. rewrite count_lp_cons. cbn [is_lp]. lia.
    + right. rewrite needb_eq. split; [lia|]. split; [reflexivity|]. split; [exact I|].
      cbn [lvl]. apply Nat.leb_le in Em. unfold m12. lvls. lia.
  - (* path *)
    destruct (m <=? lv_post) eqn:Em; [|apply Hstop; [eapply stops_false; [reflexivity|exact Em]|exact HI|exact H]].
    pose proof (left_post _ _ _ _ _ lv_post _ HI eq_refl ltac:(lvls; lia)) as Hl.
    apply (IH _ _ _ _ c) in H.
    + destruct H as [H1 H2]. split; [exact H1|]. rewrite count_lp_cons. cbn [is_lp]. lia.
    + right. rewrite needb_eq. split; [lia|]. split; [reflexivity|]. split; [exact I|].
      cbn [lvl]. apply Nat.leb_le in Em. unfold m12. lia.
Qed.

(* the operand forms: the loop starts in a state that satisfies the invariant *)
Lemma prefix_sound : forall pe, Sound pe -> forall m ts l r, prefix pe ts = Some (l, r) ->
  exists c, c + count_lp r = count_lp ts /\ LInv m 0 l c r.
Proof.
  intros pe Hs m ts l r H. unfold prefix in H. destruct ts as [|tk ts']; [discriminate H|].
  destruct tk; try discriminate H.
  - inversion H; subst. exists 0. split; [rewrite count_lp_cons; reflexivity|].
    right. cbn. repeat split; try lia. unfold m12. lia.
  - destruct o; try discriminate H.
    destruct (pe c_neg ts') as [[x r']|] eqn:E; [|discriminate H]. inversion H; subst.
    destruct (Hs _ _ _ _ E) as [Hst Hc]. change (m12 c_neg) with r_neg in Hc.
    exists (count_lp ts' - count_lp r). split; [rewrite count_lp_cons; cbn [is_lp]; lia|].
    right. rewrite needb_eq. split; [lia|]. split; [reflexivity|]. split; [exact Hst|].
    cbn [lvl]. unfold m12. lvls. lia.
  - destruct (pe 0 ts') as [[x r0]|] eqn:E; [|discriminate H].
    destruct r0 as [|t0 r']; [discriminate H|]. destruct t0; try discriminate H. inversion H; subst.
    destruct (Hs _ _ _ _ E) as [_ Hc]. rewrite count_lp_cons in Hc. cbn [is_lp m12 Nat.min] in Hc.
    exists (S (count_lp ts') - count_lp r). split; [rewrite count_lp_cons; cbn [is_lp]; lia|].
    left. unfold need in Hc. cbn in Hc. split; [lia|reflexivity].
Qed.

Lemma parse_expr_sound : forall f, Sound (parse_expr f).
Proof.
  induction f as [|f IH]; intros m ts t rest H; [discriminate H|].
  cbn [parse_expr] in H.
  destruct (prefix (parse_expr f) ts) as [[l r]|] eqn:E; [|discriminate H].
  destruct (prefix_sound _ IH m _ _ _ E) as [c [Hc HI]].
  destruct (loop_sound _ IH _ _ _ _ _ _ _ _ HI H) as [H1 H2].
  split; [exact H1|lia].
Qed.

(* ------------------------------------------------------------------ the minimal rendering has the fewest parentheses *)

(* whatever the parser turns into t contains at least the parentheses of the minimal rendering of t *)
Theorem parse_count : forall f ts t, parse_fuel f ts = Some t -> count_lp (render_min t) <= count_lp ts.
Proof.
  intros f ts t H. unfold parse_fuel in H.
  destruct (parse_expr f 0 ts) as [[x rest]|] eqn:E; [|discriminate H].
  destruct rest; [|discriminate H]. inversion H; subst.
  destruct (parse_expr_sound f _ _ _ _ E) as [_ Hc].
  rewrite count_render_min. unfold need in Hc. cbn in Hc. lia.
Qed.

Corollary parse_tokens_count : forall ts t, parse_tokens ts = Some t -> count_lp (render_min t) <= count_lp ts.
Proof. intros ts t H. exact (parse_count _ _ _ H). Qed.

(* ------------------------------------------------------------------ removal of one pair *)

Lemma count_drop_close : forall ts d, count_lp (drop_close d ts) = count_lp ts.
Proof.
  induction ts as [|x r IH]; intro d; [reflexivity|].
  destruct x; cbn [drop_close]; rewrite ?count_lp_cons; cbn [is_lp]; rewrite ?IH; try reflexivity.
  destruct d; [reflexivity|]. rewrite count_lp_cons. cbn [is_lp]. rewrite IH. reflexivity.
Qed.

Lemma count_drop_paren : forall ts k, k < count_lp ts -> S (count_lp (drop_paren k ts)) = count_lp ts.
Proof.
  induction ts as [|x r IH]; intros k Hk; [cbn in Hk; lia|].
  rewrite count_lp_cons in Hk. rewrite count_lp_cons.
  destruct x; cbn [drop_paren is_lp Nat.add] in *;
    try (rewrite count_lp_cons; cbn [is_lp Nat.add]; apply IH; exact Hk).
  destruct k as [|k].
  - rewrite count_drop_close. reflexivity.
  - rewrite count_lp_cons. cbn [is_lp Nat.add]. f_equal. apply IH. lia.
Qed.

(* every pair of the minimal rendering is needed: with the k-th pair removed the parser (any fuel) does not give t back —
   it gives another tree or fails *)
Theorem needed_paren_fuel : forall t k f, k < count_lp (render_min t) -> parse_fuel f (drop_paren k (render_min t)) <> Some t.
Proof.
  intros t k f Hk H. apply parse_count in H. pose proof (count_drop_paren _ _ Hk). lia.
Qed.

Theorem needed_paren : forall t k, k < count_lp (render_min t) -> parse_tokens (drop_paren k (render_min t)) <> Some t.
Proof. intros t k Hk. apply needed_paren_fuel. exact Hk. Qed.

(* the same without reference to drop_paren: wherever an opening and a closing parenthesis of the minimal rendering stand,
   the token list without them does not parse back to t *)
Theorem needed_paren_split : forall t pre body post, render_min t = pre ++ TLp :: body ++ TRp :: post ->
  parse_tokens (pre ++ body ++ post) <> Some t.
Proof.
  intros t pre body post E H. apply parse_tokens_count in H. rewrite E in H.
  rewrite !count_lp_app, !count_lp_cons, !count_lp_app, !count_lp_cons in H. cbn [is_lp] in H. lia.
Qed.

(* ------------------------------------------------------------------ the boolean form used by the finite theorem and the check *)

Lemma binop_eqb_eq : forall a b, binop_eqb a b = true -> a = b.
Proof. destruct a, b; cbn; intro H; try reflexivity; discriminate H. Qed.

Lemma tree_eqb_eq : forall a b, tree_eqb a b = true -> a = b.
Proof.
  induction a; destruct b; cbn [tree_eqb]; intro H; try discriminate H;
    repeat match goal with
           | H : _ && _ = true |- _ => apply andb_true_iff in H; destruct H
           | H : binop_eqb _ _ = true |- _ => apply binop_eqb_eq in H
           | H : N.eqb _ _ = true |- _ => apply N.eqb_eq in H
           end;
    repeat match goal with
           | IH : forall b, tree_eqb ?a b = true -> ?a = b, H : tree_eqb ?a _ = true |- _ => apply IH in H
           end; subst; reflexivity.
Qed.

Theorem all_needed_all : forall t, all_needed t = true.
Proof.
  intro t. unfold all_needed. apply forallb_forall. intros k Hk. apply in_seq in Hk.
  destruct (otree_eqb (parse_tokens (drop_paren k (render_min t))) (Some t)) eqn:E; [exfalso|reflexivity].
  destruct (parse_tokens (drop_paren k (render_min t))) as [t'|] eqn:Ep; [|discriminate E].
  cbn [otree_eqb] in E. apply tree_eqb_eq in E. subst t'.
  apply (needed_paren t k); [lia|exact Ep].
Qed.

(* ------------------------------------------------------------------ drop_paren removes a matched pair *)

(* nesting depth after a token list, None when a closing parenthesis has no partner *)
Fixpoint walk (d : nat) (ts : list token) : option nat :=
  match ts with
  | [] => Some d
  | TLp :: r => walk (S d) r
  | TRp :: r => match d with O => None | S d' => walk d' r end
  | _ :: r => walk d r
  end.

Lemma walk_app : forall a d d' b, walk d a = Some d' -> walk d (a ++ b) = walk d' b.
Proof.
  induction a as [|x a IH]; intros d d' b H; [inversion H; reflexivity|].
  destruct x; cbn [walk app] in *; try (apply IH; exact H).
  destruct d; [discriminate H|apply IH; exact H].
Qed.

Lemma drop_close_walk : forall body d d' rest, walk d body = Some d' -> drop_close d (body ++ rest) = body ++ drop_close d' rest.
Proof.
  induction body as [|x a IH]; intros d d' rest H; [inversion H; reflexivity|].
  destruct x; cbn [walk app drop_close] in *; try (f_equal; apply IH; exact H).
  destruct d; [discriminate H|f_equal; apply IH; exact H].
Qed.

Lemma drop_paren_pre : forall pre r, drop_paren (count_lp pre) (pre ++ TLp :: r) = pre ++ drop_close 0 r.
Proof.
  induction pre as [|x a IH]; intro r; [reflexivity|].
  rewrite count_lp_cons. destruct x; cbn [is_lp Nat.add app drop_paren]; f_equal; apply IH.
Qed.

(* the k-th opening parenthesis goes together with its partner *)
Lemma drop_paren_matched : forall pre body post, walk 0 body = Some 0 ->
  drop_paren (count_lp pre) (pre ++ TLp :: body ++ TRp :: post) = pre ++ body ++ post.
Proof.
  intros pre body post H. rewrite drop_paren_pre. f_equal.
  rewrite (drop_close_walk _ _ _ _ H). reflexivity.
Qed.

Lemma walk_render_at : forall t m d, walk d (render_at m t) = Some d.
Proof.
  assert (W : forall t, (forall d, walk d (body_of t) = Some d) -> forall m d, walk d (render_at m t) = Some d).
  { intros t Hb m d. rewrite render_at_eq. destruct (lvl t <? m); [|apply Hb].
    cbn [walk]. rewrite (walk_app _ _ _ _ (Hb (S d))). reflexivity. }
  induction t; apply W; intro d; cbn [body_of];
    repeat first [ rewrite (walk_app _ _ _ _ (IHt _ _)) | rewrite (walk_app _ _ _ _ (IHt1 _ _))
                 | rewrite (walk_app _ _ _ _ (IHt2 _ _)) | rewrite (walk_app _ _ _ _ (IHt3 _ _))
                 | progress cbn [walk app] ];
    try reflexivity; auto.
Qed.

Lemma walk_body : forall t d, walk d (body_of t) = Some d.
Proof.
  intros t d. pose proof (walk_render_at t 0 d) as H. rewrite render_at_eq in H. cbn in H. exact H.
Qed.

(* ------------------------------------------------------------------ the structural form: a pair around an operand, at any depth *)

(* x is an operand of p, rendered in a position that allows level m without parentheses *)
Inductive Child : tree -> nat -> tree -> Prop :=
| Ch_bin_l : forall o l r, Child (Bin o l r) (lc o) l
| Ch_bin_r : forall o l r, Child (Bin o l r) (rc o) r
| Ch_neg : forall x, Child (Neg x) r_neg x
| Ch_btw_x : forall x lo hi, Child (Btw x lo hi) lv_between x
| Ch_btw_lo : forall x lo hi, Child (Btw x lo hi) 0 lo
| Ch_btw_hi : forall x lo hi, Child (Btw x lo hi) rc_between hi
| Ch_inst : forall x ty, Child (Inst x ty) c_post x
| Ch_path : forall x n, Child (Path x n) c_post x
| Ch_filt_x : forall x i, Child (Filt x i) c_post x
| Ch_filt_i : forall x i, Child (Filt x i) 0 i
| Ch_call_f : forall f a, Child (Call f a) c_post f
| Ch_call_a : forall f a, Child (Call f a) 0 a.

(* x occurs in t (at any depth) in a position of level m *)
Inductive Occ (t : tree) : nat -> tree -> Prop :=
| Occ_root : Occ t 0 t
| Occ_step : forall m p m' x, Occ t m p -> Child p m' x -> Occ t m' x.

Lemma child_render : forall p m x, Child p m x -> exists pre post, body_of p = pre ++ render_at m x ++ post.
Proof.
  intros p m x H. destruct H; cbn [body_of].
  - exists [], (TOp o :: render_at (rc o) r). reflexivity.
  - exists (render_at (lc o) l ++ [TOp o]), []. rewrite app_nil_r, <- app_assoc. reflexivity.
  - exists [TOp Sub], []. rewrite app_nil_r. reflexivity.
  - exists [], (TBetween :: render_at 0 lo ++ TBand :: render_at rc_between hi). reflexivity.
  - exists (render_at lv_between x ++ [TBetween]), (TBand :: render_at rc_between hi). rewrite <- app_assoc. reflexivity.
  - exists (render_at lv_between x ++ TBetween :: render_at 0 lo ++ [TBand]), []. rewrite app_nil_r.
    repeat (rewrite <- app_assoc; cbn [app]). reflexivity.
  - exists [], [TInst ty]. reflexivity.
  - exists [], [TDot n]. reflexivity.
  - exists [], (TLb :: render_at 0 i ++ [TRb]). reflexivity.
  - exists (render_at c_post x ++ [TLb]), [TRb]. rewrite <- app_assoc. reflexivity.
  - exists [], (TLp :: render_at 0 a ++ [TRp]). reflexivity.
  - exists (render_at c_post f ++ [TLp]), [TRp]. rewrite <- app_assoc. reflexivity.
Qed.

Lemma occ_render : forall t m x, Occ t m x -> exists pre post, render_min t = pre ++ render_at m x ++ post.
Proof.
  intros t m x H. induction H as [|m p m' x _ [pre [post IH]] Hc].
  - exists [], []. rewrite app_nil_r. reflexivity.
  - destruct (child_render _ _ _ Hc) as [pre' [post' Hb]]. rewrite IH, render_at_eq, Hb.
    destruct (lvl p <? m).
    + exists (pre ++ TLp :: pre'), (post' ++ TRp :: post). repeat (rewrite <- app_assoc; cbn [app]). reflexivity.
    + exists (pre ++ pre'), (post' ++ post). repeat (rewrite <- app_assoc; cbn [app]). reflexivity.
Qed.

(* every pair of parentheses that the minimal rendering puts around an operand (an operand whose level is below the level its
   position allows): the pair is a matched pair of the token list, drop_paren with its running number removes exactly it, and
   the remaining token list does not parse back to t *)
Theorem needed_paren_at : forall t m x, Occ t m x -> lvl x < m ->
  exists pre post,
    render_min t = pre ++ TLp :: body_of x ++ TRp :: post /\
    drop_paren (count_lp pre) (render_min t) = pre ++ body_of x ++ post /\
    parse_tokens (pre ++ body_of x ++ post) <> Some t.
Proof.
  intros t m x Ho Hl. destruct (occ_render _ _ _ Ho) as [pre [post E]].
  rewrite render_at_eq in E. destruct (Nat.ltb_spec (lvl x) m) as [_|Hge]; [|lia].
  cbn [app] in E. rewrite <- app_assoc in E. cbn [app] in E.
  exists pre, post. split; [exact E|]. split.
  - rewrite E. apply drop_paren_matched. apply walk_body.
  - eapply needed_paren_split. exact E.
Qed.

(* and these are all the grouping parentheses: the number of opening parentheses of the minimal rendering is the number of
   operands below the level of their position plus the number of invocations (needb, count_render_min) *)

(* a tree with three needed pairs: without the first or the second the parser builds another tree, without the third it fails *)
Definition needed_witness : tree :=
  Bin Mul (Bin Add (Atom 1) (Atom 2)) (Neg (Bin Lt (Bin Lt (Atom 3) (Atom 4)) (Atom 5))).

Lemma needed_witness_outcomes :
  count_lp (render_min needed_witness) = 3 /\
  parse_tokens (drop_paren 0 (render_min needed_witness))
    = Some (Bin Add (Atom 1) (Bin Mul (Atom 2) (Neg (Bin Lt (Bin Lt (Atom 3) (Atom 4)) (Atom 5))))) /\
  parse_tokens (drop_paren 1 (render_min needed_witness))
    = Some (Bin Lt (Bin Mul (Bin Add (Atom 1) (Atom 2)) (Neg (Bin Lt (Atom 3) (Atom 4)))) (Atom 5)) /\
  parse_tokens (drop_paren 2 (render_min needed_witness)) = None.
Proof. vm_compute. repeat split. Qed.

(* the innermost pair of the witness in the structural form: (3 < 4) is the left operand of a non-associative operator, two levels down *)
Lemma needed_witness_occ : Occ needed_witness (lc Lt) (Bin Lt (Atom 3) (Atom 4)) /\ lvl (Bin Lt (Atom 3) (Atom 4)) < lc Lt.
Proof.
  split; [|cbn; lia].
  eapply Occ_step; [|apply Ch_bin_l]. eapply Occ_step; [|apply Ch_neg]. eapply Occ_step; [|apply Ch_bin_r]. apply Occ_root.
Qed.
