(* C19 — concrete drawings with merged cells (vm_compute): a table with an output label over two output columns, allowed values,
   an annotation and two rules; they show that the hypotheses of the theorems of coq/C19/CanvasMergedPlane.v and
   coq/C19/CanvasHeaders.v are met by non-trivial drawings and recompute their conclusions independently.  (owner: ext-merged) *)
From Coq Require Import List NArith Bool Arith.
From DV Require Import C19.Model C19.Canvas C19.CanvasDraw C19.CanvasSweep C19.CanvasMerged C19.CanvasHeadersDraw.
Import ListNotations.

Definition pad_to (w : nat) (t : list N) : list N := t ++ repeat 32%N (w - length t).
Definition blk (h w : nat) (t : list N) : block := pad_to w t :: repeat (repeat 32%N w) (h - 1).
Definition tx (a b : nat) : list N := [N.of_nat (65 + a); N.of_nat (97 + b)].

(*  ┌───┬────┬────╥─────────╥─────┐
    │ U │Aa  │Ab  ║LB       ║Ca   │
    │   │    │    ╟────┬────╢     │
    │   │    │    ║Ba  │Bb  ║     │
    │   ├────┼────╫────┼────╢     │
    │   │Va  │Vb  ║Wa  │Wb  ║     │
    ╞═══╪════╪════╬════╪════╬═════╡
    │ 1 │Da  │Db  ║Ea  │Eb  ║Fa   │
    ├───┼────┼────╫────┼────╫─────┤
    │ 2 │Ga  │Gb  ║Ha  │Hb  ║Ia   │
    └───┴────┴────╨────┴────╨─────┘  *)
Definition hsample : htable :=
  {| ht_ws := [3; 4; 4; 4; 4; 5]; ht_hs := [1; 1; 1; 1; 1];
     ht_hp := blk 5 3 [32; 85]%N;
     ht_ins := [(blk 3 4 (tx 0 0), blk 1 4 (tx 21 0)); (blk 3 4 (tx 0 1), blk 1 4 (tx 21 1))];
     ht_label := Some (blk 1 9 [76; 66]%N);
     ht_outs := [(blk 1 4 (tx 1 0), blk 1 4 (tx 22 0)); (blk 1 4 (tx 1 1), blk 1 4 (tx 22 1))];
     ht_anns := [blk 5 5 (tx 2 0)];
     ht_values := true;
     ht_rules := [(blk 1 3 [32; 49]%N, [blk 1 4 (tx 3 0); blk 1 4 (tx 3 1)], [blk 1 4 (tx 4 0); blk 1 4 (tx 4 1)], [blk 1 5 (tx 5 0)]);
                  (blk 1 3 [32; 50]%N, [blk 1 4 (tx 6 0); blk 1 4 (tx 6 1)], [blk 1 4 (tx 7 0); blk 1 4 (tx 7 1)], [blk 1 5 (tx 8 0)])];
     ht_merge := [] |}.

(* the same table with one output (its label in the name line), no label line, no values, no annotation: one header line *)
Definition hsample1 : htable :=
  {| ht_ws := [3; 4; 4]; ht_hs := [2; 1];
     ht_hp := blk 2 3 [32; 85]%N;
     ht_ins := [(blk 2 4 (tx 0 0), [])];
     ht_label := None;
     ht_outs := [(blk 2 4 (tx 1 0), [])];
     ht_anns := [];
     ht_values := false;
     ht_rules := [(blk 1 3 [32; 49]%N, [blk 1 4 (tx 3 0)], [blk 1 4 (tx 4 0)], [])];
     ht_merge := [] |}.

(* two inputs, three rules; the entries of the first input in the rules 1 and 2 are one merged cell of three lines
    ┌───┬────┬────╥────┐
    │ U │Aa  │Ab  ║Ba  │
    ╞═══╪════╪════╬════╡
    │ 1 │Da  │Db  ║Ea  │
    ├───┤    ├────╫────┤
    │ 2 │    │Gb  ║Ha  │
    ├───┼────┼────╫────┤
    │ 3 │Ja  │Jb  ║Ka  │
    └───┴────┴────╨────┘  *)
Definition hsample2 : htable :=
  {| ht_ws := [3; 4; 4; 4]; ht_hs := [1; 1; 1; 1];
     ht_hp := blk 1 3 [32; 85]%N;
     ht_ins := [(blk 1 4 (tx 0 0), []); (blk 1 4 (tx 0 1), [])];
     ht_label := None;
     ht_outs := [(blk 1 4 (tx 1 0), [])];
     ht_anns := [];
     ht_values := false;
     ht_rules := [(blk 1 3 [32; 49]%N, [blk 3 4 (tx 3 0); blk 1 4 (tx 3 1)], [blk 1 4 (tx 4 0)], []);
                  (blk 1 3 [32; 50]%N, [blk 3 4 (tx 3 0); blk 1 4 (tx 6 1)], [blk 1 4 (tx 7 0)], []);
                  (blk 1 3 [32; 51]%N, [blk 1 4 (tx 9 0); blk 1 4 (tx 9 1)], [blk 1 4 (tx 10 0)], [])];
     ht_merge := [(0, 0, 1)] |}.

Definition php (s : htable) (x : N) : option N := if (x =? code (btext (ht_hp s)))%N then Some 1%N else None.
Definition pnum (s : htable) (x : N) : option nat :=
  option_map S (find (fun k => match nth_error (ht_rules s) k with Some (n, _, _, _) => (x =? code (btext n))%N | None => false end)
                     (seq 0 (length (ht_rules s)))).

Definition hplane_ok (s : htable) : bool :=
  let d := header_drawing s in wf_mdraw d && outcome_eqb (canvas_cplane (drawm d)) (Ok (None, mplane d)).
Definition htable_ok (s : htable) : bool :=
  match canvas_to_plane code (drawm (header_drawing s)) with
  | Some p =>
      match recognize_plane (php s) (pnum s) p with
      | Some (AsRow, hp, n, f) => (hp =? 1)%N && (n =? length (ht_rules s)) && fields_eqb f (fields_of (abs_htable s code))
      | _ => false
      end
  | None => false
  end.
Definition parsers_ok (s : htable) : bool :=
  match php s (bc code (ht_hp s)) with Some _ => true | None => false end &&
  forallb (fun k => match nth_error (ht_rules s) k with
                    | Some (n, _, _, _) => match pnum s (bc code n) with Some r => r =? S k | None => false end
                    | None => false end) (seq 0 (length (ht_rules s))).

(* the first lines of the text of hsample: the label cell has no separator inside, the input expressions continue below the label line *)
Definition hsample_line (y : nat) : list N := nth y (mgrid (header_drawing hsample)) [].

Lemma headers_sweep :
  wf_htable hsample = true /\ hplane_ok hsample = true /\ htable_ok hsample = true /\ parsers_ok hsample = true /\
  wf_htable hsample1 = true /\ hplane_ok hsample1 = true /\ htable_ok hsample1 = true /\ parsers_ok hsample1 = true /\
  wf_htable hsample2 = true /\ hplane_ok hsample2 = true /\ htable_ok hsample2 = true /\ parsers_ok hsample2 = true /\
  md_reg (header_drawing hsample2) 1 1 = (1, 1, 3, 2) /\ md_reg (header_drawing hsample2) 2 1 = (1, 1, 3, 2) /\
  nth 4 (mgrid (header_drawing hsample2)) [] = [9500; 9472; 9472; 9472; 9508; 32; 32; 32; 32; 9500; 9472; 9472; 9472; 9472; 9579; 9472; 9472; 9472; 9472; 9508]%N /\
  h_hdr hsample = 3 /\ h_hdr hsample1 = 1 /\ mcols (header_drawing hsample) = 6 /\ mrows (header_drawing hsample) = 5 /\
  length (drawm (header_drawing hsample)) = 352 /\
  hsample_line 1 = [9474; 32; 85; 32; 9474; 65; 97; 32; 32; 9474; 65; 98; 32; 32; 9553; 76; 66; 32; 32; 32; 32; 32; 32; 32; 9553; 67; 97; 32; 32; 32; 9474]%N /\
  hsample_line 2 = [9474; 32; 32; 32; 9474; 32; 32; 32; 32; 9474; 32; 32; 32; 32; 9567; 9472; 9472; 9472; 9472; 9516; 9472; 9472; 9472; 9472; 9570; 32; 32; 32; 32; 32; 9474]%N /\
  md_reg (header_drawing hsample) 0 3 = (0, 3, 1, 5) /\ md_reg (header_drawing hsample) 0 4 = (0, 3, 1, 5) /\
  md_reg (header_drawing hsample) 1 1 = (0, 1, 2, 2) /\ md_reg (header_drawing hsample) 2 0 = (0, 0, 3, 1) /\
  f_label (fields_of (abs_htable hsample code)) = Some (code (pad_to 9 [76; 66]%N)) /\
  length (f_components (fields_of (abs_htable hsample code))) = 2 /\ length (f_output_values (fields_of (abs_htable hsample code))) = 2.
Proof. vm_compute. repeat split. Qed.

(* ---------------- rules as columns: the table of hsample drawn with rules as columns (coq/C19/CanvasColumnsDraw.v)
    ┌───────┬───╥────┬────┐
    │Aa     │Va ║Da  │Ga  │
    ├───────┼───╫────┼────┤
    │Ab     │Vb ║Db  │Gb  │
    ╞═══╤═══╪═══╬════╪════╡
    │LB │Ba │Wa ║Ea  │Ha  │
    │   ├───┼───╫────┼────┤
    │   │Bb │Wb ║Eb  │Hb  │
    ╞═══╧═══╧═══╬════╪════╡
    │Ca         ║Fa  │Ia  │
    ├───────────╫────┼────┤
    │ U         ║ 1  │ 2  │
    └───────────╨────┴────┘  *)
From DV Require Import C19.Columns C19.CanvasColumnsDraw.

Definition csample : htable :=
  {| ht_ws := [3; 3; 3; 4; 4]; ht_hs := [1; 1; 1; 1; 1; 1];
     ht_hp := blk 1 11 [32; 85]%N;
     ht_ins := [(blk 1 7 (tx 0 0), blk 1 3 (tx 21 0)); (blk 1 7 (tx 0 1), blk 1 3 (tx 21 1))];
     ht_label := Some (blk 3 3 [76; 66]%N);
     ht_outs := [(blk 1 3 (tx 1 0), blk 1 3 (tx 22 0)); (blk 1 3 (tx 1 1), blk 1 3 (tx 22 1))];
     ht_anns := [blk 1 11 (tx 2 0)];
     ht_values := true;
     ht_rules := [(blk 1 4 [32; 49]%N, [blk 1 4 (tx 3 0); blk 1 4 (tx 3 1)], [blk 1 4 (tx 4 0); blk 1 4 (tx 4 1)], [blk 1 4 (tx 5 0)]);
                  (blk 1 4 [32; 50]%N, [blk 1 4 (tx 6 0); blk 1 4 (tx 6 1)], [blk 1 4 (tx 7 0); blk 1 4 (tx 7 1)], [blk 1 4 (tx 8 0)])];
     ht_merge := [] |}.

Definition cplane_ok (s : htable) : bool :=
  let d := column_drawing s in wf_mdraw d && outcome_eqb (canvas_cplane (drawm d)) (Ok (None, mplane d)).
Definition ctable_ok (s : htable) : bool :=
  match canvas_to_plane code (drawm (column_drawing s)) with
  | Some p =>
      match recognize_plane (php s) (pnum s) p with
      | Some (AsColumn, hp, n, f) => (hp =? 1)%N && (n =? length (ht_rules s)) && fields_eqb f (fields_of (abs_htable s code))
      | _ => false
      end
  | None => false
  end.

Lemma columns_sweep :
  wf_ctable csample = true /\ cplane_ok csample = true /\ ctable_ok csample = true /\ parsers_ok csample = true /\
  first_input_not_marker (php csample) (abs_htable csample code) = true /\
  first_output_not_number (pnum csample) (abs_htable csample code) = true /\
  mcols (column_drawing csample) = 5 /\ mrows (column_drawing csample) = 6 /\
  md_v1 (column_drawing csample) = 3 /\ md_h1 (column_drawing csample) = 2 /\ md_h2 (column_drawing csample) = Some 4 /\
  md_reg (column_drawing csample) 2 0 = (2, 0, 4, 1) /\ md_reg (column_drawing csample) 3 0 = (2, 0, 4, 1) /\
  md_reg (column_drawing csample) 0 1 = (0, 0, 1, 2) /\ md_reg (column_drawing csample) 5 2 = (5, 0, 6, 3) /\
  nth 4 (mgrid (column_drawing csample)) [] = [9566; 9552; 9552; 9552; 9572; 9552; 9552; 9552; 9578; 9552; 9552; 9552; 9580; 9552; 9552; 9552; 9552; 9578; 9552; 9552; 9552; 9552; 9569]%N /\
  nth 8 (mgrid (column_drawing csample)) [] = [9566; 9552; 9552; 9552; 9575; 9552; 9552; 9552; 9575; 9552; 9552; 9552; 9580; 9552; 9552; 9552; 9552; 9578; 9552; 9552; 9552; 9552; 9569]%N.
Proof. vm_compute. repeat split. Qed.

(* ---------------- the information item name box (coq/C19/CanvasBoxDraw.v) on hsample: right edge in the middle of a grid column (the piece
   of border below it becomes ┴) and on a separator (┬ becomes ┼); on csample: on the right corner (┐ becomes ┤)
    ┌──────┐                          ┌────────┐
    │ dec  │                          │Order   │
    ├───┬──┴─┬────╥─────────╥─────┐   ├───┬────┼────╥─────────╥─────┐
    │ U │Aa  │Ab  ║LB       ║Ca   │   │ U │Aa  │Ab  ║LB       ║Ca   │  ... *)
From DV Require Import C19.CanvasBoxDraw.
Definition box_mid : ibox := {| ib_name := [[32; 100; 101; 99; 32; 32]%N]; ib_x := 7 |}.
Definition box_sep : ibox := {| ib_name := [[79; 114; 100; 101; 114; 32; 32; 32]%N; [32; 32; 32; 32; 32; 32; 32; 32]%N]; ib_x := 9 |}.
Definition box_corner : ibox := {| ib_name := [repeat 120%N 21]; ib_x := 22 |}.

Definition bplane_ok (d : mdraw) (b : ibox) : bool :=
  wf_mdraw d && wf_ibox d b && outcome_eqb (canvas_cplane (drawb d b)) (Ok (Some (bname b), bplane d b)).
Definition btable_ok (s : htable) (d : mdraw) (b : ibox) (o : orient) : bool :=
  match canvas_to_plane code (drawb d b) with
  | Some p =>
      match recognize_plane (php s) (pnum s) p with
      | Some (o', hp, n, f) => (match o, o' with AsRow, AsRow | AsColumn, AsColumn => true | _, _ => false end) &&
                               (hp =? 1)%N && (n =? length (ht_rules s)) && fields_eqb f (fields_of (abs_htable s code))
      | None => false
      end
  | None => false
  end.

Lemma box_sweep :
  bplane_ok (header_drawing hsample) box_mid = true /\ btable_ok hsample (header_drawing hsample) box_mid AsRow = true /\
  bplane_ok (header_drawing hsample) box_sep = true /\ btable_ok hsample (header_drawing hsample) box_sep AsRow = true /\
  bplane_ok (column_drawing csample) box_corner = true /\ btable_ok csample (column_drawing csample) box_corner AsColumn = true /\
  bname box_sep = [79; 114; 100; 101; 114; 32; 32; 32; 10; 32; 32; 32; 32; 32; 32; 32; 32]%N /\
  nth 2 (box_lines box_mid ++ table_lines (header_drawing hsample) box_mid) [] =
    [9500; 9472; 9472; 9472; 9516; 9472; 9472; 9524; 9472; 9516; 9472; 9472; 9472; 9472; 9573; 9472; 9472; 9472; 9472; 9472; 9472; 9472; 9472; 9472; 9573; 9472; 9472; 9472; 9472; 9472; 9488]%N /\
  nth 3 (box_lines box_sep ++ table_lines (header_drawing hsample) box_sep) [] =
    [9500; 9472; 9472; 9472; 9516; 9472; 9472; 9472; 9472; 9532; 9472; 9472; 9472; 9472; 9573; 9472; 9472; 9472; 9472; 9472; 9472; 9472; 9472; 9472; 9573; 9472; 9472; 9472; 9472; 9472; 9488]%N /\
  last (nth 2 (box_lines box_corner ++ table_lines (column_drawing csample) box_corner) []) 0%N = 9508%N.
Proof. vm_compute. repeat split. Qed.
