(* C18 — link of the TCK number leaf to C07.  C18 models a number by its plain decimal TEXT (sign, integer digits,
   fraction digits); C07 proves that the text FeelNumber's Display writes (C07.Model.print) has exactly that shape and
   that FeelNumber::from_str reads it back to an equal number.  Here: for every decimal128 datum d the text C07 prints is
   the rendering of a well-formed C18 number n, the TCK leaf the service writes for n carries that text under xsd:decimal,
   the C18 reader reads the leaf back to n (same digits), and the C07 reader reads the same text back to a datum equal to d. *)
From Coq Require Import List NArith ZArith Bool Ascii Lia.
From DV Require Base.Dec C07.Model C07.Digits C07.Proofs C07.Reader C07.ReadBack.
From DV Require Import C18.Model C18.Proofs C18.Service C18.Dto C18.ProofsDto C18.Wire C18.ProofsWire.
Import ListNotations.
Open Scope N_scope.

Module M7 := DV.C07.Model.

(* a character of a C07 text as the Unicode scalar value of a C18 text *)
Definition code (c : ascii) : N := N_of_ascii c.

(* the C18 number whose digits are those of a plain numeral *)
Definition num_of (s : M7.str) : num :=
  let (sg, u) := M7.strip_sign s in
  match M7.split_char "."%char u with
  | (ip, None) => {| nneg := sg; nint := map M7.digit_val ip; nfrac := [] |}
  | (ip, Some fp) => {| nneg := sg; nint := map M7.digit_val ip; nfrac := map M7.digit_val fp |}
  end.

Lemma split_char_join c s : match M7.split_char c s with (a, None) => s = a | (a, Some b) => s = a ++ c :: b end.
Proof. induction s as [|x t IH]; cbn [M7.split_char]; [reflexivity|].
  destruct (Ascii.eqb x c) eqn:E; [apply Ascii.eqb_eq in E; subst x; reflexivity|].
  destruct (M7.split_char c t) as [a [b|]]; cbn [app]; congruence. Qed.

Lemma digit_code c : M7.is_digit c = true -> code c = dchar (M7.digit_val c) /\ M7.digit_val c < 10.
Proof. destruct c as [[] [] [] [] [] [] [] []]; cbn; intros H; try discriminate H; split; try reflexivity; lia. Qed.

Lemma digit_zero c : M7.is_digit c = true -> M7.digit_val c = 0 -> c = "0"%char.
Proof. destruct c as [[] [] [] [] [] [] [] []]; cbn; intros H E; try discriminate H; try discriminate E; reflexivity. Qed.

Lemma digits_code ds : M7.all_digits ds = true ->
  map code ds = map dchar (map M7.digit_val ds) /\ forallb (fun d => d <? 10) (map M7.digit_val ds) = true.
Proof. induction ds as [|c t IH]; cbn [M7.all_digits forallb map]; [split; reflexivity|]. intros H.
  apply andb_true_iff in H. destruct H as [Hc Ht]. destruct (digit_code c Hc) as [E L]. destruct (IH Ht) as [E' L'].
  split; [congruence|]. apply andb_true_iff. split; [apply N.ltb_lt; exact L|exact L']. Qed.

Lemma length_nonzero {A} (l : list A) : negb (length l =? 0)%nat = true -> l <> [].
Proof. destruct l; cbn; [discriminate|]. intros _. discriminate. Qed.

(* a JSON number without exponent, as C07 describes the printed text, is the rendering of a well-formed C18 number *)
Theorem json_text_is_num s : M7.is_json s = true ->
  wf_num (num_of s) = true /\ render_num (num_of s) = map code s.
Proof. unfold M7.is_json, M7.is_plain, num_of. intros H. apply andb_true_iff in H. destruct H as [Hp Hz].
  assert (Hs : s = (if fst (M7.strip_sign s) then ["-"%char] else []) ++ snd (M7.strip_sign s)).
  { unfold M7.strip_sign. destruct s as [|c t]; [reflexivity|].
    destruct c as [[] [] [] [] [] [] [] []]; reflexivity. }
  destruct (M7.strip_sign s) as [sg u]. cbn [fst snd] in *. unfold M7.unsigned_plain in Hp.
  pose proof (split_char_join "."%char u) as Hj.
  destruct (M7.split_char "."%char u) as [ip [fp|]].
  - apply andb_true_iff in Hp. destruct Hp as [Hp Hfd]. apply andb_true_iff in Hp. destruct Hp as [Hp Hfl].
    apply andb_true_iff in Hp. destruct Hp as [Hil Hid].
    destruct (digits_code ip Hid) as [Ei Li]. destruct (digits_code fp Hfd) as [Ef Lf].
    apply length_nonzero in Hil. apply length_nonzero in Hfl. split.
    + unfold wf_num. cbn [nint nfrac]. rewrite Li, Lf. cbn [andb].
      destruct ip as [|c ip']; [congruence|]. cbn [map]. destruct ip' as [|c' ip'']; [cbn; rewrite andb_false_r; reflexivity|].
      cbn [map is_nil negb]. rewrite andb_true_r. apply negb_true_iff. apply N.eqb_neq. intros E0.
      cbn [M7.all_digits forallb] in Hid. apply andb_true_iff in Hid. destruct Hid as [Hc Hid]. apply andb_true_iff in Hid. destruct Hid as [Hc' _].
      pose proof (digit_zero c Hc E0). subst c. subst u. cbn [app M7.no_leading_zero] in Hz. rewrite Hc' in Hz. discriminate.
    + assert (Hrf : render_frac (map M7.digit_val fp) = map code ("."%char :: fp)).
      { rewrite map_cons, Ef. destruct fp as [|c fp']; [congruence|]. reflexivity. }
      unfold render_num. cbn [nneg nint nfrac]. rewrite Hs, Hj, !map_app. rewrite Hrf, <- Ei.
      f_equal. destruct sg; reflexivity.
  - apply andb_true_iff in Hp. destruct Hp as [Hil Hid]. destruct (digits_code ip Hid) as [Ei Li]. apply length_nonzero in Hil. split.
    + unfold wf_num. cbn [nint nfrac forallb]. rewrite Li. cbn [andb].
      destruct ip as [|c ip']; [congruence|]. cbn [map]. destruct ip' as [|c' ip'']; [cbn; rewrite andb_false_r; reflexivity|].
      cbn [map is_nil negb]. rewrite andb_true_r. apply negb_true_iff. apply N.eqb_neq. intros E0.
      cbn [M7.all_digits forallb] in Hid. apply andb_true_iff in Hid. destruct Hid as [Hc Hid]. apply andb_true_iff in Hid. destruct Hid as [Hc' _].
      pose proof (digit_zero c Hc E0). subst c. subst u. cbn [app M7.no_leading_zero] in Hz. rewrite Hc' in Hz. discriminate.
    + unfold render_num. cbn [nneg nint nfrac render_frac]. rewrite Hs, Hj, !map_app, app_nil_r. rewrite <- Ei.
      f_equal. destruct sg; reflexivity.
Qed.

(* THE NUMBER LEAF: for every decimal128 datum d, the text Display writes is the text of the TCK leaf of the C18 number n
   made of its digits; the service's own leaf reader gives n back; FeelNumber::from_str gives a datum equal to d back *)
Theorem tck_number_leaf_c07 : forall d : Base.Dec.dec, Base.Dec.in_format d = true ->
  exists s n d',
    M7.print d = Some s /\ wf_num n = true /\ render_num n = map code s /\
    to_dto0 (VNum n) = DSimple (Some ty_decimal) (Some (map code s)) false /\
    from_dto0 (to_dto0 (VNum n)) = Some (VNum n) /\
    C07.Reader.from_plain s = Some d' /\ Base.Dec.veq d' d /\ Base.Dec.neg d' = Base.Dec.neg d.
Proof. intros d F. destruct (C07.ReadBack.read_back_equal d F) as (s & d' & P & R & V & S & _).
  destruct (C07.Proofs.plain_exact d) as (s' & p & P' & _ & J & _). rewrite P in P'. injection P' as P'. subst s'.
  destruct (json_text_is_num s J) as [W E]. exists s, (num_of s), d'.
  split; [exact P|]. split; [exact W|]. split; [exact E|]. split; [cbn [to_dto0 to_dto]; rewrite E; reflexivity|].
  split; [|tauto]. apply tck_roundtrip0; [reflexivity|]. apply OkLeaf; [reflexivity|exact W]. Qed.

Definition t_m12345 : M7.str := ["-"; "1"; "2"; "3"; "."; "4"; "5"]%char.
Example number_leaf_nonvacuous :
  M7.print (Base.Dec.mkdec true 12345 (-2)) = Some t_m12345 /\
  num_of t_m12345 = {| nneg := true; nint := [1; 2; 3]; nfrac := [4; 5] |} /\
  render_num (num_of t_m12345) = [45; 49; 50; 51; 46; 52; 53] /\
  parse_simple0 ty_decimal (map code t_m12345) = Some (VNum (num_of t_m12345)).
Proof. vm_compute. repeat split; reflexivity. Qed.
