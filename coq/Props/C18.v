(* C18 — property theorems only.  Proofs are in C18/Proofs.v, C18/ProofsService.v, C18/ProofsDto.v, C18/ProofsSpec.v,
   C18/ProofsWire.v, C18/ProofsWireBack.v, C18/LinkC07.v. *)
From Coq Require Import List NArith ZArith Bool.
From DV Require Base.Dec C07.Model C07.Reader.
From DV Require Import C17.Model C17.Proofs C17.Abstract C17.AbstractProofs C18.Model C18.Proofs C18.Service C18.ProofsService C18.Dto C18.ProofsDto C18.Wire C18.ProofsWire
  C18.Spec C18.ProofsSpec C18.WireBack C18.ProofsWireBack C18.LinkC07.
Import ListNotations.
Open Scope N_scope.

(* (i) rendering: every value built from null / boolean / number / string / list / context — every string and key,
   with quotation marks, reverse solidus, control and non-ASCII characters — is rendered as a text the strict
   RFC 8259 parser accepts and that decodes to the value *)
Theorem C18_json_roundtrip : forall v, wf v = true -> plain v = true -> json_decode (jsonify v) = Some v.
Proof. exact json_roundtrip. Qed.

(* values of every other kind (dates, times, durations, ranges, functions) are rendered as a JSON string holding their text *)
Theorem C18_jsonify_wellformed : forall v, wf v = true ->
  json_parse (jsonify v) = Some (to_json v) /\ json_decode (jsonify v) = Some (strip v).
Proof. intros v H. split; [exact (jsonify_wellformed v H)|exact (jsonify_decodes v H)]. Qed.

Theorem C18_jsonify_injective : forall v w, wf v = true -> wf w = true -> plain v = true -> plain w = true ->
  jsonify v = jsonify w -> v = w.
Proof. exact jsonify_injective. Qed.

(* a number in plain notation (sign, digits without superfluous leading zero, optional fraction) is a JSON number *)
Theorem C18_number_is_json : forall n rest, wf_num n = true -> dstart rest = true ->
  parse_number (render_num n ++ rest) = Some (JNum (nneg n) (nint n) (nfrac n) None, rest).
Proof. exact parse_number_render. Qed.

(* the same tree written compactly (serde_json: error and TCK bodies) *)
Theorem C18_compact_roundtrip : forall v, wf v = true -> plain v = true -> json_decode (compact v) = Some v.
Proof. exact compact_roundtrip. Qed.

(* (ii) the service against its SPECIFICATION (C18/Spec.v): a relation between a request, the abstract workspace of C17
   (a set of stored documents and a served relation, C17/Abstract.v) before and after, and the class of the answer (which
   member is present, what the data denotes).  It is written without the handler model: no ImplModel state, no reply. *)
Theorem C18_serve_refines_spec : forall qs,
  spec_serves aempty qs (abs (fst (serve_all replace_fixed init qs))) (map class_of (snd (serve_all replace_fixed init qs))).
Proof. exact serve_refines_spec. Qed.

Theorem C18_serve_step_refines_spec : forall s q, Inv s ->
  spec_serve (abs s) q (abs (fst (serve replace_fixed s q))) (class_of (snd (serve replace_fixed s q))).
Proof. exact serve_step_refines_spec. Qed.

(* the specification determines the classes and the abstract workspace: those of the handler model are the only ones it allows *)
Theorem C18_spec_deterministic : forall a q a1 c1 a2 c2, AInv a ->
  spec_serve a q a1 c1 -> spec_serve a q a2 c2 -> aeq a1 a2 /\ c1 = c2.
Proof. exact spec_serve_deterministic. Qed.

Theorem C18_serve_refines_spec_unique : forall qs a cs, spec_serves aempty qs a cs ->
  aeq a (abs (fst (serve_all replace_fixed init qs))) /\ cs = map class_of (snd (serve_all replace_fixed init qs)).
Proof. exact serve_refines_spec_unique. Qed.

(* what the specification says about failures: an answer with the errors member leaves the workspace as it was; errors are
   answered exactly to a request that asks for nothing, an add whose namespace or name is taken, an evaluation of a name that
   is not served; requests that ask for nothing neither change the state nor the answers to the requests that follow *)
Theorem C18_spec_errors_leave_state : forall a q a', spec_serve a q a' CErrors -> aeq a a'.
Proof. exact spec_errors_leave_state. Qed.

Theorem C18_spec_errors_iff : forall a q a' c, spec_serve a q a' c ->
  (c = CErrors <->
   (forall o, ~ asks q o) \/ (exists m, asks q (Add m) /\ ~ free a m) \/ (exists k, asks q (Eval k) /\ forall d, ~ served a k d)).
Proof. exact spec_errors_iff. Qed.

Theorem C18_spec_faults_do_not_disturb : forall pre bad post a cs a0 b cs0, AInv a0 ->
  Forall (fun q => forall o, ~ asks q o) bad ->
  spec_serves a0 (pre ++ bad ++ post) a cs -> spec_serves a0 (pre ++ post) b cs0 ->
  aeq a b /\
  exists cs1 cbad cs2, cs = cs1 ++ cbad ++ cs2 /\ cs0 = cs1 ++ cs2 /\ Forall (fun c => c = CErrors) cbad /\ length cbad = length bad.
Proof. exact spec_faults_do_not_disturb. Qed.

(* every answer to every request sequence is a well-formed JSON document with exactly the member its class prescribes;
   the data of an evaluation decodes to the value the SERVED DOCUMENT computes *)
Theorem C18_answers_reflect_workspace : forall (txt : N -> text) (msg : err -> text) (result : N -> value),
  (forall n, wf_text (txt n) = true) -> (forall e, wf_text (msg e) = true) -> (forall d, wf (result d) = true) ->
  forall qs, exists a cs, spec_serves aempty qs a cs /\
    Forall2 (fun r c => exists j, json_parse (body txt msg result r) = Some (JObj [(member_of c, j)]) /\
               (forall d, c = CData (DEvaluation d) -> decode j = Some (strip (result d))) /\
               (forall n k, c = CData (DAdded n k) -> j = JObj [(k_namespace, JStr (txt n)); (k_name, JStr (txt k))]) /\
               (forall s, c = CData (DStatus s) -> j = JObj [(k_status, JStr (txt s))]) /\
               (c = CErrors -> exists e, j = JArr [JObj [(k_details, JStr (msg e))]]))
            (snd (serve_all replace_fixed init qs)) cs.
Proof. exact answers_reflect_workspace. Qed.

Example C18_spec_nonvacuous :
  map class_of (snd (serve_all replace_fixed init
     [QAdd (CModel mA); QAdd CBadBase64; QAdd (CModel mA); QDeploy; QEvaluate 11 true; QReplace (CModel mA'); QRejected;
      QEvaluate 11 true; QDeploy; QTck (Some 11) true (Some true); QRemove (Some 1) (Some 99); QDeploy; QEvaluate 11 true]))
  = [CData (DAdded 1 11); CErrors; CErrors; CData (DStatus 4); CData (DEvaluation 101); CData (DStatus 2); CErrors;
     CErrors; CData (DStatus 4); CData (DEvaluation 105); CData (DStatus 3); CData (DStatus 4); CErrors].
Proof. exact spec_nonvacuous. Qed.

(* the handler model is the workspace state machine of C17 (ImplModel level; serve_by_op / reports are the handler table in
   three pieces, kept as a lemma about serve, not as its specification) *)
Theorem C18_service_refines_workspace : forall qs,
  fst (serve_all replace_fixed init qs) = fst (run remove init (ops_of qs)) /\
  snd (serve_all replace_fixed init qs) = reports qs (snd (arun ainit (ops_of qs))) /\
  defs (fst (serve_all replace_fixed init qs)) = adefs (fst (arun ainit (ops_of qs))) /\
  Inv (fst (serve_all replace_fixed init qs)).
Proof. exact service_refines_workspace. Qed.

Theorem C18_errors_leave_state : forall s q, Inv s ->
  is_err (snd (serve replace_fixed s q)) = true -> fst (serve replace_fixed s q) = s.
Proof. exact errors_leave_state. Qed.

Theorem C18_faults_do_not_disturb : forall pre bad post,
  Forall (fun q => op_of q = None) bad ->
  snd (serve_all replace_fixed (fst (serve_all replace_fixed init (pre ++ bad))) post) =
  snd (serve_all replace_fixed (fst (serve_all replace_fixed init pre)) post).
Proof. exact faults_do_not_disturb. Qed.

Theorem C18_faults_answer_errors : forall bad s,
  Forall (fun q => op_of q = None) bad ->
  fst (serve_all replace_fixed s bad) = s /\ Forall (fun r => is_err r = true) (snd (serve_all replace_fixed s bad)).
Proof. exact faults_transparent. Qed.

Theorem C18_replace_substitutes : forall qs m, let s := fst (serve_all replace_fixed init qs) in
  serve replace_fixed s (QReplace (CModel m)) =
  ({| defs := filter (retained (ns m) (nm m)) (defs s) ++ [m];
      by_ns := ns m :: by_ns (remove s (ns m) (nm m)); by_nm := nm m :: by_nm (remove s (ns m) (nm m)); evs := [] |}, RStatus 2).
Proof. exact replace_substitutes. Qed.

Theorem C18_evaluate_iff_deployed : forall s k d,
  snd (serve replace_fixed s (QEvaluate k true)) = RValue k d <-> lookup k (evs s) = Some d.
Proof. exact evaluate_iff_deployed. Qed.

(* every answer of the service is a well-formed JSON document: failures in the errors member, results in the data member,
   and the data member of an evaluation decodes to the evaluated value *)
Theorem C18_every_answer_wellformed : forall (txt : N -> text) (msg : err -> text) (result : N -> value),
  (forall n, wf_text (txt n) = true) -> (forall e, wf_text (msg e) = true) -> (forall k, wf (result k) = true) ->
  forall r, exists j,
    json_parse (body txt msg result r) = Some (JObj [(if is_err r then k_errors else k_data, j)]) /\
    (forall k d, r = RValue k d -> decode j = Some (strip (result d))) /\
    (forall e, r = RErr e -> j = JArr [JObj [(k_details, JStr (msg e))]]).
Proof. exact every_answer_wellformed. Qed.

(* (iii) TCK: a value converted to its DTO and back is unchanged, provided the lexical forms of the leaves read back
   (numbers: C07, temporal values: C14) and the context keys are FEEL names *)
Theorem C18_tck_roundtrip : forall (tyname : N -> text) (parse_simple : text -> text -> option value)
    (parse_name : text -> option text) (ok_leaf : value -> Prop) (ok_key : text -> Prop),
  (forall v ty tx, ok_leaf v -> to_dto tyname v = DSimple (Some ty) (Some tx) false -> parse_simple ty tx = Some v) ->
  (forall k, ok_key k -> parse_name k = Some k) ->
  forall v, tck_value v = true -> ok ok_leaf ok_key v -> from_dto parse_simple parse_name (to_dto tyname v) = Some v.
Proof. exact tck_roundtrip. Qed.

(* the same with the concrete type names (xsd:string, xsd:decimal, ...) and the leaf readers of the model: strings as they are,
   numbers in plain notation through the strict number reader (read_decimal: the digits come back, C18_tck_number_leaf_c07 ties
   them to C07), booleans (true / false / 1 / 0).  Two readers are NOT transliterations: a temporal leaf is kept as its text
   (VOther kind text: the model does not parse dates; their lexical forms are C14's subject; xsd:duration is split by its
   day/time part) and a component name is kept as it is (parse_name0 = Some: the model does not run the FEEL name parser, so
   the statement holds for names that parser returns unchanged — checked against the service by the correspondence only).  to_dto0 / from_dto0 / tck_body are the functions the
   correspondence check evaluates against the answers of /tck/evaluate. *)
Theorem C18_tck_roundtrip_concrete : forall v, tck_value v = true -> ok (fun x => leaf_ok x = true) (fun _ => True) v ->
  from_dto0 (to_dto0 v) = Some v.
Proof. exact tck_roundtrip0. Qed.

(* the SUCCESS body of /tck/evaluate, {"data":{"value":<ValueDto>}}: well-formed for every value with well-formed texts;
   strictly parsed it is an object with exactly the member data holding an object with exactly the member value holding the
   ValueDto tree (all three members simple / components / list written, absent ones null) *)
Theorem C18_tck_success_body : forall v, wf v = true ->
  json_parse (tck_body v) = Some (JObj [(k_data, JObj [(k_value, to_json (dto_value (to_dto0 v)))])]) /\
  json_decode (tck_body v) = Some (VCtx [(k_data, VCtx [(k_value, dto_value (to_dto0 v))])]).
Proof. exact tck_success_body. Qed.

(* the ValueDto tree read back member by member is the DTO *)
Theorem C18_tck_value_dto_back : forall v, value_dto (dto_value (to_dto0 v)) = Some (to_dto0 v).
Proof. exact value_dto_back. Qed.

(* the whole way: value -> DTO -> JSON text of the answer -> strict parse -> DTO -> value (strings through the JSON escapes,
   numbers through their plain text, names kept) gives the value back.  Premises, all visible: well-formed texts, contexts
   keyed in increasing order and kinds that have a TCK form (tck_value), numbers in plain notation without superfluous
   zeros and durations whose text tells their kind (leaf_ok); temporal leaves are their TEXT (their lexical forms: C14) *)
Theorem C18_tck_wire_roundtrip : forall v, wf v = true -> tck_value v = true -> ok (fun x => leaf_ok x = true) (fun _ => True) v ->
  read_tck_answer (tck_body v) = Some v.
Proof. exact tck_wire_roundtrip. Qed.

Example C18_tck_wire_back_nonvacuous :
  let v := VCtx [([97], VList [VNum {| nneg := true; nint := [1; 0]; nfrac := [5; 0] |}; VStr [34; 92; 10; 128512]; VNull; VBool false; VList []]);
                 ([98; 32; 98], VOther 5 [80; 84; 49; 83]); ([99], VCtx [])] in
  wf v = true /\ tck_value v = true /\ read_tck_answer (tck_body v) = Some v /\
  read_tck_answer (tck_body (VNum {| nneg := false; nint := [0; 1]; nfrac := [] |})) = None.
Proof. exact tck_wire_back_nonvacuous. Qed.

(* the number leaf and C07: the text Display writes for a decimal128 datum (C07.Model.print) is the rendering of a well-formed
   C18 number; the TCK leaf carries that text under xsd:decimal; the leaf reader of the model gives the same digits back and
   FeelNumber::from_str (C07.Reader.from_plain) a datum of equal value and sign *)
Theorem C18_json_text_is_num : forall s, C07.Model.is_json s = true ->
  wf_num (num_of s) = true /\ render_num (num_of s) = map code s.
Proof. exact json_text_is_num. Qed.

Theorem C18_tck_number_leaf_c07 : forall d : Base.Dec.dec, Base.Dec.in_format d = true ->
  exists s n d',
    C07.Model.print d = Some s /\ wf_num n = true /\ render_num n = map code s /\
    to_dto0 (VNum n) = DSimple (Some ty_decimal) (Some (map code s)) false /\
    from_dto0 (to_dto0 (VNum n)) = Some (VNum n) /\
    C07.Reader.from_plain s = Some d' /\ Base.Dec.veq d' d /\ Base.Dec.neg d' = Base.Dec.neg d.
Proof. exact tck_number_leaf_c07. Qed.

Example C18_number_leaf_nonvacuous :
  C07.Model.print (Base.Dec.mkdec true 12345 (-2)) = Some t_m12345 /\
  num_of t_m12345 = {| nneg := true; nint := [1; 2; 3]; nfrac := [4; 5] |} /\
  render_num (num_of t_m12345) = [45; 49; 50; 51; 46; 52; 53] /\
  parse_simple0 ty_decimal (map code t_m12345) = Some (VNum (num_of t_m12345)).
Proof. exact number_leaf_nonvacuous. Qed.

Example C18_tck_wire_nonvacuous :
  let v := VCtx [([97], VList [VNum {| nneg := true; nint := [1; 0]; nfrac := [5; 0] |}; VStr [34; 92; 10]; VNull; VBool false]);
                 ([98; 32; 98], VOther 5 [80; 84; 49; 83])] in
  from_dto0 (to_dto0 v) = Some v /\ json_decode (tck_body v) <> None.
Proof. exact tck_wire_nonvacuous. Qed.

(* the code of the pinned commit *)
Theorem C18_jsonify_orig_refuted :
  (wf v_john = true /\ plain v_john = true /\ json_parse (jsonify_orig v_john) = None) /\
  (wf v_inject = true /\ plain v_inject = true /\
   json_decode (jsonify_orig v_inject) = Some (VList [VStr [97]; VStr [98]])) /\
  (wf v_key = true /\ plain v_key = true /\
   json_decode (jsonify_orig v_key) = Some (VCtx [([97], VNum {| nneg := false; nint := [1]; nfrac := [] |}); ([98], VNull)])) /\
  (wf v_date = true /\ json_parse (jsonify_orig v_date) = None).
Proof. exact jsonify_orig_refuted. Qed.

Theorem C18_body_orig_refuted :
  json_parse (body_orig (fun _ => []) (fun _ => []) (fun _ => v_john) (RValue 0 0)) = None /\
  json_parse (body (fun _ => []) (fun _ => []) (fun _ => v_john) (RValue 0 0)) = Some (JObj [(k_data, to_json v_john)]).
Proof. exact body_orig_refuted. Qed.

Theorem C18_replace_orig_refuted : exists qs,
  snd (serve_all replace_orig init qs) <> reports qs (snd (arun ainit (ops_of qs))).
Proof. exact replace_orig_refuted. Qed.

Example C18_nonvacuous :
  let v := VCtx [([97; 34; 98], VList [VNum {| nneg := true; nint := [1; 0]; nfrac := [5; 0] |};
                                        VStr [72; 10; 1; 233; 128512; 92; 34]; VNull; VBool false; VList []; VCtx []])] in
  wf v = true /\ plain v = true /\ json_decode (jsonify v) = Some v /\ jsonify v <> jsonify_orig v.
Proof. exact roundtrip_nonvacuous. Qed.

Example C18_service_nonvacuous :
  serve_all replace_fixed init [QAdd (CModel mA); QAdd CBadBase64; QReplace (CModel mA); QRejected; QDeploy; QEvaluate 11 true; QEvaluate 12 true; QEvaluate 11 false]
  = (fst (run remove init [Add mA; Replace mA; Deploy]),
     [RAdded 1 11; RErr EBase64; RStatus 2; RErr EBadRequest; RStatus 4; RValue 11 101; RErr ENotDeployed; RErr EInput]).
Proof. exact service_nonvacuous. Qed.

Print Assumptions C18_json_roundtrip.
Print Assumptions C18_jsonify_wellformed.
Print Assumptions C18_jsonify_injective.
Print Assumptions C18_number_is_json.
Print Assumptions C18_compact_roundtrip.
Print Assumptions C18_service_refines_workspace.
Print Assumptions C18_errors_leave_state.
Print Assumptions C18_faults_do_not_disturb.
Print Assumptions C18_faults_answer_errors.
Print Assumptions C18_replace_substitutes.
Print Assumptions C18_evaluate_iff_deployed.
Print Assumptions C18_every_answer_wellformed.
Print Assumptions C18_tck_roundtrip.
Print Assumptions C18_tck_roundtrip_concrete.
Print Assumptions C18_tck_wire_nonvacuous.
Print Assumptions C18_jsonify_orig_refuted.
Print Assumptions C18_body_orig_refuted.
Print Assumptions C18_replace_orig_refuted.
Print Assumptions C18_nonvacuous.
Print Assumptions C18_service_nonvacuous.
Print Assumptions C18_serve_refines_spec.
Print Assumptions C18_serve_step_refines_spec.
Print Assumptions C18_spec_deterministic.
Print Assumptions C18_serve_refines_spec_unique.
Print Assumptions C18_spec_errors_leave_state.
Print Assumptions C18_spec_errors_iff.
Print Assumptions C18_spec_faults_do_not_disturb.
Print Assumptions C18_answers_reflect_workspace.
Print Assumptions C18_spec_nonvacuous.
Print Assumptions C18_tck_success_body.
Print Assumptions C18_tck_value_dto_back.
Print Assumptions C18_tck_wire_roundtrip.
Print Assumptions C18_tck_wire_back_nonvacuous.
Print Assumptions C18_json_text_is_num.
Print Assumptions C18_tck_number_leaf_c07.
Print Assumptions C18_number_leaf_nonvacuous.
