(* C12 — boxed relations (model/src/model/parser.rs parse_optional_relation, model-evaluator/src/builders/mod.rs build_relation_evaluator).
   A relation element holds <column> and <row> children in any document order; a row holds `width` expressions.
   parse: the columns are collected first (a filter over the children), then every row is compared with the NUMBER OF ALL columns;
   build: for every element of a row the column of the same index is looked up with `get` (no index expression).
   Loading a relation never panics, is accepted exactly when every row is as wide as the relation has columns, and the place of the
   columns among the rows is irrelevant.  The two-site variant of the ninth round of seeded changes (rows judged against the columns read
   SO FAR, elements indexed per column) is modelled next to it: either site alone is harmless, the two together panic. *)
From Coq Require Import List Arith Bool Lia.
From DV Require Import C12.Model.
Import ListNotations.

Inductive child := CCol | CRow (width : nat).
Definition site_row_element := 396.        (* row.elements()[i] of the seeded variant *)

Definition is_col (c : child) : bool := match c with CCol => true | CRow _ => false end.
Definition n_cols (doc : list child) : nat := length (filter is_col doc).
Definition row_widths (doc : list child) : list nat := flat_map (fun c => match c with CCol => [] | CRow w => [w] end) doc.

(* parse_optional_relation: None = Err(number_of_elements_in_row_differs_from_number_of_columns) *)
Definition parse (doc : list child) : option (nat * list nat) :=
  if forallb (fun w => w =? n_cols doc) (row_widths doc) then Some (n_cols doc, row_widths doc) else None.

(* build_relation_evaluator: `relation.columns().get(i)` for every element index i of every row *)
Definition build_get (cols : nat) (rows : list nat) : outcome := Ok.
(* seeded variant: `row.elements()[i]` for every column index i *)
Definition build_indexed (cols : nat) (rows : list nat) : outcome :=
  if forallb (fun w => all_in_bounds cols w) rows then Ok else Panic site_row_element.

(* seeded variant of the parser: one pass in document order, a row is compared with the columns read so far *)
Fixpoint parse_seq_go (seen : nat) (rows : list nat) (doc : list child) : option (nat * list nat) :=
  match doc with
  | [] => Some (seen, rev rows)
  | CCol :: rest => parse_seq_go (S seen) rows rest
  | CRow w :: rest => if w =? seen then parse_seq_go seen (w :: rows) rest else None
  end.
Definition parse_seq (doc : list child) : option (nat * list nat) := parse_seq_go 0 [] doc.

Definition load_with (p : list child -> option (nat * list nat)) (b : nat -> list nat -> outcome) (doc : list child) : outcome :=
  match p doc with None => Err | Some (c, rs) => b c rs end.
Definition load := load_with parse build_get.

Lemma all_in_bounds_le : forall n len, all_in_bounds n len = true <-> n <= len.
Proof.
  intros n len. unfold all_in_bounds. rewrite forallb_forall. split.
  - intro H. destruct n as [|k]; [lia|]. specialize (H k). rewrite in_seq in H.
    assert (E : (k <? len) = true) by (apply H; lia). apply Nat.ltb_lt in E. lia.
  - intros L i Hi. apply in_seq in Hi. apply Nat.ltb_lt. lia.
Qed.

(* the code: never a panic; accepted exactly when every row is as wide as the relation has columns *)
Lemma load_total : forall doc, load doc = Ok \/ load doc = Err.
Proof. intro doc. unfold load, load_with, parse, build_get. destruct (forallb _ _); [left|right]; reflexivity. Qed.

Lemma load_ok_iff : forall doc, load doc = Ok <-> (forall w, In w (row_widths doc) -> w = n_cols doc).
Proof.
  intro doc. unfold load, load_with, parse, build_get.
  destruct (forallb (fun w => w =? n_cols doc) (row_widths doc)) eqn:E.
  - split; [|reflexivity]. intros _ w Hw. rewrite forallb_forall in E. apply Nat.eqb_eq. apply E. exact Hw.
  - split; [discriminate|]. intro H. exfalso.
    assert (T : forallb (fun w => w =? n_cols doc) (row_widths doc) = true).
    { apply forallb_forall. intros w Hw. apply Nat.eqb_eq. apply H. exact Hw. }
    congruence.
Qed.

(* the place of the columns among the rows is irrelevant: moving all columns to the front changes nothing *)
Definition cols_first (doc : list child) : list child := repeat CCol (n_cols doc) ++ map CRow (row_widths doc).

Lemma n_cols_cols_first : forall doc, n_cols (cols_first doc) = n_cols doc.
Proof.
  intro doc. unfold cols_first, n_cols at 1. rewrite filter_app, app_length.
  assert (A : forall k, length (filter is_col (repeat CCol k)) = k) by (induction k as [|k IH]; cbn; [reflexivity | rewrite IH; reflexivity]).
  assert (B : forall ws, length (filter is_col (map CRow ws)) = 0) by (induction ws as [|w ws IH]; cbn; [reflexivity | exact IH]).
  rewrite A, B. lia.
Qed.

Lemma row_widths_cols_first : forall doc, row_widths (cols_first doc) = row_widths doc.
Proof.
  intro doc. unfold cols_first, row_widths at 1. rewrite flat_map_app.
  assert (A : forall k, flat_map (fun c => match c with CCol => [] | CRow w => [w] end) (repeat CCol k) = []) by (induction k as [|k IH]; cbn; [reflexivity | exact IH]).
  assert (B : forall ws, flat_map (fun c => match c with CCol => [] | CRow w => [w] end) (map CRow ws) = ws) by (induction ws as [|w ws IH]; cbn; [reflexivity | rewrite IH; reflexivity]).
  rewrite A, B. reflexivity.
Qed.

Lemma load_order_irrelevant : forall doc, load (cols_first doc) = load doc.
Proof. intro doc. unfold load, load_with, parse. rewrite n_cols_cols_first, row_widths_cols_first. reflexivity. Qed.

(* either seeded site alone is harmless *)
Lemma indexed_after_parse_safe : forall doc, load_with parse build_indexed doc = Ok \/ load_with parse build_indexed doc = Err.
Proof.
  intro doc. unfold load_with, parse. destruct (forallb (fun w => w =? n_cols doc) (row_widths doc)) eqn:E; [left|right; reflexivity].
  unfold build_indexed.
  assert (T : forallb (fun w => all_in_bounds (n_cols doc) w) (row_widths doc) = true).
  { apply forallb_forall. intros w Hw. rewrite forallb_forall in E. specialize (E w Hw). apply Nat.eqb_eq in E. apply all_in_bounds_le. lia. }
  rewrite T. reflexivity.
Qed.

Lemma get_after_parse_seq_safe : forall doc, load_with parse_seq build_get doc = Ok \/ load_with parse_seq build_get doc = Err.
Proof. intro doc. unfold load_with, build_get. destruct (parse_seq doc) as [[c rs]|]; [left|right]; reflexivity. Qed.

(* the two together: a column behind a row that is as wide as the columns in front of it *)
Lemma seeded_pair_panics :
  load_with parse_seq build_indexed [CCol; CRow 1; CCol] = Panic site_row_element /\ load [CCol; CRow 1; CCol] = Err /\
  load [CCol; CCol; CRow 2] = Ok /\ load [CRow 2; CCol; CCol] = Ok /\ load [CCol; CRow 2; CCol] = Ok.
Proof. repeat split; vm_compute; reflexivity. Qed.
