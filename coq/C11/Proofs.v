(* C11 — proofs about C11/Model.v. *)
From Coq Require Import List NArith Bool Arith Lia.
From DV Require Import C16.Model C16.Proofs C11.Model.
Import ListNotations.

(* ---------- the copies are uniform ---------- *)
Lemma simple_copy_uniform p av v : simple_copy p av v = if is_atom p v then check_av av v else VNull.
Proof. destruct p; destruct v as [|s n|vs|es|lo hi|ps r]; try reflexivity; destruct s; reflexivity. Qed.

Lemma var_copy_uniform p v : var_copy p v = if is_atom p v then v else VNull.
Proof. destruct p; destruct v as [|s n|vs|es|lo hi|ps r]; try reflexivity; destruct s; reflexivity. Qed.

Definition loop_copy (p : prim) : list value -> option (list value) :=
  match p with
  | PString => loop_string | PNumber => loop_number | PBoolean => loop_boolean | PDate => loop_date
  | PTime => loop_time | PDateTime => loop_date_time | PDtd => loop_dt_duration | PYmd => loop_ym_duration end.

Lemma loop_copy_uniform p vs : loop_copy p vs = if forallb (is_atom p) vs then Some vs else None.
Proof. induction vs as [|x r IH]; [destruct p; reflexivity|].
  destruct p; cbn [loop_copy] in *; cbn [loop_string loop_number loop_boolean loop_date loop_time loop_date_time loop_dt_duration loop_ym_duration forallb];
  (destruct x as [|s n|vs|es|lo hi|ps r0]; try reflexivity; destruct s; try reflexivity;
   rewrite IH; cbn [is_atom prim_simple simple_eqb andb]; destruct (forallb _ r); reflexivity). Qed.

Lemma coll_copy_uniform p ci av v :
  coll_copy p ci av v = match v with
                        | VList vs => if forallb (is_atom p) vs then coll_av ci av vs else VNull
                        | _ => VNull end.
Proof. assert (H : coll_copy p ci av v = coll_with (loop_copy p) ci av v) by (destruct p; reflexivity).
  rewrite H. unfold coll_with. destruct v; try reflexivity. rewrite loop_copy_uniform. destruct (forallb _ _); reflexivity. Qed.

Lemma type_simple_copy_uniform p : type_simple_copy p = Some (TS (prim_simple p)).
Proof. destruct p; reflexivity. Qed.
Lemma type_coll_copy_uniform p : type_coll_copy p = Some (TList (TS (prim_simple p))).
Proof. destruct p; reflexivity. Qed.

(* ---------- extensionality of the loops ---------- *)
Lemma comp_loop_ext ev ev' fs es :
  (forall k T x, In (k, T) fs -> ev T x = ev' T x) -> comp_loop ev fs es = comp_loop ev' fs es.
Proof. induction fs as [|[k T] r IH]; intros H; [reflexivity|]. cbn [comp_loop].
  destruct (vlookup k es) as [x|]; [|reflexivity].
  rewrite IH; [|intros k' T' x' Hin; apply (H k'); right; exact Hin].
  rewrite (H k T x); [reflexivity | left; reflexivity]. Qed.

Lemma items_loop_ext ev ev' vs : (forall es, ev es = ev' es) -> items_loop ev vs = items_loop ev' vs.
Proof. intros H. induction vs as [|x r IH]; [reflexivity|]. cbn [items_loop]. destruct x; try reflexivity.
  rewrite H, IH. reflexivity. Qed.

(* ---------- the per-copy model is the generic algorithm ---------- *)
Theorem eval_item_generic ra ci : forall f D T v, eval_item_gen ra ci f D T v = gcheck ra ci f D T v.
Proof. induction f as [|f IH]; intros D T v; [reflexivity|]. destruct T as [p av|n av|fs av|p av|n av|fs av]; cbn [eval_item_gen gcheck].
  - apply simple_copy_uniform.
  - destruct (dlookup n D) as [T'|]; [|reflexivity]. rewrite IH. reflexivity.
  - destruct v; try reflexivity. rewrite (comp_loop_ext _ (gcheck ra ci f D)); [reflexivity|]. intros; apply IH.
  - rewrite coll_copy_uniform. reflexivity.
  - destruct v as [| |vs| | |]; try reflexivity. destruct (dlookup n D) as [T'|]; [|reflexivity].
    rewrite (map_ext _ (gcheck ra ci f D T')); [reflexivity|]. intros; apply IH.
  - destruct v as [| |vs| | |]; try reflexivity.
    rewrite (items_loop_ext _ (comp_loop (gcheck ra ci f D) fs)); [reflexivity|].
    intros es. apply comp_loop_ext. intros; apply IH. Qed.

(* ---------- where no collection type carries allowed values the two readings of them agree ---------- *)
Lemma dlookup_in n D T : dlookup n D = Some T -> In (n, T) D.
Proof. induction D as [|[k T0] r IH]; cbn [dlookup]; [discriminate|]. destruct (N.eqb n k) eqn:E.
  - intros H. injection H as <-. apply N.eqb_eq in E. subst. left. reflexivity.
  - intros H. right. apply IH. exact H. Qed.

Lemma clean_lookup D n T : clean_defs D = true -> dlookup n D = Some T -> clean T = true.
Proof. intros HD HL. unfold clean_defs in HD. rewrite forallb_forall in HD. apply (HD (n, T)). apply dlookup_in. exact HL. Qed.

Lemma clean_fields (fs : list (N * idef)) (k : N) T : forallb (fun e => clean (snd e)) fs = true -> In (k, T) fs -> clean T = true.
Proof. intros H Hin. rewrite forallb_forall in H. apply (H (k, T)). exact Hin. Qed.

Lemma coll_av_none ci vs : coll_av ci None vs = VList vs.
Proof. unfold coll_av, check_av. destruct ci; [|reflexivity].
  assert (H : forallb (av_ok None) vs = true) by (induction vs as [|x r IHr]; [reflexivity | exact IHr]).
  rewrite H. reflexivity. Qed.

Lemma gcheck_clean ra ci ci' : forall f D T v, clean_defs D = true -> clean T = true ->
  gcheck ra ci f D T v = gcheck ra ci' f D T v.
Proof. induction f as [|f IH]; intros D T v HD HT; [reflexivity|].
  destruct T as [p av|n av|fs av|p av|n av|fs av]; cbn [gcheck]; cbn [clean] in HT.
  - reflexivity.
  - destruct (dlookup n D) as [T'|] eqn:E; [|reflexivity]. rewrite (IH D T' v HD (clean_lookup _ _ _ HD E)). reflexivity.
  - destruct v; try reflexivity. rewrite (comp_loop_ext _ (gcheck ra ci' f D)); [reflexivity|].
    intros k T x Hin. apply IH; [exact HD | exact (clean_fields _ _ _ HT Hin)].
  - destruct av; [discriminate|]. destruct v; try reflexivity. rewrite !coll_av_none. reflexivity.
  - destruct av; [discriminate|]. destruct v as [| |vs| | |]; try reflexivity. destruct (dlookup n D) as [T'|] eqn:E; [|reflexivity].
    rewrite !coll_av_none. f_equal. apply map_ext. intros x. apply IH; [exact HD | exact (clean_lookup _ _ _ HD E)].
  - destruct av; [discriminate|]. destruct v as [| |vs| | |]; try reflexivity.
    rewrite (items_loop_ext _ (comp_loop (gcheck ra ci' f D) fs)).
    + destruct (items_loop _ vs); [rewrite !coll_av_none|]; reflexivity.
    + intros es. apply comp_loop_ext. intros k T x Hin. apply IH; [exact HD | exact (clean_fields _ _ _ HT Hin)]. Qed.

(* the code's algorithm is the Spec *)
Theorem impl_refines f D T v : eval_item f D T v = check f D T v.
Proof. unfold eval_item, check. apply eval_item_generic. Qed.

(* the pinned commit agreed with the Spec exactly where no referenced type and no collection type carried allowed values *)
Fixpoint plain_refs (T : idef) : bool :=
  match T with
  | IRef _ av => match av with None => true | Some _ => false end
  | IComp fs _ | ICollComp fs _ => forallb (fun e => plain_refs (snd e)) fs
  | _ => true
  end.

Lemma gcheck_plain_refs ci : forall f D T v, forallb (fun e => plain_refs (snd e)) D = true -> plain_refs T = true ->
  gcheck false ci f D T v = gcheck true ci f D T v.
Proof. induction f as [|f IH]; intros D T v HD HT; [reflexivity|].
  assert (HL : forall n T', dlookup n D = Some T' -> plain_refs T' = true).
  { intros n T' E. rewrite forallb_forall in HD. apply (HD (n, T')). apply dlookup_in. exact E. }
  assert (HF : forall (fs : list (N * idef)) (k : N) T', forallb (fun e => plain_refs (snd e)) fs = true -> In (k, T') fs -> plain_refs T' = true).
  { intros fs k T' H Hin. rewrite forallb_forall in H. apply (H (k, T')). exact Hin. }
  destruct T as [p av|n av|fs av|p av|n av|fs av]; cbn [gcheck]; cbn [plain_refs] in HT.
  - reflexivity.
  - destruct av; [discriminate|]. destruct (dlookup n D) as [T'|] eqn:E; [|reflexivity]. rewrite (IH D T' v HD (HL _ _ E)).
    unfold check_av. cbn [av_ok]. reflexivity.
  - destruct v; try reflexivity. rewrite (comp_loop_ext _ (gcheck true ci f D)); [reflexivity|].
    intros k T x Hin. apply IH; [exact HD | exact (HF _ _ _ HT Hin)].
  - reflexivity.
  - destruct v as [| |vs| | |]; try reflexivity. destruct (dlookup n D) as [T'|] eqn:E; [|reflexivity].
    f_equal. apply map_ext. intros x. apply IH; [exact HD | exact (HL _ _ E)].
  - destruct v as [| |vs| | |]; try reflexivity.
    rewrite (items_loop_ext _ (comp_loop (gcheck true ci f D) fs)); [reflexivity|].
    intros es. apply comp_loop_ext. intros k T x Hin. apply IH; [exact HD | exact (HF _ _ _ HT Hin)]. Qed.

Theorem orig_agrees_outside_findings f D T v :
  clean_defs D = true -> clean T = true -> forallb (fun e => plain_refs (snd e)) D = true -> plain_refs T = true ->
  eval_item_orig f D T v = check f D T v.
Proof. intros HD HT HP HPT. unfold eval_item_orig, check. rewrite eval_item_generic.
  rewrite (gcheck_plain_refs false f D T v HP HPT). apply gcheck_clean; assumption. Qed.

(* ---------- more fuel than the tree needs changes nothing ---------- *)
Lemma enough_fields f D (fs : list (N * idef)) (k : N) T : forallb (fun e => enough f D (snd e)) fs = true -> In (k, T) fs -> enough f D T = true.
Proof. intros H Hin. rewrite forallb_forall in H. apply (H (k, T)). exact Hin. Qed.

(* one layer of the algorithm over the function used for the sub-trees *)
Definition gstep (ra ci : bool) (rec : defs -> idef -> value -> value) (D : defs) (T : idef) (v : value) : value :=
  match T with
  | ISimple p av => if is_atom p v then check_av av v else VNull
  | IRef n av =>
      match dlookup n D with
      | Some T' => let r := rec D T' v in if ra then check_av av r else r
      | None => VNull
      end
  | IComp fs av =>
      match v with
      | VCtx es => match comp_loop (rec D) fs es with Some es' => check_av av (VCtx es') | None => VNull end
      | _ => VNull
      end
  | ICollSimple p av =>
      match v with
      | VList vs => if forallb (is_atom p) vs then coll_av ci av vs else VNull
      | _ => VNull
      end
  | ICollRef n av =>
      match v with
      | VList vs => match dlookup n D with Some T' => coll_av ci av (map (rec D T') vs) | None => VNull end
      | _ => VNull
      end
  | ICollComp fs av =>
      match v with
      | VList vs => match items_loop (comp_loop (rec D) fs) vs with Some vs' => coll_av ci av vs' | None => VNull end
      | _ => VNull
      end
  end.

Lemma gcheck_unfold ra ci f D T v : gcheck ra ci (S f) D T v = gstep ra ci (gcheck ra ci f) D T v.
Proof. reflexivity. Qed.

Definition subs (D : defs) (T : idef) : list idef :=
  match T with
  | IRef n _ | ICollRef n _ => match dlookup n D with Some T' => [T'] | None => [] end
  | IComp fs _ | ICollComp fs _ => map snd fs
  | _ => []
  end.

Lemma gstep_ext ra ci rec1 rec2 D T v : (forall T', In T' (subs D T) -> forall x, rec1 D T' x = rec2 D T' x) ->
  gstep ra ci rec1 D T v = gstep ra ci rec2 D T v.
Proof. intros H. unfold gstep. unfold subs in H. destruct T as [p av|n av|fs av|p av|n av|fs av]; try reflexivity.
  - destruct (dlookup n D) as [T'|]; [|reflexivity]. rewrite (H T' (or_introl eq_refl)). reflexivity.
  - destruct v; try reflexivity. rewrite (comp_loop_ext _ (rec2 D)); [reflexivity|].
    intros k T x Hin. apply H. apply in_map_iff. exists (k, T). split; [reflexivity | exact Hin].
  - destruct v as [| |vs| | |]; try reflexivity. destruct (dlookup n D) as [T'|]; [|reflexivity].
    f_equal. apply map_ext. intros x. apply H. left. reflexivity.
  - destruct v as [| |vs| | |]; try reflexivity.
    rewrite (items_loop_ext _ (comp_loop (rec2 D) fs)); [reflexivity|].
    intros es. apply comp_loop_ext. intros k T x Hin. apply H. apply in_map_iff. exists (k, T). split; [reflexivity | exact Hin]. Qed.

Lemma enough_subs f D T : enough (S f) D T = true -> forall T', In T' (subs D T) -> enough f D T' = true.
Proof. cbn [enough]. unfold subs. destruct T as [p av|n av|fs av|p av|n av|fs av]; intros H T' Hin; try destruct Hin.
  - destruct (dlookup n D) as [T0|]; [|destruct Hin]. destruct Hin as [<-|[]]. exact H.
  - apply in_map_iff in Hin. destruct Hin as [[k T0] [<- Hin]]. exact (enough_fields _ _ _ _ _ H Hin).
  - destruct (dlookup n D) as [T0|]; [|destruct Hin]. destruct Hin as [<-|[]]. exact H.
  - apply in_map_iff in Hin. destruct Hin as [[k T0] [<- Hin]]. exact (enough_fields _ _ _ _ _ H Hin). Qed.

Theorem gcheck_fuel ra ci : forall f D T v, enough f D T = true -> gcheck ra ci (S f) D T v = gcheck ra ci f D T v.
Proof. induction f as [|f IH]; intros D T v H; [discriminate|].
  rewrite (gcheck_unfold ra ci (S f)), (gcheck_unfold ra ci f). apply gstep_ext.
  intros T' Hin x. apply IH. exact (enough_subs f D T H T' Hin). Qed.

Lemma enough_S : forall f D T, enough f D T = true -> enough (S f) D T = true.
Proof. induction f as [|f IH]; intros D T H; [discriminate|]. destruct T as [p av|n av|fs av|p av|n av|fs av]; cbn [enough] in *; try reflexivity.
  - destruct (dlookup n D) as [T'|]; [apply IH; exact H | reflexivity].
  - apply forallb_forall. intros [k T] Hin. cbn [snd]. apply IH. exact (enough_fields _ _ _ _ _ H Hin).
  - destruct (dlookup n D) as [T'|]; [apply IH; exact H | reflexivity].
  - apply forallb_forall. intros [k T] Hin. cbn [snd]. apply IH. exact (enough_fields _ _ _ _ _ H Hin). Qed.

Theorem fuel_sufficient f g D T v : enough f D T = true -> f <= g -> check g D T v = check f D T v.
Proof. intros H Hle. induction Hle as [|g Hle IH]; [reflexivity|]. unfold check in *. rewrite <- IH. apply gcheck_fuel.
  clear IH. induction Hle as [|g Hle IH]; [exact H | apply enough_S; exact IH]. Qed.

(* ---------- null stays null ---------- *)
Lemma check_av_null av : check_av av VNull = VNull.
Proof. unfold check_av. destruct (av_ok av VNull); reflexivity. Qed.

Lemma gcheck_null ra ci : forall f D T, gcheck ra ci f D T VNull = VNull.
Proof. induction f as [|f IH]; intros D T; [reflexivity|]. destruct T as [p av|n av|fs av|p av|n av|fs av]; cbn [gcheck]; try reflexivity.
  destruct (dlookup n D) as [T'|]; [|reflexivity]. rewrite IH. destruct ra; [apply check_av_null | reflexivity]. Qed.

(* ---------- ascending keys ---------- *)
Lemma ascending_lt x l : ascending (x :: l) = true -> forall y, In y l -> (x < y)%N.
Proof. revert x. induction l as [|z l IH]; intros x H y Hin; [destruct Hin|].
  cbn [ascending] in H. apply andb_true_iff in H. destruct H as [H1 H2]. apply N.ltb_lt in H1.
  destruct Hin as [<-|Hin]; [exact H1|]. specialize (IH z H2 y Hin). lia. Qed.

Lemma ascending_tail x l : ascending (x :: l) = true -> ascending l = true.
Proof. cbn [ascending]. intros H. apply andb_true_iff in H. destruct H as [_ H]. exact H. Qed.

Lemma vlookup_not_in k es : ~ In k (map fst es) -> vlookup k es = None.
Proof. induction es as [|[k' x] r IH]; intros H; [reflexivity|]. cbn [vlookup]. cbn [map fst In] in H.
  destruct (N.eqb k k') eqn:E; [apply N.eqb_eq in E; subst; exfalso; apply H; left; reflexivity|].
  apply IH. intro Hin. apply H. right. exact Hin. Qed.

Lemma vlookup_ascending es : ascending (map fst es) = true -> forall k x, In (k, x) es -> vlookup k es = Some x.
Proof. induction es as [|[k' x'] r IH]; intros H k x Hin; [destruct Hin|]. cbn [vlookup]. cbn [map fst] in H.
  destruct Hin as [Heq|Hin].
  - injection Heq as -> ->. rewrite N.eqb_refl. reflexivity.
  - assert (Hlt : (k' < k)%N). { apply (ascending_lt k' (map fst r) H). apply in_map_iff. exists (k, x). split; [reflexivity | exact Hin]. }
    destruct (N.eqb k k') eqn:E; [apply N.eqb_eq in E; lia|]. apply IH; [exact (ascending_tail _ _ H) | exact Hin]. Qed.

Lemma comp_conf_keys c fs es : comp_conf c fs es = true -> map fst fs = map fst es.
Proof. revert es. induction fs as [|[k T] fr IH]; intros [|[k' x] er]; cbn [comp_conf]; try discriminate; [reflexivity|].
  intros H. apply andb_true_iff in H. destruct H as [H H3]. apply andb_true_iff in H. destruct H as [H1 H2].
  apply N.eqb_eq in H1. subst. cbn [map fst]. f_equal. apply IH. exact H3. Qed.

(* a context whose entries are accepted component by component is rebuilt unchanged by the component loop *)
Lemma comp_loop_pass c ev es0 : forall fs es,
  comp_conf c fs es = true ->
  (forall k x, In (k, x) es -> vlookup k es0 = Some x) ->
  (forall k T x, In (k, T) fs -> c T x = true -> ev T x = x) ->
  comp_loop ev fs es0 = Some es.
Proof. induction fs as [|[k T] fr IH]; intros [|[k' x] er]; cbn [comp_conf]; try discriminate; [reflexivity|].
  intros H Hl Hev. apply andb_true_iff in H. destruct H as [H H3]. apply andb_true_iff in H. destruct H as [H1 H2].
  apply N.eqb_eq in H1. subst k'. cbn [comp_loop]. rewrite (Hl k x (or_introl eq_refl)).
  rewrite (IH er H3); [|intros k1 x1 Hin; apply Hl; right; exact Hin | intros k1 T1 x1 Hin; apply (Hev k1); right; exact Hin].
  rewrite (Hev k T x (or_introl eq_refl) H2). reflexivity. Qed.

Lemma wf_fields fs av k T : wf_idef (IComp fs av) = true -> In (k, T) fs -> wf_idef T = true.
Proof. cbn [wf_idef]. intros H Hin. apply andb_true_iff in H. destruct H as [_ H]. rewrite forallb_forall in H. apply (H (k, T)). exact Hin. Qed.

Lemma wf_lookup D n T : wf_defs D = true -> dlookup n D = Some T -> wf_idef T = true.
Proof. intros HD HL. unfold wf_defs in HD. rewrite forallb_forall in HD. apply (HD (n, T)). apply dlookup_in. exact HL. Qed.

Lemma map_id_in {A} (g : A -> A) l : (forall x, In x l -> g x = x) -> map g l = l.
Proof. induction l as [|x r IH]; intros H; [reflexivity|]. cbn [map]. rewrite (H x (or_introl eq_refl)), IH; [reflexivity|].
  intros y Hy. apply H. right. exact Hy. Qed.

Lemma items_loop_pass ev vs :
  (forall x, In x vs -> match x with VCtx es => ev es = Some es | _ => False end) -> items_loop ev vs = Some vs.
Proof. induction vs as [|x r IH]; intros H; [reflexivity|]. cbn [items_loop].
  pose proof (H x (or_introl eq_refl)) as Hx. destruct x as [| | |es| |]; try contradiction.
  rewrite Hx, IH; [reflexivity|]. intros y Hy. apply H. right. exact Hy. Qed.

(* ---------- conforming (even loosely conforming) values pass unchanged ---------- *)
Theorem pass_loose loose : forall f D T v, wf_defs D = true -> wf_idef T = true ->
  gconf loose f D T v = true -> check f D T v = v.
Proof. unfold check. induction f as [|f IH]; intros D T v HD HT H; [discriminate|].
  assert (Hsub : forall T' x, wf_idef T' = true -> (loose && is_null x) || gconf loose f D T' x = true -> gcheck true true f D T' x = x).
  { intros T' x HT' Hs. apply orb_true_iff in Hs. destruct Hs as [Hs|Hs].
    - apply andb_true_iff in Hs. destruct Hs as [_ Hs]. destruct x; try discriminate. apply gcheck_null.
    - apply IH; assumption. }
  destruct T as [p av|n av|fs av|p av|n av|fs av]; cbn [gconf] in H; cbn [gcheck].
  - apply andb_true_iff in H. destruct H as [H1 H2]. rewrite H1. unfold check_av. rewrite H2. reflexivity.
  - destruct (dlookup n D) as [T'|] eqn:E; [|discriminate]. apply andb_true_iff in H. destruct H as [H1 H2].
    rewrite (IH D T' v HD (wf_lookup _ _ _ HD E) H1). unfold check_av. rewrite H2. reflexivity.
  - destruct v as [| | |es| |]; try discriminate. apply andb_true_iff in H. destruct H as [H1 H2].
    assert (Hasc : ascending (map fst es) = true).
    { rewrite <- (comp_conf_keys _ _ _ H1). cbn [wf_idef] in HT. apply andb_true_iff in HT. destruct HT as [HT _]. exact HT. }
    rewrite (comp_loop_pass _ _ es fs es H1).
    + unfold check_av. rewrite H2. reflexivity.
    + apply vlookup_ascending. exact Hasc.
    + intros k T x Hin Hc. apply Hsub; [exact (wf_fields _ _ _ _ HT Hin) | exact Hc].
  - destruct v as [| |vs| | |]; try discriminate. apply andb_true_iff in H. destruct H as [H1 H2]. rewrite H1.
    unfold coll_av. rewrite H2. reflexivity.
  - destruct v as [| |vs| | |]; try discriminate. destruct (dlookup n D) as [T'|] eqn:E; [|discriminate].
    apply andb_true_iff in H. destruct H as [H1 H2]. rewrite forallb_forall in H1.
    rewrite map_id_in; [unfold coll_av; rewrite H2; reflexivity|].
    intros x Hx. apply Hsub; [exact (wf_lookup _ _ _ HD E) | apply H1; exact Hx].
  - destruct v as [| |vs| | |]; try discriminate. apply andb_true_iff in H. destruct H as [H1 H2]. rewrite forallb_forall in H1.
    rewrite items_loop_pass; [unfold coll_av; rewrite H2; reflexivity|].
    intros x Hx. specialize (H1 x Hx). destruct x as [| | |es| |]; try discriminate.
    assert (Hasc : ascending (map fst es) = true).
    { rewrite <- (comp_conf_keys _ _ _ H1). cbn [wf_idef] in HT. apply andb_true_iff in HT. destruct HT as [HT _]. exact HT. }
    apply (comp_loop_pass _ _ es fs es H1).
    + apply vlookup_ascending. exact Hasc.
    + intros k T x Hin Hc. apply Hsub; [|exact Hc].
      cbn [wf_idef] in HT. apply andb_true_iff in HT. destruct HT as [_ HT]. rewrite forallb_forall in HT. apply (HT (k, T)). exact Hin. Qed.

Theorem pass_unchanged f D T v : wf_defs D = true -> wf_idef T = true -> conforms f D T v = true -> check f D T v = v.
Proof. apply pass_loose. Qed.

(* ---------- the result conforms (up to nulled components) or is null ---------- *)
Lemma comp_loop_conf c ev es : forall fs es',
  comp_loop ev fs es = Some es' -> (forall k T x, In (k, T) fs -> c T (ev T x) = true) -> comp_conf c fs es' = true.
Proof. induction fs as [|[k T] fr IH]; intros es' H Hc; cbn [comp_loop] in H.
  - injection H as <-. reflexivity.
  - destruct (vlookup k es) as [x|]; [|discriminate]. destruct (comp_loop ev fr es) as [o|] eqn:E; [|discriminate].
    injection H as <-. cbn [comp_conf]. rewrite N.eqb_refl, (Hc k T x (or_introl eq_refl)). cbn [andb].
    apply (IH o eq_refl). intros k1 T1 x1 Hin. apply (Hc k1). right. exact Hin. Qed.

Lemma items_loop_all ev (P : value -> bool) : forall vs vs',
  items_loop ev vs = Some vs' -> (forall es es', ev es = Some es' -> P (VCtx es') = true) -> forallb P vs' = true.
Proof. induction vs as [|x r IH]; intros vs' H HP; cbn [items_loop] in H.
  - injection H as <-. reflexivity.
  - destruct x as [| | |es| |]; try discriminate. destruct (ev es) as [es'|] eqn:E; [|discriminate].
    destruct (items_loop ev r) as [o|] eqn:E2; [|discriminate]. injection H as <-. cbn [forallb].
    rewrite (HP es es' E). cbn [andb]. apply (IH o eq_refl HP). Qed.

Theorem result_conforms_or_null : forall f D T v,
  check f D T v = VNull \/ wconforms f D T (check f D T v) = true.
Proof. unfold check, wconforms. induction f as [|f IH]; intros D T v; [left; reflexivity|].
  assert (Hsub : forall T' x, (true && is_null (gcheck true true f D T' x)) || gconf true f D T' (gcheck true true f D T' x) = true).
  { intros T' x. destruct (IH D T' x) as [E|E]; [rewrite E; reflexivity | rewrite E; apply orb_true_r]. }
  destruct T as [p av|n av|fs av|p av|n av|fs av]; cbn [gcheck].
  - destruct (is_atom p v) eqn:E1; [|left; reflexivity]. unfold check_av. destruct (av_ok av v) eqn:E2; [|left; reflexivity].
    right. cbn [gconf]. rewrite E1, E2. reflexivity.
  - destruct (dlookup n D) as [T'|] eqn:E; [|left; reflexivity]. unfold check_av.
    destruct (av_ok av (gcheck true true f D T' v)) eqn:E2; [|left; reflexivity].
    destruct (IH D T' v) as [E3|E3]; [left; exact E3|]. right. cbn [gconf]. rewrite E, E3, E2. reflexivity.
  - destruct v as [| | |es| |]; try (left; reflexivity). destruct (comp_loop _ fs es) as [es'|] eqn:E; [|left; reflexivity].
    unfold check_av. destruct (av_ok av (VCtx es')) eqn:E2; [|left; reflexivity]. right. cbn [gconf]. rewrite E2.
    rewrite (comp_loop_conf _ _ _ _ _ E); [reflexivity|]. intros k T x _. apply Hsub.
  - destruct v as [| |vs| | |]; try (left; reflexivity). destruct (forallb (is_atom p) vs) eqn:E1; [|left; reflexivity].
    unfold coll_av. destruct (forallb (av_ok av) vs) eqn:E2; [|left; reflexivity]. right. cbn [gconf]. rewrite E1, E2. reflexivity.
  - destruct v as [| |vs| | |]; try (left; reflexivity). destruct (dlookup n D) as [T'|] eqn:E; [|left; reflexivity].
    unfold coll_av. destruct (forallb (av_ok av) _) eqn:E2; [|left; reflexivity]. right. cbn [gconf]. rewrite E, E2.
    rewrite andb_true_r. apply forallb_forall. intros y Hy. apply in_map_iff in Hy. destruct Hy as [x [<- _]]. apply Hsub.
  - destruct v as [| |vs| | |]; try (left; reflexivity). destruct (items_loop _ vs) as [vs'|] eqn:E; [|left; reflexivity].
    unfold coll_av. destruct (forallb (av_ok av) vs') eqn:E2; [|left; reflexivity]. right. cbn [gconf]. rewrite E2, andb_true_r.
    apply (items_loop_all _ _ _ _ E). intros es es' E3. apply (comp_loop_conf _ _ _ _ _ E3). intros k T x _. apply Hsub. Qed.

(* ---------- checking twice = checking once ---------- *)
Theorem idempotent f D T v : wf_defs D = true -> wf_idef T = true ->
  check f D T (check f D T v) = check f D T v.
Proof. intros HD HT. destruct (result_conforms_or_null f D T v) as [E|E].
  - rewrite E. apply gcheck_null.
  - apply (pass_loose true); assumption. Qed.

(* ---------- a component type judges every component on its own ---------- *)
Lemma comp_loop_present ev fs es :
  (forall k, In k (map fst fs) -> vlookup k es <> None) ->
  comp_loop ev fs es = Some (map (fun e => (fst e, ev (snd e) (vget (fst e) es))) fs).
Proof. induction fs as [|[k T] fr IH]; intros H; [reflexivity|]. cbn [comp_loop map fst snd]. unfold vget at 1.
  destruct (vlookup k es) as [x|] eqn:E; [|exfalso; apply (H k); [left; reflexivity | exact E]].
  rewrite IH; [reflexivity|]. intros k' Hin. apply H. right. exact Hin. Qed.

Theorem component_local f D fs es :
  (forall k, In k (map fst fs) -> vlookup k es <> None) ->
  check (S f) D (IComp fs None) (VCtx es) = VCtx (map (fun e => (fst e, check f D (snd e) (vget (fst e) es))) fs).
Proof. intros H. unfold check. cbn [gcheck]. rewrite (comp_loop_present _ _ _ H). reflexivity. Qed.

(* a missing component makes the whole value null (the value is not a value of the component type) *)
Theorem component_missing f D fs av es k : In k (map fst fs) -> vlookup k es = None ->
  check (S f) D (IComp fs av) (VCtx es) = VNull.
Proof. intros Hin Hn. unfold check. cbn [gcheck].
  assert (E : comp_loop (gcheck true true f D) fs es = None).
  { induction fs as [|[k' T] fr IH]; [destruct Hin|]. cbn [comp_loop]. cbn [map fst In] in Hin.
    destruct (N.eq_dec k' k) as [->|Hne]; [rewrite Hn; reflexivity|].
    destruct (vlookup k' es); [|reflexivity]. rewrite IH; [reflexivity|]. destruct Hin as [Hk|Hin]; [contradiction | exact Hin]. }
  rewrite E. reflexivity. Qed.

(* ---------- input side: the variable evaluator is the Spec ---------- *)
Theorem var_eval_refines f D name r input : var_eval f D name r input = input_spec f D name r input.
Proof. unfold var_eval, var_eval_gen, input_spec. destruct input as [| | |es| |]; try reflexivity.
  destruct (vlookup name es) as [x|]; [|reflexivity]. destruct r as [|p|n]; [reflexivity | apply var_copy_uniform |].
  destruct (dlookup n D) as [T|] eqn:E; [|reflexivity]. apply impl_refines. Qed.

(* ---------- the two deviations of the pinned commit, as witnesses ---------- *)
Definition D_small : defs := [(1%N, ISimple PNumber None); (2%N, IRef 1%N (Some [ULt 10%N]))].

Theorem referenced_orig_refuted :
  conforms 5 D_small (IRef 1%N (Some [ULt 10%N])) (VAtom SNumber 50%N) = false /\
  check 5 D_small (IRef 1%N (Some [ULt 10%N])) (VAtom SNumber 50%N) = VNull /\
  eval_item 5 D_small (IRef 1%N (Some [ULt 10%N])) (VAtom SNumber 50%N) = VNull /\
  eval_item_orig 5 D_small (IRef 1%N (Some [ULt 10%N])) (VAtom SNumber 50%N) = VAtom SNumber 50%N.
Proof. vm_compute. auto. Qed.

Theorem collection_orig_refuted :
  let T := ICollSimple PNumber (Some [ULt 10%N]) in
  let v := VList [VAtom SNumber 5%N] in
  clean T = false /\ conforms 5 [] T v = true /\ check 5 [] T v = v /\ eval_item 5 [] T v = v /\ eval_item_orig 5 [] T v = VNull /\
  eval_item 5 [] T (VList [VAtom SNumber 5%N; VAtom SNumber 50%N]) = VNull.
Proof. vm_compute. repeat split; reflexivity. Qed.

(* ---------- output side ---------- *)
Lemma nodupb_ascending l : ascending l = true -> nodupb l = true.
Proof. induction l as [|x r IH]; intros H; [reflexivity|]. cbn [nodupb]. rewrite (IH (ascending_tail _ _ H)), andb_true_r.
  apply negb_true_iff. destruct (existsb (N.eqb x) r) eqn:E; [|reflexivity]. apply existsb_exists in E. destruct E as [y [Hy Heq]].
  apply N.eqb_eq in Heq. subst y. pose proof (ascending_lt x r H x Hy). lia. Qed.

Lemma ascending_cons_lt x l : ascending l = true -> (forall y, In y l -> (x < y)%N) -> ascending (x :: l) = true.
Proof. intros H Hlt. cbn [ascending]. rewrite H, andb_true_r. destruct l as [|y r]; [reflexivity|]. apply N.ltb_lt. apply Hlt. left. reflexivity. Qed.

Lemma comp_types_keys ty fs k : In k (map fst (comp_types ty fs)) -> In k (map fst fs).
Proof. induction fs as [|[k' T] r IH]; cbn [comp_types]; [tauto|]. destruct (ty T); cbn [map fst In]; intros H.
  - destruct H as [H|H]; [left; exact H | right; apply IH; exact H].
  - right. apply IH. exact H. Qed.

Lemma comp_types_ascending ty fs : ascending (map fst fs) = true -> ascending (map fst (comp_types ty fs)) = true.
Proof. induction fs as [|[k T] r IH]; intros H; [reflexivity|]. cbn [map fst] in H. cbn [comp_types].
  specialize (IH (ascending_tail _ _ H)). destruct (ty T); [|exact IH]. cbn [map fst]. apply ascending_cons_lt; [exact IH|].
  intros y Hy. apply (ascending_lt k _ H). apply (comp_types_keys _ _ _ Hy). Qed.

Lemma comp_types_wf ty fs : (forall k T t, In (k, T) fs -> ty T = Some t -> wf t = true) ->
  forallb (fun e => wf (snd e)) (comp_types ty fs) = true.
Proof. induction fs as [|[k T] r IH]; intros H; [reflexivity|]. cbn [comp_types].
  assert (Hr : forallb (fun e => wf (snd e)) (comp_types ty r) = true) by (apply IH; intros k1 T1 t1 Hin; apply (H k1); right; exact Hin).
  destruct (ty T) as [t|] eqn:E; [|exact Hr]. cbn [forallb snd]. rewrite Hr, (H k T t (or_introl eq_refl) E). reflexivity. Qed.

Lemma idef_type_wf : forall f D T t, wf_defs D = true -> wf_idef T = true -> idef_type f D T = Some t -> wf t = true.
Proof. induction f as [|f IH]; intros D T t HD HT H; [discriminate|].
  assert (Hctx : forall fs, ascending (map fst fs) && forallb (fun e => wf_idef (snd e)) fs = true -> wf (TCtx (comp_types (idef_type f D) fs)) = true).
  { intros fs Hfs. apply andb_true_iff in Hfs. destruct Hfs as [H1 H2]. cbn [wf]. apply andb_true_iff. split.
    - apply nodupb_ascending. apply comp_types_ascending. exact H1.
    - apply comp_types_wf. intros k T0 t0 Hin Ht. rewrite forallb_forall in H2. apply (IH D T0 t0 HD (H2 (k, T0) Hin) Ht). }
  destruct T as [p av|n av|fs av|p av|n av|fs av]; cbn [idef_type] in H.
  - rewrite type_simple_copy_uniform in H. injection H as <-. reflexivity.
  - destruct (dlookup n D) as [T'|] eqn:E; [|discriminate]. apply (IH D T' t HD (wf_lookup _ _ _ HD E) H).
  - injection H as <-. apply Hctx. exact HT.
  - rewrite type_coll_copy_uniform in H. injection H as <-. reflexivity.
  - destruct (dlookup n D) as [T'|] eqn:E; [|discriminate]. destruct (idef_type f D T') as [t'|] eqn:E2; [|discriminate].
    injection H as <-. cbn [wf]. apply (IH D T' t' HD (wf_lookup _ _ _ HD E) E2).
  - injection H as <-. cbn [wf]. apply Hctx. exact HT. Qed.

Lemma var_type_wf f D r : wf_defs D = true -> wf (var_type f D r) = true.
Proof. intros HD. destruct r as [|p|n]; cbn [var_type]; try reflexivity.
  destruct (dlookup n D) as [T|] eqn:E; [|reflexivity]. destruct (idef_type f D T) as [t|] eqn:E2; [|reflexivity].
  apply (idef_type_wf f D T t HD (wf_lookup _ _ _ HD E) E2). Qed.

Theorem output_conforms_or_null f D r v : wf_defs D = true -> wfv v = true ->
  output_value f D r v = VNull \/ conformant (type_of (output_value f D r v)) (var_type f D r) = true.
Proof. intros HD Hv. apply coerced_conforms_or_null; [apply var_type_wf; exact HD | exact Hv]. Qed.

Theorem output_unchanged f D r v : conformant (type_of v) (var_type f D r) = true -> output_value f D r v = v.
Proof. apply coerced_identity. Qed.

Theorem output_wrap f D r item v : var_type f D r = TList item ->
  conformant (type_of v) (TList item) = false -> conformant (type_of v) item = true -> output_value f D r v = VList [v].
Proof. intros E H1 H2. unfold output_value. rewrite E. apply coerced_wrap; assumption. Qed.

Theorem output_unwrap f D r x : conformant (type_of (VList [x])) (var_type f D r) = false -> conformant (type_of x) (var_type f D r) = true ->
  (forall item, var_type f D r = TList item -> conformant (type_of (VList [x])) item = false) -> output_value f D r (VList [x]) = x.
Proof. apply coerced_unwrap. Qed.

Theorem output_idempotent f D r v : wf_defs D = true -> wfv v = true ->
  output_value f D r (output_value f D r v) = output_value f D r v.
Proof. intros HD Hv. apply coerced_idempotent; [apply var_type_wf; exact HD | exact Hv]. Qed.

(* ---------- non-vacuity ---------- *)
Definition D_ex : defs :=
  [(1%N, ISimple PNumber (Some [ULt 10%N; UIv 20%N true 30%N false]));
   (2%N, IComp [(1%N, IRef 1%N None); (2%N, ISimple PString (Some [ULit SString 1%N]))] None);
   (3%N, ICollRef 2%N None)].

Example nonvacuous :
  wf_defs D_ex = true /\ clean_defs D_ex = true /\
  let good := VList [VCtx [(1%N, VAtom SNumber 25%N); (2%N, VAtom SString 1%N)]] in
  let bad := VList [VCtx [(1%N, VAtom SNumber 30%N); (2%N, VAtom SString 1%N)]; VAtom SNumber 1%N] in
  conforms 9 D_ex (ICollRef 2%N None) good = true /\
  eval_item 9 D_ex (ICollRef 2%N None) good = good /\
  eval_item 9 D_ex (ICollRef 2%N None) bad = VList [VCtx [(1%N, VNull); (2%N, VAtom SString 1%N)]; VNull].
Proof. vm_compute. auto. Qed.
