(* C06 — the parser builds the tree dictated by FEEL precedence and associativity.
   Owner: builder-parse.

   Spec layer for the operator fragment of FEEL (feel-grammar/src/feel.y lines 73-90 as data):
   trees, tokens, the two renderers (fully / minimally parenthesised) and a precedence-climbing parser.
   Tokens are the parser's tokens (the `and` that closes `between` is the separate token TBand, as the
   lexer delivers it); the text level (white space, comments, literals, keyword recognition) is tied to
   the code by the correspondence check, the string-literal decoding by the model at the end of this file.
   No proofs here. *)
From Coq Require Import List NArith Bool Arith.
Import ListNotations.

(* ------------------------------------------------------------------ operator table *)

Inductive binop := Or | And | Eq | Nq | Lt | Le | Gt | Ge | InOp | Sub | Add | Mul | Div | Exp.

Inductive assoc := LeftA | RightA | NonA.

(* precedence levels = line numbers of the %left/%right/%nonassoc/%precedence declarations of feel.y, counted from 1:
   1 RETURN EXTERNAL SATISFIES, 2 ELSE, 3 OR, 4 AND, 5 comparisons (nonassoc), 6 BETWEEN, 7 BETWEEN_AND, 8 IN (right),
   9 MINUS PLUS, 10 MUL DIV, 11 EXP (left), 12 PREC_NEG, 13 INSTANCE, 14 NAME.., 15 LEFT_PAREN LEFT_BRACKET, 16 DOT *)
Definition lv (o : binop) : nat :=
  match o with
  | Or => 3 | And => 4
  | Eq | Nq | Lt | Le | Gt | Ge => 5
  | InOp => 8
  | Sub | Add => 9
  | Mul | Div => 10
  | Exp => 11
  end.

Definition asc (o : binop) : assoc :=
  match o with
  | Eq | Nq | Lt | Le | Gt | Ge => NonA
  | InOp => RightA
  | _ => LeftA
  end.

Definition is_non (o : binop) : bool := match asc o with NonA => true | _ => false end.

(* minimal level of an unparenthesised left / right operand *)
Definition lc (o : binop) : nat := match asc o with LeftA => lv o | _ => S (lv o) end.
Definition rc (o : binop) : nat := match asc o with RightA => lv o | _ => S (lv o) end.

Definition lv_between : nat := 6.     (* BETWEEN: when `between` may start after an operand *)
Definition rc_between : nat := 8.     (* upper bound: operators above BETWEEN_AND (7) *)
Definition lv_neg : nat := 12.
Definition c_neg : nat := 13.         (* operand of unary minus: only instance of / path / filter / invocation bind tighter *)
Definition r_neg : nat := 12.         (* rendering of that operand: a nested unary minus needs no parentheses either (`- - a`) *)
Definition lv_inst : nat := 13.
Definition lv_post : nat := 15.
Definition c_post : nat := 13.        (* operand of a postfix form *)

(* ------------------------------------------------------------------ trees and tokens *)

Inductive tree :=
| Atom (a : N)                    (* literal or bound single-word name *)
| Bin (o : binop) (l r : tree)
| Neg (t : tree)
| Btw (x lo hi : tree)            (* x between lo and hi *)
| Inst (t : tree) (ty : N)        (* t instance of <built-in type ty> *)
| Path (t : tree) (n : N)         (* t . name *)
| Filt (t i : tree)               (* t [ i ] *)
| Call (f a : tree).              (* f ( a )   one positional argument *)

Inductive token :=
| TAtom (a : N)
| TOp (o : binop)                 (* TOp Sub in operand position is the unary minus *)
| TLp | TRp | TLb | TRb
| TBetween | TBand
| TInst (ty : N)                  (* instance of <type> *)
| TDot (n : N).                   (* . name *)

Definition lvl (t : tree) : nat :=
  match t with
  | Atom _ => 16
  | Bin o _ _ => lv o
  | Neg _ => lv_neg
  | Btw _ _ _ => lv_between
  | Inst _ _ => lv_inst
  | Path _ _ | Filt _ _ | Call _ _ => lv_post
  end.

(* ------------------------------------------------------------------ renderers *)

(* render_at m t: tokens of t in a position that admits level >= m without parentheses *)
Fixpoint render_at (m : nat) (t : tree) : list token :=
  let body :=
    match t with
    | Atom a => [TAtom a]
    | Bin o l r => render_at (lc o) l ++ TOp o :: render_at (rc o) r
    | Neg x => TOp Sub :: render_at r_neg x
    | Btw x lo hi => render_at lv_between x ++ TBetween :: render_at 0 lo ++ TBand :: render_at rc_between hi
    | Inst x ty => render_at c_post x ++ [TInst ty]
    | Path x n => render_at c_post x ++ [TDot n]
    | Filt x i => render_at c_post x ++ TLb :: render_at 0 i ++ [TRb]
    | Call f a => render_at c_post f ++ TLp :: render_at 0 a ++ [TRp]
    end in
  if lvl t <? m then TLp :: body ++ [TRp] else body.

Definition render_min (t : tree) : list token := render_at 0 t.

(* every operand in parentheses (atoms excepted: `(1)` and `1` are the same tree, the renderer keeps atoms bare) *)
Fixpoint render_full (t : tree) : list token :=
  let p (x : tree) := match x with Atom a => [TAtom a] | _ => TLp :: render_full x ++ [TRp] end in
  match t with
  | Atom a => [TAtom a]
  | Bin o l r => p l ++ TOp o :: p r
  | Neg x => TOp Sub :: p x
  | Btw x lo hi => p x ++ TBetween :: p lo ++ TBand :: p hi
  | Inst x ty => p x ++ [TInst ty]
  | Path x n => p x ++ [TDot n]
  | Filt x i => p x ++ TLb :: p i ++ [TRb]
  | Call f a => p f ++ TLp :: p a ++ [TRp]
  end.

(* removal of the k-th opening parenthesis (counted over TLp tokens, call parentheses included) together with its partner *)
Fixpoint drop_close (depth : nat) (ts : list token) : list token :=
  match ts with
  | [] => []
  | TLp :: r => TLp :: drop_close (S depth) r
  | TRp :: r => match depth with O => r | S d => TRp :: drop_close d r end
  | x :: r => x :: drop_close depth r
  end.

Fixpoint drop_paren (k : nat) (ts : list token) : list token :=
  match ts with
  | [] => []
  | TLp :: r => match k with O => drop_close 0 r | S k' => TLp :: drop_paren k' r end
  | x :: r => x :: drop_paren k r
  end.

(* ------------------------------------------------------------------ precedence-climbing parser *)

Definition pres := option (tree * list token).

(* the operator loop: l is the operand read so far, m the minimal level this loop may consume,
   na the level of the previous operator of this loop when it was non-associative (else 0) *)
Fixpoint loop (pe : nat -> list token -> pres) (g : nat) (m na : nat) (l : tree) (ts : list token) : pres :=
  match g with
  | O => None
  | S g' =>
    match ts with
    | TOp o :: r =>
      if m <=? lv o then
        if is_non o && (lv o =? na) then None
        else match pe (rc o) r with
             | Some (x, r') => loop pe g' m (if is_non o then lv o else 0) (Bin o l x) r'
             | None => None
             end
      else Some (l, ts)
    | TBetween :: r =>
      if m <=? lv_between then
        match pe 0 r with
        | Some (lo, TBand :: r1) =>
          match pe rc_between r1 with
          | Some (hi, r2) => loop pe g' m 0 (Btw l lo hi) r2
          | None => None
          end
        | _ => None
        end
      else Some (l, ts)
    | TInst ty :: r => if m <=? lv_inst then loop pe g' m 0 (Inst l ty) r else Some (l, ts)
    | TDot n :: r => if m <=? lv_post then loop pe g' m 0 (Path l n) r else Some (l, ts)
    | TLb :: r =>
      if m <=? lv_post then
        match pe 0 r with
        | Some (i, TRb :: r') => loop pe g' m 0 (Filt l i) r'
        | _ => None
        end
      else Some (l, ts)
    | TLp :: r =>
      if m <=? lv_post then
        match pe 0 r with
        | Some (a, TRp :: r') => loop pe g' m 0 (Call l a) r'
        | _ => None
        end
      else Some (l, ts)
    | _ => Some (l, ts)
    end
  end.

Definition prefix (pe : nat -> list token -> pres) (ts : list token) : pres :=
  match ts with
  | TAtom a :: r => Some (Atom a, r)
  | TOp Sub :: r => match pe c_neg r with Some (t, r') => Some (Neg t, r') | None => None end
  | TLp :: r => match pe 0 r with Some (t, TRp :: r') => Some (t, r') | _ => None end
  | _ => None
  end.

Fixpoint parse_expr (f : nat) (m : nat) (ts : list token) {struct f} : pres :=
  match f with
  | O => None
  | S f' =>
    match prefix (parse_expr f') ts with
    | Some (l, r) => loop (parse_expr f') f' m 0 l r
    | None => None
    end
  end.

Definition parse_fuel (f : nat) (ts : list token) : option tree :=
  match parse_expr f 0 ts with
  | Some (t, []) => Some t
  | _ => None
  end.

(* every level of recursion and every turn of the loop consumes a token, so length + 1 is enough fuel *)
Definition parse_tokens (ts : list token) : option tree := parse_fuel (S (length ts)) ts.

(* decidable equality on trees (used by the finite theorems) *)
Definition binop_eqb (a b : binop) : bool :=
  match a, b with
  | Or, Or | And, And | Eq, Eq | Nq, Nq | Lt, Lt | Le, Le | Gt, Gt | Ge, Ge | InOp, InOp | Sub, Sub | Add, Add | Mul, Mul | Div, Div | Exp, Exp => true
  | _, _ => false
  end.

Fixpoint tree_eqb (a b : tree) : bool :=
  match a, b with
  | Atom x, Atom y => N.eqb x y
  | Bin o l r, Bin o' l' r' => binop_eqb o o' && tree_eqb l l' && tree_eqb r r'
  | Neg x, Neg y => tree_eqb x y
  | Btw x l h, Btw x' l' h' => tree_eqb x x' && tree_eqb l l' && tree_eqb h h'
  | Inst x t, Inst x' t' => tree_eqb x x' && N.eqb t t'
  | Path x n, Path x' n' => tree_eqb x x' && N.eqb n n'
  | Filt x i, Filt x' i' => tree_eqb x x' && tree_eqb i i'
  | Call f x, Call f' x' => tree_eqb f f' && tree_eqb x x'
  | _, _ => false
  end.

Definition otree_eqb (a b : option tree) : bool :=
  match a, b with
  | Some x, Some y => tree_eqb x y
  | None, None => true
  | _, _ => false
  end.

(* ------------------------------------------------------------------ string literals (lexer.rs consume_string / consume_unicode) *)

(* characters are Unicode scalar values as N *)
Definition hexval (c : N) : option N :=
  if (48 <=? c)%N && (c <=? 57)%N then Some (c - 48)%N
  else if (65 <=? c)%N && (c <=? 70)%N then Some (c - 55)%N
  else if (97 <=? c)%N && (c <=? 102)%N then Some (c - 87)%N
  else None.

Fixpoint hexdigits (n : nat) (cs : list N) (acc : N) : option (N * list N) :=
  match n with
  | O => Some (acc, cs)
  | S k => match cs with
           | c :: r => match hexval c with Some d => hexdigits k r (acc * 16 + d)%N | None => None end
           | [] => None
           end
  end.

(* consume_unicode_literal: `\` `u` 4 hex digits | `\` `U` 6 hex digits *)
Definition unicode_literal (cs : list N) : option (N * list N) :=
  match cs with
  | b :: e :: r =>
    if (b =? 92)%N then
      if (e =? 117)%N then hexdigits 4 r 0 else if (e =? 85)%N then hexdigits 6 r 0 else None
    else None
  | _ => None
  end.

(* String::from_utf8 on the bytes of exactly one character: the scalar value, or None when the bytes are not valid UTF-8 *)
Definition cont (b : N) : bool := (128 <=? b)%N && (b <=? 191)%N.
Definition scalar (v : N) : bool := (v <? 55296)%N || ((57344 <=? v)%N && (v <=? 1114111)%N).

Definition utf8_decode (bs : list N) : option N :=
  match bs with
  | [b1] => if (b1 <? 128)%N then Some b1 else None
  | [b1; b2] =>
    if (194 <=? b1)%N && (b1 <=? 223)%N && cont b2 then Some ((b1 - 192) * 64 + (b2 - 128))%N else None
  | [b1; b2; b3] =>
    if (224 <=? b1)%N && (b1 <=? 239)%N && cont b2 && cont b3 then
      let v := ((b1 - 224) * 4096 + (b2 - 128) * 64 + (b3 - 128))%N in
      if (2048 <=? v)%N && scalar v then Some v else None
    else None
  | [b1; b2; b3; b4] =>
    if (240 <=? b1)%N && (b1 <=? 244)%N && cont b2 && cont b3 && cont b4 then
      let v := ((b1 - 240) * 262144 + (b2 - 128) * 4096 + (b3 - 128) * 64 + (b4 - 128))%N in
      if (65536 <=? v)%N && (v <=? 1114111)%N then Some v else None
    else None
  | _ => None
  end.

Definition low6 (v : N) : N := N.lor (N.land v 63) 128.

(* consume_unicode after the first literal has been read; mask4 is the mask of the last byte in the surrogate branch
   (63 in the repaired code, 255 in the original) *)
Definition unicode_char (mask4 : N) (v : N) (rest : list N) : option (N * list N) :=
  if (v <=? 127)%N then
    match utf8_decode [N.land v 127] with Some c => Some (c, rest) | None => None end
  else if (v <=? 2047)%N then
    match utf8_decode [N.lor (N.land (N.shiftr v 6) 31) 192; low6 v] with Some c => Some (c, rest) | None => None end
  else if (v <=? 55295)%N || ((57344 <=? v)%N && (v <=? 65535)%N) then
    match utf8_decode [N.lor (N.land (N.shiftr v 12) 15) 224; low6 (N.shiftr v 6); low6 v] with Some c => Some (c, rest) | None => None end
  else if (65536 <=? v)%N && (v <=? 1114111)%N then
    match utf8_decode [N.lor (N.land (N.shiftr v 18) 7) 240; low6 (N.shiftr v 12); low6 (N.shiftr v 6); low6 v] with
    | Some c => Some (c, rest) | None => None end
  else if (55296 <=? v)%N && (v <=? 56319)%N then
    match unicode_literal rest with
    | Some (lo, rest') =>
      if (56320 <=? lo)%N && (lo <=? 57343)%N then
        let cp := (65536 + (v - 55296) * 1024 + (lo - 56320))%N in
        let b4 := N.lor (N.land (N.land cp mask4) 255) 128 in
        match utf8_decode [N.lor (N.land (N.shiftr cp 18) 7) 240; low6 (N.shiftr cp 12); low6 (N.shiftr cp 6); b4] with
        | Some c => Some (c, rest') | None => None end
      else None
    | None => None
    end
  else None.

Definition vertical_space (c : N) : bool := (10 <=? c)%N && (c <=? 13)%N.

(* the character an escape letter stands for (apostrophe, quote, backslash, n, r, t) *)
Definition short_unescape (e : N) : option N :=
  if (e =? 39)%N then Some 39%N else if (e =? 34)%N then Some 34%N else if (e =? 92)%N then Some 92%N
  else if (e =? 110)%N then Some 10%N else if (e =? 114)%N then Some 13%N else if (e =? 116)%N then Some 9%N else None.

(* the body of consume_string after the opening quote: decoded characters and the input after the closing quote;
   one turn of the loop per decoded character *)
Fixpoint unescape_go (mask4 : N) (fuel : nat) (cs : list N) (acc : list N) : option (list N * list N) :=
  match fuel with
  | O => None
  | S f =>
    match cs with
    | [] => None
    | c :: r =>
      if (c =? 92)%N then
        match r with
        | e :: r' =>
          match short_unescape e with
          | Some d => unescape_go mask4 f r' (d :: acc)
          | None =>
            if (e =? 117)%N || (e =? 85)%N then
              match unicode_literal cs with
              | Some (v, r1) => match unicode_char mask4 v r1 with
                                | Some (x, r2) => unescape_go mask4 f r2 (x :: acc)
                                | None => None
                                end
              | None => None
              end
            else unescape_go mask4 f r (92%N :: acc)       (* an unknown escape keeps its backslash *)
          end
        | [] => unescape_go mask4 f r (92%N :: acc)
        end
      else if (c =? 34)%N then Some (rev acc, r)
      else if vertical_space c then None
      else unescape_go mask4 f r (c :: acc)
    end
  end.

(* the whole literal body must be consumed by the closing quote *)
Definition unescape_mask (mask4 : N) (body : list N) : option (list N) :=
  match unescape_go mask4 (S (length body)) (body ++ [34%N]) [] with
  | Some (s, []) => Some s
  | _ => None
  end.

Definition unescape : list N -> option (list N) := unescape_mask 63.
Definition unescape_orig : list N -> option (list N) := unescape_mask 255.

(* spellings of one character inside a string literal *)
Inductive spelling := Raw | Short | U4 (upper : bool) | U6 (upper : bool) | Surr (upper : bool).

Definition hexchar (upper : bool) (d : N) : N := if (d <? 10)%N then (48 + d)%N else if upper then (55 + d)%N else (87 + d)%N.

Definition hex4 (u : bool) (v : N) : list N :=
  [hexchar u (N.land (N.shiftr v 12) 15); hexchar u (N.land (N.shiftr v 8) 15); hexchar u (N.land (N.shiftr v 4) 15); hexchar u (N.land v 15)].

Definition hex6 (u : bool) (v : N) : list N :=
  hexchar u (N.land (N.shiftr v 20) 15) :: hexchar u (N.land (N.shiftr v 16) 15) :: hex4 u v.

Definition short_of (c : N) : option N :=
  if (c =? 39)%N then Some 39%N else if (c =? 34)%N then Some 34%N else if (c =? 92)%N then Some 92%N
  else if (c =? 10)%N then Some 110%N else if (c =? 13)%N then Some 114%N else if (c =? 9)%N then Some 116%N else None.

Definition raw_ok (c : N) : bool := negb ((c =? 34)%N || (c =? 92)%N || vertical_space c).

(* the spelling asked for when it applies to the character, else a spelling that does *)
Definition spell (sp : spelling) (c : N) : list N :=
  let dflt := if (c <? 65536)%N then 92%N :: 117%N :: hex4 false c else 92%N :: 85%N :: hex6 false c in
  match sp with
  | Raw => if raw_ok c then [c] else dflt
  | Short => match short_of c with Some e => [92%N; e] | None => dflt end
  | U4 u => if (c <? 65536)%N then 92%N :: 117%N :: hex4 u c else dflt
  | U6 u => 92%N :: 85%N :: hex6 u c
  | Surr u => if (65536 <=? c)%N then
                let d := (c - 65536)%N in
                (92%N :: 117%N :: hex4 u (55296 + N.shiftr d 10)) ++ (92%N :: 117%N :: hex4 u (56320 + N.land d 1023))
              else dflt
  end.

Fixpoint escape (sps : list spelling) (s : list N) : list N :=
  match s with
  | [] => []
  | c :: r => match sps with
              | sp :: sps' => spell sp c ++ escape sps' r
              | [] => spell Raw c ++ escape [] r
              end
  end.

(* ------------------------------------------------------------------ layout between tokens (lexer.rs read_input, consume_whitespace, consume_comment) *)

Definition in_range (lo hi c : N) : bool := (lo <=? c)%N && (c <=? hi)%N.

Definition is_ws (c : N) : bool :=
  vertical_space c || (c =? 9)%N || (c =? 32)%N || (c =? 133)%N || (c =? 160)%N || (c =? 5760)%N || (c =? 6158)%N ||
  in_range 8192 8203 c || (c =? 8232)%N || (c =? 8233)%N || (c =? 8239)%N || (c =? 8287)%N || (c =? 12288)%N || (c =? 65279)%N.

Fixpoint skip_ws (cs : list N) : list N :=
  match cs with
  | c :: r => if is_ws c then skip_ws r else cs
  | [] => []
  end.

(* after the opening of a block comment: up to and including the first star followed by a slash (or to the end of input) *)
Fixpoint skip_block (cs : list N) : list N :=
  match cs with
  | c :: r => match r with
              | d :: r' => if (c =? 42)%N && (d =? 47)%N then r' else skip_block r
              | [] => []
              end
  | [] => []
  end.

(* after the opening of a line comment: up to, not including, the line feed *)
Fixpoint skip_line (cs : list N) : list N :=
  match cs with
  | c :: r => if (c =? 10)%N then cs else skip_line r
  | [] => []
  end.

Definition comment_start (cs : list N) : option bool :=     (* Some true: block, Some false: line *)
  match cs with
  | c :: d :: _ => if (c =? 47)%N && (d =? 47)%N then Some false else if (c =? 47)%N && (d =? 42)%N then Some true else None
  | _ => None
  end.

(* read_input before the next token: white space and comments, as many as there are *)
Fixpoint skip_layout (fuel : nat) (cs : list N) : list N :=
  let cs1 := skip_ws cs in
  match fuel with
  | O => cs1
  | S f =>
    match comment_start cs1 with
    | Some true => skip_layout f (skip_block (tl (tl cs1)))
    | Some false => skip_layout f (skip_line (tl (tl cs1)))
    | None => cs1
    end
  end.

(* the original read_input: white space, at most one comment, white space *)
Definition skip_layout_orig (cs : list N) : list N :=
  let cs1 := skip_ws cs in
  match comment_start cs1 with
  | Some true => skip_ws (skip_block (tl (tl cs1)))
  | Some false => skip_ws (skip_line (tl (tl cs1)))
  | None => cs1
  end.

(* the layout grammar: white space characters, block comments whose body has no star-slash, line comments closed by a line feed *)
Inductive piece := PWs (c : N) | PBlock (body : list N) | PLine (body : list N).

Fixpoint has_close (b : list N) : bool :=
  match b with
  | c :: r => match r with
              | d :: _ => ((c =? 42)%N && (d =? 47)%N) || has_close r
              | [] => false
              end
  | [] => false
  end.

Definition piece_ok (p : piece) : bool :=
  match p with
  | PWs c => is_ws c
  | PBlock b => negb (has_close b)
  | PLine b => forallb (fun c => negb (c =? 10)%N) b
  end.

Definition render_piece (p : piece) : list N :=
  match p with
  | PWs c => [c]
  | PBlock b => 47%N :: 42%N :: b ++ [42%N; 47%N]
  | PLine b => 47%N :: 47%N :: b ++ [10%N]
  end.

Definition render_layout (ps : list piece) : list N := flat_map render_piece ps.

(* what may follow a layout: the end of input, or a character that is neither white space nor the beginning of a comment *)
Definition token_start (rest : list N) : bool :=
  match rest with
  | [] => true
  | c :: _ => negb (is_ws c) && match comment_start rest with None => true | Some _ => false end
  end.
