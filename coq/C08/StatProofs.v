(* C08 — median against the order statistics of the list (the arithmetic of the even case: C08/NumProofs.v). *)
From Coq Require Import List NArith ZArith Bool Arith Lia Permutation Sorted.
From DV Require Import Base.DecRound.
From DV Require Import C09.Values C09.Model C09.Proofs C08.Model C08.Model2 C08.Proofs C08.SortProofs C08.ModeProofs C08.NumProofs.
Import ListNotations.

(* ================= counting ================= *)
Definition count {A} (f : A -> bool) (l : list A) : nat := length (filter f l).

Lemma count_app : forall A (f : A -> bool) a b, count f (a ++ b) = (count f a + count f b)%nat.
Proof. intros. unfold count. rewrite filter_app, app_length. reflexivity. Qed.
Lemma count_perm : forall A (f : A -> bool) l l', Permutation l l' -> count f l = count f l'.
Proof.
  intros A f l l' P. unfold count. induction P as [|x l l' P IH|x y l|l l' l'' P1 IH1 P2 IH2]; cbn [filter]; auto.
  - destruct (f x); cbn [length]; auto.
  - destruct (f x); destruct (f y); reflexivity.
  - congruence.
Qed.
Lemma count_all : forall A (f : A -> bool) l, (forall x, In x l -> f x = true) -> count f l = length l.
Proof.
  intros A f l H. unfold count. induction l as [|a l IH]; auto. cbn [filter]. rewrite (H a (or_introl eq_refl)). cbn [length]. f_equal.
  apply IH. intros x Hx. apply H. right. exact Hx.
Qed.
Lemma count_none : forall A (f : A -> bool) l, (forall x, In x l -> f x = false) -> count f l = O.
Proof.
  intros A f l H. unfold count. induction l as [|a l IH]; auto. cbn [filter]. rewrite (H a (or_introl eq_refl)).
  apply IH. intros x Hx. apply H. right. exact Hx.
Qed.
Lemma count_le_length : forall A (f : A -> bool) l, (count f l <= length l)%nat.
Proof. intros A f l. unfold count. induction l as [|a l IH]; auto. cbn [filter]. destruct (f a); cbn [length]; lia. Qed.
Lemma count_mono : forall A (f g : A -> bool) l, (forall x, f x = true -> g x = true) -> (count f l <= count g l)%nat.
Proof.
  intros A f g l H. unfold count. induction l as [|a l IH]; auto. cbn [filter].
  destruct (f a) eqn:F; [rewrite (H a F); cbn [length]; lia|]. destruct (g a); cbn [length]; lia.
Qed.

(* ================= order statistics ================= *)
(* v is the item number i (from 0) of l in ascending order: at most i items are below v and more than i items are not above v *)
Definition is_order_stat (l : list (Z * Z)) (i : nat) (v : Z * Z) : Prop :=
  In v l /\ (count (fun x => nlt x v) l <= i)%nat /\ (i < count (fun x => negb (nlt v x)) l)%nat.

Lemma nle_is_not_gt : forall a b, nle a b = negb (nlt b a).
Proof.
  intros a b. unfold nle, nlt. rewrite (ncmp_antisym (fst a) (snd a) (fst b) (snd b)).
  destruct (ncmp (fst a) (snd a) (fst b) (snd b)); reflexivity.
Qed.

Lemma sorted_split : forall A (R : A -> A -> Prop) a v b, StronglySorted R (a ++ v :: b) ->
  (forall x, In x a -> R x v) /\ (forall y, In y b -> R v y).
Proof.
  intros A R a v b. induction a as [|h a IH]; cbn [app]; intros Hs.
  - apply StronglySorted_inv in Hs. destruct Hs as [_ F]. rewrite Forall_forall in F. split; [intros x []|exact F].
  - apply StronglySorted_inv in Hs. destruct Hs as [Hs F]. destruct (IH Hs) as [H1 H2]. split; auto.
    intros x [<-|Hx]; auto. rewrite Forall_forall in F. apply F. apply in_or_app. right. left. reflexivity.
Qed.

Lemma nth_split' : forall A (l : list A) i d, (i < length l)%nat -> l = firstn i l ++ nth i l d :: skipn (S i) l.
Proof.
  intros A l. induction l as [|a l IH]; intros i d H; cbn [length] in H; [lia|].
  destruct i as [|i]; cbn [firstn nth skipn app]; [reflexivity|]. f_equal. apply IH. lia.
Qed.

Lemma sorted_order_stat : forall s i, asc s -> (i < length s)%nat -> is_order_stat s i (nth i s (0%Z, 0%Z)).
Proof.
  intros s i Hs H. set (v := nth i s (0%Z, 0%Z)).
  pose proof (nth_split' _ s i (0%Z, 0%Z) H) as E. fold v in E.
  assert (La : length (firstn i s) = i) by (rewrite firstn_length; lia).
  unfold asc in Hs. rewrite E in Hs. destruct (sorted_split _ _ _ _ _ Hs) as [Ha Hb].
  split; [|split].
  - apply nth_In. exact H.
  - rewrite E. rewrite count_app. change (v :: skipn (S i) s) with ([v] ++ skipn (S i) s). rewrite count_app.
    rewrite (count_none _ _ (skipn (S i) s)) by (intros y Hy; apply Hb; exact Hy).
    assert (count (fun x => nlt x v) [v] = O) by (unfold count; cbn [filter]; rewrite nlt_irrefl; reflexivity).
    pose proof (count_le_length _ (fun x => nlt x v) (firstn i s)). lia.
  - rewrite E. rewrite count_app. change (v :: skipn (S i) s) with ([v] ++ skipn (S i) s). rewrite count_app.
    rewrite (count_all _ _ (firstn i s)) by (intros x Hx; rewrite (Ha x Hx); reflexivity).
    assert (count (fun x => negb (nlt v x)) [v] = 1%nat) by (unfold count; cbn [filter]; rewrite nlt_irrefl; reflexivity).
    lia.
Qed.

Lemma order_stat_perm : forall l l' i v, Permutation l l' -> is_order_stat l i v -> is_order_stat l' i v.
Proof.
  intros l l' i v P (I & A & B). split; [eapply Permutation_in; eauto|].
  rewrite <- (count_perm _ _ l l' P), <- (count_perm _ _ l l' P). auto.
Qed.

(* the order statistic is determined up to the equality of numbers *)
Theorem order_stat_unique : forall l i v v', is_order_stat l i v -> is_order_stat l i v' -> neqv v v' = true.
Proof.
  assert (X : forall l i v v', is_order_stat l i v -> is_order_stat l i v' -> nlt v v' = false).
  { intros l i v v' (_ & _ & B) (_ & A' & _). destruct (nlt v v') eqn:L; auto. exfalso.
    assert ((count (fun x => negb (nlt v x)) l <= count (fun x => nlt x v') l)%nat); [|lia].
    apply count_mono. intros x Hx. apply negb_true_iff in Hx.
    destruct (nlt_negtrans v x v' L) as [H|H]; [congruence|exact H]. }
  intros l i v v' H H'. pose proof (X l i v v' H H') as L1. pose proof (X l i v' v H' H) as L2.
  destruct (neqv v v') eqn:N; auto. pose proof (nlt_total v v' L1 N). congruence.
Qed.

(* ================= median ================= *)
Theorem median_order_stat : forall n ns,
  let l := n :: ns in let k := (length l / 2)%nat in
  if Nat.even (length l)
  then exists lo hi, b_median (map vnum l) = vopt (obind (nadd lo hi) (fun t => ndiv t (2%Z, 0%Z))) /\ is_order_stat l (k - 1) lo /\ is_order_stat l k hi
  else exists m, b_median (map vnum l) = vnum m /\ is_order_stat l k m.
Proof.
  intros n ns l k. pose proof (median_spec n ns) as M. cbv zeta in M. fold l in M.
  destruct (nsort_spec l) as (Perm & Sorted & _).
  assert (Len : length (nsort l) = length l) by (apply Permutation_length; exact Perm).
  rewrite Len in M. fold k in M.
  assert (K : (k < length l)%nat) by (unfold k, l; cbn [length]; apply Nat.div_lt; lia).
  destruct (Nat.even (length l)) eqn:Ev.
  - exists (nth (k - 1) (nsort l) (0%Z, 0%Z)), (nth k (nsort l) (0%Z, 0%Z)). split; [exact M|]. split.
    + apply (order_stat_perm (nsort l) l); [exact Perm|]. apply sorted_order_stat; [exact Sorted|lia].
    + apply (order_stat_perm (nsort l) l); [exact Perm|]. apply sorted_order_stat; [exact Sorted|lia].
  - exists (nth k (nsort l) (0%Z, 0%Z)). split; [exact M|].
    apply (order_stat_perm (nsort l) l); [exact Perm|]. apply sorted_order_stat; [exact Sorted|lia].
Qed.

