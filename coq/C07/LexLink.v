(* C07 — the numeric literal from the SOURCE TEXT on: the lexer model of C06 (coq/C06/Lexer.v, code points) produces the token
   Numeric(before, after); its digits are the characters of the source text; the evaluator reads literal_value of them
   (C07/Literal.v).  Examples of the property's sentence about literals (evaluated by vm_compute). *)
From Coq Require Import String ZArith NArith Bool List Ascii Lia.
From DV Require Import Base.Dec Base.DecRound C07.Model C07.Literal C07.LiteralProofs.
From DV Require C06.Lexer C10.Model.
From DV Require Import C02.Exact.
Import ListNotations.
Open Scope Z_scope.

Module Lx := DV.C06.Lexer.
Module NM := DV.C10.Model.

Lemma digit_code : forall c, NM.is_digit c = true -> is_digit (ascii_of_code c) = true.
Proof. intros c H. unfold NM.is_digit, NM.between in H. apply andb_true_iff in H. destruct H as [H1 H2].
  apply N.leb_le in H1. apply N.leb_le in H2.
  assert (E : (c = 48 \/ c = 49 \/ c = 50 \/ c = 51 \/ c = 52 \/ c = 53 \/ c = 54 \/ c = 55 \/ c = 56 \/ c = 57)%N) by lia.
  repeat (destruct E as [->|E]; [reflexivity|]). subst c. reflexivity. Qed.

Lemma digit_codes : forall l, forallb NM.is_digit l = true -> all_digits (text_of_codes l) = true.
Proof. induction l as [|c l IH]; intros H; [reflexivity|]. cbn [forallb] in H. apply andb_true_iff in H. destruct H as [H1 H2].
  cbn [text_of_codes map all_digits forallb]. rewrite (digit_code c H1). apply IH. exact H2. Qed.

(* consume_digits: the longest run of digits *)
Lemma digits_spec : forall cs d r, Lx.digits cs = (d, r) ->
  forallb NM.is_digit d = true /\ cs = d ++ r /\ match r with c :: _ => NM.is_digit c = false | [] => True end.
Proof. induction cs as [|c cs IH]; intros d r H; cbn [Lx.digits] in H.
  - injection H as <- <-. repeat split.
  - destruct (NM.is_digit c) eqn:Ec.
    + destruct (Lx.digits cs) as [d' r'] eqn:E. injection H as <- <-. destruct (IH d' r' eq_refl) as (A & B & C).
      cbn [forallb]. rewrite Ec, A. rewrite B at 1. repeat split. exact C.
    + injection H as <- <-. repeat split. exact Ec. Qed.

(* the numeral token: a text that begins with a digit gives Numeric(before, after) where before is the longest run of digits and
   after the longest run of digits behind a point that is followed by a digit (empty: no such point); the token's digits are the
   characters of the text, in order *)
Theorem numeric_token : forall c r, NM.is_digit c = true ->
  exists b a rest, Lx.numeric (c :: r) = (Lx.LNum b a, rest) /\ b <> [] /\
    forallb NM.is_digit b = true /\ forallb NM.is_digit a = true /\
    c :: r = b ++ (match a with [] => [] | _ => 46%N :: a end) ++ rest /\
    match rest with x :: _ => NM.is_digit x = false | [] => True end.
Proof. intros c r Hc. unfold Lx.numeric. destruct (Lx.digits (c :: r)) as [b r1] eqn:Eb.
  destruct (digits_spec (c :: r) b r1 Eb) as (Hb & Es & Hr1).
  assert (Hne : b <> []).
  { cbn [Lx.digits] in Eb. rewrite Hc in Eb. destruct (Lx.digits r). injection Eb as <- _. discriminate. }
  destruct r1 as [|p [|d r2]].
  - exists b, [], []. repeat split; try assumption.
  - exists b, [], [p]. repeat split; try assumption.
  - destruct ((p =? 46)%N && NM.is_digit d) eqn:E.
    + apply andb_true_iff in E. destruct E as [Ep Ed]. apply N.eqb_eq in Ep. subst p. cbn [tl].
      destruct (Lx.digits (d :: r2)) as [a r3] eqn:Ea. destruct (digits_spec (d :: r2) a r3 Ea) as (Ha & Es2 & Hr3).
      assert (Hna : a <> []).
      { cbn [Lx.digits] in Ea. rewrite Ed in Ea. destruct (Lx.digits r2). injection Ea as <- _. discriminate. }
      exists b, a, r3. split; [reflexivity|]. repeat split; try assumption.
      rewrite Es. f_equal. destruct a as [|a0 a']; [contradiction|]. cbn [app]. f_equal. exact Es2.
    + exists b, [], (p :: d :: r2). repeat split; try assumption. Qed.

(* the evaluator's value of the token: the properties of C07/LiteralProofs.v apply to the digits of the source text *)
Theorem token_value : forall b a, b <> [] -> forallb NM.is_digit b = true -> forallb NM.is_digit a = true ->
  let n := literal_numeral (text_of_codes b) (text_of_codes a) in
  literal_value (text_of_codes b) (text_of_codes a) = read_numeral n /\
  correctly_rounded (Quot (text_num n) 1 (- text_scale n)) false (read_numeral n) /\
  ((sig_digits n <= 34)%nat -> len (text_of_codes a) <= 6176 -> read_numeral n = Some (denoted n) /\ in_format (denoted n) = true).
Proof. intros b a Hn Hb Ha. cbv zeta.
  assert (Hn' : text_of_codes b <> []) by (destruct b; [contradiction | discriminate]).
  pose proof (digit_codes b Hb) as Db. pose proof (digit_codes a Ha) as Da. split; [apply literal_value_read; assumption|]. split.
  - apply (numeral_correctly_rounded (literal_numeral (text_of_codes b) (text_of_codes a))).
  - intros Hs Hl. rewrite <- (literal_value_read _ _ Db Da Hn'). apply literal_exact_upto_34; assumption. Qed.

(* ---------------------------------------------------------------- examples *)
Definition codes (s : String.string) : list N := map N_of_ascii (String.list_ascii_of_string s).
Definition num34 : N := 1234567890123456789012345678901234.

Example literal_examples :
  (* .5 : the lexer makes Numeric("0", "5") of it; value 5E-1 *)
  Lx.lex [] (codes ".5") = Some [Lx.LNum (codes "0") (codes "5")] /\
  literal_value (rd "0") (rd "5") = Some (mkdec false 5 (-1)) /\
  (* 0.10 : two significant digits, the trailing zero is kept: coefficient 10, exponent -2 *)
  Lx.lex [] (codes "0.10") = Some [Lx.LNum (codes "0") (codes "10")] /\
  sig_digits (literal_numeral (rd "0") (rd "10")) = 2%nat /\
  literal_value (rd "0") (rd "10") = Some (mkdec false 10 (-2)) /\
  (* 12 : Numeric("12", ""), read as the text "12." *)
  Lx.lex [] (codes "12") = Some [Lx.LNum (codes "12") []] /\ literal_text (rd "12") [] = rd "12." /\
  literal_value (rd "12") [] = Some (mkdec false 12 0) /\
  (* a literal of exactly 34 significant digits *)
  sig_digits (literal_numeral (rd "1234567890123456789012345678901234") []) = 34%nat /\
  literal_value (rd "1234567890123456789012345678901234") [] = Some (mkdec false num34 0) /\
  literal_value (rd "123456789012345678901234567890") (rd "1234") = Some (mkdec false num34 (-4)) /\
  (* 35 significant digits, exact ties: ...1234|5 goes to the even ...1234, ...1235|5 to the even ...1236; ...1234|51 goes up *)
  sig_digits (literal_numeral (rd "12345678901234567890123456789012345") []) = 35%nat /\
  literal_value (rd "12345678901234567890123456789012345") [] = Some (mkdec false num34 1) /\
  literal_value (rd "12345678901234567890123456789012355") [] = Some (mkdec false (num34 + 2) 1) /\
  literal_value (rd "1234567890123456789012345678901234") (rd "51") = Some (mkdec false (num34 + 1) 0) /\
  literal_value (rd "1234567890123456789012345678901234") (rd "49") = Some (mkdec false num34 0) /\
  (* 36 digits, all nines: the carry gives 1E+36 *)
  literal_value (rd "999999999999999999999999999999999999") [] = Some (mkdec false (10 ^ 33) 3) /\
  (* 40 zeros behind the point, then 34 digits: 76 characters, 34 significant digits, exact *)
  sig_digits (literal_numeral (rd "0") (zeros 40 ++ rd "1234567890123456789012345678901234")) = 34%nat /\
  literal_value (rd "0") (zeros 40 ++ rd "1234567890123456789012345678901234") = Some (mkdec false num34 (-74)).
Proof. vm_compute. repeat split. Qed.

(* the bound on the number of fraction digits in the exactness theorem is needed: ONE significant digit behind 6176 zeros (1E-6177,
   below the smallest decimal128 quantum 1E-6176) is read as zero, 6 there (6E-6177) as 1E-6176 *)
Example literal_underflow :
  let a1 := zeros (N.to_nat 6176) ++ rd "1" in let a6 := zeros (N.to_nat 6176) ++ rd "6" in
  sig_digits (literal_numeral (rd "0") a1) = 1%nat /\ len a1 = 6177 /\
  denoted (literal_numeral (rd "0") a1) = mkdec false 1 (-6177) /\
  literal_value (rd "0") a1 = Some (mkdec false 0 (-6176)) /\
  veqb (mkdec false 0 (-6176)) (mkdec false 1 (-6177)) = false /\
  denoted (literal_numeral (rd "0") a6) = mkdec false 6 (-6177) /\
  literal_value (rd "0") a6 = Some (mkdec false 1 (-6176)) /\
  veqb (mkdec false 1 (-6176)) (mkdec false 6 (-6177)) = false /\
  literal_value (rd "0") (zeros (N.to_nat 6175) ++ rd "1") = Some (mkdec false 1 (-6176)).
Proof. cbv zeta.
  assert (D : forall a c, digits_val (rd "0" ++ a) = c -> - len a = -6177 -> denoted (literal_numeral (rd "0") a) = mkdec false c (-6177)).
  { intros a c H1 H2. unfold denoted. rewrite text_num_reader. cbn [literal_numeral n_neg n_int n_frac]. rewrite H1.
    unfold text_scale, literal_numeral. cbn [n_frac n_exp]. f_equal. lia. }
  split; [vm_compute; reflexivity|]. split; [vm_compute; reflexivity|].
  split; [apply D; vm_compute; reflexivity|]. split; [vm_compute; reflexivity|]. split; [vm_compute; reflexivity|].
  split; [apply D; vm_compute; reflexivity|]. split; [vm_compute; reflexivity|]. split; vm_compute; reflexivity. Qed.

(* typed input data: the spellings of xsd:decimal / xsd:integer / xsd:double are read by the same reader *)
Example text_examples :
  from_text (rd "-12.50") = Some (mkdec true 1250 (-2)) /\ from_text (rd "+7") = Some (mkdec false 7 0) /\
  from_text (rd "-.5") = Some (mkdec true 5 (-1)) /\ from_text (rd "5.") = Some (mkdec false 5 0) /\
  from_text (rd "1.5E3") = Some (mkdec false 15 2) /\ from_text (rd "-1.5e-3") = Some (mkdec true 15 (-4)) /\
  from_text (rd "0E3") = Some (mkdec false 0 3) /\ from_text (rd "1E6144") = Some (mkdec false (10 ^ 33) 6111) /\
  from_text (rd "1E6145") = None /\ from_text (rd "12345678901234567890123456789012345E-1") = Some (mkdec false num34 0) /\
  from_text (rd "") = None /\ from_text (rd ".") = None /\ from_text (rd "1.2.3") = None /\ from_text (rd "1E") = None /\
  from_text (rd "INF") = None /\ from_text (rd "NaN") = None /\ from_text (rd "--1") = None.
Proof. vm_compute. repeat split. Qed.
