(* C11 — an independent, fuel-free specification of "conforms to an item definition" and of what reaches the decision
   (audit problems 5 and 12).  Nothing in this file mentions [eval_item], [check] or [gcheck].
   [rt]        item definition trees with the type references followed (a reference to a name that is not defined is [RDangling]);
   [resolve]   follows the references of an [idef] with fuel; [None] = the fuel did not cover the tree (and only then);
   [conforms_to]  by structural recursion on the resolved TYPE:
                 simple type     the FEEL type of the value (C16 [type_of]) is the simple type, and the value is allowed;
                 reference       conforms to the referenced type, and is allowed by the reference's own allowed values;
                 components      a context with exactly the declared components, each conforming;
                 collection      a list whose every item conforms (and is allowed);
               null conforms to no type here (it reaches the decision as null anyway);
   [spec]      the sentence of the property: a conforming value unchanged; otherwise, for a component type, the context of the
               declared components each treated on its own (null when a declared component is missing; undeclared entries are
               left out), for a collection of a referenced type each item on its own, for a collection of a component type
               each item's components on their own (null when an item is no context or lacks a component); otherwise null;
   [whole]     the types judged as a whole (simple, collection of simple, references to such): there [spec] is
               "v if it conforms, else null" ([spec_whole] in ConfProofs.v);
   [rtype]     the FEEL type an item definition declares ([None] only when the type reference chain ends in an undefined name).
   No proofs in this file.  Owner: ext-fuel. *)
From Coq Require Import List NArith Bool Arith.
From DV Require Import C16.Model C11.Model.
Import ListNotations.

Inductive rt :=
| RS (p : prim) (av : allowed)
| RR (t : rt) (av : allowed)
| RC (fs : list (N * rt)) (av : allowed)
| RLS (p : prim) (av : allowed)
| RLR (t : rt) (av : allowed)
| RLC (fs : list (N * rt)) (av : allowed)
| RDangling.

Fixpoint resolve_fields (res : idef -> option rt) (fs : list (N * idef)) : option (list (N * rt)) :=
  match fs with
  | [] => Some []
  | (k, T) :: r => match res T, resolve_fields res r with Some t, Some o => Some ((k, t) :: o) | _, _ => None end
  end.

Fixpoint resolve (f : nat) (D : defs) (T : idef) {struct f} : option rt :=
  match f with O => None | S f' =>
  match T with
  | ISimple p av => Some (RS p av)
  | IRef n av => match dlookup n D with Some T' => option_map (fun t => RR t av) (resolve f' D T') | None => Some RDangling end
  | IComp fs av => option_map (fun o => RC o av) (resolve_fields (resolve f' D) fs)
  | ICollSimple p av => Some (RLS p av)
  | ICollRef n av => match dlookup n D with Some T' => option_map (fun t => RLR t av) (resolve f' D T') | None => Some RDangling end
  | ICollComp fs av => option_map (fun o => RLC o av) (resolve_fields (resolve f' D) fs)
  end end.

(* the FEEL type of the value is the simple type p (C16: Value::type_of and the derived equality of FeelType) *)
Definition kind (p : prim) (v : value) : bool := type_eqb (type_of v) (TS (prim_simple p)).

(* the entries of a context value are exactly the declared components (same names, in key order), each accepted by c *)
Definition comps_conf {A : Type} (c : A -> value -> bool) : list (N * A) -> list (N * value) -> bool :=
  fix go (fs : list (N * A)) (es : list (N * value)) : bool :=
    match fs, es with
    | [], [] => true
    | (k, t) :: fr, (k', x) :: er => N.eqb k k' && c t x && go fr er
    | _, _ => false
    end.

Fixpoint conforms_to (t : rt) (v : value) {struct t} : bool :=
  match t with
  | RS p av => kind p v && av_ok av v
  | RR t' av => conforms_to t' v && av_ok av v
  | RC fs av => match v with VCtx es => comps_conf conforms_to fs es && av_ok av v | _ => false end
  | RLS p av => match v with VList vs => forallb (fun x => kind p x && av_ok av x) vs | _ => false end
  | RLR t' av => match v with VList vs => forallb (fun x => conforms_to t' x && av_ok av x) vs | _ => false end
  | RLC fs av =>
      match v with
      | VList vs => forallb (fun x => match x with VCtx es => comps_conf conforms_to fs es | _ => false end && av_ok av x) vs
      | _ => false
      end
  | RDangling => false
  end.

(* every declared component has an entry *)
Definition has_all {A : Type} (fs : list (N * A)) (es : list (N * value)) : bool :=
  forallb (fun kt => match vlookup (fst kt) es with Some _ => true | None => false end) fs.

Definition allowed_or_null (av : allowed) (r : value) : value := if av_ok av r then r else VNull.
Definition all_allowed_or_null (av : allowed) (rs : list value) : value := if forallb (av_ok av) rs then VList rs else VNull.

Fixpoint spec (t : rt) (v : value) {struct t} : value :=
  if conforms_to t v then v else
  match t with
  | RS _ _ | RLS _ _ | RDangling => VNull
  | RR t' av => allowed_or_null av (spec t' v)
  | RC fs av =>
      match v with
      | VCtx es => if has_all fs es then allowed_or_null av (VCtx (map (fun kt : N * rt => let (k, tk) := kt in (k, spec tk (vget k es))) fs)) else VNull
      | _ => VNull
      end
  | RLR t' av => match v with VList vs => all_allowed_or_null av (map (spec t') vs) | _ => VNull end
  | RLC fs av =>
      match v with
      | VList vs =>
          if forallb (fun x => match x with VCtx es => has_all fs es | _ => false end) vs
          then all_allowed_or_null av
                 (map (fun x => match x with
                                | VCtx es => VCtx (map (fun kt : N * rt => let (k, tk) := kt in (k, spec tk (vget k es))) fs)
                                | _ => VNull end) vs)
          else VNull
      | _ => VNull
      end
  end.

Fixpoint whole (t : rt) : bool :=
  match t with
  | RS _ _ | RLS _ _ | RDangling => true
  | RR t' _ => whole t'
  | _ => false
  end.

(* the declared components of a context value, in declaration (key) order; undeclared entries are left out *)
Definition restrict {A : Type} (fs : list (N * A)) (es : list (N * value)) : list (N * value) :=
  map (fun kt => (fst kt, vget (fst kt) es)) fs.

(* ---------------- the FEEL type an item definition declares ---------------- *)
Definition rtypes (ty : rt -> option ftype) : list (N * rt) -> list (N * ftype) :=
  fix go (fs : list (N * rt)) : list (N * ftype) :=
    match fs with
    | [] => []
    | (k, t) :: r => match ty t with Some u => (k, u) :: go r | None => go r end
    end.

Fixpoint rtype (t : rt) : option ftype :=
  match t with
  | RS p _ => Some (TS (prim_simple p))
  | RR t' _ => rtype t'
  | RC fs _ => Some (TCtx (rtypes rtype fs))
  | RLS p _ => Some (TList (TS (prim_simple p)))
  | RLR t' _ => option_map TList (rtype t')
  | RLC fs _ => Some (TList (TCtx (rtypes rtype fs)))
  | RDangling => None
  end.

(* the chain of references from t ends in a name that is not defined *)
Fixpoint ends_dangling (t : rt) : bool :=
  match t with
  | RDangling => true
  | RR t' _ | RLR t' _ => ends_dangling t'
  | _ => false
  end.

(* the fuel covers the type a variable refers to *)
Definition enough_ref (f : nat) (D : defs) (r : tref) : bool :=
  match r with
  | RNamed n => match dlookup n D with Some T => enough f D T | None => true end
  | _ => true
  end.
