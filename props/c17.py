"""C17 — the workspace holds exactly the models its history leaves in it.
Proof: coq/Props/C17.v (invariant for every history, refinement of the abstract workspace).
Correspondence: every step of generated histories, real Workspace (hook verif_snapshot) vs coq/C17/Model.v."""
import itertools
import json

from vlib import core

HEADER = 'From Coq Require Import List NArith Bool.\nFrom DV Require Import C17.Model.\nImport ListNotations.\nOpen Scope N_scope.\n'

# model alphabet: (namespace id, name id, builds, value of decision `dec`)
MODELS = [
    (1, 11, True, 101),   # A
    (2, 12, True, 102),   # B   disjoint from A
    (1, 13, True, 103),   # C   same namespace as A, different name
    (3, 11, True, 104),   # D   different namespace, same name as A
    (1, 11, True, 105),   # A'  identical namespace and name as A
    (4, 14, False, 106),  # E   fails to build (input data without type reference)
]


def xml(m):
    ns, nm, builds, val = m
    head = '<?xml version="1.0" encoding="UTF-8"?><definitions namespace="ns%d" name="m%d" id="d1" xmlns="https://www.omg.org/spec/DMN/20191111/MODEL/">' % (ns, nm)
    if builds:
        body = '<decision name="dec" id="dd1"><variable name="dec"/><literalExpression><text>%d</text></literalExpression></decision>' % val
    else:
        body = ('<inputData name="x" id="i1"><variable name="x"/></inputData><decision name="dec" id="dd1"><variable name="dec"/>'
                '<informationRequirement><requiredInput href="#i1"/></informationRequirement><literalExpression><text>x</text></literalExpression></decision>')
    return head + body + '</definitions>'


XMLS = [xml(m) for m in MODELS]

ALPHABET = ([('add', i) for i in range(6)] + [('replace', i) for i in (1, 2, 3, 4, 5)] +
            [('remove', 1, 11), ('remove', 1, 12), ('remove', 2, 11), ('remove', 3, 13), ('remove', 9, 99), ('remove', 4, 14)] +
            [('clear',), ('deploy',), ('eval', 11), ('eval', 12), ('eval', 14)])


def coq_mdl(i):
    ns, nm, b, _ = MODELS[i]
    return '{| ns := %d; nm := %d; builds := %s |}' % (ns, nm, 'true' if b else 'false')


def coq_op(o):
    k = o[0]
    if k == 'add':
        return 'Add ' + coq_mdl(o[1])
    if k == 'replace':
        return 'Replace ' + coq_mdl(o[1])
    if k == 'remove':
        return 'Remove %d %d' % (o[1], o[2])
    if k == 'clear':
        return 'Clear'
    if k == 'deploy':
        return 'Deploy'
    return 'Eval %d' % o[1]


def impl_op(o):
    k = o[0]
    if k in ('add', 'replace'):
        return [k, o[1]]
    if k == 'remove':
        return ['remove', 'ns%d' % o[1], 'm%d' % o[2]]
    if k == 'eval':
        return ['eval', 'm%d' % o[1], 'dec', '{x: 1}']
    return [k]


def spec_violation(hist, steps):
    """Property predicates evaluated on the implementation's own outputs. Returns a description or None."""
    prev_defs = []
    deployed = None  # names evaluable (name -> value) as the property prescribes
    for o, st in zip(hist, steps):
        s = st['s']
        defs = [tuple(d) for d in s['defs']]
        nss = [d[0] for d in defs]
        nms = [d[1] for d in defs]
        if sorted(s['by_ns']) != sorted(set(nss)) or len(set(nss)) != len(nss):
            return 'by-namespace lookup %s does not describe the stored list %s' % (s['by_ns'], defs)
        if sorted(s['by_name']) != sorted(set(nms)) or len(set(nms)) != len(nms):
            return 'by-name lookup %s does not describe the stored list %s' % (s['by_name'], defs)
        if o[0] == 'add':
            m = MODELS[o[1]]
            free = all(d[0] != 'ns%d' % m[0] and d[1] != 'm%d' % m[1] for d in prev_defs)
            if st['r'] is not free:
                return 'add of (ns%d, m%d) returned %s although free=%s in %s' % (m[0], m[1], st['r'], free, prev_defs)
        if o[0] == 'replace':
            m = MODELS[o[1]]
            if st['r'] is not True or ('ns%d' % m[0], 'm%d' % m[1]) not in defs:
                return 'replace of (ns%d, m%d) did not leave the model stored: %s %s' % (m[0], m[1], st['r'], defs)
        prev_defs = defs
    return None


def expected_steps(hist, trace):
    """Model trace -> the canonical form of the harness output."""
    exp = []
    for o, (out, s) in zip(hist, trace):
        defs = [['ns%d' % d['ns'], 'm%d' % d['nm']] for d in s['defs']]
        snap = {'defs': defs, 'by_ns': sorted('ns%d' % x for x in set(s['by_ns'])), 'by_name': sorted('m%d' % x for x in set(s['by_nm'])),
                'evs': sorted('m%d' % x for x in set(s['evs']))}
        if out.name == 'OAdd':
            r = out.args[0]
        elif out.name == 'OUnit':
            r = True if o[0] == 'deploy' else None
        else:
            r = 'deployed' if out.args[0] else 'not-deployed'
        exp.append({'r': r, 's': snap})
    return exp


def canon_steps(hist, steps, trace):
    """Replaces evaluation values by 'deployed' after checking that the value is the one of the document that the history left stored under
    that (namespace, name) at the last deploy: several alphabet documents share (namespace, name) with different decision values (A and A'),
    so a replace that keeps serving the old document is seen."""
    out = []
    bad = None
    stored = {}       # (ns, nm) -> index of the alphabet document stored under it, following the proved model's trace
    deployed = {}     # the same at the last deploy
    for o, st, (mo, ms) in zip(hist, steps, trace):
        keys = set((d['ns'], d['nm']) for d in ms['defs'])
        if o[0] in ('add', 'replace'):
            m = MODELS[o[1]]
            ok = (mo.name == 'OAdd' and mo.args[0] is True) if o[0] == 'add' else ((m[0], m[1]) in keys)
            if ok:
                stored[(m[0], m[1])] = o[1]
        stored = {k: v for k, v in stored.items() if k in keys}
        if o[0] == 'deploy':
            deployed = dict(stored)
        r = st['r']
        if isinstance(r, dict) and 'v' in r:
            want = [MODELS[i][3] for (ns, nm), i in deployed.items() if nm == o[1]]
            got = r['v'].get('p') if isinstance(r['v'], dict) else None
            if got is None or len(want) != 1 or int(got) != want[0]:
                bad = 'evaluation of m%d returned %s, the document stored under that name at the last deploy gives %s' % (o[1], r, want)
            r = 'deployed'
        out.append({'r': r, 's': st['s']})
    return out, bad


def histories(ctx):
    hs = []
    n_ex = ctx.pick(3, 4)
    for h in itertools.product(ALPHABET, repeat=n_ex):
        hs.append(list(h))
    exhaustive = len(hs)
    # the witnesses of fixed findings run first (corpus)
    corpus = [[('add', 0), ('add', 1), ('remove', 1, 12), ('add', 1), ('add', 0)],
              [('add', 0), ('add', 1), ('replace', 3), ('add', 0), ('deploy',), ('eval', 11)]]
    rnd = []
    for _ in range(ctx.pick(1500, 20000)):
        L = ctx.rng.randint(n_ex + 1, ctx.pick(14, 60))
        rnd.append([ctx.rng.choice(ALPHABET) for _ in range(L)])
    return corpus + hs + rnd, exhaustive


def run(ctx):
    ctx.proof_gate()
    ctx.build_harness()
    hs, n_ex = histories(ctx)
    reqs = [{'models': XMLS, 'ops': [impl_op(o) for o in h]} for h in hs]
    impl = ctx.run_impl('ws', reqs)
    traces = ctx.run_model(HEADER, ['trace remove [%s]' % '; '.join(coq_op(o) for o in h) for h in hs], shard_size=700)
    kinds = {}
    for h, st, tr in zip(hs, impl, traces):
        ctx.evaluations += 1
        key = tuple(h)
        if len(h) >= 3 and any(o[0] in ('remove', 'replace') for o in h):
            ctx.nontrivial.add(key)
        for o in h:
            kinds[o[0]] = kinds.get(o[0], 0) + 1
        if not isinstance(st, list):
            ctx.violation('workspace operation sequence crashed the process or panicked: %s' % json.dumps(st)[:200], {'history': h}, impl=st)
            continue
        sv = spec_violation(h, st)
        got, bad = canon_steps(h, st, tr)
        exp = expected_steps(h, tr)
        ctx.corr_checked += 1
        if sv or bad:
            ctx.violation(sv or bad, {'history': h}, impl=st, model=exp)
            continue
        if got != exp:
            # first differing step
            i = next(i for i, (a, b) in enumerate(zip(got, exp)) if a != b)
            # evaluation possible exactly for models present at the last deploy that built: model is the Spec here (proved = abstract workspace)
            ctx.violation('step %d (%s): implementation state/result %s differs from the proved model %s' % (i, h[i], json.dumps(got[i]), json.dumps(exp[i])),
                          {'history': h[:i + 1]}, impl=got[i], model=exp[i])
            continue
        if len(ctx.samples) < 3 and len(h) > 4:
            ctx.sample({'history': [list(o) for o in h], 'final_state': got[-1]['s']})
    return ctx.finish(
        rule='histories over the alphabet of 6 DMN documents sharing namespaces/names pairwise (A, B, C=A.ns, D=A.name, A\' identical, E fails to build) and '
             '21 operations; exhaustive to length %d (%d histories, every prefix state compared) plus random longer ones; non-trivial = length>=3 containing remove/replace' % (ctx.pick(3, 4), n_ex),
        extra_cov={'exhaustive': False, 'exhaustive_prefix_length': ctx.pick(3, 4), 'operation_histogram': kinds},
        assumptions=['the six DMN documents stand for all models: the workspace only looks at namespace, name and whether ModelEvaluator::new succeeds',
                     'HashMap key sets are compared as sorted sets'],
        trusted=['hook Workspace::verif_snapshot (read-only, --cfg dmntk_verif)'])


def replay(ctx, path):
    obj = json.load(open(path))
    h = [tuple(o) for o in obj['case']['history']]
    ctx.build_harness()
    impl = ctx.run_impl('ws', [{'models': XMLS, 'ops': [impl_op(o) for o in h]}])[0]
    tr = ctx.run_model(HEADER, ['trace remove [%s]' % '; '.join(coq_op(o) for o in h)])[0]
    print('history:', h)
    print('implementation:', json.dumps(impl))
    print('model         :', json.dumps(expected_steps(h, tr)))
    sv = spec_violation(h, impl) if isinstance(impl, list) else 'crash'
    got, bad = canon_steps(h, impl, tr) if isinstance(impl, list) else (None, 'crash')
    fail = sv or bad or (got != expected_steps(h, tr))
    print('REPRODUCED' if fail else 'not reproduced')
    return 1 if fail else 0


MANIFEST = dict(
    technique='Coq proof (invariant by induction over histories + refinement of an abstract workspace) with model/code correspondence',
    text='Theorems (coq/Props/C17.v, closed under the global context) hold for every operation history of the modelled workspace: the index/list invariant, refinement of the abstract workspace, add-iff-free, deployed-exactly, failed-build isolation. The model is tied to workspace.rs by comparing every step of exhaustive short and random long histories (state via the verif_snapshot hook).',
    note='Trusted: Coq kernel + vm_compute, hand-written model of workspace.rs (correspondence-checked, not verified), harness, ModelEvaluator::new abstracted to a `builds` flag.')
