"""Shared machinery of the /verif checks: hygiene gate, proof gate, harness build, running the
implementation and the Coq model on the same cases, verdicts, evidence, known findings."""
import concurrent.futures
import fcntl
import hashlib
import json
import os
import random
import re
import subprocess
import sys
import time

from . import coqterm

ROOT = os.path.dirname(os.path.dirname(os.path.abspath(__file__)))
COQ = os.path.join(ROOT, 'coq')
BUILD = os.path.join(ROOT, 'build')
REPO = os.path.abspath(os.environ.get('VERIF_REPO', '/repo'))
if REPO == '/repo':
    HARNESS = os.path.join(ROOT, 'harness')
    TARGET = os.path.join(BUILD, 'target')
    GEN = os.path.join(COQ, 'Gen')
else:
    # checks run against another checkout (a scratch worktree with a seeded change): private harness copy, target dir and Gen dir
    _tag = hashlib.sha256(REPO.encode()).hexdigest()[:10]
    HARNESS = os.path.join(BUILD, 'alt-' + _tag, 'harness')
    TARGET = os.path.join(BUILD, 'alt-' + _tag, 'target')
    GEN = os.path.join(COQ, 'Gen')
CFG_FLAG = '--cfg dmntk_verif'

HYGIENE_RE = re.compile(
    r'Admitted|\badmit\b|\bAxiom\b|\bAxioms\b|\bParameter\b|\bParameters\b|\bConjecture\b|Unset Guard|bypass_check|'
    r'type-in-type|impredicative-set|Admit Obligations|Unset Universe Checking|Unset Positivity')

TRUSTED_BASE_COMMON = [
    'Coq 8.16.1 kernel (coqc full .vo build); vm_compute for finite sweeps, witnesses and model evaluation; no native_compute',
    'no axioms declared by the development; Print Assumptions of every property theorem is checked against coq/assumptions.allow on every run',
    'hand-written Gallina model of the anchored Rust code (modelled, not verified); tie = correspondence check on this run',
    'Python driver (generators, canonicalisation, comparison), Rust harness dv (path deps + [patch.crates-io] onto /repo working tree), rustc/cargo',
]


class Violation(Exception):
    pass


def sh(cmd, cwd=None, timeout=None, env=None, input=None):
    e = dict(os.environ)
    if env:
        e.update(env)
    p = subprocess.run(cmd, cwd=cwd, timeout=timeout, env=e, input=input, stdout=subprocess.PIPE, stderr=subprocess.STDOUT,
                       shell=isinstance(cmd, str), text=True, errors='replace')
    return p.returncode, p.stdout


class Lock:
    def __init__(self, name):
        os.makedirs(BUILD, exist_ok=True)
        self.path = os.path.join(BUILD, name + '.lock')

    def __enter__(self):
        self.f = open(self.path, 'w')
        fcntl.flock(self.f, fcntl.LOCK_EX)
        return self

    def __exit__(self, *a):
        fcntl.flock(self.f, fcntl.LOCK_UN)
        self.f.close()


class Ctx:
    def __init__(self, pid, tier, seed):
        self.pid = pid
        self.tier = tier
        self.seed = seed
        self.rng = random.Random((seed << 8) ^ int(hashlib.sha256(pid.encode()).hexdigest()[:8], 16))
        self.t0 = time.time()
        self.broken = []          # broken theorems / correspondences (names)
        self.violations = []      # replay paths of violations with a failing input
        self.known_hits = {}      # key -> count
        self.obligations = 0
        self.discharged = 0
        self.assumptions = {}
        self.cov = {}
        self.samples = []
        self.evaluations = 0
        self.nontrivial = set()
        self.corr_checked = 0
        self.notes = []
        self.findings = load_findings()
        os.makedirs(os.path.join(ROOT, 'replays', pid), exist_ok=True)
        os.makedirs(os.path.join(BUILD, 'cases'), exist_ok=True)

    @property
    def quick(self):
        return self.tier == 'quick'

    def pick(self, q, t):
        return q if self.quick else t

    # ---------------------------------------------------------------- gates
    def hygiene_gate(self, props_file=None):
        """The forbidden words must not occur (not even in comments) in any file the property's theorems depend on; hits in other
        files of the development (another property's work in progress) are recorded as notes and fail that property's own gate."""
        bad = []
        closure = coq_closure(props_file or ('Props/%s.v' % self.pid))
        for d, _, fs in os.walk(COQ):
            for f in fs:
                if f.endswith('.v'):
                    p = os.path.join(d, f)
                    rel = os.path.relpath(p, COQ)
                    for i, line in enumerate(open(p, errors='replace'), 1):
                        if HYGIENE_RE.search(line):
                            msg = '%s:%d: %s' % (os.path.relpath(p, ROOT), i, line.strip())
                            if rel in closure:
                                bad.append(msg)
                            else:
                                self.notes.append('hygiene (outside the dependency closure of this property): ' + msg)
        for extra in ('Makefile.local', 'CoqMakefile.local', 'Makefile.local-late'):
            if os.path.exists(os.path.join(COQ, extra)):
                bad.append('unexpected %s (could pass flags to coqc)' % extra)
        if bad:
            self.broken.append('hygiene-gate: ' + '; '.join(bad[:5]))
        return not bad

    def coq_make(self, targets, timeout=1500):
        with Lock('coq'):
            rc, out = refresh_coq_project()
            if rc != 0:
                return rc, out
            return sh(['make', '-j16'] + targets, cwd=COQ, timeout=timeout)

    def proof_gate(self, props_file=None, gen_cb=None):
        """Builds coq/Props/<ID>.vo (all its dependencies), re-runs coqc on the Props file to capture
        Print Assumptions, compares with the allow-list.  Returns True iff every obligation is discharged."""
        props_file = props_file or ('Props/%s.v' % self.pid)
        if gen_cb:
            gen_cb()
        self.hygiene_gate(props_file)
        src = open(os.path.join(COQ, props_file)).read()
        names = re.findall(r'^(?:Theorem|Example|Lemma|Corollary)\s+([A-Za-z0-9_\']+)', src, re.M)
        self.obligations = len(names)
        self.theorems = names
        rc, out = self.coq_make([props_file + 'o'])
        if rc != 0:
            m = re.search(r'File "([^"]+)", line (\d+)', out)
            where = '%s:%s' % (m.group(1), m.group(2)) if m else props_file
            self.broken.append('proof-gate: coq build failed at %s: %s' % (where, out.strip().split('\n')[-3:]))
            self.discharged = 0
            self.proof_log = out
            return False
        with Lock('coq'):
            rc, out = sh(['coqc', '-Q', '.', 'DV', props_file], cwd=COQ, timeout=900)
        self.proof_log = out
        if rc != 0:
            self.broken.append('proof-gate: coqc %s failed: %s' % (props_file, out.strip()[-300:]))
            return False
        asked = re.findall(r'^Print Assumptions\s+([A-Za-z0-9_\']+)\.', src, re.M)
        blocks = parse_assumption_blocks(out)
        allow = load_allow().get(self.pid, set())
        ok = True
        if len(blocks) != len(asked) or set(asked) != set(names):
            self.broken.append('proof-gate: Print Assumptions does not cover every theorem of %s (%d theorems, %d printed, %d blocks)'
                               % (props_file, len(names), len(asked), len(blocks)))
            ok = False
        for name, b in zip(asked, blocks):
            if b is None:
                self.assumptions[name] = []
            else:
                axs = b
                self.assumptions[name] = axs
                extra = [a for a in axs if a not in allow]
                if extra:
                    self.broken.append('proof-gate: theorem %s depends on axioms not in the allow-list: %s' % (name, extra))
                    ok = False
        if ok and self.tier == 'thorough':
            ok = self.coqchk(props_file, allow)
        self.discharged = len(names) if ok else 0
        return ok

    def coqchk(self, props_file, allow):
        """thorough tier: the independent checker re-checks Props/<ID>.vo and everything it depends on and reports the axioms and
        any switched-off kernel check in the whole context"""
        mod = 'DV.' + props_file[:-2].replace('/', '.')
        with Lock('coq'):
            rc, out = sh(['coqchk', '-o', '-silent', '-Q', '.', 'DV', mod], cwd=COQ, timeout=3000)
        summary = out[out.find('CONTEXT SUMMARY'):] if 'CONTEXT SUMMARY' in out else out[-600:]
        self.cov['coqchk'] = ' '.join(summary.split())[:600]
        bad = []
        if rc != 0 or 'CONTEXT SUMMARY' not in out:
            bad.append('coqchk failed: %s' % out.strip()[-300:])
        else:
            for title in ('Axioms', 'Constants/Inductives relying on type-in-type', 'Constants/Inductives relying on unsafe (co)fixpoints',
                          'Inductives whose positivity is assumed'):
                m = re.search(r'\* ' + re.escape(title) + r':(.*?)(?=\n\* |\Z)', summary, re.S)
                body = m.group(1).strip() if m else '?'
                if body != '<none>':
                    items = [x.strip() for x in body.split('\n') if x.strip()]
                    extra = [x for x in items if x.split()[0] not in allow] if title == 'Axioms' else items
                    if extra:
                        bad.append('coqchk: %s: %s' % (title, extra[:5]))
        for b in bad:
            self.broken.append('proof-gate: ' + b)
        return not bad

    # ---------------------------------------------------------------- implementation
    def build_harness(self, release=False):
        env = {'RUSTFLAGS': CFG_FLAG, 'CARGO_NET_OFFLINE': 'true', 'CARGO_TARGET_DIR': TARGET}
        if REPO != '/repo':
            sync_alt_harness()
        lockp = os.path.join(HARNESS, 'Cargo.lock')
        with Lock('cargo'):
            # the vendored C library of feel-number is compiled by a build script through `cc`, which declares its own rerun conditions: cargo does
            # not notice an edited .c / .h file.  The compiled copy is dropped whenever the sources differ from the ones it was built from.
            import hashlib
            cdir = os.path.join(REPO, 'feel-number', 'decnumber')
            h = hashlib.sha256()
            for f in sorted(os.listdir(cdir)) if os.path.isdir(cdir) else []:
                if f.endswith(('.c', '.h')):
                    h.update(f.encode() + b'\0' + open(os.path.join(cdir, f), 'rb').read())
            bs = os.path.join(REPO, 'feel-number', 'build.rs')
            h.update(open(bs, 'rb').read() if os.path.exists(bs) else b'')
            stamp = os.path.join(TARGET, '.decnumber-%s.sha256' % ('release' if release else 'debug'))
            if os.path.isdir(TARGET) and (open(stamp).read() if os.path.exists(stamp) else '') != h.hexdigest():
                sh(['cargo', 'clean', '--offline', '-p', 'dmntk-feel-number'] + (['--release'] if release else []), cwd=HARNESS, env=env, timeout=600)
            cmd = ['cargo', 'build', '--offline'] + (['--release'] if release else [])
            rc, out = sh(cmd, cwd=HARNESS, env=env, timeout=3000)
            if rc != 0 and 'lock file' in out:
                sh(['cp', os.path.join(REPO, 'Cargo.lock'), lockp])
                rc, out = sh(cmd, cwd=HARNESS, env=env, timeout=3000)
            if rc == 0:
                open(stamp, 'w').write(h.hexdigest())
        if rc != 0:
            errs = [l for l in out.split('\n') if l.startswith('error')]
            raise RuntimeError('harness build failed (the working tree of /repo does not compile?):\n' + '\n'.join(errs[:10]) + '\n' + out[-1500:])
        return os.path.join(TARGET, 'release' if release else 'debug', 'dv')

    def run_impl(self, cmd, requests, release=False, timeout=900, shards=8, mem_gb=8):
        """Runs `dv <cmd>` on JSON requests (one per line) and returns the parsed JSON answers.
        A crash of the process (abort, stack overflow) is reported as {"crash": ...} for the request it died on."""
        exe = os.path.join(TARGET, 'release' if release else 'debug', 'dv')
        reqs = [json.dumps(r) for r in requests]
        n = len(reqs)
        if n == 0:
            return []
        k = max(1, min(shards, n // 50 + 1))
        chunks = [(i * n // k, (i + 1) * n // k) for i in range(k)]

        def work(lohi):
            lo, hi = lohi
            res = []
            i = lo
            while i < hi:
                # address-space limit per harness process: an evaluation that builds astronomically large values dies (reported as a crash
                # of that request) instead of taking the machine down
                def limit():
                    import resource
                    resource.setrlimit(resource.RLIMIT_AS, (mem_gb << 30, mem_gb << 30))
                p = subprocess.run([exe] + cmd.split(), input='\n'.join(reqs[i:hi]) + '\n', stdout=subprocess.PIPE, stderr=subprocess.PIPE,
                                   text=True, errors='replace', timeout=timeout, preexec_fn=limit)
                lines = [l for l in p.stdout.split('\n') if l.strip()]
                for l in lines:
                    try:
                        res.append(json.loads(l))
                    except Exception:
                        res.append({'garbled': l[:200]})
                i += len(lines)
                if i < hi and res and isinstance(res[-1], dict) and 'timeout' in res[-1] and lines:
                    continue      # `dv guard` answered {"timeout": ms} for request i-1 and exited on purpose: restart on request i
                if i < hi:
                    # the process died on request i
                    res.append({'crash': 'exit status %s: %s' % (p.returncode, p.stderr.strip()[-200:])})
                    i += 1
            return res

        with concurrent.futures.ThreadPoolExecutor(max_workers=k) as ex:
            parts = list(ex.map(work, chunks))
        return [r for part in parts for r in part]

    # ---------------------------------------------------------------- model
    def run_model(self, header, terms, shard_size=250, timeout=900, tag='m'):
        """Evaluates Coq terms with vm_compute inside coqc (one Eval per term), 16 shards in parallel.
        `header` is the Require/Import prelude.  Returns the parsed results in order."""
        if not terms:
            return []
        shards = [terms[i:i + shard_size] for i in range(0, len(terms), shard_size)]
        cdir = os.path.join(BUILD, 'cases')

        def work(ix):
            name = '%s_%s_%d_%d' % (self.pid, tag, os.getpid(), ix)     # per-process: concurrent runs of one check must not share case files
            path = os.path.join(cdir, name + '.v')
            with open(path, 'w') as f:
                f.write(header + '\nSet Printing Width 1000000.\nSet Printing Depth 1000000.\n')
                for t in shards[ix]:
                    f.write('Eval vm_compute in (%s).\n' % t)
            rc, out = sh(['coqc', '-noglob', '-Q', COQ, 'DV', path], cwd=cdir, timeout=timeout)
            if rc != 0 and 'Error' not in out:
                # killed from outside (memory pressure on a loaded machine): one retry
                time.sleep(5)
                rc, out = sh(['coqc', '-noglob', '-Q', COQ, 'DV', path], cwd=cdir, timeout=timeout)
            if rc != 0:
                raise RuntimeError('model evaluation failed (exit status %s) in %s:\n%s' % (rc, path, out[-2000:]))
            res = coqterm.parse_evals(out)
            if len(res) != len(shards[ix]):
                raise RuntimeError('model evaluation: %d results for %d terms in %s' % (len(res), len(shards[ix]), path))
            for ext in ('.v', '.vo', '.vok', '.vos', '.glob'):
                try:
                    os.remove(os.path.join(cdir, name + ext))
                except OSError:
                    pass
            return res

        with concurrent.futures.ThreadPoolExecutor(max_workers=16) as ex:
            parts = list(ex.map(work, range(len(shards))))
        return [r for part in parts for r in part]

    # ---------------------------------------------------------------- verdicts
    def replay_path(self, obj):
        h = hashlib.sha256(json.dumps(obj, sort_keys=True, default=str).encode()).hexdigest()[:16]
        p = os.path.join(ROOT, 'replays', self.pid, h + '.json')
        with open(p, 'w') as f:
            json.dump(obj, f, indent=1, default=str)
        return p

    def violation(self, what, case, **extra):
        """A concrete failing input / history against the real code."""
        if len(self.violations) >= 20:
            return
        obj = {'property': self.pid, 'tier': self.tier, 'seed': self.seed, 'what': what, 'case': case}
        obj.update(extra)
        self.violations.append((self.replay_path(obj), what))

    def known(self, key, case=None):
        """Registers a hit of a listed known finding; returns False if the key is not listed (then the caller must report a violation)."""
        if key in self.findings['known'].get(self.pid, {}):
            self.known_hits[key] = self.known_hits.get(key, 0) + 1
            return True
        return False

    def corr_broken(self, name, case, impl, model):
        if len([b for b in self.broken if b.startswith('correspondence')]) < 5:
            self.broken.append('correspondence %s: impl=%s model=%s case=%s' % (name, json.dumps(impl, default=str)[:300],
                                                                                 json.dumps(model, default=str)[:300], json.dumps(case, default=str, ensure_ascii=False)[:2500]))

    def sample(self, x):
        if len(self.samples) < 6:
            self.samples.append(x)

    def finish(self, level='proof', rule='', extra_cov=None, assumptions=None, checker_cmd=None, trusted=None):
        wall = time.time() - self.t0
        cov = {
            'obligations': self.obligations,
            'discharged': self.discharged,
            'checker_cmd': checker_cmd or ('make -C coq Props/%s.vo && coqc -Q . DV Props/%s.v (Print Assumptions vs coq/assumptions.allow)' % (self.pid, self.pid)),
            'trusted_base': TRUSTED_BASE_COMMON + (trusted or []),
            'theorems': getattr(self, 'theorems', []),
            'print_assumptions': self.assumptions,
            'evaluations': self.evaluations,
            'distinct_nontrivial': len(self.nontrivial),
            'traces_validated_against_impl': self.corr_checked,
            'rule': rule,
            'samples': self.samples or ['(no correspondence cases were run)'],
            'known_finding_hits': self.known_hits,
            'broken': self.broken,
            'notes': self.notes,
        }
        cov.update(self.cov)
        if extra_cov:
            cov.update(extra_cov)
        for key, text in sorted(self.findings['known'].get(self.pid, {}).items()):
            n = self.known_hits.get(key, 0)
            print('KNOWN-FINDING: property=%s %s (%s) — %s' % (self.pid, key, '%d case(s) this run' % n if n else 'listed; no case of this class among this run\'s cases', text))
        lines = []
        self.violations.sort(key=lambda pw: os.path.getsize(pw[0]))
        for path, what in self.violations[:3]:
            lines.append('VIOLATION property=%s replay=%s' % (self.pid, path))
            print('  ' + what, file=sys.stderr)
        if not self.violations and self.broken:
            path = self.replay_path({'property': self.pid, 'tier': self.tier, 'seed': self.seed, 'broken': self.broken,
                                     'note': 'a theorem or the model/code correspondence no longer checks; the search found no input on which the property itself fails'})
            lines.append('VIOLATION property=%s replay=%s no-failing-input-found' % (self.pid, path))
            for b in self.broken:
                print('  broken: ' + b[:600], file=sys.stderr)
        ev = {
            'property_id': self.pid, 'tier': self.tier, 'seed': self.seed, 'level': level, 'coverage': cov,
            'assumptions': assumptions or [], 'wall_s': round(wall, 2), 'violations': len(self.violations) + (1 if (self.broken and not self.violations) else 0),
        }
        # the typed keys of /root/.vp/EVIDENCE.schema.json: a plug-in that puts text where the schema wants a number or a boolean
        # would make the file count as no evidence; move such a value aside under <key>_note
        typed = {'evaluations': int, 'distinct_nontrivial': int, 'states': int, 'transitions': int, 'traces_validated_against_impl': int,
                 'obligations': int, 'discharged': int, 'programs': int, 'disagreements_checked': int, 'rule': str, 'checker_cmd': str,
                 'explanation': str, 'samples': list, 'trusted_base': list, 'exhaustive': bool}
        for k, t in typed.items():
            if k in cov and (not isinstance(cov[k], t) or (t is int and isinstance(cov[k], bool))):
                cov[k + '_note'] = cov.pop(k)
                if t is bool:
                    cov[k] = False
        evdir = os.path.join(ROOT, 'evidence') if REPO == '/repo' else os.path.join(os.path.dirname(HARNESS), 'evidence')
        os.makedirs(evdir, exist_ok=True)
        with open(os.path.join(evdir, self.pid + '.json'), 'w') as f:
            json.dump(ev, f, indent=1, default=str)
        for l in lines:
            print(l)
        print('%s %s: obligations %d/%d, cases %d (nontrivial %d), correspondence checked %d, %.1fs -> %s' % (
            self.pid, self.tier, self.discharged, self.obligations, self.evaluations, len(self.nontrivial), self.corr_checked, wall,
            'VIOLATION' if lines else 'ok'))
        return 1 if lines else 0


def parse_assumption_blocks(out):
    """Returns one entry per Print Assumptions answer: None for `Closed under the global context`, else the list of axiom names."""
    blocks, cur = [], None
    for line in out.split('\n'):
        if line.strip() == 'Closed under the global context':
            if cur is not None:
                blocks.append(cur)
                cur = None
            blocks.append(None)
        elif line.strip() == 'Axioms:':
            if cur is not None:
                blocks.append(cur)
            cur = []
        elif cur is not None:
            m = re.match(r'^([A-Za-z_][A-Za-z0-9_\'.]*)', line)
            if m:
                cur.append(m.group(1))
    if cur is not None:
        blocks.append(cur)
    return blocks


def coq_closure(start):
    """the .v files (relative to coq/) that `start` transitively requires from the DV library"""
    seen, todo = set(), [start]
    while todo:
        f = todo.pop()
        if f in seen or not os.path.exists(os.path.join(COQ, f)):
            continue
        seen.add(f)
        src = open(os.path.join(COQ, f), errors='replace').read()
        src = re.sub(r'\(\*.*?\*\)', ' ', src, flags=re.S)
        for m in re.finditer(r'From\s+DV\s+Require\s+(?:Import\s+|Export\s+)?(.+?)\.(?=\s|$)', src, re.S):
            for mod in m.group(1).split():
                todo.append(mod.replace('.', '/') + '.v')
        for m in re.finditer(r'Require\s+(?:Import\s+|Export\s+)?(.+?)\.(?=\s|$)', src, re.S):
            for mod in m.group(1).split():
                if mod.startswith('DV.'):
                    todo.append(mod[3:].replace('.', '/') + '.v')
    return seen


def coq_sources():
    out = []
    for d, ds, fs in os.walk(COQ):
        ds.sort()
        for f in sorted(fs):
            if f.endswith('.v') and not f.startswith('.'):
                out.append(os.path.relpath(os.path.join(d, f), COQ))
    return sorted(out)


def refresh_coq_project():
    """_CoqProject is generated: `-Q . DV` plus every .v file under coq/ (no other flags can get in)."""
    want = '-Q . DV\n' + '\n'.join(coq_sources()) + '\n'
    cp = os.path.join(COQ, '_CoqProject')
    mk = os.path.join(COQ, 'Makefile')
    if not os.path.exists(cp) or open(cp).read() != want or not os.path.exists(mk):
        open(cp, 'w').write(want)
        return sh(['coq_makefile', '-f', '_CoqProject', '-o', 'Makefile'], cwd=COQ)
    return 0, ''


def sync_alt_harness():
    """Copies /verif/harness with every /repo path replaced by VERIF_REPO (used only when VERIF_REPO is set)."""
    src = os.path.join(ROOT, 'harness')
    for d, _, fs in os.walk(src):
        for f in fs:
            sp = os.path.join(d, f)
            dp = os.path.join(HARNESS, os.path.relpath(sp, src))
            os.makedirs(os.path.dirname(dp), exist_ok=True)
            data = open(sp, 'rb').read()
            if f in ('Cargo.toml', 'config.toml'):
                data = data.replace(b'"/repo/', ('"' + REPO + '/').encode()).replace(b'/verif/build/target', TARGET.encode())
            if not os.path.exists(dp) or open(dp, 'rb').read() != data:
                open(dp, 'wb').write(data)


def load_allow():
    p = os.path.join(COQ, 'assumptions.allow')
    d = {}
    if os.path.exists(p):
        for l in open(p):
            l = l.split('#')[0].strip()
            if l:
                pid, ax = l.split()[:2]
                d.setdefault(pid, set()).add(ax)
    return d


def load_findings():
    """known_findings.txt: lines `known: property=<ID> key=<key> <text>` and `fixed: property=<ID> <commit> <text>`."""
    d = {'known': {}, 'fixed': []}
    p = os.path.join(ROOT, 'known_findings.txt')
    if os.path.exists(p):
        for l in open(p):
            l = l.strip()
            m = re.match(r'known:\s+property=(\S+)\s+key=(\S+)\s+(.*)', l)
            if m:
                d['known'].setdefault(m.group(1), {})[m.group(2)] = m.group(3)
            elif l.startswith('fixed:'):
                d['fixed'].append(l)
    return d
