(* C11 — the document order of the item definitions is irrelevant.
   Every function of the model reaches the item definitions only through dlookup (the code: a map from the definition's name to its evaluator,
   filled before anything is resolved).  Two lists of definitions that answer every lookup alike give the same checked value, the same FEEL type of
   a variable and the same coerced result; a list with distinct names and any permutation of it are such a pair.  (Tenth round of seeded changes:
   a cache of resolved types filled while only the definitions read so far were known made a forward reference resolve differently.) *)
From Coq Require Import List NArith Bool Permutation.
From DV Require Import C16.Model C11.Model.
Import ListNotations.

Definition same_lookup (D D' : defs) : Prop := forall n, dlookup n D = dlookup n D'.

Lemma comp_types_ext : forall g h fs, (forall T, g T = h T) -> comp_types g fs = comp_types h fs.
Proof. intros g h fs E. induction fs as [|[k T] r IH]; cbn [comp_types]; [reflexivity|]. rewrite E, IH. reflexivity. Qed.

Lemma comp_loop_ext : forall g h fs es, (forall T x, g T x = h T x) -> comp_loop g fs es = comp_loop h fs es.
Proof.
  intros g h fs es E. induction fs as [|[k T] r IH]; cbn [comp_loop]; [reflexivity|].
  destruct (vlookup k es); [|reflexivity]. rewrite IH, E. reflexivity.
Qed.

Lemma items_loop_ext : forall g h vs, (forall es, g es = h es) -> items_loop g vs = items_loop h vs.
Proof.
  intros g h vs E. induction vs as [|v r IH]; cbn [items_loop]; [reflexivity|].
  destruct v; try reflexivity. rewrite E, IH. reflexivity.
Qed.

Lemma idef_type_order : forall D D', same_lookup D D' -> forall f T, idef_type f D T = idef_type f D' T.
Proof.
  intros D D' S f. induction f as [|f IH]; intro T; [reflexivity|].
  cbn [idef_type]. destruct T; try reflexivity.
  - rewrite <- (S n). destruct (dlookup n D); [apply IH | reflexivity].
  - f_equal. f_equal. apply comp_types_ext. exact IH.
  - rewrite <- (S n). destruct (dlookup n D); [rewrite IH; reflexivity | reflexivity].
  - f_equal. f_equal. f_equal. apply comp_types_ext. exact IH.
Qed.

Lemma gcheck_order : forall D D', same_lookup D D' -> forall ra ci f T v, gcheck ra ci f D T v = gcheck ra ci f D' T v.
Proof.
  intros D D' S ra ci f. induction f as [|f IH]; intros T v; [reflexivity|].
  cbn [gcheck]. destruct T; try reflexivity.
  - rewrite <- (S n). destruct (dlookup n D); [rewrite IH; reflexivity | reflexivity].
  - destruct v; try reflexivity. rewrite (comp_loop_ext (gcheck ra ci f D) (gcheck ra ci f D') fs es IH). reflexivity.
  - destruct v; try reflexivity. rewrite <- (S n). destruct (dlookup n D); [|reflexivity].
    f_equal. apply map_ext. intro x. apply IH.
  - destruct v; try reflexivity.
    rewrite (items_loop_ext (comp_loop (gcheck ra ci f D) fs) (comp_loop (gcheck ra ci f D') fs) vs
               (fun es => comp_loop_ext _ _ fs es IH)). reflexivity.
Qed.

Lemma var_type_order : forall D D', same_lookup D D' -> forall f r, var_type f D r = var_type f D' r.
Proof.
  intros D D' S f r. unfold var_type. destruct r; try reflexivity.
  rewrite <- (S n). destruct (dlookup n D); [|reflexivity]. rewrite (idef_type_order D D' S). reflexivity.
Qed.

(* distinct names: a permutation answers every lookup alike *)
Lemma dlookup_in : forall D n T, NoDup (map fst D) -> (dlookup n D = Some T <-> In (n, T) D).
Proof.
  induction D as [|[k U] r IH]; intros n T ND; cbn [dlookup].
  - split; [discriminate | intros []].
  - inversion ND as [|? ? Hk ND']; subst. destruct (N.eqb n k) eqn:E.
    + apply N.eqb_eq in E. subst n. split.
      * intro H. inversion H. left. reflexivity.
      * intros [H|H]; [inversion H; reflexivity|]. exfalso. apply Hk. apply (in_map fst) in H. exact H.
    + apply N.eqb_neq in E. rewrite (IH n T ND'). split.
      * intro H. right. exact H.
      * intros [H|H]; [inversion H; congruence | exact H].
Qed.

Lemma perm_same_lookup : forall D D', NoDup (map fst D) -> Permutation D D' -> same_lookup D D'.
Proof.
  intros D D' ND P n.
  assert (ND' : NoDup (map fst D')) by (eapply Permutation_NoDup; [apply Permutation_map; exact P | exact ND]).
  destruct (dlookup n D) as [T|] eqn:E.
  - apply (dlookup_in D n T ND) in E. symmetry. apply (dlookup_in D' n T ND'). eapply Permutation_in; eassumption.
  - destruct (dlookup n D') as [T|] eqn:E'; [|reflexivity].
    apply (dlookup_in D' n T ND') in E'. apply Permutation_sym in P.
    assert (I : In (n, T) D) by (eapply Permutation_in; eassumption).
    apply (dlookup_in D n T ND) in I. congruence.
Qed.
