(* C05 — the for/some/every odometer (FeelIterator::run) terminates and visits the mixed-radix numbers rank, rank+1, .., total-1,
   i.e. every combination of the domains exactly once, innermost variable fastest.  (owner: builder-total) *)
From Coq Require Import ZArith List Bool Lia.
From DV Require Import C05.Model.
Import ListNotations.
Open Scope Z_scope.

(* all three bounds are isize values and the index is inside its domain (an empty list domain holds the index at its start) *)
Definition wf (s : ist) : Prop :=
  in_i (ix s) = true /\ in_i (st_start s) = true /\ in_i (st_end s) = true /\ 0 <= digit s < dsize s.

Ltac unf := unfold wf, in_i, digit, dsize, step_of, set_ix, checked_iadd, in_i, isize_min, isize_max in *; cbn [ix up st_start st_end] in *.

Lemma dsize_pos : forall s, 1 <= dsize s.
Proof. intros s. unfold dsize. lia. Qed.

Lemma total_pos : forall l, 1 <= total l.
Proof. induction l as [|s r IH]; cbn [total]; [lia|]. pose proof (dsize_pos s). nia. Qed.

Lemma rank_bounds : forall l, Forall wf l -> 0 <= rank l < total l.
Proof.
  induction l as [|s r IH]; intros Hw; cbn [rank total]; [lia|].
  inversion Hw as [|? ? Hs Hr]; subst. specialize (IH Hr). destruct Hs as (_ & _ & _ & Hd).
  pose proof (dsize_pos s). nia.
Qed.

Lemma total_ext : forall a b, map dsize a = map dsize b -> total a = total b.
Proof.
  induction a as [|x a IH]; destruct b as [|y b]; cbn; intros H; try discriminate; [reflexivity|].
  inversion H. rewrite (IH b); congruence.
Qed.

(* one digit: either it is at its last value (carry), or it moves on by one and stays well-formed *)
Lemma digit_step : forall s, wf s ->
  let next := checked_iadd (ix s) (step_of s) in
  let beyond := match next with Some n => if up s then st_end s <? n else n <? st_end s | None => true end in
  (beyond = true /\ digit s = dsize s - 1) \/
  (beyond = false /\ exists n, next = Some n /\ wf (set_ix s n) /\ digit (set_ix s n) = digit s + 1 /\ dsize (set_ix s n) = dsize s).
Proof.
  intros s (H1 & H2 & H3 & H4). destruct s as [i u a z]. unf.
  repeat match goal with H : _ && _ = true |- _ => apply andb_true_iff in H; destruct H end.
  repeat match goal with H : (_ <=? _) = true |- _ => apply Z.leb_le in H end.
  destruct u; cbn [negb] in *.
  - destruct ((-9223372036854775808 <=? i + 1) && (i + 1 <=? 9223372036854775807)) eqn:E.
    + destruct (z <? i + 1) eqn:E2; [left | right].
      * apply Z.ltb_lt in E2. split; [reflexivity | lia].
      * apply Z.ltb_ge in E2. split; [reflexivity|]. exists (i + 1). repeat split; try lia;
          try (apply andb_true_iff; split; apply Z.leb_le; lia).
    + left. split; [reflexivity|]. apply andb_false_iff in E. destruct E as [E|E]; apply Z.leb_gt in E; lia.
  - destruct ((-9223372036854775808 <=? i + -1) && (i + -1 <=? 9223372036854775807)) eqn:E.
    + destruct (i + -1 <? z) eqn:E2; [left | right].
      * apply Z.ltb_lt in E2. split; [reflexivity | lia].
      * apply Z.ltb_ge in E2. split; [reflexivity|]. exists (i + -1). repeat split; try lia;
          try (apply andb_true_iff; split; apply Z.leb_le; lia).
    + left. split; [reflexivity|]. apply andb_false_iff in E. destruct E as [E|E]; apply Z.leb_gt in E; lia.
Qed.

Lemma reset_wf : forall s, wf s -> wf (set_ix s (st_start s)) /\ digit (set_ix s (st_start s)) = 0 /\ dsize (set_ix s (st_start s)) = dsize s.
Proof. intros s (H1 & H2 & H3 & H4). destruct s as [i u a z]. unf. destruct u; repeat split; auto; lia. Qed.

(* one pass of the inner loop *)
Lemma advance_spec : forall states, states <> [] -> Forall wf states ->
  match advance_from states with
  | Done => rank states = total states - 1
  | Next s' => Forall wf s' /\ map dsize s' = map dsize states /\ rank s' = rank states + 1
  | AdvPanic => False
  end.
Proof.
  induction states as [|s rest IH]; intros Hne Hw; [congruence|].
  inversion Hw as [|? ? Hs Hr]; subst.
  pose proof (digit_step s Hs) as Hd. cbn zeta in Hd.
  cbn [advance_from].
  destruct Hd as [(Hb & Hdig) | (Hb & n & Hn & Hwn & Hdn & Hsn)]; rewrite Hb.
  - (* carry *)
    destruct rest as [|r rest'].
    + cbn [andb total rank]. lia.
    + cbn [andb]. assert (Hne' : r :: rest' <> []) by discriminate.
      specialize (IH Hne' Hr).
      destruct (advance_from (r :: rest')) as [s'| |].
      * destruct IH as (Hw' & Hsz & Hrk). destruct (reset_wf s Hs) as (Hw0 & Hd0 & Hs0).
        split; [constructor; assumption|]. split.
        -- cbn [map]. rewrite Hs0, Hsz. reflexivity.
        -- assert (E1 : rank (s :: r :: rest') = digit s + dsize s * rank (r :: rest')) by reflexivity.
           assert (E0 : rank (set_ix s (st_start s) :: s') = digit (set_ix s (st_start s)) + dsize (set_ix s (st_start s)) * rank s') by reflexivity.
           rewrite E0, Hd0, Hs0, Hrk, E1, Hdig. nia.
      * assert (E1 : rank (s :: r :: rest') = digit s + dsize s * rank (r :: rest')) by reflexivity.
        assert (E2 : total (s :: r :: rest') = dsize s * total (r :: rest')) by reflexivity.
        rewrite E1, E2, IH, Hdig. nia.
      * exact IH.
  - rewrite andb_false_r. rewrite Hn. split; [constructor; assumption|]. split.
    + cbn [map]. rewrite Hsn. reflexivity.
    + cbn [rank]. rewrite Hdn, Hsn. lia.
Qed.

Fixpoint zseq (start : Z) (n : nat) : list Z := match n with O => [] | S k => start :: zseq (start + 1) k end.

Definition same_shape (a b : list ist) : Prop := map dsize a = map dsize b.

(* the outer loop from any well-formed position: it stops after exactly total - rank passes and the passes carry the ranks rank, rank+1, .. *)
Lemma run_enumerates_from : forall n states acc fuel, states <> [] -> Forall wf states ->
  Z.of_nat n = total states - rank states -> (n <= fuel)%nat ->
  exists visited, run fuel states acc = Finished (rev acc ++ visited) /\
                  map rank visited = zseq (rank states) n /\
                  Forall (fun v => Forall wf v /\ same_shape v states) visited.
Proof.
  induction n as [|k IH]; intros states acc fuel Hne Hw Hn Hf.
  - pose proof (rank_bounds states Hw). lia.
  - destruct fuel as [|f]; [lia|]. cbn [run].
    pose proof (advance_spec states Hne Hw) as Ha.
    destruct (advance_from states) as [s'| |].
    + destruct Ha as (Hw' & Hsz & Hrk).
      assert (Hne' : s' <> []). { destruct s'; [destruct states; [congruence | discriminate] | discriminate]. }
      assert (Hn' : Z.of_nat k = total s' - rank s'). { rewrite (total_ext s' states Hsz), Hrk. lia. }
      destruct (IH s' (states :: acc) f Hne' Hw' Hn' ltac:(lia)) as (vis & Hrun & Hranks & Hall).
      exists (states :: vis). split; [|split].
      * rewrite Hrun. cbn [rev]. rewrite <- app_assoc. reflexivity.
      * cbn [map zseq]. rewrite Hranks, Hrk. reflexivity.
      * constructor; [split; [assumption | reflexivity]|].
        eapply Forall_impl; [|exact Hall]. intros v (Hv1 & Hv2). split; [assumption|]. unfold same_shape in *. congruence.
    + exists [states]. split; [|split].
      * reflexivity.
      * assert (k = 0%nat) by lia. subst k. reflexivity.
      * constructor; [split; [assumption | reflexivity] | constructor].
    + contradiction.
Qed.

(* states as add_range / add_list build them *)
Lemma range_state_wf : forall a z, in_i a = true -> in_i z = true -> wf (range_state a z) /\ digit (range_state a z) = 0.
Proof.
  intros a z Ha Hz. unfold range_state. unf.
  destruct (a <=? z) eqn:E; [apply Z.leb_le in E | apply Z.leb_gt in E]; repeat split; auto; lia.
Qed.

Lemma list_state_wf : forall n, 0 <= n <= isize_max -> wf (list_state n) /\ digit (list_state n) = 0.
Proof.
  intros n Hn. unfold list_state. unf. repeat split; try lia; try reflexivity;
  apply andb_true_iff; split; apply Z.leb_le; lia.
Qed.

Definition initial (s : ist) : Prop :=
  (exists a z, in_i a = true /\ in_i z = true /\ s = range_state a z) \/ (exists n, 0 <= n <= isize_max /\ s = list_state n).

Lemma initial_wf : forall s, initial s -> wf s /\ digit s = 0.
Proof. intros s [(a & z & Ha & Hz & ->) | (n & Hn & ->)]; [apply range_state_wf | apply list_state_wf]; assumption. Qed.

Lemma initial_rank0 : forall l, Forall initial l -> Forall wf l /\ rank l = 0.
Proof.
  induction l as [|s r IH]; intros H; [split; [constructor | reflexivity]|].
  inversion H as [|? ? Hs Hr]; subst. destruct (IH Hr) as (Hw & Hk). destruct (initial_wf s Hs) as (Hws & Hd).
  split; [constructor; assumption|]. cbn [rank]. rewrite Hd, Hk. lia.
Qed.

(* headline: from the initial states the loop terminates after `total` passes, never panics, and the passes are numbered 0 .. total-1 *)
Theorem odometer_terminates_and_enumerates : forall states, states <> [] -> Forall initial states ->
  forall fuel, (Z.to_nat (total states) <= fuel)%nat ->
  exists visited, run fuel states [] = Finished visited /\
                  map rank visited = zseq 0 (Z.to_nat (total states)) /\
                  Forall (fun v => Forall wf v /\ same_shape v states) visited.
Proof.
  intros states Hne Hi fuel Hf. destruct (initial_rank0 states Hi) as (Hw & Hk).
  pose proof (total_pos states).
  destruct (run_enumerates_from (Z.to_nat (total states)) states [] fuel Hne Hw ltac:(lia) Hf) as (vis & H1 & H2 & H3).
  exists vis. rewrite Hk in H2. auto.
Qed.

(* two well-formed positions of the same loop with the same rank carry the same digits: no combination is visited twice *)
Lemma rank_injective : forall a b, Forall wf a -> Forall wf b -> same_shape a b -> rank a = rank b -> map digit a = map digit b.
Proof.
  induction a as [|x a IH]; destruct b as [|y b]; intros Ha Hb Hs Hr; try discriminate; [reflexivity|].
  inversion Ha as [|? ? Hx Ha']; inversion Hb as [|? ? Hy Hb']; subst.
  unfold same_shape in *. cbn [map] in Hs. inversion Hs as [[Hd Hs']].
  cbn [rank] in Hr. rewrite <- Hd in Hr.
  destruct Hx as (_ & _ & _ & Hdx). destruct Hy as (_ & _ & _ & Hdy). rewrite <- Hd in Hdy.
  assert (E2 : rank a = rank b).
  { destruct (Z.lt_trichotomy (rank a) (rank b)) as [L|[L|L]]; [exfalso | assumption | exfalso].
    - assert (dsize x * 1 <= dsize x * (rank b - rank a)) by (apply Z.mul_le_mono_nonneg_l; lia). lia.
    - assert (dsize x * 1 <= dsize x * (rank a - rank b)) by (apply Z.mul_le_mono_nonneg_l; lia). lia. }
  assert (E1 : digit x = digit y) by (rewrite E2 in Hr; lia).
  cbn [map]. rewrite E1, (IH b Ha' Hb' Hs' E2). reflexivity.
Qed.

(* the pinned code: at the largest isize the next index overflows *)
Lemma odometer_orig_refuted_debug : initial (range_state isize_max isize_max) /\ run_orig Debug 5 [range_state isize_max isize_max] [] = RunPanic.
Proof. split; [left; exists isize_max, isize_max; repeat split; reflexivity | vm_compute; reflexivity]. Qed.

Lemma odometer_orig_refuted_release : total [range_state isize_max isize_max] = 1 /\ run_orig Release 2000 [range_state isize_max isize_max] [] = OutOfFuel.
Proof. split; vm_compute; reflexivity. Qed.
