(* C19 — the information item name box above a drawn table (coq/C19/CanvasBoxDraw.v): for every well-formed merged drawing d and
   every well-formed box b the text `drawb d b` is scanned into the canvas of the table moved down by the height of the box, with the
   name of the box as information item name, and Canvas::plane gives `bplane d b`.  (owner: ext-merged; generic lemmas about a
   picture moved down: coq/C19/CanvasShift.v) *)
From Coq Require Import List NArith Bool Arith Lia.
From DV Require Import C19.Model C19.Canvas C19.CanvasDraw C19.CanvasProofs C19.CanvasAssembly.
From DV Require Import C19.CanvasMerged C19.CanvasMergedGeom C19.CanvasMergedScan C19.CanvasMergedPlane C19.CanvasShift C19.CanvasBoxDraw.
From DV Require C19.CanvasTable.
Import ListNotations.

Tactic Notation "tr_ltb" constr(a) constr(b) := replace (a <? b) with true by (symmetry; apply Nat.ltb_lt; lia).
Tactic Notation "fa_ltb" constr(a) constr(b) := replace (a <? b) with false by (symmetry; apply Nat.ltb_ge; lia).
Tactic Notation "tr_eqb" constr(a) constr(b) := replace (a =? b) with true by (symmetry; apply Nat.eqb_eq; lia).
Tactic Notation "fa_eqb" constr(a) constr(b) := replace (a =? b) with false by (symmetry; apply Nat.eqb_neq; lia).

(* ================================================================== text -> lines for lines of different lengths *)
Definition maxlen (ls : list (list N)) (w0 : nat) : nat := fold_left (fun w l => Nat.max w (length l)) ls w0.

Lemma scan_lines_mid_ragged ls : forall rows w, (forall l, In l ls -> solid l /\ (last l 0 =? cBR)%N = false) ->
  fold_left scan_line ls (true, false, rows, w) = (true, false, rev ls ++ rows, maxlen ls w).
Proof.
  induction ls as [|l ls IH]; intros rows w Hall; [reflexivity|].
  destruct (Hall l (or_introl eq_refl)) as (Hs & Hl). cbn [fold_left maxlen].
  rewrite scan_line_mid by assumption. rewrite IH by (intros l' Hl'; apply Hall; now right). cbn [rev]. now rewrite <- app_assoc.
Qed.

Lemma scan_lines_ragged first mids final :
  solid first -> hd 0%N first = cTL -> (last first 0 =? cBR)%N = false ->
  (forall l, In l mids -> solid l /\ (last l 0 =? cBR)%N = false) ->
  solid final -> (last final 0 =? cBR)%N = true ->
  fold_left scan_line ((first :: mids ++ [final]) ++ [[]]) (false, false, [], 0) =
  (true, true, rev (first :: mids ++ [final]), maxlen (first :: mids ++ [final]) 0).
Proof.
  intros F1 F2 F3 M L1 L2. cbn [app fold_left]. rewrite scan_line_first by assumption.
  rewrite <- app_assoc, fold_left_app. rewrite (scan_lines_mid_ragged mids [first] (length first) M). cbn [app fold_left].
  rewrite scan_line_last by assumption.
  unfold scan_line at 1. cbn [trim trim_start rev app]. cbn [rev]. rewrite rev_app_distr. cbn [rev app].
  f_equal. unfold maxlen. cbn [fold_left]. rewrite fold_left_app. cbn [fold_left]. reflexivity.
Qed.

Lemma maxlen_bound ls : forall w0 w, w0 <= w -> (forall l, In l ls -> length l <= w) -> maxlen ls w0 <= w.
Proof.
  induction ls as [|l ls IH]; intros w0 w H0 Hl; [exact H0|]. cbn [maxlen fold_left]. apply IH.
  - specialize (Hl l (or_introl eq_refl)). lia.
  - intros l' Hl'. apply Hl. now right.
Qed.
Lemma maxlen_ge ls : forall w0, w0 <= maxlen ls w0.
Proof. induction ls as [|l ls IH]; intro w0; [apply le_n|]. cbn [maxlen fold_left]. specialize (IH (Nat.max w0 (length l))). unfold maxlen in IH. lia. Qed.
Lemma maxlen_in ls l : In l ls -> forall w0, length l <= maxlen ls w0.
Proof.
  induction ls as [|l' ls IH]; intros Hin w0; [destruct Hin|]. cbn [maxlen fold_left]. destruct Hin as [->|Hin].
  - pose proof (maxlen_ge ls (Nat.max w0 (length l))) as G. unfold maxlen in G. lia.
  - apply (IH Hin).
Qed.

(* a list of lines is a tabulated layer when it has the right numbers of lines and characters *)
Lemma layer_is_tab (l : layer) h w f : length l = h -> (forall y, y < h -> length (nth y l []) = w /\ forall x, x < w -> nth x (nth y l []) 0%N = f y x) ->
  l = tab h w f.
Proof.
  intros Hl Hr. apply (nth_ext _ _ [] []); [now rewrite tab_length|]. intros y Hy. rewrite Hl in Hy. rewrite tab_row_nth by assumption.
  destruct (Hr y Hy) as [L1 L2]. apply (nth_ext _ _ 0%N 0%N); [now rewrite map_length, seq_length|]. intros x Hx. rewrite L1 in Hx.
  rewrite L2 by assumption. symmetry. now apply nth_map_seq.
Qed.

Lemma seq_add_box a n : seq a n = map (fun k => a + k) (seq 0 n).
Proof. revert a. induction n as [|n IH]; intro a; [reflexivity|]. cbn [seq map]. rewrite Nat.add_0_r. f_equal. rewrite IH, <- seq_shift, map_map. apply map_ext. intro k. lia. Qed.

Lemma nth_repeat' {B} (c : B) n k dflt : k < n -> nth k (repeat c n) dflt = c.
Proof. revert k. induction n as [|n IH]; intros k Hk; [lia|]. destruct k as [|k]; [reflexivity|]. cbn [repeat nth]. apply IH. lia. Qed.

Lemma arm_up_char c : (c =? cNL)%N = false -> is_ws c = false -> (arm_up c =? cNL)%N = false /\ is_ws (arm_up c) = false.
Proof.
  intros H1 H2. unfold arm_up. destruct (c =? cH)%N; [split; reflexivity|]. destruct (c =? cT)%N; [split; reflexivity|].
  destruct (c =? cTR)%N; [split; reflexivity|]. destruct (c =? cTL)%N; [split; reflexivity|]. split; assumption.
Qed.

(* ================================================================== a well-formed merged drawing with a well-formed box *)
Section Box.
Variable d : mdraw.
Variable b : ibox.
Hypothesis Hwf : wf_mdraw d = true.
Hypothesis Hb : wf_ibox d b = true.
Local Notation ws := (md_ws d).
Local Notation hs := (md_hs d).
Local Notation nr := (mrows d).
Local Notation nc := (mcols d).
Local Notation v1 := (md_v1 d).
Local Notation h1 := (md_h1 d).
Local Notation tp := (btp b).
Local Notation xr := (ib_x b).
Local Notation name := (ib_name b).
Local Notation W := (MW d).
Local Notation Hh := (MH d).

Lemma box_facts :
  1 <= length name /\ 1 <= xr /\ xr < W /\
  (forall l, In l name -> length l = xr - 1 /\ plain l = true) /\
  (forall j, j <= nc -> dblv d j = true -> xr <> X ws j).
Proof.
  unfold wf_ibox in Hb. rewrite !andb_true_iff in Hb. destruct Hb as ((((B1 & B2) & B3) & B4) & B5).
  apply Nat.leb_le in B1, B2. apply Nat.ltb_lt in B3. repeat split; try assumption.
  - rewrite forallb_forall in B4. specialize (B4 l H). apply andb_true_iff in B4. destruct B4 as [B4 _]. now apply Nat.eqb_eq in B4.
  - rewrite forallb_forall in B4. specialize (B4 l H). now apply andb_true_iff in B4.
  - intros j Hj Hd E. rewrite forallb_forall in B5. specialize (B5 j ltac:(apply in_seq; lia)). rewrite Hd in B5. cbn [andb] in B5.
    apply negb_true_iff in B5. apply Nat.eqb_neq in B5. contradiction.
Qed.

Ltac facts :=
  pose proof (v1_bounds d Hwf) as [Pv1 Pv2]; pose proof (h1_bounds d Hwf) as [Ph1 Ph2];
  pose proof (eq_refl : nc = length ws) as Pnc; pose proof (eq_refl : nr = length hs) as Pnr;
  pose proof (eq_refl : W = S (X ws nc)) as PW; pose proof (eq_refl : Hh = S (X hs nr)) as PH;
  pose proof (eq_refl : tp = S (length name)) as Ptp;
  pose proof (MH_ge d Hwf) as GH; pose proof (MW_ge d Hwf) as GW;
  pose proof box_facts as (Bm & Bx1 & Bx2 & Bname & Bdbl).

(* ------------------------------------------------------------------ the layers of the text *)
Definition boxch (y x : nat) : N :=
  if xr <? x then cOuter
  else if y =? 0 then (if x =? 0 then cTL else if x =? xr then cTR else cH)
  else (if (x =? 0) || (x =? xr) then cV else nth (x - 1) (nth (y - 1) name []) cWhite).
Definition chM' (y x : nat) : N := if (y =? 0) && ((x =? 0) || (x =? xr)) then arm_up (chM d y x) else chM d y x.
Definition chB (y x : nat) : N := if y <? tp then boxch y x else chM' (y - tp) x.
Definition TB : layer := tab (tp + S Hh) W chB.
Definition blB (y x : nat) : N := if y <? tp then (if xr <? x then cOuter else cWhite) else (if y - tp <? Hh then cWhite else cOuter).
Definition BB : layer := tab (tp + S Hh) W blB.

(* the lines of the text *)
Definition boxline (y : nat) : list N :=
  match y with O => cTL :: repeat cH (xr - 1) ++ [cTR] | S q => cV :: nth q name [] ++ [cV] end.
Definition pl (y : nat) : list N := map (mchar d y) (seq 0 W).
Definition tline (y : nat) : list N := if y =? 0 then mod_first b (pl 0) else pl y.
Definition linefun (y : nat) : list N := if y <? tp then boxline y else if y <? tp + Hh then tline (y - tp) else [].

Lemma box_lines_eq : box_lines b = map boxline (seq 0 tp).
Proof.
  unfold box_lines, btp. cbn [seq map boxline]. f_equal. rewrite <- seq_shift, map_map. cbn [boxline].
  symmetry. pose proof (CanvasTable.map_nth_segment (fun l => cV :: l ++ [cV]) [] name [] []) as Q. cbn [app length] in Q. now rewrite app_nil_r in Q.
Qed.
Lemma table_lines_eq : table_lines d b = map tline (seq 0 Hh).
Proof.
  facts. unfold table_lines, mgrid, tab. fold pl. destruct Hh as [|n] eqn:En; [lia|]. cbn [seq map]. unfold tline at 1. cbn [Nat.eqb]. f_equal.
  apply map_ext_in. intros y Hy. apply in_seq in Hy. unfold tline. now fa_eqb y 0.
Qed.
Lemma lines_eq : (box_lines b ++ table_lines d b) ++ [[]] = map linefun (seq 0 (tp + S Hh)).
Proof.
  rewrite box_lines_eq, table_lines_eq. replace (tp + S Hh) with (tp + (Hh + 1)) by lia. rewrite !seq_app, !map_app. cbn [Nat.add seq map].
  rewrite <- app_assoc. f_equal; [|f_equal].
  - apply map_ext_in. intros y Hy. apply in_seq in Hy. unfold linefun. now tr_ltb y tp.
  - rewrite (seq_add_box tp Hh), map_map. apply map_ext_in. intros y Hy. apply in_seq in Hy. unfold linefun.
    fa_ltb (tp + y) tp. tr_ltb (tp + y) (tp + Hh). f_equal. lia.
  - unfold linefun. fa_ltb (tp + Hh) tp. now rewrite Nat.ltb_irrefl.
Qed.

(* ------------------------------------------------------------------ the characters of the lines *)
Lemma name_line q : q < length name -> length (nth q name []) = xr - 1 /\ plain (nth q name []) = true.
Proof. intro Hq. facts. apply Bname. now apply nth_In. Qed.

Lemma boxline_length y : y < tp -> length (boxline y) = S xr.
Proof.
  intro Hy. facts. destruct y as [|q]; cbn [boxline length].
  - rewrite app_length, repeat_length. cbn [length]. lia.
  - rewrite app_length. cbn [length]. destruct (name_line q ltac:(lia)) as [L _]. lia.
Qed.
Lemma boxline_nth y x : y < tp -> x <= xr -> nth x (boxline y) 0%N = boxch y x.
Proof.
  intros Hy Hx. facts. unfold boxch. fa_ltb xr x. destruct y as [|q]; cbn [boxline]; [change (0 =? 0) with true|change (S q =? 0) with false]; cbv iota.
  - destruct x as [|x]; [reflexivity|]. cbn [nth]. change (S x =? 0) with false. cbv iota. destruct (Nat.eqb_spec (S x) xr) as [E|Hne].
    + rewrite app_nth2 by (rewrite repeat_length; lia). rewrite repeat_length. now replace (x - (xr - 1)) with 0 by lia.
    + rewrite app_nth1 by (rewrite repeat_length; lia). apply nth_repeat'. lia.
  - destruct (name_line q ltac:(lia)) as [L _]. destruct x as [|x]; [reflexivity|]. cbn [nth]. change (S x =? 0) with false. cbn [orb]. rewrite ?Nat.sub_0_r. change (S x - 1) with (x - 0). change (S q - 1) with (q - 0). rewrite ?Nat.sub_0_r.
    destruct (Nat.eqb_spec (S x) xr) as [E|Hne].
    + rewrite app_nth2 by lia. now replace (x - length (nth q name [])) with 0 by lia.
    + rewrite app_nth1 by lia. apply nth_indep. lia.
Qed.

Lemma pl_length y : length (pl y) = W. Proof. unfold pl. now rewrite map_length, seq_length. Qed.
Lemma tline_eq y : tline y = map (fun x => if (y =? 0) && ((x =? 0) || (x =? xr)) then arm_up (mchar d y x) else mchar d y x) (seq 0 W).
Proof.
  unfold tline. destruct (y =? 0) eqn:E.
  - apply Nat.eqb_eq in E. subst y. unfold mod_first, pl, mapi. now rewrite mapi_from_map_seq.
  - reflexivity.
Qed.
Lemma tline_length y : length (tline y) = W. Proof. rewrite tline_eq. now rewrite map_length, seq_length. Qed.
Lemma tline_nth y x : y < Hh -> x < W -> nth x (tline y) 0%N = chM' y x.
Proof. intros Hy Hx. rewrite tline_eq, nth_map_seq by assumption. unfold chM'. now rewrite chM_in by assumption. Qed.

Lemma pad_nth l x : length l <= W -> x < W -> nth x (pad W cOuter l) 0%N = if x <? length l then nth x l 0%N else cOuter.
Proof.
  intros Hl Hx. unfold pad. destruct (Nat.ltb_spec x (length l)) as [L|G].
  - now apply app_nth1.
  - rewrite app_nth2 by assumption. apply nth_repeat'. lia.
Qed.
Lemma pad_length l : length l <= W -> length (pad W cOuter l) = W.
Proof. intro Hl. unfold pad. rewrite app_length, repeat_length. lia. Qed.

Lemma linefun_length y : y < tp + S Hh -> length (linefun y) <= W.
Proof.
  intro Hy. facts. unfold linefun. destruct (Nat.ltb_spec y tp); [rewrite boxline_length by assumption; lia|].
  destruct (Nat.ltb_spec y (tp + Hh)); [rewrite tline_length; lia|cbn; lia].
Qed.

Lemma text_rows_box : map (pad W cOuter) (map linefun (seq 0 (tp + S Hh))) = TB.
Proof.
  facts. apply layer_is_tab; [now rewrite !map_length, seq_length|]. intros y Hy.
  rewrite map_map. rewrite (nth_map_seq (fun y0 => pad W cOuter (linefun y0)) (tp + S Hh) y []) by assumption.
  pose proof (linefun_length y Hy) as Ll. split; [now apply pad_length|]. intros x Hx. rewrite pad_nth by assumption.
  unfold chB, linefun in *. destruct (Nat.ltb_spec y tp) as [L1|G1].
  - rewrite boxline_length in * by assumption. destruct (Nat.ltb_spec x (S xr)); [apply boxline_nth; lia|]. unfold boxch. now tr_ltb xr x.
  - destruct (Nat.ltb_spec y (tp + Hh)) as [L2|G2].
    + rewrite tline_length. tr_ltb x W. apply tline_nth; lia.
    + cbn [length]. replace (x <? 0) with false by reflexivity. unfold chM'. replace (y - tp) with Hh by lia. fa_eqb Hh 0. cbn [andb].
      unfold chM. now rewrite Nat.ltb_irrefl.
Qed.

Lemma blank_rows_box : map (fun row => pad W cOuter (repeat cWhite (length row))) (map linefun (seq 0 (tp + S Hh))) = BB.
Proof.
  facts. apply layer_is_tab; [now rewrite !map_length, seq_length|]. intros y Hy.
  rewrite map_map. rewrite (nth_map_seq (fun y0 => pad W cOuter (repeat cWhite (length (linefun y0)))) (tp + S Hh) y []) by assumption.
  pose proof (linefun_length y Hy) as Ll. split; [apply pad_length; now rewrite repeat_length|]. intros x Hx.
  rewrite pad_nth by (try assumption; now rewrite repeat_length). rewrite repeat_length.
  unfold blB, linefun in *. destruct (Nat.ltb_spec y tp) as [L1|G1].
  - rewrite boxline_length in * by assumption. destruct (Nat.ltb_spec x (S xr)).
    + fa_ltb xr x. apply nth_repeat'. lia.
    + now tr_ltb xr x.
  - destruct (Nat.ltb_spec y (tp + Hh)) as [L2|G2].
    + rewrite tline_length. tr_ltb x W. tr_ltb (y - tp) Hh. apply nth_repeat'. assumption.
    + cbn [length]. replace (x <? 0) with false by reflexivity. now fa_ltb (y - tp) Hh.
Qed.


(* ------------------------------------------------------------------ the text splits back into the lines *)
Lemma mchar_not_nl y x : y < Hh -> x < W -> (mchar d y x =? cNL)%N = false.
Proof.
  intros Hy Hx.
  destruct (mchar_cases d Hwf y x Hy Hx) as [(i & j & Hi & Hj & _ & _ & E & ->)|[(i & j & _ & _ & _ & -> & _)|[(i & j & _ & _ & _ & -> & _)|(P & _)]]].
  - now apply jch_solid.
  - now destruct (dblh d i).
  - now destruct (dblv d j).
  - apply (mem_neq _ cNL box_chars P). reflexivity.
Qed.
Lemma corner_br : mchar d (X hs nr) (X ws nc) = cBR.
Proof.
  facts. rewrite mchar_jj by lia. rewrite AU_nc, AD_nc, AL_nr, AR_nr. tr_ltb 0 nr. tr_ltb 0 nc. rewrite !Nat.ltb_irrefl. cbn [orb].
  now rewrite (dblv_nc d Hwf), (dblh_nr d Hwf).
Qed.
Lemma arm_up_not_br c : (c =? cBR)%N = false -> (arm_up c =? cBR)%N = false.
Proof.
  intro H. unfold arm_up. destruct (c =? cH)%N; [reflexivity|]. destruct (c =? cT)%N; [reflexivity|].
  destruct (c =? cTR)%N; [reflexivity|]. destruct (c =? cTL)%N; [reflexivity|]. assumption.
Qed.

Lemma chM'_edge y j : y < Hh -> j = 0 \/ j = nc ->
  is_ws (chM' y (X ws j)) = false /\ (chM' y (X ws j) =? cNL)%N = false /\ (j = nc -> y < X hs nr -> (chM' y (X ws j) =? cBR)%N = false).
Proof.
  intros Hy Hj. facts. assert (X ws j < W) as Lx by (destruct Hj as [-> | ->]; [rewrite X_0; lia|lia]).
  destruct (border_col d Hwf y j Hy Hj) as [B1 B2]. pose proof (mchar_not_nl y (X ws j) Hy Lx) as B3.
  unfold chM'. rewrite chM_in by assumption. destruct ((y =? 0) && _).
  - destruct (arm_up_char _ B3 B1) as [A1 A2]. repeat split; try assumption. intros E1 E2. apply arm_up_not_br. now apply B2.
  - repeat split; try assumption.
Qed.

Lemma tline_solid y : y < Hh -> solid (tline y) /\ (y < X hs nr -> (last (tline y) 0 =? cBR)%N = false).
Proof.
  intro Hy. facts. rewrite tline_eq. rewrite PW. unfold solid. rewrite last_map_seq. cbn [seq map hd].
  assert (forall x, x < W -> (if (y =? 0) && ((x =? 0) || (x =? xr)) then arm_up (mchar d y x) else mchar d y x) = chM' y x) as Ec
    by (intros x Hx; unfold chM'; now rewrite chM_in by assumption).
  rewrite !Ec by lia.
  destruct (chM'_edge y 0 Hy (or_introl eq_refl)) as (A1 & _). rewrite X_0 in A1. destruct (chM'_edge y nc Hy (or_intror eq_refl)) as (B1 & _ & B3).
  split; [split; [discriminate|split; assumption]|]. intro L. now apply B3.
Qed.

Lemma boxline_solid y : y < tp -> solid (boxline y) /\ (last (boxline y) 0 =? cBR)%N = false.
Proof.
  intro Hy. destruct y as [|q]; cbn [boxline].
  - unfold solid. change (cTL :: repeat cH (xr - 1) ++ [cTR]) with ((cTL :: repeat cH (xr - 1)) ++ [cTR]). rewrite last_last. cbn [hd app].
    repeat split; try reflexivity. discriminate.
  - unfold solid. change (cV :: nth q name [] ++ [cV]) with ((cV :: nth q name []) ++ [cV]). rewrite last_last. cbn [hd app].
    repeat split; try reflexivity. discriminate.
Qed.

Lemma line_chars_no_nl row c : In row (box_lines b ++ table_lines d b) -> In c row -> c <> cNL.
Proof.
  intros Hr Hc. facts. rewrite box_lines_eq, table_lines_eq in Hr. apply in_app_or in Hr. apply N.eqb_neq.
  destruct Hr as [Hr|Hr]; apply in_map_iff in Hr; destruct Hr as (y & <- & Hy); apply in_seq in Hy.
  - destruct (In_nth _ _ 0%N Hc) as (x & Hx & <-). rewrite boxline_length in Hx by lia. rewrite boxline_nth by lia.
    unfold boxch. fa_ltb xr x. destruct (y =? 0) eqn:E0; [destruct (x =? 0); [reflexivity|]; destruct (x =? xr); reflexivity|].
    destruct ((x =? 0) || (x =? xr)); [reflexivity|]. apply Nat.eqb_neq in E0.
    destruct (Nat.lt_ge_cases (y - 1) (length name)) as [L|G].
    + destruct (name_line (y - 1) L) as [_ P]. apply (mem_neq _ cNL box_chars (plain_nth _ (x - 1) P)). reflexivity.
    + rewrite (nth_overflow name) by assumption. now destruct (x - 1).
  - destruct (In_nth _ _ 0%N Hc) as (x & Hx & <-). rewrite tline_length in Hx. rewrite tline_nth by lia.
    unfold chM'. rewrite chM_in by lia. pose proof (mchar_not_nl y x ltac:(lia) Hx) as Q. destruct ((y =? 0) && _); [|assumption].
    unfold arm_up. destruct (_ =? cH)%N; [reflexivity|]. destruct (_ =? cT)%N; [reflexivity|]. destruct (_ =? cTR)%N; [reflexivity|]. destruct (_ =? cTL)%N; [reflexivity|]. assumption.
Qed.

Theorem scan_layers_box : scan_layers (drawb d b) = (TB, BB).
Proof.
  facts. unfold scan_layers, drawb. rewrite split_lines_rows by apply line_chars_no_nl.
  assert (box_lines b ++ table_lines d b = boxline 0 :: (map boxline (seq 1 (length name)) ++ map tline (seq 0 (Hh - 1))) ++ [tline (Hh - 1)]) as ELS.
  { rewrite box_lines_eq, table_lines_eq. rewrite Ptp. cbn [seq map app]. f_equal. rewrite <- app_assoc. f_equal.
    replace Hh with (Hh - 1 + 1) at 1 by lia. rewrite seq_app, map_app. reflexivity. }
  rewrite ELS at 1. rewrite scan_lines_ragged.
  - rewrite <- ELS. rewrite rev_length, rev_involutive.
    assert (maxlen (box_lines b ++ table_lines d b) 0 = W) as ->.
    { apply Nat.le_antisymm.
      - apply maxlen_bound; [lia|]. intros l Hl. rewrite box_lines_eq, table_lines_eq in Hl. apply in_app_or in Hl.
        destruct Hl as [Hl|Hl]; apply in_map_iff in Hl; destruct Hl as (y & <- & Hy); apply in_seq in Hy.
        + rewrite boxline_length by lia. lia.
        + now rewrite tline_length.
      - rewrite <- (tline_length (Hh - 1)). apply maxlen_in. rewrite ELS. right. apply in_or_app. right. now left. }
    assert (length (box_lines b ++ table_lines d b) = tp + Hh) as -> by (rewrite box_lines_eq, table_lines_eq, app_length, !map_length, !seq_length; reflexivity).
    tr_ltb 0 (tp + Hh). tr_ltb 0 W. cbn [andb]. rewrite lines_eq. now rewrite text_rows_box, blank_rows_box.
  - apply boxline_solid. lia.
  - reflexivity.
  - apply boxline_solid. lia.
  - intros l Hl. apply in_app_or in Hl. destruct Hl as [Hl|Hl]; apply in_map_iff in Hl; destruct Hl as (y & <- & Hy); apply in_seq in Hy.
    + apply boxline_solid. lia.
    + destruct (tline_solid y ltac:(lia)) as [S1 S2]. split; [assumption|]. apply S2. lia.
  - apply tline_solid. lia.
  - rewrite tline_eq, PW, last_map_seq. fa_eqb (Hh - 1) 0. cbn [andb]. replace (Hh - 1) with (X hs nr) by lia. now rewrite corner_br.
Qed.


(* ------------------------------------------------------------------ the top border of the table *)
Lemma top_row x : 0 < x -> x < W ->
  mchar d 0 x = cH \/ mchar d 0 x = cT \/ (mchar d 0 x = dTv /\ exists j, j <= nc /\ dblv d j = true /\ x = X ws j) \/ (mchar d 0 x = cTR /\ x = X ws nc).
Proof.
  intros H0 Hx. facts. assert (forall x', mchar d 0 x' = mchar d (X hs 0) x') as E0 by (intro; now rewrite X_0). rewrite !E0.
  destruct (x_cases ws x Hx) as [(j & Hj & ->)|(j & o & Hj & Ho & ->)].
  - assert (1 <= j) as J1 by (destruct j; [rewrite X_0 in H0; lia|lia]).
    rewrite mchar_jj by lia. unfold aU at 1 2. rewrite Nat.ltb_irrefl. cbn [andb orb]. rewrite AL_0, AR_0. tr_ltb 0 j. rewrite (dblh_0 d Hwf).
    destruct (Nat.eq_dec j nc) as [->|Hne].
    + right. right. right. split; [|reflexivity]. rewrite AD_nc. tr_ltb 0 nr. rewrite Nat.ltb_irrefl. cbn [orb]. now rewrite (dblv_nc d Hwf).
    + tr_ltb j nc. rewrite orb_true_r. destruct (aD nr (vseg d) 0 j) eqn:Ed; [|left; now destruct (dblv d j)].
      destruct (dblv d j) eqn:Edv; [right; right; left; split; [reflexivity|exists j; repeat split; try assumption; lia]|right; left; reflexivity].
  - left. rewrite mchar_jh by lia. now rewrite hseg_0, (dblh_0 d Hwf).
Qed.

(* the character under the right edge of the box: a piece of the border, a T or the corner *)
Lemma under_edge : mchar d 0 xr = cH \/ mchar d 0 xr = cT \/ mchar d 0 xr = cTR.
Proof.
  facts. destruct (top_row xr ltac:(lia) Bx2) as [E|[E|[(E & j & Hj & Hd & Ex)|(E & _)]]]; auto.
  exfalso. now apply (Bdbl j Hj Hd).
Qed.

Lemma getB y x : y < tp + S Hh -> x < W -> get TB y x = Some (chB y x).
Proof. intros Hy Hx. unfold TB. now apply get_tab. Qed.
Lemma chB_box y x : y < tp -> chB y x = boxch y x.
Proof. intro Hy. unfold chB. now tr_ltb y tp. Qed.
Lemma chB_table y x : chB (tp + y) x = chM' y x.
Proof. unfold chB. fa_ltb (tp + y) tp. f_equal. lia. Qed.
Lemma chM'_same y x : 1 <= y \/ (x <> 0 /\ x <> xr) -> chM' y x = chM d y x.
Proof.
  intro H. unfold chM'. destruct H as [H|[H1 H2]].
  - now fa_eqb y 0.
  - fa_eqb x 0. fa_eqb x xr. now rewrite andb_false_r.
Qed.

(* ------------------------------------------------------------------ the information item name *)
Lemma move_TB p : fst p < W -> snd p < tp + S Hh -> move_to TB p = Ok p.
Proof. apply move_to_tab. Qed.

Lemma no_Tv_box y x : y < tp -> x < W -> mem (chB y x) [dTv] = false.
Proof.
  intros Hy Hx. rewrite chB_box by assumption. unfold boxch. destruct (xr <? x); [reflexivity|].
  destruct (y =? 0) eqn:E0; [destruct (x =? 0); [reflexivity|]; destruct (x =? xr); reflexivity|].
  destruct ((x =? 0) || (x =? xr)); [reflexivity|]. apply Nat.eqb_neq in E0.
  destruct (Nat.lt_ge_cases (y - 1) (length name)) as [L|G].
  - destruct (name_line (y - 1) L) as [_ P]. apply not_in_sub; [apply (plain_nth _ (x - 1) P)|reflexivity].
  - rewrite (nth_overflow name) by assumption. now destruct (x - 1).
Qed.

Lemma table_top x : x < W -> chB tp x = chM' 0 x.
Proof. intro Hx. replace tp with (tp + 0) at 1 by lia. apply chB_table. Qed.
Lemma chM'_00 : chM' 0 0 = cL.
Proof. unfold chM'. cbn [Nat.eqb andb orb]. pose proof (corner_char d Hwf) as Cc. now rewrite Cc. Qed.
Lemma chM'_0x x : 0 < x -> x < W -> x <> xr -> chM' 0 x = mchar d 0 x.
Proof. intros H0 Hx Hne. facts. rewrite chM'_same by (right; lia). apply chM_in. lia. Qed.
Lemma chM'_0xr : chM' 0 xr = arm_up (mchar d 0 xr).
Proof. facts. unfold chM'. cbn [Nat.eqb andb]. rewrite Nat.eqb_refl, orb_true_r. now rewrite chM_in by lia. Qed.

Lemma search_corner_box : search TB (0, 0) [cTL] = Ok (cTL, (0, 0)).
Proof.
  facts. unfold TB. rewrite (search_tab_same (tp + S Hh) W chB [cTL] 0 0 0); try lia; rewrite chB_box by lia; reflexivity.
Qed.

Lemma no_Tv_top x : x < X ws v1 -> mem (chM' 0 x) [dTv] = false.
Proof.
  intro Hx. facts. pose proof (Xv_lt d Hwf v1 ltac:(lia)) as Lx.
  destruct (Nat.eq_dec x 0) as [->|H0]; [now rewrite chM'_00|].
  assert (mem (mchar d 0 x) [dTv] = false /\ mem (arm_up (mchar d 0 x)) [dTv] = false) as [M1 M2].
  { destruct (top_row x ltac:(lia) ltac:(lia)) as [E|[E|[(E & j & Hj & Hd & Ex)|(E & _)]]]; try (rewrite E; split; reflexivity).
    exfalso. subst x. destruct (dblv_bounds d Hwf j Hd). apply (X_lt_inv' ws) in Hx; lia. }
  destruct (Nat.eq_dec x xr) as [->|Hne]; [now rewrite chM'_0xr|now rewrite chM'_0x by lia].
Qed.

Lemma search_top_edge_box : search TB (0, 0) [dTv] = Ok (dTv, (X ws v1, tp)).
Proof.
  facts. pose proof (Xv_lt d Hwf v1 ltac:(lia)) as Lx. pose proof (X_pos ws v1 ltac:(lia) ltac:(lia)) as Px.
  assert (xr <> X ws v1) as Nx by (apply Bdbl; [lia|apply dblv_v1]).
  assert (chB tp (X ws v1) = dTv) as Ec.
  { rewrite table_top, chM'_0x by lia. pose proof (top_v1_char d Hwf) as Q. now rewrite chM_in in Q by lia. }
  unfold TB. rewrite (search_tab_later (tp + S Hh) W chB [dTv] 0 0 tp (X ws v1)); try lia.
  - now rewrite Ec.
  - intros x _ Hx. apply no_Tv_box; lia.
  - intros y x H1 H2 Hx. apply no_Tv_box; lia.
  - intros x Hx. rewrite table_top by lia. now apply no_Tv_top.
  - now rewrite Ec.
Qed.

Lemma box_right : scan_right TB [cTR] [cH] 0 (W - 1 - 0) 0 = Ok (cTR, (xr, 0)).
Proof.
  facts. rewrite (scan_right_found TB [cTR] [cH] 0 cTR (W - 1 - 0) xr 0); try lia; try reflexivity.
  - intros e He1 He2. cbn [Nat.add]. rewrite getB by lia. rewrite chB_box by lia. unfold boxch. fa_ltb xr e. cbn [Nat.eqb]. fa_eqb e 0. fa_eqb e xr. now apply pass.
  - cbn [Nat.add]. rewrite getB by lia. rewrite chB_box by lia. unfold boxch. rewrite Nat.ltb_irrefl. cbn [Nat.eqb]. fa_eqb xr 0. now rewrite Nat.eqb_refl.
Qed.
Lemma box_down : exists c, scan_down TB [cB; cR; cX] [cV] xr (tp + S Hh - 1 - 0) 0 = Ok (c, (xr, tp)).
Proof.
  facts. exists (arm_up (mchar d 0 xr)).
  rewrite (scan_down_found TB [cB; cR; cX] [cV] xr (arm_up (mchar d 0 xr)) (tp + S Hh - 1 - 0) tp 0); try lia; try reflexivity.
  - intros e He1 He2. cbn [Nat.add]. rewrite getB by lia. rewrite chB_box by lia. unfold boxch. rewrite Nat.ltb_irrefl. fa_eqb e 0.
    rewrite Nat.eqb_refl, orb_true_r. now apply pass.
  - cbn [Nat.add]. rewrite getB by lia. now rewrite table_top, chM'_0xr by lia.
  - destruct under_edge as [Eu|[Eu|Eu]]; rewrite Eu; reflexivity.
Qed.
Lemma box_left : scan_left TB [cL] [cH; cT; dTv] tp xr = Ok (cL, (0, tp)).
Proof.
  facts. rewrite (scan_left_found TB [cL] [cH; cT; dTv] tp cL xr xr); try lia; try reflexivity.
  - now rewrite Nat.sub_diag.
  - intros e He1 He2. rewrite getB by lia. rewrite table_top, chM'_0x by lia.
    destruct (top_row (xr - e) ltac:(lia) ltac:(lia)) as [E|[E|[(E & _)|(E & Ex)]]]; rewrite ?E; try (now apply pass). exfalso. lia.
  - rewrite Nat.sub_diag, getB by lia. now rewrite table_top, chM'_00 by lia.
Qed.
Lemma box_up : scan_up TB [cTL] [cV] 0 tp = Ok (cTL, (0, 0)).
Proof.
  facts. rewrite (scan_up_found TB [cTL] [cV] 0 cTL tp tp); try lia; try reflexivity.
  - now rewrite Nat.sub_diag.
  - intros e He1 He2. rewrite getB by lia. rewrite chB_box by lia. unfold boxch. fa_ltb xr 0. fa_eqb (tp - e) 0. cbn [Nat.eqb orb]. now apply pass.
  - rewrite Nat.sub_diag, getB by lia. now rewrite chB_box by lia.
Qed.

Lemma box_text : text_from_rect TB (0, 0, S xr, S tp) = Ok (bname b).
Proof.
  facts. unfold text_from_rect, slice at 1. unfold TB at 1 2. rewrite tab_length.
  replace ((1 <=? tp) && (tp <=? tp + S Hh)) with true by (symmetry; apply andb_true_iff; split; apply Nat.leb_le; lia).
  unfold tab. rewrite slice_map_seq by lia. replace (tp - 1) with (length name) by lia.
  assert (forall (L : list (list N)) k, (forall q, q < length L -> nth q L [] = nth (k + q) name []) -> k + length L = length name ->
            map_opt (fun row : list N => slice row 1 (S xr - 1)) (map (fun y => map (chB y) (seq 0 W)) (seq (S k) (length L))) = Some L) as Hgen.
  { induction L as [|line L IH]; intros k Hq Hlen; [reflexivity|].
    cbn [length seq map map_opt]. rewrite (IH (S k)); [| |cbn [length] in Hlen; lia].
    2:{ intros q Hq'. specialize (Hq (S q) ltac:(cbn [length]; lia)). cbn [nth] in Hq. rewrite Hq. f_equal. lia. }
    unfold slice. rewrite map_length, seq_length.
    replace ((1 <=? S xr - 1) && (S xr - 1 <=? W)) with true by (symmetry; apply andb_true_iff; split; apply Nat.leb_le; lia).
    rewrite slice_map_seq by lia.
    assert (line = nth k name []) as El by (specialize (Hq 0 ltac:(cbn [length]; lia)); cbn [nth] in Hq; now rewrite Nat.add_0_r in Hq).
    cbn [length] in Hlen. destruct (name_line k ltac:(lia)) as [Ll _]. rewrite <- El in Ll.
    replace (S xr - 1 - 1) with (length line) by lia.
    rewrite (map_seq_eq _ cWhite); [reflexivity|].
    intros o Ho. rewrite chB_box by lia. unfold boxch. fa_ltb xr (1 + o). change (S k =? 0) with false. cbv iota.
    fa_eqb (1 + o) 0. fa_eqb (1 + o) xr. cbn [orb]. rewrite El. f_equal; [lia|]. f_equal. lia. }
  rewrite (Hgen name 0); [reflexivity|reflexivity|reflexivity].
Qed.

Lemma info_name_box : recognize_information_item_name TB = Ok (Some (bname b)).
Proof.
  facts. pose proof (Xv_lt d Hwf v1 ltac:(lia)) as Lx.
  unfold recognize_information_item_name. rewrite move_TB by (cbn [fst snd]; lia). cbn [bind].
  rewrite search_corner_box. cbn [bind]. rewrite search_top_edge_box. cbn [bind snd]. tr_ltb 0 tp.
  rewrite move_TB by (cbn [fst snd]; lia). cbn [bind]. unfold TB at 1. rewrite search_right_tab' by lia. fold TB. rewrite box_right. cbn [bind].
  unfold TB at 1. rewrite search_down_tab' by lia. fold TB. destruct box_down as (c & ->). cbn [bind].
  unfold search_left. cbn [fst snd]. rewrite box_left. cbn [bind]. unfold search_up. cbn [fst snd]. rewrite box_up. cbn [bind].
  unfold close_rectangle, point_eqb. cbn [fst snd Nat.eqb andb bind]. now rewrite box_text.
Qed.


(* ------------------------------------------------------------------ the crossings and the body rectangle: those of the table, moved down *)
Lemma no_XX_box y x : y < tp -> x < W -> mem (chB y x) [dXX] = false.
Proof.
  intros Hy Hx. rewrite chB_box by assumption. unfold boxch. destruct (xr <? x); [reflexivity|].
  destruct (y =? 0) eqn:E0; [destruct (x =? 0); [reflexivity|]; destruct (x =? xr); reflexivity|].
  destruct ((x =? 0) || (x =? xr)); [reflexivity|]. apply Nat.eqb_neq in E0.
  destruct (Nat.lt_ge_cases (y - 1) (length name)) as [L|G].
  - destruct (name_line (y - 1) L) as [_ P]. apply not_in_sub; [apply (plain_nth _ (x - 1) P)|reflexivity].
  - rewrite (nth_overflow name) by assumption. now destruct (x - 1).
Qed.

Lemma agree_rows y x : 1 <= y -> y < S Hh -> x < W -> chB (tp + y) x = chM d y x.
Proof. intros H1 H2 H3. rewrite chB_table. apply chM'_same. now left. Qed.
Lemma agree_col y : y < S Hh -> chB (tp + y) (X ws v1) = chM d y (X ws v1).
Proof.
  intro Hy. facts. pose proof (X_pos ws v1 ltac:(lia) ltac:(lia)) as Px.
  assert (xr <> X ws v1) as Nx by (apply Bdbl; [lia|apply dblv_v1]).
  rewrite chB_table. apply chM'_same. right. lia.
Qed.

Lemma no_XX_top x : x < W -> mem (chM' 0 x) [dXX] = false.
Proof.
  intro Hx. facts. destruct (Nat.eq_dec x 0) as [->|H0]; [now rewrite chM'_00|].
  assert (mem (mchar d 0 x) [dXX] = false /\ mem (arm_up (mchar d 0 x)) [dXX] = false) as [M1 M2]
    by (destruct (top_row x ltac:(lia) ltac:(lia)) as [E|[E|[(E & _)|(E & _)]]]; rewrite E; split; reflexivity).
  destruct (Nat.eq_dec x xr) as [->|Hne]; [now rewrite chM'_0xr|now rewrite chM'_0x by lia].
Qed.

Lemma search_cross_box : search TB (0, 0) [dXX] = Ok (dXX, (X ws v1, tp + X hs h1)).
Proof.
  facts. pose proof (X_pos hs h1 ltac:(lia) ltac:(lia)) as Py. pose proof (Xh_lt' d Hwf h1 ltac:(lia)) as Ly. pose proof (Xv_lt d Hwf v1 ltac:(lia)) as Lx.
  assert (chB (tp + X hs h1) (X ws v1) = dXX) as Ec.
  { rewrite agree_rows by lia. rewrite chM_in by lia. apply (cross_char d Hwf); [apply dblh_h1|apply dblv_v1]. }
  unfold TB. rewrite (search_tab_later (tp + S Hh) W chB [dXX] 0 0 (tp + X hs h1) (X ws v1)); try lia.
  - now rewrite Ec.
  - intros x _ Hx. apply no_XX_box; lia.
  - intros y x H1 H2 Hx. destruct (Nat.lt_ge_cases y tp) as [L|G]; [apply no_XX_box; lia|].
    replace y with (tp + (y - tp)) by lia. destruct (Nat.eq_dec (y - tp) 0) as [E0|N0].
    + rewrite E0, chB_table. now apply no_XX_top.
    + rewrite agree_rows by lia. rewrite chM_in by lia. apply (no_XX d Hwf); try lia. intros i j Ei _ Ey _. destruct (dblh_bounds d Hwf i Ei).
      assert (X hs i < X hs h1) as Lt by lia. apply (X_lt_inv' hs) in Lt; lia.
  - intros x Hx. rewrite agree_rows by lia. rewrite chM_in by lia. apply (no_XX d Hwf); try lia. intros i j _ Ej _ Ex. destruct (dblv_bounds d Hwf j Ej).
    subst x. apply (X_lt_inv' ws) in Hx; lia.
  - now rewrite Ec.
Qed.

Lemma crossings_box :
  recognize_crossings TB = Ok ((X ws v1, tp + X hs h1), option_map (fun k => (X ws k, tp + X hs h1)) (md_v2 d),
                               option_map (fun k => (X ws v1, tp + X hs k)) (md_h2 d)).
Proof.
  facts. pose proof (X_pos hs h1 ltac:(lia) ltac:(lia)) as Py. pose proof (Xh_lt' d Hwf h1 ltac:(lia)) as Ly. pose proof (Xv_lt d Hwf v1 ltac:(lia)) as Lx.
  unfold TB. rewrite (crossings_shift (S Hh) W tp (chM d) chB (X ws v1) agree_rows agree_col (X hs h1)); try lia.
  - change (tab (S Hh) W (chM d)) with (TM d). rewrite (crossings_m d Hwf). unfold shp. cbn [fst snd]. destruct (md_v2 d), (md_h2 d); reflexivity.
  - apply (search_cross_m d Hwf).
  - apply search_cross_box.
Qed.

Lemma body_rect_box : recognize_body_rect TB = Ok (0, tp, W, tp + Hh).
Proof.
  facts. pose proof (X_pos hs h1 ltac:(lia) ltac:(lia)) as Py. pose proof (Xh_lt' d Hwf h1 ltac:(lia)) as Ly. pose proof (Xv_lt d Hwf v1 ltac:(lia)) as Lx.
  unfold TB. rewrite (body_rect_shift (S Hh) W tp (chM d) chB (X ws v1) agree_rows agree_col (X hs h1) 0 0 W Hh); try lia.
  - now rewrite Nat.add_0_r.
  - apply (search_cross_m d Hwf).
  - apply search_cross_box.
  - apply (body_rect_m d Hwf).
Qed.


(* ------------------------------------------------------------------ THIN, BODY (the region of the name is removed, the top border restored) and GRID *)
Local Notation th := (thl (md_hs d) (md_ws d) (vseg d) (hseg d)).
Local Notation tc := (thc (md_hs d) (md_ws d) (vseg d) (hseg d)).
Local Notation tcf := (thc (md_hs d) (md_ws d) (fun _ _ => true) (fun _ _ => true)).

Definition THB : layer := tab (tp + S Hh) W (fun y x => prep (chB y x)).
Definition junkf (y x : nat) : N := if S y <? tp then cOuter else blB y x.
Definition BDB : layer := tab (tp + S Hh) W (fun y x => if y <? tp then junkf y x else tc (y - tp) x).
Definition GDB : layer := tab (tp + S Hh) W (fun y x => if y <? tp then junkf y x else tcf (y - tp) x).

Lemma thin_layer_box : map (map prep) TB = THB.
Proof. unfold TB, THB. apply map_map_tab. Qed.

Lemma prep_top x : x < W -> top_conv (prep (chM' 0 x)) = th 0 x.
Proof.
  intro Hx. facts. destruct (Nat.eq_dec x 0) as [->|H0].
  - rewrite chM'_00. rewrite <- (thin_char d Hwf 0 0) by lia. pose proof (corner_char d Hwf) as Cc. rewrite chM_in in Cc by lia. now rewrite Cc.
  - rewrite <- (thin_char d Hwf 0 x) by lia. destruct (Nat.eq_dec x xr) as [->|Hne].
    + rewrite chM'_0xr. destruct under_edge as [E|[E|E]]; rewrite E; reflexivity.
    + rewrite chM'_0x by lia. destruct (top_row x ltac:(lia) Hx) as [E|[E|[(E & _)|(E & _)]]]; rewrite E; reflexivity.
Qed.

Lemma body_layer_box : remove_information_item_region BB THB (0, tp, W, tp + Hh) = Ok BDB.
Proof.
  facts. unfold remove_information_item_region. unfold BB at 1. rewrite fits_tab by lia. f_equal.
  unfold BB. rewrite remap_tab. unfold BDB. apply tab_ext. intros y x Hy Hx.
  unfold in_range at 1. change (0 <=? x) with true. cbn [andb]. tr_ltb x W. unfold THB. rewrite !getd_tab by lia.
  destruct (Nat.ltb_spec (S y) tp) as [L1|G1].
  - tr_ltb y tp. unfold junkf. now tr_ltb (S y) tp.
  - destruct (Nat.eqb_spec y tp) as [->|Hne].
    + rewrite Nat.ltb_irrefl, Nat.sub_diag. rewrite table_top by assumption. rewrite prep_top by assumption. symmetry. apply thc_in. change (LH hs) with Hh. lia.
    + destruct (in_range (S tp) (tp + Hh) y) eqn:Er.
      * unfold in_range in Er. apply andb_true_iff in Er. destruct Er as [E1 E2]. apply Nat.leb_le in E1. apply Nat.ltb_lt in E2.
        fa_ltb y tp. replace y with (tp + (y - tp)) at 1 by lia. rewrite chB_table. rewrite chM'_same by (left; lia). rewrite chM_in by lia.
        rewrite (thin_char d Hwf) by lia. symmetry. apply thc_in. change (LH hs) with Hh. lia.
      * unfold in_range in Er. apply andb_false_iff in Er. destruct (Nat.ltb_spec y tp) as [L2|G2].
        { unfold junkf. now fa_ltb (S y) tp. }
        { assert (y = tp + Hh) as -> by (destruct Er as [Er|Er]; [apply Nat.leb_gt in Er|apply Nat.ltb_ge in Er]; lia).
          unfold blB. fa_ltb (tp + Hh) tp. replace (tp + Hh - tp) with Hh by lia. rewrite Nat.ltb_irrefl. change Hh with (LH hs). now rewrite thc_last. }
Qed.

Lemma grid_layer_box : make_grid BDB (0, tp, W, tp + Hh) = Ok GDB.
Proof.
  facts. unfold BDB, GDB. apply (make_grid_shift (S Hh) W tp Hh tc tcf junkf); try lia.
  exact (grid_layer_m d Hwf).
Qed.

(* ------------------------------------------------------------------ the canvas *)
Definition boxed_canvas : canvas :=
  {| cv_text := TB; cv_thin := THB; cv_body := BDB; cv_grid := GDB;
     cv_cross := (X ws v1, tp + X hs h1);
     cv_horz := option_map (fun k => (X ws k, tp + X hs h1)) (md_v2 d);
     cv_vert := option_map (fun k => (X ws v1, tp + X hs k)) (md_h2 d);
     cv_name := Some (bname b); cv_rect := (0, tp, W, tp + Hh) |}.

Theorem scan_box : scan_from TB BB = Ok boxed_canvas.
Proof.
  unfold scan_from. rewrite info_name_box. cbn [bind]. rewrite crossings_box. cbn [bind]. rewrite body_rect_box. cbn [bind].
  rewrite thin_layer_box, body_layer_box. cbn [bind]. rewrite grid_layer_box. reflexivity.
Qed.


(* ------------------------------------------------------------------ the regions of THIN: the box, then the merged cells of the table moved down *)
Local Notation boxr := (0, 0, S xr, S tp).
Definition thb (y x : nat) : N := prep (chB y x).

Lemma thb_table y x : 1 <= y -> y < S Hh -> x < W -> thb (tp + y) x = tc y x.
Proof.
  intros H1 H2 Hx. unfold thb. rewrite agree_rows by assumption. unfold chM, thc. change (LH hs) with Hh.
  destruct (y <? Hh) eqn:E; [|reflexivity]. apply Nat.ltb_lt in E. now apply thin_char.
Qed.
Lemma thb_top x : x < W -> x <> 0 -> x <> xr -> thb tp x = tc 0 x.
Proof.
  intros Hx H0 Hne. facts. unfold thb. rewrite table_top, chM'_0x by lia. rewrite (thin_char d Hwf) by lia. symmetry. apply thc_in. change (LH hs) with Hh. lia.
Qed.
Lemma tc_00 : tc 0 0 = cTL.
Proof. facts. rewrite thc_in by (change (LH hs) with Hh; lia). rewrite <- (thin_char d Hwf) by lia. pose proof (corner_char d Hwf) as Cc. rewrite chM_in in Cc by lia. now rewrite Cc. Qed.
Lemma thb_00 : thb tp 0 = cL.
Proof. facts. unfold thb. now rewrite table_top, chM'_00 by lia. Qed.
Lemma tc_0xr : tc 0 xr = prep (mchar d 0 xr).
Proof. facts. rewrite thc_in by (change (LH hs) with Hh; lia). symmetry. apply thin_char; [assumption|lia|assumption]. Qed.
Lemma thb_0xr : thb tp xr = prep (arm_up (mchar d 0 xr)).
Proof. facts. unfold thb. now rewrite table_top, chM'_0xr by lia. Qed.

(* the two changed characters keep their part in every walk around a region *)
Lemma thb_roles x : x < W ->
  (okp corners_tr [cH; cB] (tc 0 x) -> okp corners_tr [cH; cB] (thb tp x)) /\
  (mem (tc 0 x) corners_tr = true -> mem (thb tp x) corners_tr = true) /\
  (mem (tc 0 x) corners_tl = true -> mem (thb tp x) corners_tl = true).
Proof.
  intro Hx. unfold okp. destruct (Nat.eq_dec x 0) as [->|H0].
  - rewrite tc_00, thb_00. split; [intros [A B]; discriminate|split; [intro A; discriminate|intro; reflexivity]].
  - destruct (Nat.eq_dec x xr) as [->|Hne].
    + rewrite tc_0xr, thb_0xr. destruct under_edge as [E|[E|E]]; rewrite E;
      (split; [intros [A B]; (discriminate || (split; reflexivity))|split; intro A; (discriminate || reflexivity)]).
    + rewrite thb_top by assumption. auto.
Qed.

Lemma getd_THB y x : y < tp + S Hh -> x < W -> is_tl_corner THB y x = mem (thb y x) corners_tl.
Proof. intros Hy Hx. unfold is_tl_corner, THB. now rewrite get_tab by assumption. Qed.

Lemma corner_box_rows y x : y < tp -> x < W -> is_tl_corner THB y x = (y =? 0) && (x =? 0).
Proof.
  intros Hy Hx. facts. rewrite getd_THB by lia. unfold thb. rewrite chB_box by assumption. unfold boxch.
  destruct (Nat.ltb_spec xr x) as [L1|G1]; [fa_eqb x 0; now rewrite andb_false_r|].
  destruct (y =? 0) eqn:E0; [destruct (x =? 0); [reflexivity|]; destruct (x =? xr); reflexivity|].
  cbn [andb]. destruct ((x =? 0) || (x =? xr)); [reflexivity|]. apply Nat.eqb_neq in E0.
  destruct (Nat.lt_ge_cases (y - 1) (length name)) as [L|G].
  - destruct (name_line (y - 1) L) as [_ P]. now rewrite (prep_plain _ (plain_nth _ (x - 1) P)).
  - rewrite (nth_overflow name) by assumption. now destruct (x - 1).
Qed.

Lemma corner_table_rows y x : y < S Hh -> x < W -> is_tl_corner THB (tp + y) x = is_tl_corner (THM d) y x.
Proof.
  intros Hy Hx. rewrite getd_THB by lia. rewrite (corner_THM d y x) by (try assumption; lia).
  destruct (Nat.eq_dec y 0) as [->|N0]; [|now rewrite thb_table by lia].
  rewrite Nat.add_0_r. destruct (Nat.eq_dec x 0) as [->|H0]; [now rewrite thb_00, tc_00|].
  destruct (Nat.eq_dec x xr) as [->|Hne]; [|now rewrite thb_top by assumption].
  rewrite thb_0xr, tc_0xr. destruct under_edge as [E|[E|E]]; rewrite E; reflexivity.
Qed.

Lemma THB_length : length THB = tp + S Hh. Proof. unfold THB. apply tab_length. Qed.
Lemma THB_row_length y : y < tp + S Hh -> length (nth y THB []) = W.
Proof. intro Hy. unfold THB. rewrite tab_row_nth by assumption. now rewrite map_length, seq_length. Qed.

Lemma corners_THB : find_top_left_corners THB = (0, 0) :: map (shp tp) (map (corner_of d) (firsts d)).
Proof.
  facts. unfold find_top_left_corners. rewrite THB_length, seq_app, flat_map_app. cbn [Nat.add].
  assert (flat_map (fun y => map (fun x => (x, y)) (filter (is_tl_corner THB y) (seq 0 (length (nth y THB []))))) (seq 0 tp) = [(0, 0)]) as ->.
  { rewrite Ptp. cbn [seq flat_map]. rewrite THB_row_length by lia.
    assert (filter (is_tl_corner THB 0) (seq 0 W) = [0]) as ->.
    { rewrite PW. cbn [seq filter]. rewrite corner_box_rows by lia. cbn [Nat.eqb andb]. f_equal. apply filter_none. intros x Hx. apply in_seq in Hx.
      rewrite corner_box_rows by lia. now fa_eqb x 0. }
    cbn [map app]. f_equal. apply flat_map_nil. intros y Hy. apply in_seq in Hy. rewrite THB_row_length by lia.
    rewrite filter_none; [reflexivity|]. intros x Hx. apply in_seq in Hx. rewrite corner_box_rows by lia. now fa_eqb y 0. }
  cbn [app]. f_equal. rewrite <- (corners_THM d Hwf). unfold find_top_left_corners. rewrite (THM_length d).
  rewrite (seq_add_box tp (S Hh)), flat_map_concat_map, map_map, <- flat_map_concat_map. rewrite map_flat_map.
  apply flat_map_ext_in'. intros y Hy. apply in_seq in Hy. rewrite THB_row_length, (THM_row_length d) by lia. rewrite map_map.
  unfold shp. cbn [fst snd]. f_equal. apply filter_ext_in. intros x Hx. apply in_seq in Hx. apply corner_table_rows; lia.
Qed.


Lemma box_region : recognize_region THB (0, 0) = Ok boxr.
Proof.
  facts. unfold recognize_region, THB. fold thb.
  assert (forall y x, y < tp -> thb y x = prep (boxch y x)) as Eb by (intros; unfold thb; now rewrite chB_box).
  apply walk_tab; try lia.
  - intros x H1 H2. rewrite Eb by lia. unfold boxch. fa_ltb xr x. cbn [Nat.eqb]. fa_eqb x 0. fa_eqb x xr. split; reflexivity.
  - rewrite Eb by lia. unfold boxch. rewrite Nat.ltb_irrefl. cbn [Nat.eqb]. fa_eqb xr 0. now rewrite Nat.eqb_refl.
  - intros y H1 H2. rewrite Eb by lia. unfold boxch. rewrite Nat.ltb_irrefl. fa_eqb y 0. rewrite Nat.eqb_refl, orb_true_r. split; reflexivity.
  - rewrite thb_0xr. destruct under_edge as [E|[E|E]]; rewrite E; reflexivity.
  - intros x H1 H2. rewrite thb_top by lia. rewrite thc_in by (change (LH hs) with Hh; lia). rewrite <- (thin_char d Hwf) by lia.
    destruct (top_row x ltac:(lia) ltac:(lia)) as [E|[E|[(E & _)|(E & Ex)]]]; rewrite ?E; try (split; reflexivity). exfalso. lia.
  - now rewrite thb_00.
  - intros y H1 H2. rewrite Eb by lia. unfold boxch. fa_ltb xr 0. fa_eqb y 0. cbn [Nat.eqb orb]. split; reflexivity.
  - rewrite Eb by lia. reflexivity.
Qed.

Lemma table_region i j r0 c0 r1 c1 : i < nr -> j < nc -> md_reg d i j = (r0, c0, r1, c1) ->
  recognize_region THB (X ws c0, tp + X hs r0) = Ok (shr tp (mrect d (r0, c0, r1, c1))).
Proof.
  intros Hi Hj E. facts. pose proof (tile d Hwf i j r0 c0 r1 c1 Hi Hj E) as (T1 & T2 & T3 & T4 & T5 & T6 & T7).
  pose proof (region_walk d Hwf i j r0 c0 r1 c1 Hi Hj E) as Q. unfold recognize_region, THM, TL in Q. change (LH hs) with Hh in Q. change (LW ws) with W in Q.
  pose proof (Xv_lt d Hwf c0 ltac:(lia)) as Lx0. pose proof (Xh_lt' d Hwf r0 ltac:(lia)) as Ly0.
  unfold mrect in Q. apply walk_tab_inv in Q; try lia.
  destruct Q as (x1 & y1 & _ & _ & Ex & Ey & X1 & X2 & Y1 & Y2 & F1 & F2 & F3 & F4 & F5 & F6 & F7 & F8).
  injection Ex as Ex. injection Ey as Ey. subst x1 y1.
  unfold recognize_region, THB. fold thb. unfold shr, mrect.
  replace (S (tp + X hs r1)) with (S (tp + X hs r1)) by reflexivity. replace (tp + S (X hs r1)) with (S (tp + X hs r1)) by lia.
  assert (forall x, x < W -> (okp corners_tr [cH; cB] (tc (X hs r0) x) -> okp corners_tr [cH; cB] (thb (tp + X hs r0) x)) /\
                             (mem (tc (X hs r0) x) corners_tr = true -> mem (thb (tp + X hs r0) x) corners_tr = true) /\
                             (mem (tc (X hs r0) x) corners_tl = true -> mem (thb (tp + X hs r0) x) corners_tl = true)) as Top.
  { intros x Hx. destruct (Nat.eq_dec (X hs r0) 0) as [E0|N0].
    - rewrite E0, Nat.add_0_r. now apply thb_roles.
    - rewrite thb_table by lia. auto. }
  apply walk_tab; try lia.
  - intros x H1 H2. apply Top; [lia|]. now apply F1.
  - apply Top; [lia|assumption].
  - intros y H1 H2. replace y with (tp + (y - tp)) by lia. rewrite thb_table by lia. apply F3; lia.
  - rewrite thb_table by lia. assumption.
  - intros x H1 H2. rewrite thb_table by lia. now apply F5.
  - rewrite thb_table by lia. assumption.
  - intros y H1 H2. replace y with (tp + (y - tp)) by lia. rewrite thb_table by lia. apply F7; lia.
  - apply Top; [lia|assumption].
Qed.

Theorem regions_box : recognize_regions THB = Ok (boxr :: map (shr tp) (regions_m d)).
Proof.
  unfold recognize_regions. rewrite corners_THB. cbn [map_res]. rewrite box_region. cbn [bind].
  assert (map_res (recognize_region THB) (map (shp tp) (map (corner_of d) (firsts d))) = Ok (map (shr tp) (regions_m d))) as ->; [|reflexivity].
  unfold regions_m. rewrite !map_map. apply map_res_map. intros [i j] Hin.
  destruct (firsts_in d (i, j) Hin) as (Hi & Hj & Hf). cbn [fst snd] in *. unfold corner_of, shp. cbn [fst snd].
  unfold is_first in Hf. cbn [fst snd] in Hf. destruct (md_reg d i j) as [[[r0 c0] r1] c1] eqn:E.
  apply andb_true_iff in Hf. destruct Hf as [F1 F2]. apply Nat.eqb_eq in F1, F2. subst r0 c0.
  now apply (table_region i j i j r1 c1).
Qed.


(* ------------------------------------------------------------------ the walk of Canvas::plane: that of the table, moved down *)
Lemma text_from_rect_shift h w k (f f' : nat -> nat -> N) l t rr bt :
  (forall y x, 1 <= y -> y < h -> x < w -> f' (k + y) x = f y x) ->
  text_from_rect (tab (k + h) w f') (l, k + t, rr, k + bt) = text_from_rect (tab h w f) (l, t, rr, bt).
Proof.
  intro A1. unfold text_from_rect. destruct bt as [|b']; [rewrite Nat.add_0_r|replace (k + S b') with (S (k + b')) by lia].
  - destruct k as [|k']; [reflexivity|]. unfold slice. rewrite tab_length.
    replace ((S (S k' + t) <=? k') && (k' <=? S k' + h)) with false by (symmetry; apply andb_false_iff; left; apply Nat.leb_gt; lia). reflexivity.
  - unfold slice at 1 3. rewrite !tab_length.
    replace ((S (k + t) <=? k + b') && (k + b' <=? k + h)) with ((S t <=? b') && (b' <=? h))
      by (destruct (Nat.leb_spec (S t) b'), (Nat.leb_spec (S (k + t)) (k + b')), (Nat.leb_spec b' h), (Nat.leb_spec (k + b') (k + h)); lia || reflexivity).
    destruct ((S t <=? b') && (b' <=? h)) eqn:Ec; [|reflexivity]. apply andb_true_iff in Ec. destruct Ec as [E1 E2]. apply Nat.leb_le in E1, E2.
    unfold tab. rewrite !slice_map_seq by lia. replace (k + b' - S (k + t)) with (b' - S t) by lia.
    assert (map (fun y => map (f' y) (seq 0 w)) (seq (S (k + t)) (b' - S t)) = map (fun y => map (f y) (seq 0 w)) (seq (S t) (b' - S t))) as ->; [|reflexivity].
    replace (S (k + t)) with (k + S t) by lia. rewrite (seq_add_box (k + S t)), (seq_add_box (S t)), !map_map. apply map_ext_in. intros q Hq. apply in_seq in Hq.
    apply map_ext_in. intros x Hx. apply in_seq in Hx. replace (k + S t + q) with (k + (S t + q)) by lia. apply A1; lia.
Qed.

Lemma GDB_get y x : y < S Hh -> x < W -> get GDB (tp + y) x = get (GM d) y x.
Proof.
  intros Hy Hx. unfold GDB, GM, TL. change (LH hs) with Hh. change (LW ws) with W. rewrite !get_tab by lia. fa_ltb (tp + y) tp. now replace (tp + y - tp) with y by lia.
Qed.

Theorem plane_box : plane_of boxed_canvas = Ok (bplane d b).
Proof.
  facts. unfold bplane.
  assert (forall r, shift_rect b r = shr tp r) as Esr by (intros [[[l t] rr] bt]; reflexivity).
  assert (forall c, shift_cell b c = shc tp c) as Esc by (intros [n r t| | | | | | |]; cbn [shift_cell shc]; try reflexivity; now rewrite Esr).
  rewrite (map_ext _ _ (fun row => map_ext _ _ Esc row)).
  apply (plane_of_shift (merged_canvas d) boxed_canvas tp (regions_m d) boxr).
  - cbn [boxed_canvas merged_canvas cv_grid]. unfold GDB, GM, TL. now rewrite !tab_length.
  - intro y. cbn [boxed_canvas merged_canvas cv_grid]. unfold GDB, GM, TL. change (LH hs) with Hh. change (LW ws) with W.
    destruct (Nat.lt_ge_cases y (S Hh)) as [L|G].
    + rewrite !tab_row_nth by lia. now rewrite !map_length.
    + rewrite !nth_overflow by (rewrite tab_length; lia). reflexivity.
  - intros y x Hy. cbn [boxed_canvas cv_grid]. unfold is_tl_corner, GDB.
    destruct (Nat.lt_ge_cases x W) as [Lx|Gx]; [|now rewrite get_tab_none by lia].
    rewrite get_tab by lia. tr_ltb y tp. unfold junkf, blB. tr_ltb y tp. destruct (S y <? tp); [reflexivity|]. now destruct (xr <? x).
  - intros y x. cbn [boxed_canvas merged_canvas cv_grid]. unfold is_tl_corner.
    destruct (Nat.lt_ge_cases y (S Hh)) as [Ly|Gy]; [destruct (Nat.lt_ge_cases x W) as [Lx|Gx]|].
    + now rewrite GDB_get.
    + unfold GDB, GM, TL. now rewrite !get_tab_none by (change (LW ws) with W; lia).
    + unfold GDB, GM, TL. now rewrite !get_tab_none by (change (LH hs) with Hh; lia).
  - reflexivity.
  - cbn [boxed_canvas merged_canvas cv_horz]. now destruct (md_v2 d).
  - cbn [boxed_canvas merged_canvas cv_vert]. now destruct (md_h2 d).
  - intros x y r Hc Er. cbn [boxed_canvas merged_canvas cv_grid] in *.
    assert (y < S Hh /\ x < W) as [Ly Lx].
    { unfold is_tl_corner in Hc. destruct (Nat.lt_ge_cases y (S Hh)) as [Ly|Gy]; [destruct (Nat.lt_ge_cases x W) as [Lx|Gx]; [split; assumption|]|].
      - unfold GM, TL in Hc. rewrite get_tab_none in Hc by (change (LW ws) with W; lia). discriminate.
      - unfold GM, TL in Hc. rewrite get_tab_none in Hc by (change (LH hs) with Hh; lia). discriminate. }
    destruct r as [[[l t] rr] bt]. unfold recognize_rectangle, GM, TL in Er. change (LH hs) with Hh in Er. change (LW ws) with W in Er.
    apply walk_tab_inv in Er; try lia.
    destruct Er as (x1 & y1 & -> & -> & -> & -> & X1 & X2 & Y1 & Y2 & F1 & F2 & F3 & F4 & F5 & F6 & F7 & F8).
    split.
    + unfold recognize_rectangle, GDB, shr. replace (tp + S y1) with (S (tp + y1)) by lia.
      assert (forall y0 x0, y0 < S Hh -> (if tp + y0 <? tp then junkf (tp + y0) x0 else tcf (tp + y0 - tp) x0) = tcf y0 x0) as Eg
        by (intros y0 x0 H0; fa_ltb (tp + y0) tp; now replace (tp + y0 - tp) with y0 by lia).
      apply walk_tab; try lia.
      * intros x0 H1 H2. rewrite Eg by lia. now apply F1.
      * rewrite Eg by lia. assumption.
      * intros y0 H1 H2. replace y0 with (tp + (y0 - tp)) by lia. rewrite Eg by lia. apply F3; lia.
      * rewrite Eg by lia. assumption.
      * intros x0 H1 H2. rewrite Eg by lia. now apply F5.
      * rewrite Eg by lia. assumption.
      * intros y0 H1 H2. replace y0 with (tp + (y0 - tp)) by lia. rewrite Eg by lia. apply F7; lia.
      * rewrite Eg by lia. assumption.
    + unfold contains, shr. replace (tp + S y1 <=? S tp) with false by (symmetry; apply Nat.leb_gt; lia). now rewrite andb_false_r.
  - intros r Hr. cbn [boxed_canvas merged_canvas cv_text]. destruct r as [[[l t] rr] bt]. unfold shr, TB, TM.
    apply (text_from_rect_shift (S Hh) W tp (chM d) chB). apply agree_rows.
  - apply (regions_merged d Hwf).
  - apply regions_box.
  - apply (plane_merged d Hwf).
Qed.

(* ------------------------------------------------------------------ the headline: text -> name and plane *)
Theorem cplane_box : canvas_cplane (drawb d b) = Ok (Some (bname b), bplane d b).
Proof.
  unfold canvas_cplane, scan. rewrite scan_layers_box. rewrite scan_box. cbn [bind]. rewrite plane_box. reflexivity.
Qed.

End Box.

Theorem draw_roundtrip_box code d b : wf_mdraw d = true -> wf_ibox d b = true ->
  canvas_cplane (drawb d b) = Ok (Some (bname b), bplane d b) /\
  canvas_to_plane code (drawb d b) = Some (map (map (abs_cell code)) (bplane d b)).
Proof. intros Hwf Hb. split; [now apply cplane_box|]. unfold canvas_to_plane. now rewrite cplane_box. Qed.
