(* C06 -- stack safety of the semantic actions for WHOLE parses: the invariant of the LR automaton, read off the regenerated tables,
   lifts the rule-by-rule theorem of ActionsProofs.v to every run of parse_full.  Owner: ext-actions. *)
From Coq Require Import List NArith ZArith Bool Arith String Lia FMapPositive.
From DV Require Import Gen.LalrTables C06.Lr C06.Actions C06.ActionsKinds C06.ActionsProofs.
From DV Require Import C06.ActionsAutomaton.
Import ListNotations.
Local Open Scope Z_scope.

(* finite: the closure and typing checks on the transitions of the regenerated tables, each evaluated by the VM *)
Lemma automaton_ok_true : automaton_ok = true.
Proof. vm_cast_no_check (eq_refl true). Qed.

Lemma ck_closed : forallb (fun s => implb (reachable auto s) (closed_state auto s)) all_states = true.
Proof. vm_cast_no_check (eq_refl true). Qed.
Lemma ck_ctx : forallb (fun s => implb (reachable auto s) (ctx_state auto s)) all_states = true.
Proof. vm_cast_no_check (eq_refl true). Qed.
Lemma ck_range : forallb (fun kv => (Zpos (fst kv) - 1 <? Z.of_nat (List.length yy_pact))) (PositiveMap.elements auto) = true.
Proof. vm_cast_no_check (eq_refl true). Qed.
Lemma ck_final : final_ok auto = true.
Proof. vm_cast_no_check (eq_refl true). Qed.
Lemma ck_pre : pre_ok auto = true.
Proof. vm_cast_no_check (eq_refl true). Qed.
Lemma ck_terminals : terminals_plain = true.
Proof. vm_cast_no_check (eq_refl true). Qed.
Lemma ck_named : rules_named = true.
Proof. vm_cast_no_check (eq_refl true). Qed.
Lemma ck_ends : ends_ok = true.
Proof. vm_cast_no_check (eq_refl true). Qed.
Lemma ck_uniform : sigs_uniform = true.
Proof. vm_cast_no_check (eq_refl true). Qed.

(* ------------------------------------------------------------------ small facts about the containers *)
Lemma collect_in : forall A B (f : A -> option (list B)) l out a,
  collect f l = Some out -> In a l -> exists x, f a = Some x /\ incl x out.
Proof.
  induction l as [|b r IH]; intros out a H Hin; [destruct Hin|].
  cbn in H. destruct (f b) as [x|] eqn:Eb; [|discriminate H]. destruct (collect f r) as [y|] eqn:Er; [|discriminate H].
  injection H as <-. destruct Hin as [-> | Hin].
  - exists x. split; [exact Eb | apply incl_appl, incl_refl].
  - destruct (IH y a eq_refl Hin) as (x' & Hx & Hi). exists x'. split; [exact Hx | apply incl_appr, Hi].
Qed.

Lemma dedupe_in : forall l x, In x l -> In x (dedupe l).
Proof.
  induction l as [|y r IH]; intros x H; [destruct H|]. cbn.
  destruct (existsb (Z.eqb y) r) eqn:E.
  - destruct H as [-> | H]; [|exact (IH x H)].
    apply existsb_exists in E. destruct E as (z & Hz & Ez). apply Z.eqb_eq in Ez. subst z. exact (IH x Hz).
  - destruct H as [-> | H]; [left; reflexivity | right; exact (IH x H)].
Qed.

Lemma dedupe_in_inv : forall l x, In x (dedupe l) -> In x l.
Proof.
  induction l as [|y r IH]; intros x H; [destruct H|]. cbn in H.
  destruct (existsb (Z.eqb y) r); [right; exact (IH x H)|]. destruct H as [-> | H]; [left; reflexivity | right; exact (IH x H)].
Qed.

Lemma inc_mem_in : forall m s x s2, inc_mem m s x s2 = true -> In (s, x) (inc_of m s2).
Proof.
  intros m s x s2 H. unfold inc_mem in H. apply existsb_exists in H. destruct H as ([a b] & Hin & Heq).
  unfold pair_eqb in Heq. cbn in Heq. apply andb_true_iff in Heq. destruct Heq as [H1 H2].
  apply Z.eqb_eq in H1. apply Z.eqb_eq in H2. subst. exact Hin.
Qed.

Lemma in_all_states : forall s, In s all_states <-> 0 <= s < Z.of_nat (List.length yy_pact).
Proof.
  intro s. unfold all_states. rewrite in_map_iff. split.
  - intros (n & <- & Hn). apply in_seq in Hn. lia.
  - intro H. exists (Z.to_nat s). split; [lia | apply in_seq; lia].
Qed.

Lemma in_all_syms : forall x, In x all_syms <-> 0 <= x < yy_n_tokens.
Proof.
  intro x. unfold all_syms. rewrite in_map_iff.
  assert (H0 : 0 <= yy_n_tokens) by (vm_compute; discriminate). split.
  - intros (n & <- & Hn). apply in_seq in Hn. lia.
  - intro H. exists (Z.to_nat x). split; [lia | apply in_seq; lia].
Qed.

(* ------------------------------------------------------------------ the state stack (top first) with the symbols between the states *)
Inductive links : list Z -> list Z -> Prop :=
| links_0 : links [0] []
| links_S : forall s x s2 ss xs, inc_mem auto s x s2 = true -> links (s :: ss) xs -> links (s2 :: s :: ss) (x :: xs).

Lemma links_top_reachable : forall s ss xs, links (s :: ss) xs -> reachable auto s = true.
Proof.
  intros s ss xs H. inversion H as [|s0 x s2 ss0 xs0 Hm Hl]; subst.
  - reflexivity.
  - unfold reachable. apply inc_mem_in in Hm. destruct (inc_of auto s) as [|p l]; [destruct Hm|]. apply orb_true_r.
Qed.

Lemma links_nonempty : forall ss xs, links ss xs -> exists s r, ss = s :: r.
Proof. intros ss xs H. destruct H; eexists; eexists; reflexivity. Qed.

(* going back over the symbols the tables expect finds exactly those symbols on the real stack *)
Lemma back_ok_sound : forall syms ss xs fr0 fr s,
  links (s :: ss) xs -> In s fr0 -> back_ok auto syms fr0 = Some fr ->
  exists top s' ss' xs', s :: ss = top ++ s' :: ss' /\ List.length top = List.length syms /\ xs = syms ++ xs' /\
                         links (s' :: ss') xs' /\ In s' fr.
Proof.
  induction syms as [|x rest IH]; intros ss xs fr0 fr s Hl Hin Hb.
  - cbn in Hb. injection Hb as <-. exists [], s, ss, xs. repeat split; try reflexivity; assumption.
  - cbn [back_ok] in Hb.
    destruct (forallb (fun s0 => match inc_of auto s0 with [] => false | _ => true end) fr0
              && forallb (fun p => snd p =? x) (flat_map (inc_of auto) fr0)) eqn:E; [|discriminate Hb].
    apply andb_true_iff in E. destruct E as [E1 E2].
    inversion Hl as [|s0 x0 s2 ss0 xs0 Hm Hl0]; subst.
    + (* the stack ends here, but state 0 has no incoming transition *)
      rewrite forallb_forall in E1. specialize (E1 0 Hin).
      assert (H0 : inc_of auto 0 = []) by (vm_compute; reflexivity). rewrite H0 in E1. discriminate E1.
    + apply inc_mem_in in Hm.
      assert (Hinc : In (s0, x0) (flat_map (inc_of auto) fr0)) by (apply in_flat_map; exists s; split; assumption).
      rewrite forallb_forall in E2. specialize (E2 _ Hinc). cbn in E2. apply Z.eqb_eq in E2. subst x0.
      assert (Hs0 : In s0 (dedupe (map fst (flat_map (inc_of auto) fr0)))).
      { apply dedupe_in. apply in_map_iff. exists (s0, x). split; [reflexivity | exact Hinc]. }
      destruct (IH ss0 xs0 _ fr s0 Hl0 Hs0 Hb) as (top & s' & ss' & xs' & Hss & Hlen & Hxs & Hl' & Hf).
      exists (s :: top), s', ss', xs'. repeat split.
      * cbn. rewrite Hss. reflexivity.
      * cbn. rewrite Hlen. reflexivity.
      * cbn. rewrite Hxs. reflexivity.
      * exact Hl'.
      * exact Hf.
Qed.

(* ------------------------------------------------------------------ node kinds along the symbols (names, topmost first), from a start stack *)
Inductive chainf (st0 : list kind) : list string -> list kind -> Prop :=
| chainf_nil : chainf st0 [] st0
| chainf_cons : forall x xs st p q, chainf st0 xs st -> In (p, q) (sig_of x) -> prefix_eqb p st = true ->
    chainf st0 (x :: xs) (q ++ skipn (List.length p) st).

Lemma chainf_app : forall st0 a b st, chainf st0 (a ++ b) st -> exists st', chainf st0 b st' /\ chainf st' a st.
Proof.
  intros st0 a. induction a as [|x a IH]; intros b st H.
  - exists st. split; [exact H | constructor].
  - cbn in H. inversion H as [|x0 xs0 st1 p q Hc Hin Hp]; subst.
    destruct (IH b st1 Hc) as (st' & Hb & Ha). exists st'. split; [exact Hb|]. constructor; assumption.
Qed.

Lemma prefix_eqb_length : forall p st, prefix_eqb p st = true -> (List.length p <= List.length st)%nat.
Proof.
  induction p as [|x p IH]; intros st H; cbn; [lia|]. destruct st as [|y st]; [discriminate H|]. cbn in H.
  apply andb_true_iff in H. destruct H as [_ H]. specialize (IH st H). cbn. lia.
Qed.

Lemma prefix_eqb_app : forall p a b, (List.length p <= List.length a)%nat -> prefix_eqb p (a ++ b) = prefix_eqb p a.
Proof.
  induction p as [|x p IH]; intros a b H; [reflexivity|]. destruct a as [|y a]; cbn in H; [lia|]. cbn.
  rewrite IH by lia. reflexivity.
Qed.

Lemma prefix_eqb_firstn : forall p st, prefix_eqb p st = true -> firstn (List.length p) st = p.
Proof.
  induction p as [|x p IH]; intros st H; [reflexivity|]. destruct st as [|y st]; [discriminate H|]. cbn in H.
  apply andb_true_iff in H. destruct H as [H1 H2]. apply kind_eqb_eq in H1. subst y. cbn. rewrite (IH st H2). reflexivity.
Qed.

Lemma firstn_prefix_eqb : forall k st, (k <= List.length st)%nat -> prefix_eqb (firstn k st) st = true.
Proof.
  induction k as [|k IH]; intros st H; [reflexivity|]. destruct st as [|y st]; cbn in H; [lia|]. cbn.
  rewrite (proj2 (kind_eqb_eq y y) eq_refl). apply IH. lia.
Qed.

Lemma sig_uniform : forall x e1 e2, In e1 (sig_of x) -> In e2 (sig_of x) -> List.length (fst e1) = List.length (fst e2).
Proof.
  intros x e1 e2 H1 H2. unfold sig_of in *.
  destruct (find (fun p => String.eqb (fst p) x) sigs) as [[nm l]|] eqn:E.
  - apply find_some in E. destruct E as [Hin _].
    pose proof ck_uniform as Hu.
    unfold sigs_uniform in Hu. rewrite forallb_forall in Hu. specialize (Hu _ Hin). cbn in Hu.
    destruct l as [|e l]; [discriminate Hu|]. rewrite forallb_forall in Hu.
    assert (He : forall e', In e' (e :: l) -> List.length (fst e') = List.length (fst e)).
    { intros e' [<- | Hi]; [reflexivity|]. specialize (Hu e' Hi). apply Nat.eqb_eq in Hu. exact Hu. }
    rewrite (He e1 H1), (He e2 H2). reflexivity.
  - destruct H1 as [<- | []]. destruct H2 as [<- | []]. reflexivity.
Qed.

Lemma step_sym_cons : forall st sts s,
  step_sym (st :: sts) s =
  match step_sym sts s with
  | None => None
  | Some out =>
    match filter (fun e => prefix_eqb (fst e) st) (sig_of s) with
    | [] => None
    | alts => Some (map (fun e => snd e ++ skipn (List.length (fst e)) st) alts ++ out)
    end
  end.
Proof. reflexivity. Qed.

Lemma step_sym_in : forall sts s out a, step_sym sts s = Some out -> In a sts ->
  (exists e, In e (sig_of s) /\ prefix_eqb (fst e) a = true) /\
  (forall e, In e (sig_of s) -> prefix_eqb (fst e) a = true -> In (snd e ++ skipn (List.length (fst e)) a) out).
Proof.
  induction sts as [|st sts IH]; intros s out a H Hin; [destruct Hin|].
  rewrite step_sym_cons in H. destruct (step_sym sts s) as [out0|] eqn:E0; [|discriminate H].
  destruct (filter (fun e => prefix_eqb (fst e) st) (sig_of s)) as [|e0 alts] eqn:Ef; [discriminate H|].
  assert (Hout : out = map (fun e => snd e ++ skipn (List.length (fst e)) st) (e0 :: alts) ++ out0) by (injection H as <-; reflexivity).
  clear H. rewrite Hout. destruct Hin as [-> | Hin].
  - split.
    + exists e0. assert (Hi : In e0 (filter (fun e => prefix_eqb (fst e) a) (sig_of s))) by (rewrite Ef; left; reflexivity).
      apply filter_In in Hi. exact Hi.
    + intros e He Hp. apply in_or_app. left. apply in_map_iff. exists e. split; [reflexivity|].
      rewrite <- Ef. apply filter_In. split; assumption.
  - destruct (IH s out0 a E0 Hin) as [H1 H2]. split; [exact H1|]. intros e He Hp. apply in_or_app. right. exact (H2 e He Hp).
Qed.

Lemma stacks_after_none : forall l, fold_left (fun acc s => match acc with Some x => step_sym x s | None => None end) l None = None.
Proof. induction l as [|x l IH]; [reflexivity | exact IH]. Qed.

(* every real chain through the symbols l from a stack a0 (with anything below) is one of the computed stacks, with the same below *)
Lemma stacks_after_complete : forall l m out, stacks_after l m = Some out ->
  forall a0 below st, In a0 m -> chainf (a0 ++ below) (rev l) st -> exists b, In b out /\ st = b ++ below.
Proof.
  induction l as [|x l IH]; intros m out H a0 below st Hin Hc.
  - cbn in H. injection H as <-. cbn in Hc. inversion Hc; subst. exists a0. split; [exact Hin | reflexivity].
  - unfold stacks_after in H. cbn [fold_left] in H.
    destruct (step_sym m x) as [m2|] eqn:E; [|rewrite stacks_after_none in H; discriminate H].
    cbn [rev] in Hc. apply chainf_app in Hc. destruct Hc as (st1 & H1 & H2).
    inversion H1 as [|x0 xs0 st2 p q Hc0 Hsig Hp]; subst. inversion Hc0; subst.
    destruct (step_sym_in m x m2 a0 E Hin) as [(e & He & Hpe) Hall].
    assert (Hlen : (List.length p <= List.length a0)%nat).
    { pose proof (sig_uniform x (p, q) e Hsig He) as Hu. cbn [fst] in Hu. rewrite Hu. exact (prefix_eqb_length _ _ Hpe). }
    rewrite prefix_eqb_app in Hp by exact Hlen.
    specialize (Hall (p, q) Hsig Hp). cbn [fst snd] in Hall.
    assert (Hst1 : q ++ skipn (List.length p) (a0 ++ below) = (q ++ skipn (List.length p) a0) ++ below).
    { rewrite skipn_app. replace (List.length p - List.length a0)%nat with 0%nat by lia. cbn [skipn]. rewrite app_assoc. reflexivity. }
    rewrite Hst1 in H2.
    exact (IH m2 out H _ below st Hall H2).
Qed.

(* ------------------------------------------------------------------ what the transitions into a state say about the top of the node stack *)
Lemma inc_of_0 : inc_of auto 0 = [].
Proof. vm_compute. reflexivity. Qed.

Lemma tops_sound : forall fuel k s ss xs st l,
  links (s :: ss) xs -> chainf [] (map name_of xs) st -> tops auto fuel k s = Some l ->
  (k <= List.length st)%nat /\ In (firstn k st) l.
Proof.
  induction fuel as [|f IH]; intros k s ss xs st l Hl Hc Ht.
  - destruct k; cbn in Ht; [|discriminate Ht]. injection Ht as <-. split; [lia | left; reflexivity].
  - destruct k as [|k]; [cbn in Ht; injection Ht as <-; split; [lia | left; reflexivity]|].
    cbn [tops] in Ht.
    inversion Hl as [|s0 x s2 ss0 xs0 Hm Hl0]; subst.
    + rewrite inc_of_0 in Ht. discriminate Ht.
    + apply inc_mem_in in Hm.
      destruct (inc_of auto s) as [|i0 inc] eqn:Ei; [destruct Hm|].
      destruct (collect_in _ _ _ _ _ (s0, x) Ht Hm) as (l1 & H1 & I1). cbn [fst snd] in H1.
      cbn [map] in Hc. inversion Hc as [|x0 xs1 st' p q Hc' Hsig Hp]; subst.
      destruct (collect_in _ _ _ _ _ (p, q) H1 Hsig) as (l2 & H2 & I2). cbn [fst snd] in H2.
      destruct (S k <=? List.length q)%nat eqn:Ek.
      * apply Nat.leb_le in Ek. injection H2 as <-. split.
        -- rewrite app_length. lia.
        -- apply I1, I2. left. rewrite firstn_app. replace (S k - List.length q)%nat with 0%nat by lia.
           cbn [firstn]. rewrite app_nil_r. reflexivity.
      * apply Nat.leb_gt in Ek. destruct p as [|p1 p]; [|discriminate H2].
        destruct (tops auto f (S k - List.length q) s0) as [l3|] eqn:E3; [|discriminate H2]. injection H2 as <-.
        cbn [List.length skipn].
        destruct (IH _ _ _ _ _ _ Hl0 Hc' E3) as [Hlen Hin]. split.
        -- rewrite app_length. lia.
        -- apply I1, I2. apply in_map_iff. exists (firstn (S k - List.length q) st'). split; [|exact Hin].
           rewrite firstn_app. rewrite (@firstn_all2 _ (S k) q) by lia. reflexivity.
Qed.

(* ------------------------------------------------------------------ the value stack along the symbols *)
Definition vsym (x : Z) (v : tval) : Prop := vmatch (aval_of (name_of x)) v.

Inductive vals : list Z -> list tval -> Prop :=
| vals_0 : vals [] [VEmpty]
| vals_S : forall x xs v vs, vsym x v -> vals xs vs -> vals (x :: xs) (v :: vs).

Lemma vals_split : forall a b vs, vals (a ++ b) vs ->
  vals b (skipn (List.length a) vs) /\ Forall2 vsym a (firstn (List.length a) vs).
Proof.
  induction a as [|x a IH]; intros b vs H.
  - split; [exact H | constructor].
  - cbn in H. inversion H as [|x0 xs0 v vs0 Hv Hr]; subst. destruct (IH b vs0 Hr) as [H1 H2].
    split; [exact H1 | constructor; assumption].
Qed.

Lemma Forall2_vtyped : forall a vs, Forall2 vsym a (firstn (List.length a) vs) -> vtyped (map aval_of (map name_of a)) vs.
Proof.
  intros a vs H. unfold vtyped. rewrite !map_length.
  remember (firstn (List.length a) vs) as w eqn:Ew. clear Ew. induction H; cbn; constructor; assumption.
Qed.

Lemma nums_length : forall l ns, nums l = Some ns -> List.length ns = List.length l.
Proof.
  induction l as [|x l IH]; intros ns H; cbn in H.
  - injection H as <-. reflexivity.
  - destruct (sym_num x); [|discriminate H]. destruct (nums l) as [ns0|]; [|discriminate H]. injection H as <-.
    cbn. rewrite (IH ns0 eq_refl). reflexivity.
Qed.

Lemma nums_app : forall a b l, nums (a ++ b) = Some l -> exists la lb, nums a = Some la /\ nums b = Some lb /\ l = la ++ lb.
Proof.
  induction a as [|x a IH]; intros b l H.
  - exists [], l. repeat split; [exact H].
  - cbn in H. destruct (sym_num x) as [n|] eqn:En; [|discriminate H]. destruct (nums (a ++ b)) as [l0|] eqn:E0; [|discriminate H].
    injection H as <-. destruct (IH b l0 E0) as (la & lb & Ha & Hb & ->).
    exists (n :: la), lb. cbn. rewrite En, Ha. repeat split; [exact Hb].
Qed.

Lemma strs_eqb_eq : forall a b, strs_eqb a b = true -> a = b.
Proof.
  induction a as [|x a IH]; destruct b as [|y b]; cbn; intro H; try reflexivity; try discriminate H.
  apply andb_true_iff in H. destruct H as [H1 H2]. apply String.eqb_eq in H1. rewrite (IH b H2), H1. reflexivity.
Qed.

(* ------------------------------------------------------------------ one turn of the loop, through the decision function *)
Definition look (toks : list ftok) : ftok := match toks with [] => (0, VTok 0) | t :: _ => t end.

Lemma fstep_decide : forall st toks, fstep st toks =
  match p_ss st with
  | [] => Done FStuck
  | s :: _ =>
    match decide s (fst (look toks)) with
    | MAccept => Done (faccept (p_ns st))
    | MError => Done FSyntax
    | MReduce r => freduce r st toks
    | MShift a => Next (PS (a :: p_ss st) (snd (look toks) :: p_vs st) (p_ns st)) (tl toks) None
    end
  end.
Proof.
  intros [ss vs ns] toks. unfold fstep, decide, decide_sym, look, sym_of. cbn [p_ss p_vs p_ns].
  destruct ss as [|s ss]; [reflexivity|].
  destruct (s =? yy_final); [reflexivity|].
  destruct (zn t_pact s =? yy_pact_n_inf) eqn:Ep.
  - destruct (zn t_def_act s =? 0); reflexivity.
  - destruct toks as [|[tok v] r]; cbn [fst snd].
    + change (0 =? tok_YyError) with false. cbv iota.
      set (sym := if 0 <=? 0 then 0 else zn t_translate 0).
      destruct ((zn t_pact s + sym <? 0) || (yy_last <? zn t_pact s + sym) || negb (zn t_check (zn t_pact s + sym) =? sym)).
      * destruct (zn t_def_act s =? 0); reflexivity.
      * destruct (zn t_table (zn t_pact s + sym) <=? 0); [destruct (zn t_table (zn t_pact s + sym) =? yy_table_n_inf)|]; reflexivity.
    + destruct (tok =? tok_YyError); [reflexivity|].
      set (sym := if tok <=? 0 then 0 else zn t_translate tok).
      destruct ((zn t_pact s + sym <? 0) || (yy_last <? zn t_pact s + sym) || negb (zn t_check (zn t_pact s + sym) =? sym)).
      * destruct (zn t_def_act s =? 0); reflexivity.
      * destruct (zn t_table (zn t_pact s + sym) <=? 0); [destruct (zn t_table (zn t_pact s + sym) =? yy_table_n_inf)|]; reflexivity.
Qed.

Lemma decide_sym_accept : forall s sym, decide_sym s sym = MAccept -> s = yy_final.
Proof.
  intros s sym H. unfold decide_sym in H. destruct (s =? yy_final) eqn:Ef; [apply Z.eqb_eq; exact Ef|].
  repeat match type of H with (if ?c then _ else _) = _ => destruct c end; discriminate H.
Qed.

Lemma decide_cases : forall s tok m, decide s tok = m -> m = MError \/ decide_sym s 0 = m \/ decide_sym s (sym_of tok) = m.
Proof.
  intros s tok m H. unfold decide in H. destruct (s =? yy_final) eqn:Ef.
  - right; left. unfold decide_sym. rewrite Ef. exact H.
  - destruct (zn t_pact s =? yy_pact_n_inf); [right; left; exact H|].
    destruct (tok =? tok_YyError); [left; symmetry; exact H | right; right; exact H].
Qed.

Lemma decide_shift : forall s tok a, decide s tok = MShift a -> decide_sym s (sym_of tok) = MShift a.
Proof.
  intros s tok a H. unfold decide in H. destruct (s =? yy_final) eqn:Ef; [discriminate H|].
  destruct (zn t_pact s =? yy_pact_n_inf) eqn:Ep.
  - unfold decide_sym in H. rewrite Ef, Ep in H. destruct (zn t_def_act s =? 0); discriminate H.
  - destruct (tok =? tok_YyError); [discriminate H | exact H].
Qed.

Lemma reductions_in : forall s sym r, In sym all_syms -> decide_sym s sym = MReduce r -> In r (reductions s).
Proof.
  intros s sym r Hs H. unfold reductions. apply dedupe_in. apply in_flat_map. exists sym. split; [exact Hs|]. rewrite H. left; reflexivity.
Qed.

Lemma reachable_in_states : forall s, reachable auto s = true -> In s all_states.
Proof.
  intros s H. apply in_all_states. unfold reachable in H. apply orb_true_iff in H. destruct H as [H | H].
  - apply Z.eqb_eq in H. subst s. vm_compute. split; [discriminate | reflexivity].
  - unfold inc_of in H. destruct (s <? 0) eqn:Es; [discriminate H|]. apply Z.ltb_ge in Es.
    destruct (PositiveMap.find (Z.to_pos (s + 1)) auto) as [l|] eqn:Ef; [|discriminate H].
    apply PositiveMap.elements_correct in Ef.
    pose proof ck_range as Hr. rewrite forallb_forall in Hr.
    specialize (Hr _ Ef). cbn [fst] in Hr. apply Z.ltb_lt in Hr. rewrite Z2Pos.id in Hr by lia. lia.
Qed.

Lemma closed_at : forall s ss xs, links (s :: ss) xs -> closed_state auto s = true /\ ctx_state auto s = true.
Proof.
  intros s ss xs H. pose proof (links_top_reachable _ _ _ H) as Hr. pose proof (reachable_in_states _ Hr) as Hs.
  pose proof ck_closed as Hc. pose proof ck_ctx as Hx. rewrite forallb_forall in Hc, Hx.
  specialize (Hc s Hs). specialize (Hx s Hs). rewrite Hr in Hc, Hx. split; assumption.
Qed.

Lemma links_0_inv : forall ss xs, links (0 :: ss) xs -> ss = [] /\ xs = [].
Proof.
  intros ss xs H. inversion H as [|s x s2 ss0 xs0 Hm Hl]; subst; [split; reflexivity|].
  apply inc_mem_in in Hm. rewrite inc_of_0 in Hm. destruct Hm.
Qed.

Lemma rule_at_in : forall r lhs rhs, rule_at r = Some (lhs, rhs) -> In (r, (lhs, rhs)) grammar_rules.
Proof.
  intros r lhs rhs H. unfold rule_at in H. destruct (find (fun p => fst p =? r) grammar_rules) as [[r0 x]|] eqn:E; [|discriminate H].
  injection H as ->. apply find_some in E. destruct E as [Hin He]. cbn in He. apply Z.eqb_eq in He. subst r0. exact Hin.
Qed.

Lemma app_inv_length : forall A (a1 a2 b1 b2 : list A), a1 ++ b1 = a2 ++ b2 -> List.length a1 = List.length a2 -> a1 = a2 /\ b1 = b2.
Proof.
  induction a1 as [|x a1 IH]; intros a2 b1 b2 H Hl; destruct a2 as [|y a2]; cbn in Hl; try discriminate Hl.
  - split; [reflexivity | exact H].
  - cbn in H. injection H as -> H. destruct (IH a2 b1 b2 H) as [-> ->]; [lia|]. split; reflexivity.
Qed.

Lemma existsb_kinds_in : forall t l, existsb (kinds_eqb t) l = true -> In t l.
Proof. intros t l H. apply existsb_exists in H. destruct H as (x & Hx & He). apply kinds_eqb_eq in He. subst x. exact Hx. Qed.

(* ------------------------------------------------------------------ the invariant of a run *)
Definition Inv (st : pstate) : Prop :=
  exists xs, links (p_ss st) xs /\ chainf [] (map name_of xs) (map kind_of (p_ns st)) /\ vals xs (p_vs st).

(* a token as the lexer delivers it: its type is a terminal of the grammar and its value is the one of that terminal *)
Definition tok_ok (t : ftok) : Prop := In (sym_of (fst t)) all_syms /\ vsym (sym_of (fst t)) (snd t).

Lemma tok_okb_ok : forall t, tok_okb t = true -> tok_ok t.
Proof.
  intros [tok v] H. unfold tok_okb in H. cbn [fst snd] in H.
  apply andb_true_iff in H. destruct H as [H Hv]. apply andb_true_iff in H. destruct H as [H0 H1].
  apply Z.leb_le in H0. apply Z.ltb_lt in H1. split; cbn [fst snd].
  - apply in_all_syms. split; assumption.
  - unfold vsym. destruct (aval_of (name_of (sym_of tok))), v; cbn in Hv; try discriminate Hv; cbn; try exact I; try (eexists; reflexivity).
    + eexists; eexists; reflexivity.
    + apply Z.eqb_eq in Hv. subst t. reflexivity.
Qed.

Definition good (r : fres) : Prop := match r with FAccept _ | FSyntax | FFuel => True | _ => False end.

Lemma inv0 : Inv pstate0.
Proof. exists []. cbn. repeat split; constructor. Qed.

Lemma terminal_sig : forall sym, In sym all_syms -> sig_of (name_of sym) = [([], [])].
Proof.
  intros sym H. pose proof ck_terminals as Ht.
  unfold terminals_plain in Ht. rewrite forallb_forall in Ht. specialize (Ht sym H).
  destruct (sig_of (name_of sym)) as [|[[|] [|]] [|]]; try discriminate Ht. reflexivity.
Qed.

(* shift *)
Lemma inv_shift : forall s ss vs ns tk a, Inv (PS (s :: ss) vs ns) -> tok_ok tk -> decide s (fst tk) = MShift a ->
  Inv (PS (a :: s :: ss) (snd tk :: vs) ns).
Proof.
  intros s ss vs ns [tok v] a (xs & Hl & Hc & Hv) [Hsym Hval] Hd. cbn [p_ss p_vs p_ns fst snd] in *.
  apply decide_shift in Hd.
  destruct (closed_at _ _ _ Hl) as [Hcs _]. unfold closed_state in Hcs. apply andb_true_iff in Hcs. destruct Hcs as [Hsh _].
  rewrite forallb_forall in Hsh. specialize (Hsh _ Hsym). rewrite Hd in Hsh.
  exists (sym_of tok :: xs). cbn [p_ss p_vs p_ns]. split; [|split].
  - constructor; assumption.
  - cbn [map].
    assert (He : In ([], []) (sig_of (name_of (sym_of tok)))) by (rewrite (terminal_sig _ Hsym); left; reflexivity).
    exact (chainf_cons [] _ _ _ [] [] Hc He eq_refl).
  - constructor; assumption.
Qed.

Lemma ends_facts :
  (forall p q, In (p, q) (sig_of "feel") -> p = [] /\ exists k, q = [k]) /\ sig_of "$end" = [([], [])].
Proof.
  pose proof ck_ends as He. unfold ends_ok in He.
  apply andb_true_iff in He. destruct He as [He _]. apply andb_true_iff in He. destruct He as [He Hn].
  apply andb_true_iff in He. destruct He as [_ Hq]. split.
  - intros p q Hin. rewrite forallb_forall in Hq. specialize (Hq _ Hin). cbn [fst snd] in Hq.
    destruct p; [|discriminate Hq]. destruct q as [|k [|k2 q]]; try discriminate Hq. split; [reflexivity | exists k; reflexivity].
  - apply String.eqb_eq in Hn. rewrite <- Hn. apply terminal_sig. apply in_all_syms. vm_compute. split; [discriminate | reflexivity].
Qed.

(* accept: the node stack holds exactly one node *)
Lemma inv_accept : forall ss vs ns, Inv (PS (yy_final :: ss) vs ns) -> exists n, ns = [n].
Proof.
  intros ss vs ns (xs & Hl & Hc & _). cbn [p_ss p_vs p_ns] in *.
  pose proof ck_final as Hf. unfold final_ok in Hf.
  destruct (sym_num "feel") as [f|]; [|discriminate Hf]. destruct (sym_num "$end") as [e|]; [|discriminate Hf].
  apply andb_true_iff in Hf. destruct Hf as [Hf _]. apply andb_true_iff in Hf. destruct Hf as [Hf Hne].
  apply andb_true_iff in Hf. destruct Hf as [Hf Hnf]. apply String.eqb_eq in Hne. apply String.eqb_eq in Hnf.
  destruct (back_ok auto [e; f] [yy_final]) as [fr|] eqn:Eb; [|discriminate Hf].
  assert (Hfr : fr = [0]).
  { destruct fr as [|z [|z2 fr]]; try destruct z; cbn in Hf; try discriminate Hf; reflexivity. }
  subst fr.
  destruct (back_ok_sound [e; f] ss xs [yy_final] [0] yy_final Hl (or_introl eq_refl) Eb) as (top & s' & ss' & xs' & Hss & Hlen & Hxs & Hl' & Hin).
  destruct Hin as [<- | []]. apply links_0_inv in Hl'. destruct Hl' as [-> ->]. subst xs. cbn [app map] in Hc.
  rewrite Hne, Hnf in Hc.
  destruct ends_facts as [Hfeel Hend].
  inversion Hc as [|x0 xs0 st1 p q Hc1 Hs1 Hp1 Hx Hst]. subst x0 xs0.
  inversion Hc1 as [|x1 xs1 st2 p2 q2 Hc2 Hs2 Hp2 Hx1 Hst1]. subst x1 xs1.
  inversion Hc2 as [Hst2|]. subst st2.
  destruct (Hfeel _ _ Hs2) as [-> [k ->]].
  rewrite Hend in Hs1. destruct Hs1 as [Hs1 | []]. injection Hs1 as <- <-.
  subst st1. cbn in Hst.
  destruct ns as [|n [|n2 ns]]; cbn in Hst; try discriminate Hst. exists n. reflexivity.
Qed.

Lemma rule_named : forall r lhs rhs, In (r, (lhs, rhs)) grammar_rules ->
  name_of (lhs_num r) = lhs /\ aval_of lhs = AVAny /\
  exists lc, nums (ctx_of lhs ++ rhs) = Some lc /\ map name_of lc = ctx_of lhs ++ rhs.
Proof.
  intros r lhs rhs Hin.
  pose proof ck_named as Hn. unfold rules_named in Hn.
  rewrite forallb_forall in Hn. specialize (Hn _ Hin). cbn [fst snd] in Hn.
  apply andb_true_iff in Hn. destruct Hn as [Hn H4]. apply andb_true_iff in Hn. destruct Hn as [Hn H3].
  apply andb_true_iff in Hn. destruct Hn as [H1 _]. apply String.eqb_eq in H1. split; [exact H1|]. split.
  - destruct (aval_of lhs); try discriminate H3. reflexivity.
  - destruct (nums (ctx_of lhs ++ rhs)) as [lc|]; [|discriminate H4]. exists lc. split; [reflexivity | exact (strs_eqb_eq _ _ H4)].
Qed.

Lemma skipn_length_app : forall A (a b : list A), skipn (List.length a) (a ++ b) = b.
Proof. induction a as [|x a IH]; intro b; [reflexivity | exact (IH b)]. Qed.

Lemma ntyped_of_exact : forall b below ns, map kind_of ns = b ++ below -> ntyped b ns.
Proof.
  intros b below ns H. unfold ntyped. rewrite <- firstn_map. rewrite H. rewrite firstn_app.
  rewrite Nat.sub_diag. cbn [firstn]. rewrite app_nil_r. apply firstn_all.
Qed.

(* reduce: the action returns Ok and the invariant holds afterwards *)
Lemma inv_reduce : forall s ss vs ns tk r toks, Inv (PS (s :: ss) vs ns) -> tok_ok tk -> decide s (fst tk) = MReduce r ->
  exists st', freduce r (PS (s :: ss) vs ns) toks = Next st' toks (Some r) /\ Inv st'.
Proof.
  intros s ss vs ns [tok v] r toks (xs & Hl & Hc & Hv) [Hsym _] Hd. cbn [p_ss p_vs p_ns fst snd] in *.
  (* r is one of the reductions of s *)
  assert (Hr : In r (reductions s)).
  { destruct (decide_cases _ _ _ Hd) as [H | [H | H]]; [discriminate H | |].
    - apply (reductions_in s 0 r); [|exact H]. apply in_all_syms. vm_compute. split; [discriminate | reflexivity].
    - exact (reductions_in s _ r Hsym H). }
  destruct (closed_at _ _ _ Hl) as [Hcs Hxs]. unfold closed_state in Hcs. apply andb_true_iff in Hcs. destruct Hcs as [_ Hrd].
  rewrite forallb_forall in Hrd. specialize (Hrd r Hr).
  unfold ctx_state in Hxs. rewrite forallb_forall in Hxs. specialize (Hxs r Hr).
  unfold rhs_nums_rev in Hrd. destruct (rule_at r) as [[lhs rhs]|] eqn:Era; [|discriminate Hrd].
  destruct (nums rhs) as [l|] eqn:El; [|discriminate Hrd].
  destruct (back_ok auto (rev l) [s]) as [fr|] eqn:Eb; [|discriminate Hrd]. rewrite forallb_forall in Hrd.
  pose proof (rule_at_in _ _ _ Era) as Hin.
  destruct (rule_named _ _ _ Hin) as (Hname & Haval & lc & Elc & Hlc).
  rewrite Elc in Hxs. destruct (back_ok auto (rev lc) [s]) as [fr2|] eqn:Eb2; [|discriminate Hxs]. clear Hxs.
  (* the right-hand side lies on top of the stacks *)
  destruct (back_ok_sound (rev l) ss xs [s] fr s Hl (or_introl eq_refl) Eb) as (top & s' & ss' & xs' & Hss & Hlen & Hxs & Hl' & Hfr).
  destruct (back_ok_sound (rev lc) ss xs [s] fr2 s Hl (or_introl eq_refl) Eb2) as (_ & _ & _ & xs2 & _ & _ & Hxs2 & _ & _).
  destruct (actions_stack_safe r lhs rhs Hin) as [Hr2 Hsafe].
  assert (Hlen_l : List.length l = List.length rhs) by exact (nums_length _ _ El).
  assert (Hlen_t : List.length top = List.length rhs) by (rewrite Hlen, rev_length; exact Hlen_l).
  assert (Hlenz : Z.to_nat (zn t_r2 r) = List.length rhs) by (rewrite <- Hr2; apply Nat2Z.id).
  (* names of the right-hand side *)
  destruct (nums_app _ _ _ Elc) as (lctx & lrhs & Hctx & Hrhs & ->). rewrite El in Hrhs. injection Hrhs as <-.
  rewrite map_app in Hlc. apply app_inv_length in Hlc; [|rewrite map_length; exact (nums_length _ _ Hctx)].
  destruct Hlc as [Hctxn Hnames].
  (* the node stack: below the right-hand side, then through it *)
  rewrite Hxs in Hc. rewrite map_app in Hc. apply chainf_app in Hc. destruct Hc as (st' & Hc' & Hcr).
  rewrite map_rev, Hnames in Hcr.
  (* the left-hand side finds what it consumes *)
  specialize (Hrd s' Hfr).
  assert (Hpre : exists p0, In p0 (preconds lhs) /\ prefix_eqb p0 st' = true).
  { pose proof ck_pre as Hp. unfold pre_ok in Hp. rewrite forallb_forall in Hp.
    assert (Hs2 : In (goto_of r s') all_states).
    { apply reachable_in_states. unfold reachable. apply inc_mem_in in Hrd. destruct (inc_of auto (goto_of r s')); [destruct Hrd | apply orb_true_r]. }
    specialize (Hp _ Hs2). rewrite forallb_forall in Hp. specialize (Hp _ (inc_mem_in _ _ _ _ Hrd)). cbn [fst snd] in Hp.
    rewrite Hname in Hp. destruct (preconds lhs) as [|p0 pl] eqn:Ep; [discriminate Hp|].
    destruct (List.length p0) as [|k] eqn:Ek.
    - exists p0. split; [left; reflexivity|]. destruct p0; [reflexivity | discriminate Ek].
    - destruct (tops auto 6 (S k) s') as [lt|] eqn:Et; [|discriminate Hp]. rewrite forallb_forall in Hp.
      destruct (tops_sound _ _ _ _ _ _ _ Hl' Hc' Et) as [Hk Hint].
      exists (firstn (S k) st'). split; [apply existsb_kinds_in, Hp, Hint | apply firstn_prefix_eqb, Hk]. }
  destruct Hpre as (p0 & Hp0 & Hpp).
  destruct (Hsafe p0 Hp0) as (sts0 & Hsts & Hact).
  assert (Hst' : st' = p0 ++ skipn (List.length p0) st') by (rewrite <- (prefix_eqb_firstn _ _ Hpp) at 1; symmetry; apply firstn_skipn).
  rewrite Hst' in Hcr.
  destruct (stacks_after_complete rhs [p0] sts0 Hsts p0 _ _ (or_introl eq_refl) Hcr) as (b & Hb & Hkinds).
  (* the values of the right-hand side (and of what precedes a mid-rule action) *)
  assert (Hvt : vtyped (avals lhs rhs) vs).
  { unfold avals. rewrite Hxs2 in Hv. apply vals_split in Hv. destruct Hv as [_ Hf2]. apply Forall2_vtyped in Hf2.
    rewrite map_rev, map_app, Hctxn, Hnames in Hf2. exact Hf2. }
  assert (Hnt : ntyped b ns) by exact (ntyped_of_exact _ _ _ Hkinds).
  destruct (Hact b Hb vs ns Hvt Hnt) as (q & Hq & ns' & Hrun & Hnt' & Hskip).
  (* the node stack after the action *)
  assert (Hkinds' : map kind_of ns' = q ++ skipn (List.length p0) st').
  { rewrite <- (firstn_skipn (List.length q) ns') at 1. rewrite map_app, Hskip.
    unfold ntyped in Hnt'. rewrite Hnt'. f_equal.
    rewrite <- skipn_map, Hkinds. apply skipn_length_app. }
  assert (Hsk : skipn (Z.to_nat (zn t_r2 r)) (s :: ss) = s' :: ss').
  { rewrite Hlenz, Hss, <- Hlen_t. apply skipn_length_app. }
  rewrite <- Hlenz in Hrun.
  pose proof (freduce_ok r (PS (s :: ss) vs ns) toks ns' s' ss' Hrun Hsk) as Hfre.
  eexists. split; [exact Hfre|].
  exists (lhs_num r :: xs'). cbn [p_ss p_vs p_ns]. split; [|split].
  - constructor; assumption.
  - cbn [map]. rewrite Hname, Hkinds'. exact (chainf_cons [] lhs _ st' p0 q Hc' Hq Hpp).
  - constructor.
    + unfold vsym. rewrite Hname, Haval. exact I.
    + rewrite Hxs in Hv. apply vals_split in Hv. destruct Hv as [Hv' _]. rewrite rev_length in Hv'.
      rewrite Hlenz, <- Hlen_l. exact Hv'.
Qed.

Lemma look_ok : forall toks, Forall tok_ok toks -> tok_ok (look toks).
Proof.
  intros [|t toks] H; cbn [look].
  - split; cbn [fst snd].
    + apply in_all_syms. vm_compute. split; [discriminate | reflexivity].
    + unfold vsym. change (sym_of 0) with 0.
      pose proof ck_ends as He. unfold ends_ok in He.
      apply andb_true_iff in He. destruct He as [He Ha]. apply andb_true_iff in He. destruct He as [_ Hn].
      apply String.eqb_eq in Hn. rewrite Hn. destruct (aval_of "$end"); try discriminate Ha. exact I.
  - inversion H; assumption.
Qed.

(* one turn of the loop keeps the invariant, and stops only with a tree or a syntax error *)
Lemma step_safe : forall st toks, Inv st -> Forall tok_ok toks ->
  match fstep st toks with
  | Next st' toks' _ => Inv st' /\ Forall tok_ok toks'
  | Done r => good r
  end.
Proof.
  intros [ss vs ns] toks HI Htoks. pose proof (look_ok _ Htoks) as Htk. rewrite fstep_decide. cbn [p_ss p_vs p_ns].
  assert (Hne : exists s r, ss = s :: r) by (destruct HI as (xs & Hl & _); exact (links_nonempty _ _ Hl)).
  destruct Hne as (s & ss0 & ->).
  destruct (decide s (fst (look toks))) as [|a|r|] eqn:Ed.
  - assert (Hs : s = yy_final).
    { destruct (decide_cases _ _ _ Ed) as [H | [H | H]]; [discriminate H | |]; exact (decide_sym_accept _ _ H). }
    subst s. destruct (inv_accept _ _ _ HI) as [n ->]. exact I.
  - split; [exact (inv_shift _ _ _ _ _ _ HI Htk Ed)|]. destruct toks as [|t toks]; [constructor | inversion Htoks; assumption].
  - destruct (inv_reduce _ _ _ _ _ _ toks HI Htk Ed) as (st' & Hf & HI'). rewrite Hf. split; assumption.
  - exact I.
Qed.

Lemma run_safe : forall fuel st toks, Inv st -> Forall tok_ok toks -> good (frun fuel st toks).
Proof.
  induction fuel as [|f IH]; intros st toks HI Ht; [exact I|]. cbn [frun].
  pose proof (step_safe st toks HI Ht) as Hs. destruct (fstep st toks) as [st' toks' r|r].
  - destruct Hs as [HI' Ht']. exact (IH st' toks' HI' Ht').
  - exact Hs.
Qed.

(* STACK SAFETY FOR WHOLE PARSES.  On every list of tokens as the lexer delivers them (token type a terminal of the grammar, token value
   the one of that terminal: tok_ok), the parser with all its semantic actions never raises a pop error, never indexes the value stack out
   of bounds, never ends with a node stack that is not exactly one node: it returns a tree or a syntax error (FFuel is the model running
   out of its own fuel).  The invariant: the state stack is a path of the automaton read off the tables (closed under the moves of the
   driver, the right-hand side of every reducible rule found on every path: finite checks on the regenerated tables), the value stack holds
   the values of the symbols on that path, and the kinds of the node stack are a chain of declared effects of those symbols. *)
Theorem parse_full_safe : forall toks, Forall tok_ok toks -> good (parse_res toks).
Proof. intros toks H. unfold parse_res. exact (run_safe _ _ _ inv0 H). Qed.

(* the same with the decidable test the check evaluates on every token list it feeds to the model *)
Theorem parse_full_safe_b : forall toks, forallb tok_okb toks = true -> good (parse_res toks).
Proof.
  intros toks H. apply parse_full_safe. rewrite forallb_forall in H. apply Forall_forall. intros t Ht. exact (tok_okb_ok t (H t Ht)).
Qed.

(* the tokens the check feeds to the model are such tokens: names, numerals, strings, booleans, type names, date-time names, and every
   token type without content (here: a sample with one of each) *)
Example tok_ok_sample :
  Forall tok_ok [(tok_StartExpression, VTok tok_StartExpression); (tok_LeftBracket, VTok tok_LeftBracket); (tok_Name, VName 1%N);
                 (tok_Comma, VTok tok_Comma); (tok_Numeric, VNumeric 2%N 3%N); (tok_String, VString 4%N); (tok_Boolean, VBoolean true);
                 (tok_Null, VTok tok_Null); (tok_BuiltInTypeName, VBuiltInTypeName 5%N); (tok_NameDateTime, VNameDateTime 6%N);
                 (tok_RightBracket, VTok tok_RightBracket)].
Proof.
  repeat (apply Forall_cons;
          [split; cbn [fst snd];
           [apply in_all_syms; vm_compute; split; [discriminate | reflexivity]
           | unfold vsym; vm_compute; first [exact I | reflexivity | repeat eexists]]|]).
  apply Forall_nil.
Qed.
