(* C19 — a picture moved down: generic lemmas about the passes of coq/C19/Canvas.v on a layer that has some lines added on top.
   Inversion of a successful walk along a frame (it saw exactly the frame), the searches along a line / a column of a moved layer,
   the crossings and the body rectangle of a moved TEXT layer, make_grid on a moved BODY layer, and the walk of Canvas::plane on a
   moved canvas whose THIN layer has one more region (the information item name box).  (owner: ext-merged) *)
From Coq Require Import List NArith Bool Arith Lia.
From DV Require Import C19.Model C19.Canvas C19.CanvasDraw C19.CanvasProofs C19.CanvasAssembly C19.CanvasMerged C19.CanvasMergedGeom C19.CanvasMergedScan.
Import ListNotations.

(* ================================================================== a successful scan saw passable characters and stopped on a stop character *)
Lemma step_ok s a ch p cont c q : step s a ch p cont = Ok (c, q) ->
  exists c', ch = Some c' /\ ((mem c' s = true /\ c = c' /\ q = p) \/ (mem c' s = false /\ mem c' a = true /\ cont = Ok (c, q))).
Proof.
  unfold step. destruct ch as [c'|]; [|discriminate]. intro E. exists c'. split; [reflexivity|].
  destruct (mem c' s) eqn:Es.
  - left. injection E as <- <-. auto.
  - right. destruct (mem c' a) eqn:Ea; [|discriminate]. auto.
Qed.

Lemma scan_right_inv g s a y : forall k x c x' y', scan_right g s a y k x = Ok (c, (x', y')) ->
  y' = y /\ x < x' /\ x' <= x + k /\ get g y x' = Some c /\ mem c s = true /\
  forall e, x < e -> e < x' -> exists c', get g y e = Some c' /\ mem c' s = false /\ mem c' a = true.
Proof.
  induction k as [|k IH]; intros x c x' y' E; [discriminate|]. cbn [scan_right] in E.
  apply step_ok in E. destruct E as (c' & Eg & [(M & -> & Eq)|(M1 & M2 & Ec)]).
  - injection Eq as -> ->. repeat split; try lia; try assumption.
  - destruct (IH _ _ _ _ Ec) as (Hy & H1 & H2 & H3 & H4 & H5). repeat split; try lia; try assumption.
    intros e He1 He2. destruct (Nat.eq_dec e (S x)) as [->|Hne]; [exists c'; auto|]. apply H5; lia.
Qed.
Lemma scan_down_inv g s a x : forall k y c x' y', scan_down g s a x k y = Ok (c, (x', y')) ->
  x' = x /\ y < y' /\ y' <= y + k /\ get g y' x = Some c /\ mem c s = true /\
  forall e, y < e -> e < y' -> exists c', get g e x = Some c' /\ mem c' s = false /\ mem c' a = true.
Proof.
  induction k as [|k IH]; intros y c x' y' E; [discriminate|]. cbn [scan_down] in E.
  apply step_ok in E. destruct E as (c' & Eg & [(M & -> & Eq)|(M1 & M2 & Ec)]).
  - injection Eq as -> ->. repeat split; try lia; try assumption.
  - destruct (IH _ _ _ _ Ec) as (Hy & H1 & H2 & H3 & H4 & H5). repeat split; try lia; try assumption.
    intros e He1 He2. destruct (Nat.eq_dec e (S y)) as [->|Hne]; [exists c'; auto|]. apply H5; lia.
Qed.
Lemma scan_left_inv g s a y : forall x c x' y', scan_left g s a y x = Ok (c, (x', y')) ->
  y' = y /\ x' < x /\ get g y x' = Some c /\ mem c s = true /\
  forall e, x' < e -> e < x -> exists c', get g y e = Some c' /\ mem c' s = false /\ mem c' a = true.
Proof.
  induction x as [|x IH]; intros c x' y' E; [discriminate|]. cbn [scan_left] in E.
  apply step_ok in E. destruct E as (c' & Eg & [(M & -> & Eq)|(M1 & M2 & Ec)]).
  - injection Eq as -> ->. repeat split; try lia; try assumption.
  - destruct (IH _ _ _ Ec) as (Hy & H1 & H3 & H4 & H5). repeat split; try lia; try assumption.
    intros e He1 He2. destruct (Nat.eq_dec e x) as [->|Hne]; [exists c'; auto|]. apply H5; lia.
Qed.
Lemma scan_up_inv g s a x : forall y c x' y', scan_up g s a x y = Ok (c, (x', y')) ->
  x' = x /\ y' < y /\ get g y' x = Some c /\ mem c s = true /\
  forall e, y' < e -> e < y -> exists c', get g e x = Some c' /\ mem c' s = false /\ mem c' a = true.
Proof.
  induction y as [|y IH]; intros c x' y' E; [discriminate|]. cbn [scan_up] in E.
  apply step_ok in E. destruct E as (c' & Eg & [(M & -> & Eq)|(M1 & M2 & Ec)]).
  - injection Eq as -> ->. repeat split; try lia; try assumption.
  - destruct (IH _ _ _ Ec) as (Hy & H1 & H3 & H4 & H5). repeat split; try lia; try assumption.
    intros e He1 He2. destruct (Nat.eq_dec e y) as [->|Hne]; [exists c'; auto|]. apply H5; lia.
Qed.

(* a successful walk on a tabulated layer saw exactly the frame of the rectangle it returns *)
Lemma walk_tab_inv h w f x0 y0 s1 a1 s2 a2 s3 a3 s4 a4 l t r b :
  x0 < w -> y0 < h -> walk (tab h w f) (x0, y0) s1 a1 s2 a2 s3 a3 s4 a4 = Ok (l, t, r, b) ->
  exists x1 y1, l = x0 /\ t = y0 /\ r = S x1 /\ b = S y1 /\ x0 < x1 /\ x1 < w /\ y0 < y1 /\ y1 < h /\
  (forall x, x0 < x -> x < x1 -> okp s1 a1 (f y0 x)) /\ mem (f y0 x1) s1 = true /\
  (forall y, y0 < y -> y < y1 -> okp s2 a2 (f y x1)) /\ mem (f y1 x1) s2 = true /\
  (forall x, x0 < x -> x < x1 -> okp s3 a3 (f y1 x)) /\ mem (f y1 x0) s3 = true /\
  (forall y, y0 < y -> y < y1 -> okp s4 a4 (f y x0)) /\ mem (f y0 x0) s4 = true.
Proof.
  intros Hx Hy E. unfold walk in E. rewrite move_to_tab in E by (cbn [fst snd]; lia). cbn [bind] in E.
  rewrite search_right_tab in E by assumption. destruct w as [|n]; [lia|].
  destruct (scan_right (tab h (S n) f) s1 a1 y0 (n - x0) x0) as [[c1 [x1 y1']]| |] eqn:E1; cbn [bind] in E; try discriminate.
  destruct (scan_right_inv _ _ _ _ _ _ _ _ _ E1) as (-> & R1 & R2 & R3 & R4 & R5).
  rewrite search_down_tab in E. destruct h as [|m]; [lia|].
  destruct (scan_down (tab (S m) (S n) f) s2 a2 x1 (m - y0) y0) as [[c2 [x2 y1]]| |] eqn:E2; cbn [bind] in E; try discriminate.
  destruct (scan_down_inv _ _ _ _ _ _ _ _ _ E2) as (-> & D1 & D2 & D3 & D4 & D5).
  unfold search_left in E. cbn [fst snd] in E.
  destruct (scan_left (tab (S m) (S n) f) s3 a3 y1 x1) as [[c3 [x3 y3]]| |] eqn:E3; cbn [bind] in E; try discriminate.
  destruct (scan_left_inv _ _ _ _ _ _ _ _ E3) as (-> & L1 & L3 & L4 & L5).
  unfold search_up in E. cbn [fst snd] in E.
  destruct (scan_up (tab (S m) (S n) f) s4 a4 x3 y1) as [[c4 [x4 y4]]| |] eqn:E4; cbn [bind] in E; try discriminate.
  destruct (scan_up_inv _ _ _ _ _ _ _ _ E4) as (-> & U1 & U3 & U4 & U5).
  unfold close_rectangle, point_eqb in E. cbn [fst snd] in E.
  destruct ((x3 =? x0) && (y4 =? y0)) eqn:Ec; [|discriminate]. apply andb_true_iff in Ec. destruct Ec as [Ex Ey].
  apply Nat.eqb_eq in Ex, Ey. subst x3 y4. injection E as <- <- <- <-.
  exists x1, y1. rewrite get_tab in R3, D3, L3, U3 by lia. injection R3 as <-. injection D3 as <-. injection L3 as <-. injection U3 as <-.
  repeat split; try lia; try assumption.
  - destruct (R5 x H H0) as (c' & G & M1 & M2). rewrite get_tab in G by lia. injection G as <-. assumption.
  - destruct (R5 x H H0) as (c' & G & M1 & M2). rewrite get_tab in G by lia. injection G as <-. assumption.
  - destruct (D5 y H H0) as (c' & G & M1 & M2). rewrite get_tab in G by lia. injection G as <-. assumption.
  - destruct (D5 y H H0) as (c' & G & M1 & M2). rewrite get_tab in G by lia. injection G as <-. assumption.
  - destruct (L5 x H H0) as (c' & G & M1 & M2). rewrite get_tab in G by lia. injection G as <-. assumption.
  - destruct (L5 x H H0) as (c' & G & M1 & M2). rewrite get_tab in G by lia. injection G as <-. assumption.
  - destruct (U5 y H H0) as (c' & G & M1 & M2). rewrite get_tab in G by lia. injection G as <-. assumption.
  - destruct (U5 y H H0) as (c' & G & M1 & M2). rewrite get_tab in G by lia. injection G as <-. assumption.
Qed.

(* ================================================================== the searches on a layer moved down by k lines *)
Lemma get_tab_none h w f y x : h <= y \/ w <= x -> get (tab h w f) y x = None.
Proof.
  intro H. unfold get, tab. destruct (Nat.lt_ge_cases y h) as [Ly|Gy].
  - rewrite nth_error_map. rewrite (nth_error_nth' _ 0) by now rewrite seq_length. rewrite seq_nth by assumption. cbn [option_map Nat.add].
    apply nth_error_None. rewrite map_length, seq_length. lia.
  - assert (nth_error (map (fun y0 => map (f y0) (seq 0 w)) (seq 0 h)) y = None) as -> by (apply nth_error_None; now rewrite map_length, seq_length).
    reflexivity.
Qed.

Lemma search_right_tab' h w f x y s a : y < h -> 0 < w -> search_right (tab h w f) (x, y) s a = scan_right (tab h w f) s a y (w - 1 - x) x.
Proof. intros Hy Hw. rewrite search_right_tab by assumption. destruct w as [|n]; [lia|]. now replace (S n - 1 - x) with (n - x) by lia. Qed.
Lemma search_down_tab' h w f x y s a : 0 < h -> search_down (tab h w f) (x, y) s a = scan_down (tab h w f) s a x (h - 1 - y) y.
Proof. intros Hh. rewrite search_down_tab. destruct h as [|n]; [lia|]. now replace (S n - 1 - y) with (n - y) by lia. Qed.

Section ShiftTab.
Variables (h w k : nat) (f f' : nat -> nat -> N) (px : nat).
Hypothesis A1 : forall y x, 1 <= y -> y < h -> x < w -> f' (k + y) x = f y x.
Hypothesis A2 : forall y, y < h -> f' (k + y) px = f y px.
Local Notation g := (tab h w f).
Local Notation g' := (tab (k + h) w f').

Definition shp (p : point) : point := (fst p, k + snd p).
Definition shiftp (r : res (N * point)) : res (N * point) := match r with Ok (c, p) => Ok (c, shp p) | Err => Err | Panic => Panic end.

Lemma get_shift_row y x : 1 <= y -> get g' (k + y) x = get g y x.
Proof.
  intro Hy. destruct (Nat.lt_ge_cases y h) as [Ly|Gy]; [destruct (Nat.lt_ge_cases x w) as [Lx|Gx]|].
  - rewrite !get_tab by lia. now rewrite A1.
  - rewrite !get_tab_none by lia. reflexivity.
  - rewrite !get_tab_none by lia. reflexivity.
Qed.
Lemma get_shift_col y : get g' (k + y) px = get g y px.
Proof.
  destruct (Nat.lt_ge_cases y h) as [Ly|Gy]; [destruct (Nat.lt_ge_cases px w) as [Lx|Gx]|].
  - rewrite !get_tab by lia. now rewrite A2.
  - rewrite !get_tab_none by lia. reflexivity.
  - rewrite !get_tab_none by lia. reflexivity.
Qed.

Lemma step_shift s a ch x y cont : step s a ch (x, k + y) (shiftp cont) = shiftp (step s a ch (x, y) cont).
Proof. unfold step. destruct ch as [c|]; [|reflexivity]. destruct (mem c s); [reflexivity|]. now destruct (mem c a). Qed.

Lemma scan_right_shift s a y : 1 <= y -> forall n x, scan_right g' s a (k + y) n x = shiftp (scan_right g s a y n x).
Proof. intro Hy. induction n as [|n IH]; intro x; [reflexivity|]. cbn [scan_right]. rewrite get_shift_row by assumption. rewrite IH. apply step_shift. Qed.
Lemma scan_left_shift s a y : 1 <= y -> forall x, scan_left g' s a (k + y) x = shiftp (scan_left g s a y x).
Proof. intro Hy. induction x as [|x IH]; [reflexivity|]. cbn [scan_left]. rewrite get_shift_row by assumption. rewrite IH. apply step_shift. Qed.
Lemma scan_down_shift s a : forall n y, scan_down g' s a px n (k + y) = shiftp (scan_down g s a px n y).
Proof.
  induction n as [|n IH]; intro y; [reflexivity|]. cbn [scan_down]. replace (S (k + y)) with (k + S y) by lia.
  rewrite get_shift_col, IH. apply step_shift.
Qed.
Lemma scan_up_shift s a : forall y c q, scan_up g s a px y = Ok (c, q) -> scan_up g' s a px (k + y) = Ok (c, shp q).
Proof.
  induction y as [|y IH]; intros c q E; [discriminate|]. replace (k + S y) with (S (k + y)) by lia. cbn [scan_up] in *.
  rewrite get_shift_col. apply step_ok in E. destruct E as (c' & Eg & [(M & -> & ->)|(M1 & M2 & Ec)]); rewrite Eg; unfold step.
  - now rewrite M.
  - rewrite M1, M2. now apply IH.
Qed.

Lemma search_right_shift s a x y : 1 <= y -> y < h -> search_right g' (x, k + y) s a = shiftp (search_right g (x, y) s a).
Proof.
  intros Hy Ly. destruct (Nat.eq_dec w 0) as [E0|Hw].
  - unfold search_right. cbn [fst snd]. rewrite !tab_row by lia. rewrite !map_length, !seq_length, E0. reflexivity.
  - rewrite !search_right_tab' by lia. now apply scan_right_shift.
Qed.
Lemma search_down_shift s a y : y < h -> search_down g' (px, k + y) s a = shiftp (search_down g (px, y) s a).
Proof.
  intro Ly. rewrite !search_down_tab' by lia. replace (k + h - 1 - (k + y)) with (h - 1 - y) by lia. apply scan_down_shift.
Qed.

(* the crossings: the search for the second double cross to the right runs along a line below the first one of the picture, the
   search downwards along the column of the first double cross *)
Lemma crossings_shift py : 1 <= py -> py < h -> px < w ->
  search g (0, 0) [dXX] = Ok (dXX, (px, py)) -> search g' (0, 0) [dXX] = Ok (dXX, (px, k + py)) ->
  recognize_crossings g' =
  match recognize_crossings g with Ok (p, hz, vt) => Ok (shp p, option_map shp hz, option_map shp vt) | Err => Err | Panic => Panic end.
Proof.
  intros H1 H2 H3 Sg Sg'. unfold recognize_crossings.
  rewrite !move_to_tab by (cbn [fst snd]; lia). cbn [bind]. rewrite Sg, Sg'. cbn [bind].
  rewrite !move_to_tab by (cbn [fst snd]; lia). cbn [bind].
  rewrite search_right_shift by assumption. rewrite search_down_shift by assumption.
  destruct (search_right g (px, py) [dXX] [dH; dXh]) as [[c1 q1]| |]; cbn [shiftp opt_of]; try reflexivity;
  destruct (search_down g (px, py) [dXX] [dV; dXv]) as [[c2 q2]| |]; cbn [shiftp opt_of option_map snd]; reflexivity.
Qed.

(* the body rectangle *)
Lemma body_rect_shift py l t r b : 1 <= py -> py < h -> px < w ->
  search g (0, 0) [dXX] = Ok (dXX, (px, py)) -> search g' (0, 0) [dXX] = Ok (dXX, (px, k + py)) ->
  recognize_body_rect g = Ok (l, t, r, b) -> recognize_body_rect g' = Ok (l, k + t, r, k + b).
Proof.
  intros H1 H2 H3 Sg Sg' E. unfold recognize_body_rect in *.
  rewrite !move_to_tab in * by (cbn [fst snd]; lia). cbn [bind] in *. rewrite Sg in E. rewrite Sg'. cbn [bind] in *.
  unfold search_up in *. cbn [fst snd] in *.
  destruct (scan_up g [dTv] [dV; dXv; dLv; dRv] px py) as [[c1 [x1 y1]]| |] eqn:E1; cbn [bind] in E; try discriminate.
  rewrite (scan_up_shift _ _ _ _ _ E1). cbn [bind]. destruct (scan_up_inv _ _ _ _ _ _ _ _ E1) as (-> & U1 & _).
  unfold shp. cbn [fst snd]. rewrite search_down_shift by lia.
  destruct (search_down g (px, y1) [dBv] [dV; dXv; dLv; dRv; dXX]) as [[c2 [x2 y2]]| |] eqn:E2; cbn [bind shiftp] in *; try discriminate.
  rewrite !move_to_tab in * by (cbn [fst snd]; lia). cbn [bind] in *. unfold search_left in *. cbn [fst snd] in *.
  rewrite scan_left_shift by assumption.
  destruct (scan_left g [dLh] [dH; dXh; dBh; dTh] py px) as [[c3 [x3 y3]]| |] eqn:E3; cbn [bind shiftp] in *; try discriminate.
  destruct (scan_left_inv _ _ _ _ _ _ _ _ E3) as (-> & _). unfold shp. cbn [fst snd].
  rewrite search_right_shift by assumption.
  destruct (search_right g (x3, py) [dRh] [dH; dXh; dBh; dTh; dXX]) as [[c4 [x4 y4]]| |] eqn:E4; cbn [bind shiftp] in *; try discriminate.
  unfold shp. cbn [fst snd] in *. injection E as <- <- <- <-. repeat f_equal; lia.
Qed.
End ShiftTab.

(* ================================================================== make_grid on a tabulated BODY layer, and on a layer moved down *)
Definition mg_fun (w : nat) (f : nat -> nat -> N) (tp bt : nat) : nat -> nat -> N :=
  let g1f := fun y x => if in_range tp bt y && existsb (N.eqb cH) (map (f y) (seq 0 w)) then grid_row_char 0 w x (f y x) else f y x in
  let vc := fun x => existsb (fun y => (g1f y x =? cV)%N) (seq tp (bt - tp)) in
  fun y x => if in_range tp bt y && vc x then grid_col_char tp bt y (g1f y x) else g1f y x.

Lemma existsb_ext_in {B} (p q : B -> bool) l : (forall a, In a l -> p a = q a) -> existsb p l = existsb q l.
Proof. induction l as [|a l IH]; intro E; [reflexivity|]. cbn [existsb]. rewrite (E a (or_introl eq_refl)), IH; [reflexivity|]. intros b Hb. apply E. now right. Qed.

Lemma make_grid_tab h w f tp bt : 0 < h -> bt <= h -> make_grid (tab h w f) (0, tp, w, bt) = Ok (tab h w (mg_fun w f tp bt)).
Proof.
  intros Hh Hb. unfold make_grid. rewrite fits_tab by lia. f_equal.
  rewrite (mapi_tab_rows h w f (fun y row => in_range tp bt y && existsb (N.eqb cH) (firstn (w - 0) (skipn 0 row)))
             (fun x c => if in_range 0 w x then grid_row_char 0 w x c else c)).
  set (g1f := fun y x => if in_range tp bt y && existsb (N.eqb cH) (map (f y) (seq 0 w)) then grid_row_char 0 w x (f y x) else f y x).
  assert (tab h w (fun y x => if in_range tp bt y && existsb (N.eqb cH) (firstn (w - 0) (skipn 0 (map (f y) (seq 0 w))))
                              then (if in_range 0 w x then grid_row_char 0 w x (f y x) else f y x) else f y x) = tab h w g1f) as ->.
  { apply tab_ext. intros y x Hy Hx. unfold g1f, in_range. cbn [Nat.leb andb skipn]. rewrite Nat.sub_0_r.
    rewrite firstn_all2 by (rewrite map_length, seq_length; lia). now replace (x <? w) with true by (symmetry; apply Nat.ltb_lt; lia). }
  rewrite tab_row_nth by lia. rewrite map_length, seq_length. rewrite remap_tab. apply tab_ext. intros y x Hy Hx.
  rewrite nth_map_seq by assumption. unfold mg_fun. fold g1f. unfold in_range at 1. cbn [Nat.leb andb].
  replace (x <? w) with true by (symmetry; apply Nat.ltb_lt; lia). cbn [andb].
  rewrite (existsb_ext_in (fun y0 => (getd (tab h w g1f) y0 x =? cV)%N) (fun y0 => (g1f y0 x =? cV)%N)); [reflexivity|].
  intros y0 Hy0. apply in_seq in Hy0. rewrite getd_tab by lia. reflexivity.
Qed.

Lemma tab_inj h w f g : tab h w f = tab h w g -> forall y x, y < h -> x < w -> f y x = g y x.
Proof. intros E y x Hy Hx. rewrite <- (getd_tab h w f y x Hy Hx), E. now apply getd_tab. Qed.

Lemma existsb_seq_shift (p : nat -> bool) k : forall n a, existsb p (seq (k + a) n) = existsb (fun y => p (k + y)) (seq a n).
Proof. induction n as [|n IH]; intro a; [reflexivity|]. cbn [seq existsb]. replace (S (k + a)) with (k + S a) by lia. now rewrite IH. Qed.

Lemma grid_col_char_shift k hb y c : k <= y -> 1 <= hb -> grid_col_char k (k + hb) y c = grid_col_char 0 hb (y - k) c.
Proof.
  intros Hy Hb. unfold grid_col_char.
  replace (y =? k) with (y - k =? 0) by (destruct (Nat.eqb_spec (y - k) 0), (Nat.eqb_spec y k); lia || reflexivity).
  replace (y =? k + hb - 1) with (y - k =? hb - 1) by (destruct (Nat.eqb_spec (y - k) (hb - 1)), (Nat.eqb_spec y (k + hb - 1)); lia || reflexivity).
  replace (y <? k + hb - 1) with (y - k <? hb - 1) by (destruct (Nat.ltb_spec (y - k) (hb - 1)), (Nat.ltb_spec y (k + hb - 1)); lia || reflexivity).
  replace (k <? y) with (0 <? y - k) by (destruct (Nat.ltb_spec 0 (y - k)), (Nat.ltb_spec k y); lia || reflexivity).
  reflexivity.
Qed.

Lemma make_grid_shift h w k hb f g (junk : nat -> nat -> N) : 0 < h -> hb <= h ->
  make_grid (tab h w f) (0, 0, w, hb) = Ok (tab h w g) ->
  make_grid (tab (k + h) w (fun y x => if y <? k then junk y x else f (y - k) x)) (0, k, w, k + hb) =
  Ok (tab (k + h) w (fun y x => if y <? k then junk y x else g (y - k) x)).
Proof.
  intros Hh Hb E. rewrite make_grid_tab in E by assumption. injection E as E. pose proof (tab_inj _ _ _ _ E) as Eg.
  rewrite make_grid_tab by lia. f_equal. apply tab_ext. intros y x Hy Hx.
  set (f' := fun y x => if y <? k then junk y x else f (y - k) x).
  assert (forall y0, k <= y0 -> map (f' y0) (seq 0 w) = map (f (y0 - k)) (seq 0 w)) as Erow.
  { intros y0 H0. apply map_ext. intro x0. unfold f'. now replace (y0 <? k) with false by (symmetry; apply Nat.ltb_ge; lia). }
  assert (forall y0 x0, k <= y0 ->
            (if in_range k (k + hb) y0 && existsb (N.eqb cH) (map (f' y0) (seq 0 w)) then grid_row_char 0 w x0 (f' y0 x0) else f' y0 x0) =
            (if in_range 0 hb (y0 - k) && existsb (N.eqb cH) (map (f (y0 - k)) (seq 0 w)) then grid_row_char 0 w x0 (f (y0 - k) x0) else f (y0 - k) x0)) as Eg1.
  { intros y0 x0 H0. rewrite Erow by assumption.
    assert (in_range k (k + hb) y0 = in_range 0 hb (y0 - k)) as ->.
    { unfold in_range. cbn [Nat.leb andb]. replace (k <=? y0) with true by (symmetry; apply Nat.leb_le; lia). cbn [andb].
      destruct (Nat.ltb_spec y0 (k + hb)), (Nat.ltb_spec (y0 - k) hb); try lia; reflexivity. }
    unfold f'. now replace (y0 <? k) with false by (symmetry; apply Nat.ltb_ge; lia). }
  destruct (y <? k) eqn:Ek.
  - apply Nat.ltb_lt in Ek.
    assert (in_range k (k + hb) y = false) as Hr by (unfold in_range; now replace (k <=? y) with false by (symmetry; apply Nat.leb_gt; lia)).
    unfold mg_fun. fold f'. rewrite !Hr. cbn [andb]. unfold f'. now replace (y <? k) with true by (symmetry; apply Nat.ltb_lt; lia).
  - apply Nat.ltb_ge in Ek. rewrite <- (Eg (y - k) x) by lia. unfold mg_fun. fold f'. rewrite Eg1 by assumption.
    assert (in_range k (k + hb) y = in_range 0 hb (y - k)) as ->.
    { unfold in_range. cbn [Nat.leb andb]. replace (k <=? y) with true by (symmetry; apply Nat.leb_le; lia). cbn [andb].
      destruct (Nat.ltb_spec y (k + hb)), (Nat.ltb_spec (y - k) hb); try lia; reflexivity. }
    replace (k + hb - k) with hb by lia. rewrite Nat.sub_0_r.
    destruct (in_range 0 hb (y - k)) eqn:Er; [|reflexivity]. cbn [andb].
    assert (1 <= hb) as Hb1 by (unfold in_range in Er; apply andb_true_iff in Er; destruct Er as [_ Er]; apply Nat.ltb_lt in Er; lia).
    rewrite (grid_col_char_shift k hb y) by assumption.
    match goal with |- (if existsb ?p (seq k hb) then _ else _) = _ =>
      assert (existsb p (seq k hb) = existsb (fun y0 => ((if in_range 0 hb y0 && existsb (N.eqb cH) (map (f y0) (seq 0 w)) then grid_row_char 0 w x (f y0 x) else f y0 x) =? cV)%N) (seq 0 hb)) as -> end; [|reflexivity].
    replace (seq k hb) with (seq (k + 0) hb) by (f_equal; lia). rewrite existsb_seq_shift. apply existsb_ext_in. intros y0 Hy0.
    rewrite Eg1 by lia. now replace (k + y0 - k) with y0 by lia.
Qed.

(* ================================================================== the walk of Canvas::plane on a canvas moved down by k lines whose THIN
   layer has one more region in front (the box of the information item name) *)
Lemma fold_res_sim {A B} (F F' : A -> B -> res A) (sh : A -> A) l :
  (forall a b a1, In b l -> F a b = Ok a1 -> F' (sh a) b = Ok (sh a1)) ->
  forall a a1, fold_res F l a = Ok a1 -> fold_res F' l (sh a) = Ok (sh a1).
Proof.
  induction l as [|b l IH]; intros Hs a a1 E; [cbn in *; now injection E as <-|]. cbn [fold_res] in *.
  destruct (F a b) as [a2| |] eqn:E2; cbn [bind] in E; try discriminate.
  rewrite (Hs a b a2 (or_introl eq_refl) E2). cbn [bind]. apply IH; [|assumption]. intros a' b' a1' Hb. apply Hs. now right.
Qed.

Section PlaneShift.
Variables (cv cv' : canvas) (k : nat) (regs : list rect) (boxr : rect).
Definition shr (r : rect) : rect := let '(l, t, rr, b) := r in (l, k + t, rr, k + b).
Definition shc (c : ccell) : ccell := match c with CRegion n r t => CRegion (S n) (shr r) t | _ => c end.
Definition shst (st : row_state) : row_state := let '(cells, col, cc, ch) := st in (map shc cells, col, cc, ch).
Definition shps (st : plane_state) : plane_state := let '(rows, wd, cc, ch) := st in (map (map shc) rows, wd, cc, ch).
Local Notation regs' := (boxr :: map shr regs).

Hypothesis Hlen : length (cv_grid cv') = k + length (cv_grid cv).
Hypothesis Hrowlen : forall y, length (nth (k + y) (cv_grid cv') []) = length (nth y (cv_grid cv) []).
Hypothesis Htop : forall y x, y < k -> is_tl_corner (cv_grid cv') y x = false.
Hypothesis Hcorner : forall y x, is_tl_corner (cv_grid cv') (k + y) x = is_tl_corner (cv_grid cv) y x.
Hypothesis Hcross : cv_cross cv' = (fst (cv_cross cv), k + snd (cv_cross cv)).
Hypothesis Hhorz : cv_horz cv' = option_map (fun p => (fst p, k + snd p)) (cv_horz cv).
Hypothesis Hvert : cv_vert cv' = option_map (fun p => (fst p, k + snd p)) (cv_vert cv).
Hypothesis Hrect : forall x y r, is_tl_corner (cv_grid cv) y x = true -> recognize_rectangle (cv_grid cv) (x, y) = Ok r ->
  recognize_rectangle (cv_grid cv') (x, k + y) = Ok (shr r) /\ contains boxr (shr r) = false.
Hypothesis Htext : forall r, In r regs -> text_from_rect (cv_text cv') (shr r) = text_from_rect (cv_text cv) r.

Lemma contains_shr a r : contains (shr a) (shr r) = contains a r.
Proof.
  destruct a as [[[al at_] ar] ab], r as [[[l t] rr] b]. unfold contains, shr.
  replace (k + at_ <=? k + t) with (at_ <=? t) by (destruct (Nat.leb_spec at_ t), (Nat.leb_spec (k + at_) (k + t)); lia || reflexivity).
  replace (k + b <=? k + ab) with (b <=? ab) by (destruct (Nat.leb_spec b ab), (Nat.leb_spec (k + b) (k + ab)); lia || reflexivity).
  reflexivity.
Qed.
Lemma find_region_shr l r : forall i, find_region (map shr l) (shr r) (S i) = option_map (fun na => (S (fst na), shr (snd na))) (find_region l r i).
Proof.
  induction l as [|a l IH]; intro i; [reflexivity|]. cbn [map find_region]. rewrite contains_shr. destruct (contains a r); [reflexivity|]. apply IH.
Qed.
Lemma find_region_in l r : forall i n a, find_region l r i = Some (n, a) -> In a l.
Proof.
  induction l as [|b l IH]; intros i n a E; [discriminate|]. cbn [find_region] in E. destruct (contains b r).
  - injection E as _ <-. now left.
  - right. now apply (IH _ _ _ E).
Qed.

Lemma plane_cell_tail x y cells col cc ch st1 : is_tl_corner (cv_grid cv) y x = true ->
  (rect <- recognize_rectangle (cv_grid cv) (x, y) ;;
   match find_region regs rect 0 with
   | None => Err
   | Some (i, region) => t <- text_from_rect (cv_text cv) region ;; Ok (CRegion i region t :: cells, S col, cc, ch)
   end) = Ok st1 ->
  (rect <- recognize_rectangle (cv_grid cv') (x, k + y) ;;
   match find_region regs' rect 0 with
   | None => Err
   | Some (i, region) => t <- text_from_rect (cv_text cv') region ;; Ok (CRegion i region t :: map shc cells, S col, cc, ch)
   end) = Ok (shst st1).
Proof.
  intro Hc. destruct (recognize_rectangle (cv_grid cv) (x, y)) as [r| |] eqn:Er; cbn [bind]; try discriminate.
  destruct (Hrect x y r Hc Er) as [Hr1 Hr2]. rewrite Hr1. cbn [bind find_region]. rewrite Hr2, find_region_shr.
  destruct (find_region regs r 0) as [[n a]|] eqn:Ef; cbn [option_map fst snd]; [|discriminate].
  rewrite (Htext a (find_region_in _ _ _ _ _ Ef)). destruct (text_from_rect (cv_text cv) a) as [t| |]; cbn [bind]; try discriminate.
  intro E. injection E as <-. reflexivity.
Qed.

Lemma plane_cell_shift y st x st1 : plane_cell cv regs y st x = Ok st1 -> plane_cell cv' regs' (k + y) (shst st) x = Ok (shst st1).
Proof.
  unfold plane_cell. rewrite Hcorner. destruct (is_tl_corner (cv_grid cv) y x) eqn:Hc; [|intro E; now injection E as <-].
  destruct st as (((cells & col) & cc) & ch). cbn [shst]. rewrite Hcross, Hhorz. cbn [fst].
  destruct (x =? fst (cv_cross cv)); destruct (cv_horz cv) as [p|]; cbn [option_map fst]; try destruct (x =? fst p);
    intro E; apply (plane_cell_tail x y _ _ _ _ _ Hc) in E; exact E.
Qed.

Lemma map_shc_plain (f : nat -> ccell) l : (forall i, match f i with CRegion _ _ _ => False | _ => True end) -> map shc (map f l) = map f l.
Proof. intro Hf. rewrite map_map. apply map_ext. intro i. specialize (Hf i). now destruct (f i). Qed.

Lemma plane_line_tail y rows rows' wd cc ch st1 : rows' = map (map shc) rows ->
  (' (cells, _, cc1, ch1) <- fold_res (plane_cell cv regs y) (seq 0 (length (nth y (cv_grid cv) []))) ([], 0, cc, ch) ;;
   match cells with [] => Ok (rows, wd, cc1, ch1) | _ => Ok (rev cells :: rows, length cells, cc1, ch1) end) = Ok st1 ->
  (' (cells, _, cc1, ch1) <- fold_res (plane_cell cv' regs' (k + y)) (seq 0 (length (nth (k + y) (cv_grid cv') []))) ([], 0, cc, ch) ;;
   match cells with [] => Ok (rows', wd, cc1, ch1) | _ => Ok (rev cells :: rows', length cells, cc1, ch1) end) = Ok (shps st1).
Proof.
  intros ->. rewrite Hrowlen.
  destruct (fold_res (plane_cell cv regs y) (seq 0 (length (nth y (cv_grid cv) []))) ([], 0, cc, ch)) as [[[[cells col] cc1] ch1]| |] eqn:Ef; cbn [bind]; try discriminate.
  pose proof (fold_res_sim (plane_cell cv regs y) (plane_cell cv' regs' (k + y)) shst _ (fun a b a1 _ => plane_cell_shift y a b a1) _ _ Ef) as Ef'.
  cbn [shst map] in Ef'. rewrite Ef'. cbn [bind]. destruct cells as [|c cells]; cbn [map]; intro E; injection E as <-; cbn [shps]; [reflexivity|].
  cbn [map rev length]. rewrite map_app, map_rev, map_length. reflexivity.
Qed.

Lemma plane_line_shift y st st1 : plane_line cv regs st y = Ok st1 -> plane_line cv' regs' (shps st) (k + y) = Ok (shps st1).
Proof.
  destruct st as (((rows & wd) & cc) & ch). unfold plane_line. cbn [shps]. rewrite Hcross, Hvert. cbn [snd].
  replace (k + y =? k + snd (cv_cross cv)) with (y =? snd (cv_cross cv)) by (destruct (Nat.eqb_spec y (snd (cv_cross cv))), (Nat.eqb_spec (k + y) (k + snd (cv_cross cv))); lia || reflexivity).
  assert (forall i, match (if opt_is cc i then CMain else if opt_is ch i then CHCross else CHOut) with CRegion _ _ _ => False | _ => True end) as P1
    by (intro i; destruct (opt_is cc i); [exact I|]; now destruct (opt_is ch i)).
  assert (forall i, match (if opt_is cc i then CVCross else CHAnn) with CRegion _ _ _ => False | _ => True end) as P2
    by (intro i; now destruct (opt_is cc i)).
  destruct (y =? snd (cv_cross cv)); destruct (cv_vert cv) as [p|]; cbn [option_map snd];
    try (replace (k + y =? k + snd p) with (y =? snd p) by (destruct (Nat.eqb_spec y (snd p)), (Nat.eqb_spec (k + y) (k + snd p)); lia || reflexivity); destruct (y =? snd p));
    intro E; refine (plane_line_tail y _ _ wd cc ch st1 _ E); cbn [map]; rewrite ?(map_shc_plain _ _ P1), ?(map_shc_plain _ _ P2); reflexivity.
Qed.

Lemma plane_line_top y st : y < k -> plane_line cv' regs' st y = Ok st.
Proof.
  intro Hy. destruct st as (((rows & wd) & cc) & ch). unfold plane_line. rewrite Hcross, Hvert. cbn [snd].
  replace (y =? k + snd (cv_cross cv)) with false by (symmetry; apply Nat.eqb_neq; lia).
  assert (fold_res (plane_cell cv' regs' y) (seq 0 (length (nth y (cv_grid cv') []))) ([], 0, cc, ch) = Ok ([], 0, cc, ch)) as Ef.
  { apply fold_res_id. intros a x _. unfold plane_cell. now rewrite Htop by assumption. }
  destruct (cv_vert cv) as [p|]; cbn [option_map snd].
  - replace (y =? k + snd p) with false by (symmetry; apply Nat.eqb_neq; lia). now rewrite Ef.
  - now rewrite Ef.
Qed.

Lemma existsb_map' {B C} (p : C -> bool) (g : B -> C) l : existsb p (map g l) = existsb (fun a => p (g a)) l.
Proof. induction l as [|a l IH]; [reflexivity|]. cbn [map existsb]. now rewrite IH. Qed.

Lemma finalize_shift R R1 : finalize R = Ok R1 -> finalize (map (map shc) R) = Ok (map (map shc) R1).
Proof.
  unfold finalize. assert (match map (map shc) R with [] => 0 | r :: _ => length r end = match R with [] => 0 | r :: _ => length r end) as ->
    by (destruct R; [reflexivity|cbn [map]; apply map_length]).
  rewrite existsb_map'.
  assert (existsb (fun a => negb (length (map shc a) =? match R with [] => 0 | r0 :: _ => length r0 end)) R =
          existsb (fun r => negb (length r =? match R with [] => 0 | r0 :: _ => length r0 end)) R) as ->
    by (apply existsb_ext_in; intros; now rewrite map_length).
  destruct (_ || _); [discriminate|]. intro E. now injection E as <-.
Qed.

Theorem plane_of_shift p : recognize_regions (cv_thin cv) = Ok regs -> recognize_regions (cv_thin cv') = Ok regs' ->
  plane_of cv = Ok p -> plane_of cv' = Ok (map (map shc) p).
Proof.
  intros Hr Hr' E. unfold plane_of in *. rewrite Hr in E. rewrite Hr'. cbn [bind] in *. rewrite Hlen, seq_app, fold_res_app.
  rewrite fold_res_id by (intros a y Hy; apply in_seq in Hy; apply plane_line_top; lia). cbn [bind Nat.add].
  destruct (fold_res (plane_line cv regs) (seq 0 (length (cv_grid cv))) ([], 0, None, None)) as [[[[rows wd] cc] ch]| |] eqn:Ef; cbn [bind] in E; try discriminate.
  assert (seq k (length (cv_grid cv)) = map (fun y => k + y) (seq 0 (length (cv_grid cv)))) as ->.
  { generalize (length (cv_grid cv)). intro n. rewrite <- (Nat.add_0_r k) at 1. generalize 0. induction n as [|n IH]; intro a; [reflexivity|].
    cbn [seq map]. f_equal. replace (S (k + a)) with (k + S a) by lia. apply IH. }
  rewrite fold_res_map.
  pose proof (fold_res_sim (plane_line cv regs) (fun st y => plane_line cv' regs' st (k + y)) shps _ (fun a b a1 _ => plane_line_shift b a a1) _ _ Ef) as Ef'.
  cbn [shps map] in Ef'. rewrite Ef'. cbn [bind]. rewrite <- map_rev. now apply finalize_shift.
Qed.
End PlaneShift.
