(* C04/LinkC01.v — the tiny evaluator of the C04 check (C04/Model.v: tev / teval) IS the FEEL evaluator model of C01
   (C01/Spec.v: eval, C01/Impl.v: run) on the expression fragment both can express.
   The two models were written independently: teval from the closures of model-evaluator/src/builders/mod.rs
   (boxed expressions) plus the literal fragment the check generates, C01's eval from feel-evaluator/src/builders.rs.
   The logic of a decision is a FEEL expression evaluated by that evaluator, so the two must agree.

   translation   C04 expr -> C01 expr (tr_e), C04 value -> C01 value (tr_v), C04 env -> C01 scope stack (tr_env)
     numbers     the same decimal128 datum (both models use coq/Base/Dec.v and the rounded + * of coq/Base/DecRound.v);
                 EAdd / EMul |-> EBin Add / Mul
     strings     the same list of code points
     names       the same numbers
     f(a, b)     ECall (EName f) [a; b]; the function value VBkm params body |-> VFun [(p, Any) ..] (tr_e body)
                 (business_knowledge_model.rs gives a formal parameter without typeRef the type Any)
     boxed context   ECtx es None |-> ECtx es;  ECtx es (Some r) |-> EPath (ECtx (es ++ [(RES, r)])) RES: the result entry of
                 build_context_evaluator is evaluated in the scope that holds the entries so far, and replaces the context
     environment one context, sorted by key (the first binding of a name is the visible one, as for lookup)
   left out (cev is None on them):
     EInvoke     boxed invocation binds EVERY binding by name and tolerates missing parameters (model-evaluator
                 build_invocation_evaluator); C01's ECallN is the FEEL call f(a: 1), which is null when a parameter is missing
                 and binds parameters only — different code, different behaviour
     ERel        the cells of a row do not see each other, C01's only context-building expression (ECtx) lets later
                 entries see earlier ones
     VSvc        the body of a decision-service function value is the service call-back, not an expression
   hypotheses, all decided by ONE evaluable function cev (the tiny evaluator again, answering None when the
   evaluation leaves the shared fragment):
     - fuel: teval has 60 levels (out of fuel = null there, VPoison in C01)
     - no boxed invocation, no relation, no call of a decision-service function value is evaluated
   Nothing else: sums and products of any size (both round to decimal128, overflow = null), string + string
   (concatenation on both sides), repeated formal parameter names (the last argument wins on both sides) are covered.
   conclusion: EQUAL values (the sign of a zero included: -3 * 0 is -0 on both sides, as in the real code). *)
From Coq Require Import List NArith ZArith Bool Arith Lia.
From DV Require Base.Dec Base.DecRound.
From DV Require C16.Model.
From DV Require C01.Syntax C01.Spec C01.Impl.
From DV Require Import C04.Model.
Import ListNotations.

Module F := DV.C01.Syntax.
Module FS := DV.C01.Spec.
Module FI := DV.C01.Impl.
Module D := DV.Base.Dec.
Module DR := DV.Base.DecRound.
Module T := DV.C16.Model.

(* ================= the translation ================= *)
Definition RES : N := 0%N.     (* the key under which the result entry of a boxed context is stored; any key does *)

Definition any_params (ps : list N) : list (N * T.ftype) := map (fun p => (p, T.TS T.SAny)) ps.

Fixpoint tr_e (e : expr) : F.expr :=
  match e with
  | ENull => F.ENull
  | ENum d => F.ENum d
  | EStr s => F.EStr s
  | EVar n => F.EName n
  | EAdd a b => F.EBin F.Add (tr_e a) (tr_e b)
  | EMul a b => F.EBin F.Mul (tr_e a) (tr_e b)
  | ECall f args => F.ECall (F.EName f) (map tr_e args)
  | ECtx es None => F.ECtx (map (fun ke => (fst ke, tr_e (snd ke))) es)
  | ECtx es (Some r) => F.EPath (F.ECtx (map (fun ke => (fst ke, tr_e (snd ke))) es ++ [(RES, tr_e r)])) RES
  | EInvoke _ _ | ERel _ _ => F.ENull           (* outside the fragment *)
  end.

Fixpoint tr_v (v : value) : F.value :=
  match v with
  | VNull => F.VNull
  | VNum d => F.VNum d
  | VStr s => F.VStr s
  | VList vs => F.VList (map tr_v vs)
  | VCtx es => F.VCtx (fold_right (fun kv acc => F.ctx_set (fst kv) (tr_v (snd kv)) acc) [] es)
  | VBkm ps b => F.VFun (any_params ps) (tr_e b)
  | VSvc _ _ => F.VNull                         (* outside the fragment *)
  end.

Definition tr_ctx (es : env) : F.ctx := fold_right (fun kv acc => F.ctx_set (fst kv) (tr_v (snd kv)) acc) [] es.
Definition tr_env (sc : env) : F.stack := [tr_ctx sc].

(* ================= the shared fragment, decided by evaluation ================= *)
Section CevStep.
Variable ev : env -> expr -> option value.
Fixpoint cevs (sc : env) (l : list expr) : option (list value) :=
  match l with
  | [] => Some []
  | x :: r => match ev sc x, cevs sc r with Some v, Some vs => Some (v :: vs) | _, _ => None end
  end.
Fixpoint cctx (sc acc : env) (l : list (N * expr)) : option (env * env) :=
  match l with
  | [] => Some (acc, sc)
  | (k, x) :: r => match ev sc x with Some v => cctx (set k v sc) (set k v acc) r | None => None end
  end.
End CevStep.

(* the tiny evaluator (not leaky), None as soon as the evaluation leaves the fragment described in the header *)
Fixpoint cev (f : nat) (sc : env) (e : expr) {struct f} : option value :=
  match f with O => None | S f' =>
  match e with
  | ENull => Some VNull
  | ENum d => Some (VNum d)
  | EStr s => Some (VStr s)
  | EVar n => Some (getv n sc)
  | EAdd a b => match cev f' sc a, cev f' sc b with Some x, Some y => Some (vadd x y) | _, _ => None end
  | EMul a b => match cev f' sc a, cev f' sc b with Some x, Some y => Some (vmul x y) | _, _ => None end
  | ECall fn args =>
      match cevs (cev f') sc args with
      | None => None
      | Some vs =>
          match getv fn sc with
          | VBkm ps b => match bind_pos ps vs with Some pc => cev f' (zip sc pc) b | None => Some VNull end
          | VSvc _ _ => None
          | _ => Some VNull
          end
      end
  | ECtx es res =>
      match cctx (cev f') sc [] es with
      | None => None
      | Some (acc, sc1) => match res with Some r => cev f' sc1 r | None => Some (VCtx acc) end
      end
  | EInvoke _ _ | ERel _ _ => None
  end end.

Definition shared (f : nat) (sc : env) (e : expr) : bool := match cev f sc e with Some _ => true | None => false end.

(* ================= cev is the tiny evaluator ================= *)
Lemma cevs_evs f svc (IH : forall sc e v, cev f sc e = Some v -> tev false f svc sc e = (v, sc)) :
  forall l sc vs, cevs (cev f) sc l = Some vs -> evs (tev false f svc) sc l = (vs, sc).
Proof. induction l as [|x r IHl]; intros sc vs H; cbn [cevs evs] in *.
  - inversion H; reflexivity.
  - destruct (cev f sc x) as [v|] eqn:E; [|discriminate]. destruct (cevs (cev f) sc r) as [vs'|] eqn:E2; [|discriminate].
    inversion H; subst. rewrite (IH _ _ _ E). rewrite (IHl _ _ E2). reflexivity. Qed.

Lemma cctx_go f svc (IH : forall sc e v, cev f sc e = Some v -> tev false f svc sc e = (v, sc)) :
  forall l sc acc acc1 sc1, cctx (cev f) sc acc l = Some (acc1, sc1) -> ctx_go (tev false f svc) sc acc l = (acc1, sc1).
Proof. induction l as [|[k x] r IHl]; intros sc acc acc1 sc1 H; cbn [cctx ctx_go] in *.
  - inversion H; reflexivity.
  - destruct (cev f sc x) as [v|] eqn:E; [|discriminate]. rewrite (IH _ _ _ E). apply IHl. exact H. Qed.

Theorem cev_tev svc : forall f sc e v, cev f sc e = Some v -> tev false f svc sc e = (v, sc).
Proof.
  induction f as [|f IH]; intros sc e v H; [discriminate|].
  destruct e as [|z|s|n|a b|a b|fn args|fn binds|es res|cols rows]; cbn [cev] in H; cbn [tev tev_step];
    try (inversion H; reflexivity); try discriminate.
  - destruct (cev f sc a) as [x|] eqn:Ea; [|discriminate]. destruct (cev f sc b) as [y|] eqn:Eb; [|discriminate].
    inversion H; subst. rewrite (IH _ _ _ Ea), (IH _ _ _ Eb). reflexivity.
  - destruct (cev f sc a) as [x|] eqn:Ea; [|discriminate]. destruct (cev f sc b) as [y|] eqn:Eb; [|discriminate].
    inversion H; subst. rewrite (IH _ _ _ Ea), (IH _ _ _ Eb). reflexivity.
  - destruct (cevs (cev f) sc args) as [vs|] eqn:Ea; [|discriminate].
    rewrite (cevs_evs f svc IH _ _ _ Ea).
    destruct (getv fn sc) as [|z|s|l|c|ps b|sid ps]; try (inversion H; reflexivity); try discriminate.
    unfold apply_fn.
    destruct (bind_pos ps vs) as [pc|]; [|inversion H; reflexivity]. rewrite (IH _ _ _ H). reflexivity.
  - destruct (cctx (cev f) sc [] es) as [[acc sc1]|] eqn:Ec; [|discriminate].
    rewrite (cctx_go f svc IH _ _ _ _ _ Ec). destruct res as [r|].
    + rewrite (IH _ _ _ H). reflexivity.
    + inversion H; reflexivity.
Qed.

Corollary shared_teval svc sc e v : cev TFUEL sc e = Some v -> teval svc sc e = v.
Proof. intros H. unfold teval. rewrite (cev_tev svc _ _ _ _ H). reflexivity. Qed.

(* ================= sorted contexts ================= *)
From DV Require C01.FreeNames C16.Proofs C04.Proofs.
Module P4 := DV.C04.Proofs.

Ltac nb1 := match goal with
  | |- context [N.eqb ?a ?b] => destruct (N.eqb_spec a b)
  | |- context [N.ltb ?a ?b] => destruct (N.ltb_spec a b)
  end.
Ltac nb := repeat (cbn [F.ctx_set]; try nb1; subst; try lia; try reflexivity).

Lemma ctx_set_set {k v v'} c : F.ctx_set k v (F.ctx_set k v' c) = F.ctx_set k v c.
Proof. induction c as [|[k' x] r IH]; nb. rewrite IH. reflexivity. Qed.

Lemma ctx_set_comm k1 k2 v1 v2 c : k1 <> k2 ->
  F.ctx_set k1 v1 (F.ctx_set k2 v2 c) = F.ctx_set k2 v2 (F.ctx_set k1 v1 c).
Proof. intros Hne. induction c as [|[k' x] r IH]; nb. rewrite IH. reflexivity. Qed.

Lemma tr_ctx_set k v acc : tr_ctx (set k v acc) = F.ctx_set k (tr_v v) (tr_ctx acc).
Proof. induction acc as [|[k' x] r IH]; cbn [set]; [reflexivity|].
  destruct (N.eqb_spec k k') as [->|Hne].
  - unfold tr_ctx. cbn [fold_right fst snd]. rewrite ctx_set_set. reflexivity.
  - unfold tr_ctx in *. cbn [fold_right fst snd]. rewrite IH. apply ctx_set_comm. congruence. Qed.

Lemma ctx_get_tr n es : F.ctx_get n (tr_ctx es) = option_map tr_v (lookup n es).
Proof. induction es as [|[k x] r IH]; [reflexivity|]. unfold tr_ctx in *. cbn [fold_right fst snd lookup].
  rewrite DV.C01.FreeNames.ctx_get_set, IH. destruct (N.eqb n k); reflexivity. Qed.

Lemma in_ctx_set e k w c : In e (F.ctx_set k w c) -> e = (k, w) \/ In e c.
Proof. induction c as [|[k' x] r IH]; cbn [F.ctx_set]; intros H.
  - destruct H as [<-|[]]. left; reflexivity.
  - destruct (N.eqb k k'). { destruct H as [<-|H]; [left; reflexivity | right; right; exact H]. }
    destruct (N.ltb k k'). { destruct H as [<-|H]; [left; reflexivity | right; exact H]. }
    destruct H as [<-|H]; [right; left; reflexivity|]. destruct (IH H) as [->|Hi]; [left; reflexivity | right; right; exact Hi]. Qed.

Lemma in_tr_ctx e es : In e (tr_ctx es) -> exists v, snd e = tr_v v.
Proof. induction es as [|[k x] r IH]; [intros []|]. unfold tr_ctx in *. cbn [fold_right fst snd]. intros H.
  apply in_ctx_set in H. destruct H as [->|H]; [exists x; reflexivity | apply IH; exact H]. Qed.

(* ================= + and *: the same operations on both sides ================= *)
Lemma add_link x y : F.binop_eval F.Add (tr_v x) (tr_v y) = tr_v (vadd x y).
Proof. destruct x, y; cbn [tr_v vadd F.binop_eval F.poisoned]; try reflexivity.
  destruct (DR.dadd d d0); reflexivity. Qed.

Lemma mul_link x y : F.binop_eval F.Mul (tr_v x) (tr_v y) = tr_v (vmul x y).
Proof. destruct x, y; cbn [tr_v vmul F.binop_eval F.poisoned]; try reflexivity.
  destruct (DR.dmul d d0); reflexivity. Qed.

(* ================= translated values hold no VPoison; coercion to Any keeps them ================= *)
Lemma vsize_pos w : 1 <= F.vsize w.
Proof. destruct w; cbn [F.vsize]; lia. Qed.
Lemma vsize_in_list u l : In u l -> F.vsize u <= fold_right (fun x n => F.vsize x + n) 0 l.
Proof. induction l as [|x l IH]; intros H; [destruct H|]. cbn [fold_right]. destruct H as [->|H]; [lia|]. specialize (IH H). lia. Qed.
Lemma vsize_in_ctx (e : N * F.value) es : In e es -> F.vsize (snd e) <= fold_right (fun x n => F.vsize (snd x) + n) 0 es.
Proof. induction es as [|x l IH]; intros H; [destruct H|]. cbn [fold_right]. destruct H as [->|H]; [lia|]. specialize (IH H). lia. Qed.

Lemma img_no_poison : forall f w v, F.vsize w <= f -> w = tr_v v -> F.has_poison f w = false.
Proof.
  induction f as [|f IH]; intros w v Hf Hz; [pose proof (vsize_pos w); lia|].
  destruct w; cbn [F.has_poison]; try reflexivity.
  - destruct v; cbn [tr_v] in Hz; try discriminate Hz. inversion Hz as [Hm].
    destruct (existsb (F.has_poison f) (map tr_v vs)) eqn:E; [|reflexivity]. apply existsb_exists in E. destruct E as [u [Hu Hp]].
    assert (Hu' := Hu). apply in_map_iff in Hu'. destruct Hu' as [v' [Hv' _]].
    rewrite (IH u v') in Hp; [discriminate| |symmetry; exact Hv'].
    pose proof (vsize_in_list u _ Hu). subst l. cbn [F.vsize] in Hf. lia.
  - destruct v; cbn [tr_v] in Hz; try discriminate Hz. inversion Hz as [Hm]. fold (tr_ctx es0) in *.
    destruct (existsb (fun e => F.has_poison f (snd e)) (tr_ctx es0)) eqn:E; [|reflexivity]. apply existsb_exists in E. destruct E as [e [He Hp]].
    destruct (in_tr_ctx e es0 He) as [v' Hv'].
    rewrite (IH (snd e) v') in Hp; [discriminate| |exact Hv'].
    pose proof (vsize_in_ctx e _ He). subst es. cbn [F.vsize] in Hf. lia.
  - destruct v; discriminate Hz.
  - destruct v; discriminate Hz.
  - destruct v; discriminate Hz.
Qed.

Lemma coerced_any v : F.coerced1 (T.TS T.SAny) (tr_v v) = tr_v v.
Proof. unfold F.coerced1. unfold F.poison. rewrite (img_no_poison _ (tr_v v) v (le_n _) eq_refl).
  change F.T.conformant with T.conformant. rewrite DV.C16.Proofs.conformant_any. reflexivity. Qed.

(* ================= scopes: the flattened C04 scope against the C01 stack, name by name ================= *)
Definition get1 (n : N) (S : F.stack) : F.value := match F.lookup n S with Some v => v | None => F.VNull end.
Definition srel (sc : env) (S : F.stack) : Prop := forall n, get1 n S = tr_v (getv n sc).

Lemma get1_cons n c S : get1 n (c :: S) = match F.ctx_get n c with Some w => w | None => get1 n S end.
Proof. unfold get1. cbn [F.lookup]. destruct (F.ctx_get n c); reflexivity. Qed.

Lemma srel_push sc S : srel sc S -> srel sc ([] :: S).
Proof. intros H n. rewrite get1_cons. exact (H n). Qed.

Lemma srel_set sc c S k v w : srel sc (c :: S) -> w = tr_v v -> srel (set k v sc) (F.ctx_set k w c :: S).
Proof. intros H Hw n. rewrite get1_cons, DV.C01.FreeNames.ctx_get_set. unfold getv. rewrite P4.lookup_set.
  destruct (N.eqb n k); [exact Hw|]. specialize (H n). rewrite get1_cons in H. exact H. Qed.

Lemma srel_env sc : srel sc (tr_env sc).
Proof. intros n. unfold tr_env. rewrite get1_cons, ctx_get_tr. unfold getv. destruct (lookup n sc) as [v|]; reflexivity. Qed.

(* ----- positional arguments: both sides set the formal parameters one after the other (a repeated name: the last wins) ----- *)
Lemma bind_go_len : forall ps vs acc,
  match bind_pos_go ps vs acc with None => length vs < length ps | Some _ => length ps <= length vs end.
Proof. induction ps as [|p pr IH]; intros vs acc; cbn [bind_pos_go length]; [lia|]. destruct vs as [|a ar]; cbn [length]; [lia|].
  specialize (IH ar (set p a acc)). destruct (bind_pos_go pr ar (set p a acc)); lia. Qed.

Lemma bind_go_nodup : forall ps vs acc pc, bind_pos_go ps vs acc = Some pc -> NoDup (map fst acc) -> NoDup (map fst pc).
Proof. induction ps as [|p pr IH]; intros vs acc pc H Ha; cbn [bind_pos_go] in H; [inversion H; subst; exact Ha|].
  destruct vs as [|a ar]; [discriminate|]. apply (IH ar _ pc H). apply P4.nodup_set. exact Ha. Qed.

Definition arg_step (c : F.ctx) (pv : N * T.ftype * F.value) : F.ctx :=
  F.ctx_set (fst (fst pv)) (F.coerced1 (snd (fst pv)) (snd pv)) c.

Lemma bind_go_tr : forall ps vs acc pc, bind_pos_go ps vs acc = Some pc ->
  fold_left arg_step (combine (any_params ps) (map tr_v vs)) (tr_ctx acc) = tr_ctx pc.
Proof. induction ps as [|p pr IH]; intros vs acc pc H; cbn [bind_pos_go] in H.
  - inversion H; subst. reflexivity.
  - destruct vs as [|a ar]; [discriminate|]. cbn [any_params map combine fold_left]. fold (any_params pr).
    unfold arg_step at 2. cbn [fst snd]. rewrite coerced_any, <- tr_ctx_set. exact (IH ar _ pc H). Qed.

Lemma srel_call ps vs pc sc S c : bind_pos ps vs = Some pc -> srel sc S ->
  FS.mk_args (any_params ps) (map tr_v vs) = Some c -> srel (zip sc pc) (c :: S).
Proof. intros Hb Hs Hc n. unfold FS.mk_args in Hc. destruct (Nat.ltb _ _); [discriminate|]. inversion Hc as [Hc']. clear Hc.
  fold arg_step. unfold bind_pos in Hb. change (@nil (N * F.value)) with (tr_ctx []). rewrite (bind_go_tr ps vs [] pc Hb).
  rewrite get1_cons, ctx_get_tr. unfold getv.
  rewrite P4.lookup_zip, (P4.lookup_rev_nodup n pc (bind_go_nodup _ _ _ _ Hb (NoDup_nil _))).
  destruct (lookup n pc) as [v|]; cbn [option_map]; [reflexivity | exact (Hs n)].
Qed.

(* ================= the link ================= *)
Section Link.
Variable cartf : list (N * list F.value) -> list F.ctx.
Notation feval := (FS.eval cartf).

Definition ctx_step (g : nat) (S : F.stack) (acc : F.ctx) (ke : N * F.expr) : F.ctx :=
  F.ctx_set (fst ke) (feval g (acc :: S) (snd ke)) acc.

Lemma eval_name g S n : feval (Datatypes.S g) S (F.EName n) = get1 n S.
Proof. reflexivity. Qed.
Lemma eval_bin g S o a b : feval (Datatypes.S g) S (F.EBin o a b) = F.binop_eval o (feval g S a) (feval g S b).
Proof. reflexivity. Qed.
Lemma eval_call g S fn args : feval (Datatypes.S (Datatypes.S g)) S (F.ECall (F.EName fn) args) =
  match get1 fn S with
  | F.VFun ps body => match FS.mk_args ps (map (feval (Datatypes.S g) S) args) with
                      | Some c => feval (Datatypes.S g) (c :: S) body | None => F.VNull end
  | F.VPoison => F.VPoison
  | _ => F.VNull
  end.
Proof. reflexivity. Qed.
Lemma eval_ctx g S es : feval (Datatypes.S g) S (F.ECtx es) = F.VCtx (fold_left (ctx_step g S) es []).
Proof. reflexivity. Qed.
Lemma eval_path g S e k : feval (Datatypes.S g) S (F.EPath e k) = F.path_eval (feval g S e) k.
Proof. reflexivity. Qed.

Definition linked (f : nat) : Prop := forall sc e v, cev f sc e = Some v ->
  forall g S, 2 * f <= g -> srel sc S -> feval g S (tr_e e) = tr_v v.

Lemma args_link f (IH : linked f) sc S g : 2 * f <= g -> srel sc S ->
  forall l vs, cevs (cev f) sc l = Some vs -> map (feval g S) (map tr_e l) = map tr_v vs.
Proof. intros Hg Hs. induction l as [|x r IHl]; intros vs H; cbn [cevs] in H.
  - inversion H; reflexivity.
  - destruct (cev f sc x) as [v|] eqn:E; [|discriminate]. destruct (cevs (cev f) sc r) as [vs'|] eqn:E2; [|discriminate].
    inversion H; subst. cbn [map]. rewrite (IH _ _ _ E g S Hg Hs), (IHl vs' eq_refl). reflexivity. Qed.

Lemma ctx_link f (IH : linked f) S g : 2 * f <= g ->
  forall es sc acc c acc1 sc1, cctx (cev f) sc acc es = Some (acc1, sc1) -> srel sc (c :: S) -> c = tr_ctx acc ->
  srel sc1 (fold_left (ctx_step g S) (map (fun ke => (fst ke, tr_e (snd ke))) es) c :: S) /\
  fold_left (ctx_step g S) (map (fun ke => (fst ke, tr_e (snd ke))) es) c = tr_ctx acc1.
Proof. intros Hg. induction es as [|[k x] r IHl]; intros sc acc c acc1 sc1 H Hs Hc; cbn [cctx] in H.
  - inversion H; subst. split; [exact Hs | reflexivity].
  - destruct (cev f sc x) as [v|] eqn:E; [|discriminate]. cbn [map fold_left fst snd]. unfold ctx_step at 2 4. cbn [fst snd].
    pose proof (IH _ _ _ E g (c :: S) Hg Hs) as Hv.
    apply (IHl _ _ _ _ _ H).
    + apply srel_set; [exact Hs | exact Hv].
    + rewrite Hv, tr_ctx_set, Hc. reflexivity. Qed.

Theorem link : forall f, linked f.
Proof.
  induction f as [|f IH]; intros sc e v H g S Hg Hs; [discriminate|].
  destruct g as [|[|g]]; try lia. assert (Hg1 : 2 * f <= Datatypes.S g) by lia. assert (Hg0 : 2 * f <= g) by lia.
  destruct e as [|z|s|n|a b|a b|fn args|fn binds|es res|cols rows]; cbn [cev] in H; try discriminate H.
  - inversion H; reflexivity.
  - inversion H; reflexivity.
  - inversion H; reflexivity.
  - inversion H; subst. exact (Hs n).
  - destruct (cev f sc a) as [x|] eqn:Ea; [|discriminate]. destruct (cev f sc b) as [y|] eqn:Eb; [|discriminate].
    inversion H; subst. cbn [tr_e]. rewrite eval_bin, (IH _ _ _ Ea _ S Hg1 Hs), (IH _ _ _ Eb _ S Hg1 Hs). apply add_link.
  - destruct (cev f sc a) as [x|] eqn:Ea; [|discriminate]. destruct (cev f sc b) as [y|] eqn:Eb; [|discriminate].
    inversion H; subst. cbn [tr_e]. rewrite eval_bin, (IH _ _ _ Ea _ S Hg1 Hs), (IH _ _ _ Eb _ S Hg1 Hs). apply mul_link.
  - destruct (cevs (cev f) sc args) as [vs|] eqn:Ea; [|discriminate]. cbn [tr_e]. rewrite eval_call.
    rewrite (args_link f IH sc S _ Hg1 Hs args vs Ea), (Hs fn).
    destruct (getv fn sc) as [|z|s|l|c|ps b|sid ps]; cbn [tr_v]; try (inversion H; reflexivity); try discriminate H.
    pose proof (bind_go_len ps vs []) as Hb. fold (bind_pos ps vs) in Hb.
    destruct (FS.mk_args (any_params ps) (map tr_v vs)) as [c|] eqn:Em.
    + destruct (bind_pos ps vs) as [pc|] eqn:Ebp.
      * apply (IH _ _ _ H); [exact Hg1|]. exact (srel_call ps vs pc sc S c Ebp Hs Em).
      * exfalso. unfold FS.mk_args in Em. unfold any_params in Em. rewrite !map_length in Em.
        destruct (Nat.ltb_spec (length vs) (length ps)); [discriminate | lia].
    + destruct (bind_pos ps vs) as [pc|] eqn:Ebp; [|inversion H; reflexivity].
      exfalso. unfold FS.mk_args in Em. unfold any_params in Em. rewrite !map_length in Em.
      destruct (Nat.ltb_spec (length vs) (length ps)); [lia | discriminate].
  - destruct (cctx (cev f) sc [] es) as [[acc sc1]|] eqn:Ec; [|discriminate].
    destruct res as [r|]; cbn [tr_e].
    + rewrite eval_path, eval_ctx, fold_left_app. cbn [fold_left]. unfold ctx_step at 1. cbn [fst snd F.path_eval].
      rewrite DV.C01.FreeNames.ctx_get_set, N.eqb_refl.
      destruct (ctx_link f IH S g Hg0 es sc [] [] acc sc1 Ec (srel_push _ _ Hs) eq_refl) as [Hs1 _].
      exact (IH _ _ _ H g _ Hg0 Hs1).
    + inversion H; subst. rewrite eval_ctx.
      destruct (ctx_link f IH S (Datatypes.S g) Hg1 es sc [] [] acc sc1 Ec (srel_push _ _ Hs) eq_refl) as [_ Hc1].
      cbn [tr_v]. f_equal. exact Hc1.
Qed.
End Link.

(* ================= the statements ================= *)
From DV Require C01.Proofs.

(* every fuel of the tiny evaluator, every enumeration function of C01's eval, every related scope / stack pair *)
Theorem tev_is_feel_eval cartf svc f sc S e g : shared f sc e = true -> 2 * f <= g -> srel sc S ->
  FS.eval cartf g S (tr_e e) = tr_v (fst (tev false f svc sc e)).
Proof. unfold shared. destruct (cev f sc e) as [v|] eqn:E; [|discriminate]. intros _ Hg Hs.
  rewrite (cev_tev svc _ _ _ _ E). exact (link cartf f sc e v E g S Hg Hs). Qed.

(* teval (60 levels) against the Spec and against the scope-stack machine of C01, on the translated environment *)
Theorem teval_is_feel_eval : forall svc sc e fuel, shared TFUEL sc e = true -> 2 * TFUEL <= fuel ->
  FS.eval_spec fuel (tr_env sc) (tr_e e) = tr_v (teval svc sc e) /\
  fst (FI.run_impl fuel (tr_env sc) (tr_e e)) = tr_v (teval svc sc e) /\
  snd (FI.run_impl fuel (tr_env sc) (tr_e e)) = tr_env sc.
Proof. intros svc sc e fuel Hsh Hf. unfold FI.run_impl. rewrite DV.C01.Proofs.run_refines. cbn [fst snd]. unfold teval, FS.eval_spec.
  repeat split; apply tev_is_feel_eval; try assumption; apply srel_env. Qed.

(* non-vacuity: a boxed context with a result entry, an entry shadowing an outer name, a literal invocation whose body
   reads a name of the caller's scope (dynamic scoping), a negative factor *)
Definition link_env : env :=
  [(1%N, VBkm [10%N; 11%N] (EAdd (EMul (EVar 10%N) (EVar 11%N)) (EVar 2%N))); (2%N, vnum 7); (3%N, VStr [65%N])].
Definition link_e : expr :=
  ECtx [(2%N, enum 3); (4%N, ECall 1%N [EAdd (enum 2) (enum 1); EVar 2%N]); (5%N, EVar 3%N)] (Some (EMul (EVar 4%N) (enum (-2)))).
Definition no_svc : N -> env -> value := fun _ _ => VNull.

Lemma link_nonvacuous :
  shared TFUEL link_env link_e = true /\
  teval no_svc link_env link_e = vnum (-24) /\
  FS.eval_spec 120 (tr_env link_env) (tr_e link_e) = F.VNum (D.of_Z (-24) 0) /\
  fst (FI.run_impl 120 (tr_env link_env) (tr_e link_e)) = F.VNum (D.of_Z (-24) 0) /\
  shared TFUEL link_env (ECall 1%N [enum 5]) = true /\ teval no_svc link_env (ECall 1%N [enum 5]) = VNull /\   (* a missing argument: null on both sides *)
  shared TFUEL link_env (EAdd (EVar 2%N) ENull) = true /\ teval no_svc link_env (EAdd (EVar 2%N) ENull) = VNull. (* null operand *)
Proof. vm_compute. repeat split; reflexivity. Qed.

(* ---------- the former corners: the three places where the earlier Z-valued tiny evaluator differed from C01 and from the
   real code (each run through dv model) are inside the hypotheses now, and the two models agree on them ---------- *)
(* "a" + "b": dv model answers "ab" *)
Lemma str_concat_agrees :
  let e := EAdd (EStr [97%N]) (EStr [98%N]) in
  shared TFUEL [] e = true /\ teval no_svc [] e = VStr [97%N; 98%N] /\
  FS.eval_spec 5 (tr_env []) (tr_e e) = F.VStr [97%N; 98%N] /\
  teval no_svc [] (EAdd (EStr [97%N]) (enum 1)) = VNull /\ teval no_svc [] (EMul (EStr [97%N]) (EStr [98%N])) = VNull.
Proof. vm_compute. repeat split; reflexivity. Qed.

(* a knowledge model with the formal parameters (x, x) and body x, invoked as f(1, 2): dv model answers 2 *)
Lemma dup_params_agree :
  let sc := [(1%N, VBkm [10%N; 10%N] (EVar 10%N))] in let e := ECall 1%N [enum 1; enum 2] in
  shared TFUEL sc e = true /\ teval no_svc sc e = vnum 2 /\ FS.eval_spec 5 (tr_env sc) (tr_e e) = F.VNum (D.of_Z 2 0).
Proof. vm_compute. repeat split; reflexivity. Qed.

(* a * 0 with a = -3: dv model answers -0, and so do both models *)
Lemma negative_zero_agrees :
  let e := EMul (enum (-3)) (enum 0) in
  shared TFUEL [] e = true /\ teval no_svc [] e = VNum (D.mkdec true 0 0) /\
  FS.eval_spec 5 (tr_env []) (tr_e e) = F.VNum (D.mkdec true 0 0).
Proof. vm_compute. repeat split; reflexivity. Qed.

(* a * a + 1 with a = 10^17: 35 digits; dv model answers 1E+34.  A literal of more than 34 digits is rounded half-even
   when it is read (99999999999999999999999999999999995 is 1E+35) *)
Lemma rounding_agrees :
  let e := EAdd (EMul (enum (10 ^ 17)) (enum (10 ^ 17))) (enum 1) in
  shared TFUEL [] e = true /\ teval no_svc [] e = VNum (D.mkdec false (10 ^ 33) 1) /\
  FS.eval_spec 5 (tr_env []) (tr_e e) = F.VNum (D.mkdec false (10 ^ 33) 1) /\
  num_lit 99999999999999999999999999999999995 = D.mkdec false (10 ^ 33) 2.
Proof. vm_compute. repeat split; reflexivity. Qed.
