(* C16 — property theorems only.  Proofs are in C16/Proofs.v.
   `wf` = context types have unique keys (a BTreeMap in the code); `wfv` likewise for context values. *)
From Coq Require Import List NArith Bool Arith.
From DV Require Import C16.Model C16.Proofs.
Import ListNotations.

Theorem C16_equiv_refl : forall t, wf t = true -> equivalent t t = true.
Proof. exact equivalent_refl. Qed.
Theorem C16_equiv_sym : forall a b, wf a = true -> wf b = true -> equivalent a b = true -> equivalent b a = true.
Proof. exact equivalent_sym. Qed.
Theorem C16_equiv_trans : forall a b c, wf a = true -> wf b = true -> wf c = true ->
  equivalent a b = true -> equivalent b c = true -> equivalent a c = true.
Proof. exact equivalent_trans. Qed.
Theorem C16_equiv_only_mutually_conformant : forall a b, wf a = true -> wf b = true -> equivalent a b = true ->
  conformant a b = true /\ conformant b a = true.
Proof. exact equivalent_conformant. Qed.
Theorem C16_conf_refl : forall t, wf t = true -> conformant t t = true.
Proof. exact conformant_refl. Qed.
Theorem C16_conf_any : forall t, conformant t (TS SAny) = true.
Proof. exact conformant_any. Qed.
Theorem C16_null_conf : forall t, conformant (TS SNull) t = true.
Proof. exact null_conformant. Qed.
Theorem C16_conf_trans : forall a b c, wf a = true -> wf b = true -> wf c = true ->
  conformant a b = true -> conformant b c = true -> conformant a c = true.
Proof. exact conformant_trans. Qed.
Theorem C16_list_covariant : forall a b, wf a = true -> wf b = true -> conformant (TList a) (TList b) = conformant a b.
Proof. exact list_covariant. Qed.
Theorem C16_range_covariant : forall a b, wf a = true -> wf b = true -> conformant (TRange a) (TRange b) = conformant a b.
Proof. exact range_covariant. Qed.
Theorem C16_context_covariant : forall ea eb, wf (TCtx ea) = true -> wf (TCtx eb) = true ->
  conformant (TCtx ea) (TCtx eb) =
  forallb (fun e => match lookup (fst e) ea with Some ta => conformant ta (snd e) | None => false end) eb.
Proof. exact context_covariant. Qed.
Theorem C16_function_variance : forall pa ra pb rb, wf (TFun pa ra) = true -> wf (TFun pb rb) = true ->
  conformant (TFun pa ra) (TFun pb rb) =
  Nat.eqb (length pa) (length pb) && all2 conformant pb pa && conformant ra rb.
Proof. exact function_variance. Qed.
Theorem C16_equiv_function_result : forall pa ra pb rb,
  equivalent (TFun pa ra) (TFun pb rb) = true -> equivalent ra rb = true.
Proof. exact equivalent_function_result. Qed.
Theorem C16_coerced_identity : forall T v, conformant (type_of v) T = true -> coerced T v = v.
Proof. exact coerced_identity. Qed.
Theorem C16_coerced_wrap : forall item v, conformant (type_of v) (TList item) = false -> conformant (type_of v) item = true ->
  coerced (TList item) v = VList [v].
Proof. exact coerced_wrap. Qed.
Theorem C16_coerced_unwrap : forall T x, conformant (type_of (VList [x])) T = false -> conformant (type_of x) T = true ->
  (forall item, T = TList item -> conformant (type_of (VList [x])) item = false) -> coerced T (VList [x]) = x.
Proof. exact coerced_unwrap. Qed.
Theorem C16_coerced_conforms_or_null : forall T v, wf T = true -> wfv v = true ->
  coerced T v = VNull \/ conformant (type_of (coerced T v)) T = true.
Proof. exact coerced_conforms_or_null. Qed.
Theorem C16_coerced_idempotent : forall T v, wf T = true -> wfv v = true -> coerced T (coerced T v) = coerced T v.
Proof. exact coerced_idempotent. Qed.
(* the two defects of the pinned commit, kept as refutations of the original code *)
Theorem C16_equiv_orig_refuted : exists ra rb,
  equivalent_orig (TFun [] ra) (TFun [] rb) = true /\ equivalent_orig ra rb = false.
Proof. exact equivalent_orig_refuted. Qed.
Theorem C16_coerced_orig_refuted : exists T x,
  conformant (type_of x) T = true /\ coerced_orig T (VList [x]) = VNull /\ coerced T (VList [x]) = x.
Proof. exact coerced_orig_refuted. Qed.
Example C16_nonvacuous :
  let a := TFun [TS SAny; TCtx [(1%N, TS SNumber)]] (TList (TS SNull)) in
  let b := TFun [TS SNumber; TCtx [(1%N, TS SNumber); (2%N, TS SString)]] (TList (TS SDate)) in
  wf a = true /\ wf b = true /\ conformant a b = true /\ conformant b a = false /\ equivalent a b = false.
Proof. exact nonvacuous_types. Qed.

Print Assumptions C16_equiv_refl.
Print Assumptions C16_equiv_sym.
Print Assumptions C16_equiv_trans.
Print Assumptions C16_equiv_only_mutually_conformant.
Print Assumptions C16_conf_refl.
Print Assumptions C16_conf_any.
Print Assumptions C16_null_conf.
Print Assumptions C16_conf_trans.
Print Assumptions C16_list_covariant.
Print Assumptions C16_range_covariant.
Print Assumptions C16_context_covariant.
Print Assumptions C16_function_variance.
Print Assumptions C16_equiv_function_result.
Print Assumptions C16_coerced_identity.
Print Assumptions C16_coerced_wrap.
Print Assumptions C16_coerced_unwrap.
Print Assumptions C16_coerced_conforms_or_null.
Print Assumptions C16_coerced_idempotent.
Print Assumptions C16_equiv_orig_refuted.
Print Assumptions C16_coerced_orig_refuted.
Print Assumptions C16_nonvacuous.
