(* C15 — dates, date-times and durations follow the calendar and the UTC time line.
   Spec      = Base/Calendar.v (proleptic Gregorian calendar on Z, every year) + the definitions marked Spec below.
   ImplModel = transliteration of feel/src/temporal/date.rs (is_valid_date, TryFrom<(number,number,number)>,
               ym_duration, comparison and weekday through chrono), temporal/mod.rs (compare, subtract),
               dt_duration.rs / ym_duration.rs (components).  chrono itself is not transliterated: where the
               code delegates to it the model uses the calendar of Base/Calendar.v restricted to chrono's
               year range, and the tie is the correspondence check.
   No proofs in this file. *)
From Coq Require Import ZArith Bool List.
From DV Require Import Base.Calendar.
Import ListNotations.
Open Scope Z_scope.

Definition date := (Z * Z * Z)%type.

(* ---------------- ranges ---------------- *)
(* years a FEEL date may have *)
Definition feel_year (y : Z) : bool := (-999999999 <=? y) && (y <=? 999999999).
(* years chrono::NaiveDate (0.4.45) can represent *)
Definition chrono_year (y : Z) : bool := (-262143 <=? y) && (y <=? 262142).
(* NaiveDate::from_ymd_opt succeeds *)
Definition chrono_date (y m d : Z) : bool := chrono_year y && valid y m d.

(* ---------------- validity (date.rs is_valid_date) ---------------- *)
Definition last_day_opt (y m : Z) : option Z :=
  if (1 <=? m) && (m <=? 12) then Some (last_day y m) else None.

(* as at the pinned commit: conversion to chrono first; the fallback only tests `day <= last` *)
Definition is_valid_date_orig (y m d : Z) : bool :=
  chrono_date y m d ||
  (feel_year y && match last_day_opt y m with Some l => d <=? l | None => false end).

(* after the fix: the fallback also requires day >= 1 *)
Definition is_valid_date (y m d : Z) : bool :=
  chrono_date y m d ||
  (feel_year y && match last_day_opt y m with Some l => (1 <=? d) && (d <=? l) | None => false end).

(* Spec: a FEEL date *)
Definition feel_date (y m d : Z) : bool := feel_year y && valid y m d.

(* ---------------- date from three numbers (date.rs TryFrom<(FeelNumber, FeelNumber, FeelNumber)>) ----------------
   The arguments are decimal numbers; the model takes them in tenths (n stands for n/10), which is enough to
   express the sign test on the unrounded number and the half-even rounding of decQuadToInt32/decQuadToUInt32. *)
Definition round_he10 (n : Z) : Z :=
  let q := n / 10 in let r := n mod 10 in
  if r <? 5 then q else if 5 <? r then q + 1 else if Z.even q then q else q + 1.

(* decQuadToInt32 / decQuadToUInt32: out of range gives 0 *)
Definition to_i32 (z : Z) : Z := if (-2147483648 <=? z) && (z <=? 2147483647) then z else 0.
Definition to_u32 (z : Z) : Z := if (0 <=? z) && (z <=? 4294967295) then z else 0.
(* `as u8` *)
Definition to_u8 (z : Z) : Z := to_u32 z mod 256.

Section FromNumbers.
Variable is_valid : Z -> Z -> Z -> bool.
Definition from_numbers_body (y m d : Z) : option date :=
  let year := to_i32 (round_he10 y) in
  if (0 <? m) && (0 <? d) then
    let month := to_u8 (round_he10 m) in
    let day := to_u8 (round_he10 d) in
    if is_valid year month day then Some (year, month, day) else None
  else None.
End FromNumbers.

(* pinned commit *)
Definition date_from_numbers_orig (y m d : Z) : option date := from_numbers_body is_valid_date_orig y m d.

(* after the fix: components outside their range are rejected before the narrowing conversions
   (-1000000000 < year < 1000000000, month < 13, day < 32, compared as decimal numbers) *)
Definition date_from_numbers (y m d : Z) : option date :=
  if (-10000000000 <? y) && (y <? 10000000000) && (m <? 130) && (d <? 320)
  then from_numbers_body is_valid_date y m d else None.

(* Spec: the rounded components form a FEEL date *)
Definition date_from_numbers_spec (y m d : Z) : option date :=
  let '(yy, mm, dd) := (round_he10 y, round_he10 m, round_he10 d) in
  if (0 <? m) && (0 <? d) && feel_date yy mm dd then Some (yy, mm, dd) else None.

(* ---------------- ordering of dates (date.rs PartialOrd via chrono date-times at UTC midnight) ---------------- *)
Definition date_eqb (a b : date) : bool :=
  let '(y1, m1, d1) := a in let '(y2, m2, d2) := b in (y1 =? y2) && (m1 =? m2) && (d1 =? d2).

Definition chrono_date3 (a : date) : bool := let '(y, m, d) := a in chrono_date y m d.

(* temporal::compare on two UTC-midnight date-times: None when either conversion to chrono fails *)
Definition date_compare_chrono (a b : date) : option comparison :=
  if chrono_date3 a && chrono_date3 b then Some (days3 a ?= days3 b) else None.

(* pinned commit: PartialOrd::partial_cmp *)
Definition date_partial_cmp_orig (a b : date) : option comparison :=
  if date_eqb a b then Some Eq else
  match date_compare_chrono a b with
  | Some Lt => Some Lt
  | Some Gt => Some Gt
  | _ => None
  end.

(* after the fix: the (year, month, day) triples are compared *)
Definition date_partial_cmp (a b : date) : option comparison := Some (cmp3 a b).

Definition lt_of (c : option comparison) : bool := match c with Some Lt => true | _ => false end.
Definition le_of (c : option comparison) : bool := match c with Some Lt | Some Eq => true | _ => false end.
Definition gt_of (c : option comparison) : bool := match c with Some Gt => true | _ => false end.
Definition ge_of (c : option comparison) : bool := match c with Some Gt | Some Eq => true | _ => false end.

(* ---------------- weekday (date.rs weekday via chrono) ---------------- *)
Definition weekday_orig (a : date) : option Z :=
  let '(y, m, d) := a in if chrono_date y m d then Some (weekday y m d) else None.
(* after the fix: FeelDate::weekday computes the day number itself on i64 (year.div_euclid(400), the other
   divisions have non-negative operands for a month 1..12; Rust `/` truncates, hence Z.quot) *)
Definition days_impl (a : date) : Z :=
  let '(y0, m, d) := a in
  let y := y0 - (if m <=? 2 then 1 else 0) in
  let era := y / 400 in
  let yoe := y - era * 400 in
  let doy := Z.quot (153 * (if 2 <? m then m - 3 else m + 9) + 2) 5 + d - 1 in
  let doe := yoe * 365 + Z.quot yoe 4 - Z.quot yoe 100 + doy in
  era * 146097 + doe - 719468.
Definition weekday_impl (a : date) : option Z := Some (Z.modulo (days_impl a + 3) 7 + 1).
(* Spec *)
Definition weekday_spec (a : date) : option Z := let '(y, m, d) := a in Some (weekday y m d).

(* ---------------- whole months between two dates (date.rs ym_duration; self = `to`, other = `from`) ---------------- *)
(* pinned commit: the branch is chosen by the years alone *)
Definition ym_duration_orig (self other : date) : Z :=
  let '(sy, sm, sd) := self in let '(oy, om, od) := other in
  if sy <? oy then
    let months := 12 * (oy - sy) + (om - sm) in
    let months := if od <? sd then months - 1 else months in
    - months
  else
    let months := 12 * (sy - oy) + (sm - om) in
    if sd <? od then months - 1 else months.

(* after the fix: the branch is chosen by the order of the whole dates *)
Definition ym_duration (self other : date) : Z :=
  let '(sy, sm, sd) := self in let '(oy, om, od) := other in
  match cmp3 self other with
  | Lt =>
    let months := 12 * (oy - sy) + (om - sm) in
    let months := if od <? sd then months - 1 else months in
    - months
  | _ =>
    let months := 12 * (sy - oy) + (sm - om) in
    if sd <? od then months - 1 else months
  end.

(* Spec.  A date is located by its month index 12*y + m and its day; `a` shifted by k months is (index a + k, day a).
   whole_months a b, for a not after b, is the number of whole months from a to b. *)
Definition month_index (a : date) : Z := let '(y, m, _) := a in 12 * y + m.
Definition day_of (a : date) : Z := let '(_, _, d) := a in d.
Definition whole_months (a b : date) : Z :=
  month_index b - month_index a - (if day_of b <? day_of a then 1 else 0).
(* years and months duration(from, to) *)
Definition months_between (from to : date) : Z :=
  match cmp3 from to with
  | Gt => - whole_months to from
  | _ => whole_months from to
  end.
(* (month index, day) pairs in lexicographic order *)
Definition md_le (i1 d1 i2 d2 : Z) : Prop := i1 < i2 \/ (i1 = i2 /\ d1 <= d2).
Definition md_lt (i1 d1 i2 d2 : Z) : Prop := i1 < i2 \/ (i1 = i2 /\ d1 < d2).

(* ---------------- date-times on the UTC time line (temporal/mod.rs compare, subtract) ---------------- *)
Record dtime := { dt_date : date; dt_h : Z; dt_mi : Z; dt_s : Z; dt_ns : Z; dt_off : Z (* seconds east of UTC *) }.

Definition NS : Z := 1000000000.
Definition tod_ns (x : dtime) : Z := (dt_h x * 3600 + dt_mi x * 60 + dt_s x) * NS + dt_ns x.
(* Spec: the instant, nanoseconds since 1970-01-01T00:00:00Z *)
Definition instant (x : dtime) : Z := days3 (dt_date x) * (86400 * NS) + tod_ns x - dt_off x * NS.

Definition valid_tod (x : dtime) : bool :=
  (0 <=? dt_h x) && (dt_h x <? 24) && (0 <=? dt_mi x) && (dt_mi x <? 60) && (0 <=? dt_s x) && (dt_s x <? 60) &&
  (0 <=? dt_ns x) && (dt_ns x <? NS).
(* date_time_offset succeeds: the local date and time are representable and so is the UTC date-time *)
Definition chrono_min_instant : Z := days_from_civil (-262143) 1 1 * (86400 * NS).
Definition chrono_max_instant : Z := days_from_civil 262142 12 31 * (86400 * NS) + (86400 * NS - 1).
Definition chrono_dt (x : dtime) : bool :=
  chrono_date3 (dt_date x) && valid_tod x && (-86400 <? dt_off x) && (dt_off x <? 86400) &&
  (chrono_min_instant <=? instant x) && (instant x <=? chrono_max_instant).

Definition dt_compare_impl (a b : dtime) : option comparison :=
  if chrono_dt a && chrono_dt b then Some (instant a ?= instant b) else None.

Definition fits_i64 (n : Z) : bool := (-9223372036854775808 <=? n) && (n <=? 9223372036854775807).
(* chrono::Duration::num_nanoseconds is None when the difference does not fit in i64 *)
Definition dt_subtract_impl (a b : dtime) : option Z :=
  if chrono_dt a && chrono_dt b then
    let n := instant a - instant b in if fits_i64 n then Some n else None
  else None.
(* Spec *)
Definition dt_subtract_spec (a b : dtime) : Z := instant a - instant b.

(* ---------------- durations ---------------- *)
(* days and time duration = total nanoseconds (i128), years and months duration = total months (i64) *)
Definition DAY_NS : Z := 86400 * NS.
Definition HOUR_NS : Z := 3600 * NS.
Definition MIN_NS : Z := 60 * NS.
Definition dtd_days (n : Z) : Z := Z.abs n / DAY_NS.
Definition dtd_hours (n : Z) : Z := (Z.abs n mod DAY_NS) / HOUR_NS.
Definition dtd_minutes (n : Z) : Z := (Z.abs n mod DAY_NS mod HOUR_NS) / MIN_NS.
Definition dtd_seconds (n : Z) : Z := (Z.abs n mod DAY_NS mod HOUR_NS mod MIN_NS) / NS.
Definition dtd_subsec (n : Z) : Z := Z.abs n mod DAY_NS mod HOUR_NS mod MIN_NS mod NS.
(* Rust `/` and `%` on i64 truncate towards zero *)
Definition ymd_years (n : Z) : Z := Z.quot n 12.
Definition ymd_months (n : Z) : Z := Z.rem n 12.

(* witnesses *)
Definition d_2020_03_01 : date := (2020, 3, 1).
Definition d_2020_01_31 : date := (2020, 1, 31).
