//! `dv threads`: stress evaluation of one shared ModelEvaluator from many threads (C20).
//! One JSON request per line:
//!   {"xml": model, "calls": [[invocable, context text], ...], "threads": n, "per_thread": k, "trials": r, "seed": s, "timeout_s": t}
//! The expected value of every call comes from a reference evaluator that only one thread ever uses.  Each of the `r` trials
//! builds a FRESH Arc<ModelEvaluator> (cold: nothing has been evaluated on it) and releases `n` threads from a barrier; all of
//! them make the same call first, then `k` calls in an order with mid barriers and yield_now injections derived from the seed;
//! every result is compared with the sequential result of the same (invocable, input).  A watchdog reports a deadlock
//! when NO call completes for `t` seconds (progress counter; a loaded machine is slow, not stuck); the process then exits:
//! stuck threads cannot be joined.
//! After the threads a final single-threaded pass over all calls detects a poisoned lock.
//! Answer: {"calls": total, "mismatches": [...], "deadlock": bool, "panics": n, "final_ok": bool, "expected": [...]}
use crate::canon::canon;
use dmntk_feel::Scope;
use dmntk_model_evaluator::ModelEvaluator;
use serde_json::{json, Value as J};
use std::io::{BufRead, Write};
use std::sync::atomic::{AtomicUsize, Ordering};
use std::sync::mpsc;
use std::sync::{Arc, Barrier};
use std::time::Duration;

struct Rng(u64);
impl Rng {
  fn next(&mut self) -> u64 {
    // SplitMix64
    self.0 = self.0.wrapping_add(0x9E3779B97F4A7C15);
    let mut z = self.0;
    z = (z ^ (z >> 30)).wrapping_mul(0xBF58476D1CE4E5B9);
    z = (z ^ (z >> 27)).wrapping_mul(0x94D049BB133111EB);
    z ^ (z >> 31)
  }
  fn below(&mut self, n: u64) -> u64 {
    if n == 0 {
      0
    } else {
      self.next() % n
    }
  }
}

fn eval_one(me: &ModelEvaluator, invocable: &str, ctx_text: &str) -> String {
  match dmntk_feel_evaluator::evaluate_context(&Scope::default(), ctx_text) {
    Ok(ctx) => canon(&me.evaluate_invocable(invocable, &ctx)).to_string(),
    Err(_) => "\"input-error\"".to_string(),
  }
}

fn one(req: &J) -> J {
  let xml = req["xml"].as_str().unwrap_or("");
  let calls: Vec<(String, String)> = req["calls"]
    .as_array()
    .map(|a| a.iter().map(|c| (c[0].as_str().unwrap_or("").to_string(), c[1].as_str().unwrap_or("{}").to_string())).collect())
    .unwrap_or_default();
  let threads = req["threads"].as_u64().unwrap_or(4) as usize;
  let per_thread = req["per_thread"].as_u64().unwrap_or(100) as usize;
  let trials = req["trials"].as_u64().unwrap_or(1).max(1) as usize;
  let seed = req["seed"].as_u64().unwrap_or(1);
  let timeout_s = req["timeout_s"].as_u64().unwrap_or(30);
  let defs = match dmntk_model::parse(xml) {
    Ok(d) => d,
    Err(e) => return json!({"err": format!("parse: {}", e)}),
  };
  // the reference evaluator: only ever used by one thread
  let reference: Arc<ModelEvaluator> = match ModelEvaluator::new(&defs) {
    Ok(m) => m,
    Err(e) => return json!({"err": format!("build: {}", e)}),
  };
  if calls.is_empty() {
    return json!({"err": "no calls"});
  }
  // sequential reference, under the watchdog as well: a write acquisition re-entered by a nested evaluation hangs a single thread
  let calls = Arc::new(calls);
  let progress = Arc::new(AtomicUsize::new(0));
  let (etx, erx) = mpsc::channel::<Vec<String>>();
  {
    let me = Arc::clone(&reference);
    let calls = Arc::clone(&calls);
    let progress = Arc::clone(&progress);
    std::thread::spawn(move || {
      let mut out = vec![];
      for (i, c) in calls.iter() {
        out.push(eval_one(&me, i, c));
        progress.fetch_add(1, Ordering::SeqCst);
      }
      let _ = etx.send(out);
    });
  }
  // a hang is "no call completed for timeout_s seconds", not "not finished after timeout_s": a loaded machine is slow, not stuck
  let expected: Arc<Vec<String>> = {
    let mut last = (progress.load(Ordering::SeqCst), std::time::Instant::now());
    loop {
      match erx.recv_timeout(Duration::from_millis(500)) {
        Ok(v) => break Arc::new(v),
        Err(mpsc::RecvTimeoutError::Timeout) => {
          let now = progress.load(Ordering::SeqCst);
          if now != last.0 {
            last = (now, std::time::Instant::now());
          } else if last.1.elapsed() > Duration::from_secs(timeout_s) {
            let ix = now.min(calls.len() - 1);
            let r = json!({"deadlock": true, "phase": "sequential", "calls": ix, "threads": 1, "finished_threads": 0, "mismatches": [],
                           "hanging_call": {"call_index": ix, "invocable": calls[ix].0, "input": calls[ix].1}});
            println!("{}", r);
            std::io::stdout().flush().unwrap();
            std::process::exit(0);
          }
        }
        Err(mpsc::RecvTimeoutError::Disconnected) => return json!({"err": "reference thread died"}),
      }
    }
  };
  if req["show"].as_bool().unwrap_or(false) {
    return json!({"expected": *expected});
  }
  let done = Arc::new(AtomicUsize::new(0));
  let mut mismatches: Vec<J> = vec![];
  let mut final_bad: Vec<J> = vec![];
  let mut panics = 0usize;
  for trial in 0..trials {
    // a FRESH evaluator for every trial: the first evaluations of every invocable race on a cold evaluator
    let me: Arc<ModelEvaluator> = match ModelEvaluator::new(&defs) {
      Ok(m) => m,
      Err(e) => return json!({"err": format!("build: {}", e)}),
    };
    let barrier = Arc::new(Barrier::new(threads));
    let (tx, rx) = mpsc::channel::<(usize, Vec<J>, usize)>();
    let tseed = seed.wrapping_add((trial as u64).wrapping_mul(0x9E37_79B9));
    let sync_every = 1 + (tseed % 7) as usize * 16;
    // the call every thread makes first in this trial (all together, straight after the barrier)
    let first_ix = (tseed as usize).wrapping_mul(31).wrapping_add(trial * 7) % calls.len();
    for t in 0..threads {
      let me = Arc::clone(&me);
      let calls = Arc::clone(&calls);
      let expected = Arc::clone(&expected);
      let barrier = Arc::clone(&barrier);
      let done = Arc::clone(&done);
      let tx = tx.clone();
      std::thread::spawn(move || {
        let mut rng = Rng(tseed ^ ((t as u64 + 1) * 0x1234567));
        let mut bad: Vec<J> = vec![];
        let mut panics = 0usize;
        // inputs of the first call are parsed before the barrier so that the evaluations themselves start together
        let first_ctx = dmntk_feel_evaluator::evaluate_context(&Scope::default(), &calls[first_ix].1).ok();
        barrier.wait();
        for k in 0..per_thread {
          if k > 0 && k % sync_every == 0 {
            barrier.wait(); // all threads do the same number of calls: re-align them so that they collide again
          }
          let ix = if k == 0 {
            first_ix
          } else {
            match rng.below(4) {
              0 => (first_ix + k) % calls.len(),          // all threads on the same call
              1 => (first_ix + k + t) % calls.len(),      // neighbouring calls
              _ => rng.below(calls.len() as u64) as usize, // random
            }
          };
          if k > 0 {
            for _ in 0..rng.below(3) {
              std::thread::yield_now();
            }
          }
          let (inv, ctx) = &calls[ix];
          let r = std::panic::catch_unwind(std::panic::AssertUnwindSafe(|| {
            if k == 0 {
              match &first_ctx {
                Some(c) => canon(&me.evaluate_invocable(inv, c)).to_string(),
                None => "\"input-error\"".to_string(),
              }
            } else {
              eval_one(&me, inv, ctx)
            }
          }));
          match r {
            Ok(v) => {
              if v != expected[ix] && bad.len() < 5 {
                bad.push(json!({"trial": trial, "thread": t, "call_number": k, "call_index": ix, "invocable": inv, "input": ctx, "got": v, "sequential": expected[ix]}));
              }
            }
            Err(_) => {
              panics += 1;
              if bad.len() < 5 {
                bad.push(json!({"trial": trial, "thread": t, "call_number": k, "call_index": ix, "invocable": inv, "input": ctx, "got": "panic", "sequential": expected[ix]}));
              }
            }
          }
          done.fetch_add(1, Ordering::Relaxed);
        }
        let _ = tx.send((t, bad, panics));
      });
    }
    drop(tx);
    let mut finished = 0usize;
    let mut last = (done.load(Ordering::Relaxed), std::time::Instant::now());
    while finished < threads {
      match rx.recv_timeout(Duration::from_millis(500)) {
        Ok((_t, bad, p)) => {
          finished += 1;
          panics += p;
          if mismatches.len() < 8 {
            mismatches.extend(bad);
          }
          last.1 = std::time::Instant::now();
        }
        Err(mpsc::RecvTimeoutError::Timeout) => {
          let now = done.load(Ordering::Relaxed);
          if now != last.0 {
            last = (now, std::time::Instant::now());
          } else if last.1.elapsed() > Duration::from_secs(timeout_s) {
            break; // no call has completed for timeout_s seconds
          }
        }
        Err(mpsc::RecvTimeoutError::Disconnected) => break,
      }
    }
    if finished < threads {
      // report and leave: stuck threads cannot be joined
      let r = json!({"calls": done.load(Ordering::Relaxed), "mismatches": mismatches, "deadlock": true, "finished_threads": finished, "trial": trial,
                     "threads": threads, "panics": panics, "final_ok": J::Null});
      println!("{}", r);
      std::io::stdout().flush().unwrap();
      std::process::exit(0);
    }
    // every call once more, alone, on the evaluator the threads have just raced on: a poisoned lock or state left behind
    // by the concurrent phase (sticky corruption) shows here
    if final_bad.len() < 3 {
      for (ix, (inv, ctx)) in calls.iter().enumerate() {
        let a = eval_one(&me, inv, ctx);
        if a != expected[ix] {
          final_bad.push(json!({"trial": trial, "call_index": ix, "invocable": inv, "input": ctx, "got": a, "sequential": expected[ix]}));
          if final_bad.len() >= 3 {
            break;
          }
        }
      }
    }
    if !mismatches.is_empty() && !final_bad.is_empty() {
      break;
    }
  }
  let mut distinct: Vec<&String> = expected.iter().collect();
  distinct.sort();
  distinct.dedup();
  let distinct_results = distinct.len();
  json!({"calls": done.load(Ordering::Relaxed), "mismatches": mismatches, "deadlock": false, "panics": panics, "threads": threads, "trials": trials,
         "final_ok": final_bad.is_empty(), "final_mismatches": final_bad,
         "distinct_results": distinct_results,
         "null_results": expected.iter().filter(|e| e.as_str() == "null").count()})
}

pub fn main() {
  let stdin = std::io::stdin();
  for line in stdin.lock().lines() {
    let line = line.unwrap();
    if line.trim().is_empty() {
      continue;
    }
    let req: J = serde_json::from_str(&line).unwrap_or(J::Null);
    let r = one(&req);
    println!("{}", r);
    std::io::stdout().flush().unwrap();
  }
}
