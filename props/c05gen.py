"""Case generators of the C05 totality run (owner: builder-total).  Pure functions of (repo path, rng); no I/O besides reading the repo's tests."""
import glob
import os
import re

MODES = ['expr', 'unary', 'textual', 'textuals', 'boxed', 'context', 'name']

BIFS = ('abs|after|all|any|append|before|ceiling|coincides|concatenate|contains|count|date|date and time|day of week|day of year|decimal|'
        'distinct values|duration|during|ends with|even|exp|finished by|finishes|flatten|floor|get entries|get value|includes|index of|'
        'insert before|is|list contains|log|lower case|matches|max|mean|median|meets|met by|min|mode|modulo|month of year|not|number|odd|'
        'overlaps after|overlaps before|product|remove|replace|reverse|sort|split|sqrt|started by|starts|starts with|stddev|string|'
        'string length|sublist|substring|substring after|substring before|sum|time|union|upper case|week of year|years and months duration').split('|')

U64 = 2 ** 64
I64 = 2 ** 63


# ------------------------------------------------------------------ harvesting the repository's own tests
RAW = re.compile(r'r#"(.*?)"#', re.S)
PLAIN = re.compile(r'"((?:[^"\\\n]|\\.)*)"')


def unescape(s):
    try:
        return bytes(s, 'utf-8').decode('unicode_escape').encode('latin-1', 'replace').decode('utf-8', 'replace') if '\\' in s else s
    except Exception:
        return s


def harvest(repo):
    """Every string literal of */src/tests/**/*.rs, paired with the te_scope(..) literal of the same test function where there is one.
    Returns a sorted list of (ctx_text, expression_text)."""
    out = set()
    files = sorted(glob.glob(os.path.join(repo, '*', 'src', 'tests', '**', '*.rs'), recursive=True))
    for f in files:
        try:
            src = open(f, encoding='utf-8', errors='replace').read()
        except OSError:
            continue
        if '/model-evaluator/' in f or '/gendoc/' in f or '/recognizer/' in f:
            # these hold models / drawings rather than expressions: only their context literals and short strings are FEEL
            fns = [src]
            short_only = True
        else:
            fns = re.split(r'\n\s*#\[test\]', src)
            short_only = False
        for body in fns:
            ctx = ''
            m = re.search(r'te_scope\(\s*(?:r#"(.*?)"#|"((?:[^"\\\n]|\\.)*)")', body, re.S)
            if m:
                ctx = m.group(1) if m.group(1) is not None else unescape(m.group(2))
            lits = [x for x in RAW.findall(body)]
            stripped = RAW.sub(' ', body)
            lits += [unescape(x) for x in PLAIN.findall(stripped)]
            for lit in lits:
                if not lit.strip() or len(lit) > (200 if short_only else 3000):
                    continue
                if '<?xml' in lit or '<definitions' in lit:
                    continue
                out.add((ctx if lit != ctx else '', lit))
    return sorted(out)


# ------------------------------------------------------------------ token-level mutation
TOKEN = re.compile(r'''
    "(?:[^"\\]|\\.)*"            # string
  | @"(?:[^"\\]|\\.)*"
  | /\*.*?\*/ | //[^\n]*         # comments
  | \d+(?:\.\d+)?(?:[eE][+-]?\d+)? | \.\d+
  | [^\W\d]\w*                   # word
  | \.\.|\*\*|<=|>=|!=|->
  | \s+
  | .
''', re.X | re.S)

POOL = ['(', ')', '[', ']', '{', '}', ',', ':', '.', '..', '+', '-', '*', '/', '**', '=', '!=', '<', '<=', '>', '>=', '->', '?', '@', '"', "'", '\\',
        'for', 'in', 'return', 'if', 'then', 'else', 'some', 'every', 'satisfies', 'and', 'or', 'not', 'between', 'instance', 'of', 'function',
        'external', 'null', 'true', 'false', 'list', 'context', 'range', 'item', 'partial', 'date', 'time', 'duration', 'date and time',
        '0', '1', '-1', '1e9999', '0.', '.5', '18446744073709551615', 'x', 'a b', '/*', '*/', '//', '\n', '\t', ' ', '﻿', '\U0001F600', '\x00']


def tokenize(s):
    return [t for t in TOKEN.findall(s)]


def mutate(rng, s):
    toks = tokenize(s)
    if not toks:
        return rng.choice(POOL)
    k = rng.random()
    i = rng.randrange(len(toks))
    if k < 0.2:
        del toks[i]
    elif k < 0.35:
        toks.insert(i, toks[i])
    elif k < 0.5 and len(toks) > 1:
        j = rng.randrange(len(toks))
        toks[i], toks[j] = toks[j], toks[i]
    elif k < 0.62:
        toks = toks[:i]
    elif k < 0.8:
        toks[i] = rng.choice(POOL)
    elif k < 0.92:
        toks.insert(i, rng.choice(POOL))
    else:
        toks = toks[i:]
    return ''.join(toks)


# ------------------------------------------------------------------ grammar-derived expressions
NAMES = ['x', 'y', 'a', 'b', 'Full Name', 'n', 'item', 'partial', 'in', 'for', 'a+b', 'date', 'xs', 'f']
ATOMS = ['0', '1', '2', '-1', '0.5', '1.0', '10', '1e3', 'true', 'false', 'null', '"a"', '"abc"', '""', '[]', '[1,2,3]', '{}', '{a:1}', '[1..3]', '(1..3]',
         'date("2021-03-28")', 'time("10:00:00")', 'date and time("2021-03-28T02:30:00@Europe/Warsaw")', 'duration("P1D")', 'duration("P1Y")', '@"2021-01-01"',
         '?', 'x', 'y', 'xs', 'f']
BINOPS = ['+', '-', '*', '/', '**', '=', '!=', '<', '<=', '>', '>=', 'and', 'or', 'in']
GCTX = '{x: 1, y: 2, xs: [1,2,3], f: function(a) a + 1, a: {b: {c: 1}}, n: null, Full Name: "John", b: "text"}'


def gen_expr(rng, d):
    if d <= 0 or rng.random() < 0.15:
        return rng.choice(ATOMS)
    k = rng.randrange(22)
    e = lambda: gen_expr(rng, d - 1)
    if k < 5:
        return '%s %s %s' % (e(), rng.choice(BINOPS), e())
    if k == 5:
        return '-%s' % e()
    if k == 6:
        return '(%s)' % e()
    if k == 7:
        return '[%s]' % ', '.join(e() for _ in range(rng.randrange(4)))
    if k == 8:
        return '{%s}' % ', '.join('%s: %s' % (rng.choice(NAMES[:6]), e()) for _ in range(rng.randrange(3)))
    if k == 9:
        return 'if %s then %s else %s' % (e(), e(), e())
    if k == 10:
        return 'for %s in %s return %s' % (rng.choice(NAMES[:4]), e() if rng.random() < 0.6 else '%s..%s' % (rng.choice(['1', '0', '-2', 'x']), rng.choice(['3', '0', 'y'])), e())
    if k == 11:
        return '%s %s in %s satisfies %s' % (rng.choice(['some', 'every']), rng.choice(NAMES[:4]), e(), e())
    if k == 12:
        return '%s[%s]' % (e(), e())
    if k == 13:
        return '%s.%s' % (e(), rng.choice(['a', 'b', 'year', 'month', 'start', 'end', 'days', 'time offset', 'timezone']))
    if k == 14:
        return '%s between %s and %s' % (e(), e(), e())
    if k == 15:
        return '%s instance of %s' % (e(), rng.choice(['number', 'string', 'list<number>', 'context<a: number>', 'function<number>->number', 'range<number>', 'Any', 'Null']))
    if k == 16:
        return 'function(%s) %s' % (', '.join(rng.sample(['a', 'b', 'c'], rng.randrange(3))), e())
    if k == 17:
        return '(%s)(%s)' % (e(), ', '.join(e() for _ in range(rng.randrange(3))))
    if k == 18:
        return '%s in (%s)' % (e(), ', '.join(rng.choice(['<', '<=', '>', '>=', '', 'not']) + ' ' + e() for _ in range(1 + rng.randrange(2))))
    if k == 19:
        return '%s(%s)' % (rng.choice(BIFS), ', '.join(e() for _ in range(rng.randrange(4))))
    if k == 20:
        return '/* c */ %s // d\n' % e()
    return '%s(%s: %s)' % (rng.choice(BIFS), rng.choice(['list', 'position', 'n', 'string', 'from', 'length', 'start position', 'match']), e())


def gen_unary(rng):
    t = lambda: rng.choice(['1', '"a"', 'x', 'date("2021-01-01")', '[1..5]', '(1..5)', '< 5', '>= x', '> "a"', 'null', '-', 'not(1,2)', '? > 2', 'true', '[1,2]'])
    return ', '.join(t() for _ in range(1 + rng.randrange(3)))


def gen_unicode(rng):
    n = rng.choice([1, 2, 3, 8, 30])
    chars = []
    for _ in range(n):
        r = rng.random()
        if r < 0.3:
            chars.append(chr(rng.randrange(0x20, 0x7f)))
        elif r < 0.4:
            chars.append(chr(rng.randrange(0, 0x20)))
        elif r < 0.6:
            chars.append(chr(rng.randrange(0x80, 0x800)))
        elif r < 0.8:
            c = rng.randrange(0x800, 0x10000)
            chars.append(chr(c) if not 0xD800 <= c < 0xE000 else '�')
        elif r < 0.9:
            chars.append(chr(rng.randrange(0x10000, 0x110000)))
        else:
            chars.append(rng.choice(POOL))
    return ''.join(chars)


def gen_escapes(rng):
    """string literals with every escape form the lexer decodes"""
    parts = []
    for _ in range(1 + rng.randrange(4)):
        parts.append(rng.choice(['\\n', '\\t', '\\"', '\\\\', '\\u0041', '\\uD83D\\uDE00', '\\uD83D', '\\uDE00', '\\U01F600', '\\U110000', '\\UFFFFFF', '\\u12', '\\U1', '\\x', '\\', 'a', '\U0001F600',
                                 '\\uDBFF\\uDFFF', '\\uD800\\u0041', '\\u0000']))
    return '"%s"' % ''.join(parts)


# ------------------------------------------------------------------ built-in argument sweeps
def positions(n):
    """positions/lengths around a list or string of n elements, plus the machine-integer boundaries"""
    s = set(range(-(n + 2), n + 3))
    s |= {U64 - 1, U64 - 2, U64, I64 - 1, I64, I64 + 1, -(I64 - 1), -I64, -(I64 + 1), -(U64 - 1), -U64, 10 ** 20, 10 ** 40, -10 ** 20, 2 ** 32, 2 ** 32 - 1, -(2 ** 32), 2 ** 31, 2 ** 31 - 1, -(2 ** 31) - 1}
    return sorted(s)


FRACS = ['0.5', '1.0', '1.5', '-0.5', '-1.0', '2.5', '0.0', '-0', '1e-10', '0.99999999999999999999999999999999']

EXTREME_NUMS = ['0', '-0', '1', '-1', '2', '0.5', '1.0', '-1.5', '1e20', '1e40', '-1e40', '18446744073709551615', '18446744073709551616', '9223372036854775807', '9223372036854775808',
                '-9223372036854775808', '-9223372036854775809', '4294967295', '4294967296', '2147483647', '2147483648', '-2147483648', '-2147483649', '255', '256', '65535', '65536',
                '1e-6143', '9.999999999999999999999999999999999e6144', '1e-6176', '-9.999999999999999999999999999999999e6144', '0.1e-6175', '999999999', '1000000000', '-999999999', '262143', '262144', '-262144', '-262145',
                '1e6145', '1/0', '0.000000001', '6144', '-6143', '366', '59.999999999', '60', '24', '23', '12', '13', '31', '32']
EXTREME_STRS = ['""', '"a"', '"abc"', '"\\u00e9\\u0301"', '"\\uD83D\\uDE00x"', '"("', '"["', '"\\\\"', '"*"', '"a{1000000}"', '"(a*)*b"', '"."', '"^$"', '"x"', '"P1D"', '"PT0S"', '"2021-03-28"',
                '"2021-03-28T02:30:00@Europe/Warsaw"', '"02:30:00@Europe/Warsaw"', '"24:00:00"', '"23:59:60"', '"1"', '"1e9999"', '"-"', '" "', '"NaN"', '"Infinity"', '"+1"', '"1,000.5"', '","', '"g"', '"i"', '"q"',
                '"$1"', '"$0"', '"\\\\1"', '"P999999999999999999999D"', '"-P18446744073709551615Y"', '"999999999-12-31"', '"-999999999-01-01"', '"262143-12-31"', '"-262144-01-01"', '"262144-01-01"',
                '"10:00:00+14:00"', '"10:00:00-18:00"', '"10:00:00+99:99"', '"10:00:00@Etc/UTC"', '"10:00:00@Nowhere/None"', '"2021-02-30"', '"0000-01-01"', '"99999-01-01T00:00:00Z"']
EXTREME_OTHERS = ['null', 'true', 'false', '[]', '[1]', '[1,2,3]', '[[1,[2]],[[]]]', '[null]', '["a","b"]', '[1,"a",true,null]', '[1..3]', '(1..3)', '[3..1]', '["a".."z"]', '{}', '{a:1}', '{a:{a:{a:1}}}',
                  'function(a) a', 'function() 1', 'abs', 'big', 'bigs', 'deep',
                  'date("2021-03-28")', 'date("999999999-12-31")', 'date("-999999999-01-01")', 'date("262143-12-31")', 'date("-262144-01-01")', 'date("2020-02-29")',
                  'time("02:30:00@Europe/Warsaw")', 'time("23:59:59.999999999")', 'time("00:00:00-14:00")', 'time("12:00:00Z")',
                  'date and time("2021-03-28T02:30:00@Europe/Warsaw")', 'date and time("2021-10-31T02:30:00@Europe/Warsaw")', 'date and time("2021-03-14T02:30:00@America/New_York")',
                  'date and time("2011-12-30T12:00:00@Pacific/Apia")', 'date and time("999999999-12-31T23:59:59.999999999Z")', 'date and time("-999999999-01-01T00:00:00+14:00")',
                  'date and time("262143-12-31T23:59:59")', 'date and time("2021-04-02T01:30:00@Australia/Lord_Howe")', 'date and time("1970-01-01T00:00:00Z")',
                  'duration("P1D")', 'duration("-PT0.000000001S")', 'duration("P18446744073709551615DT18446744073709551615H18446744073709551615M18446744073709551615S")',
                  'duration("-P18446744073709551615D")', 'duration("P1Y")', 'duration("P768614336404564650Y7M")', 'duration("-P768614336404564650Y7M")', 'duration("P9223372036854775807M")',
                  'duration("P106751991167D")', 'duration("P106751991168D")', 'duration("P99999999999999D")']
BIGCTX = '{big: [%s], bigs: [%s], deep: [[[[[[[[[[[[[[[[[[[[1]]]]]]]]]]]]]]]]]]]]}' % (','.join(str(i % 100) for i in range(10000)), ','.join('"s"' for i in range(10000)))


def ctx_for(e):
    """the 10^4-element lists are bound only where the expression names them (the context text is 80 kB)"""
    return BIGCTX if re.search(r'\b(big|bigs|deep)\b', e) else ''

DST_ZONES = [('Europe/Warsaw', '2021-03-28', '02:30:00'), ('America/New_York', '2021-03-14', '02:30:00'), ('Australia/Lord_Howe', '2021-10-03', '02:15:00'),
             ('Pacific/Apia', '2011-12-30', '12:00:00'), ('America/Sao_Paulo', '2018-11-04', '00:30:00'), ('Asia/Tehran', '2021-03-22', '00:30:00'),
             ('Europe/London', '2021-03-28', '01:30:00'), ('Africa/Cairo', '2014-05-16', '00:30:00'), ('Europe/Warsaw', '2021-10-31', '02:30:00'),
             ('America/St_Johns', '2021-03-14', '02:30:00'), ('Antarctica/Troll', '2021-03-28', '01:30:00'), ('Pacific/Kiritimati', '1994-12-31', '12:00:00'),
             ('America/Caracas', '2007-12-09', '02:45:00'), ('Europe/Lisbon', '1992-09-27', '01:30:00')]


def dst_cases():
    out = []
    for zone, d, t in DST_ZONES:
        y, mo, da = d.split('-')
        h, mi, s = t.split(':')
        dt = '%sT%s@%s' % (d, t, zone)
        out += [
            'date and time("%s")' % dt, 'string(date and time("%s"))' % dt, 'time("%s@%s")' % (t, zone), 'string(time("%s@%s"))' % (t, zone),
            'date and time(date("%s"), time("%s@%s"))' % (d, t, zone), '@"%s"' % dt, '@"%s@%s"' % (t, zone),
            'date and time("%s") + duration("PT1H")' % dt, 'date and time("%s") - duration("PT1H")' % dt, 'date and time("%s") - date and time("2021-01-01T00:00:00Z")' % dt,
            'date and time("%s").time offset' % dt, 'date and time("%s").timezone' % dt, 'time("%s@%s").time offset' % (t, zone),
            'date and time("%s") = date and time("%s")' % (dt, dt), 'date and time("%s") < date and time("2021-06-01T00:00:00Z")' % dt,
            'date and time("%sT01:30:00@%s") + duration("PT1H")' % (d, zone), 'date and time("%sT00:00:00@%s") + duration("PT2H30M")' % (d, zone),
            'date("%s") + duration("P1D")' % d, 'time("%s@%s") + duration("PT1H")' % (t, zone), 'time("%s@%s") - time("00:00:00Z")' % (t, zone),
            'date and time("%s") in [date and time("%sT00:00:00@%s")..date and time("%sT23:00:00@%s")]' % (dt, d, zone, d, zone),
            'day of week(date and time("%s"))' % dt, 'week of year(date and time("%s"))' % dt, 'time(%d, %d, %d, duration("PT1H"))' % (int(h), int(mi), int(s)),
            'date and time(date and time("%s"), time("%s"))' % (dt, t), 'time(date and time("%s"))' % dt, 'date(date and time("%s"))' % dt,
            'years and months duration(date and time("%s"), date("2022-01-01"))' % dt, 'string(date and time("%s") + duration("P1M"))' % dt,
        ]
    return out


DUR_TEXTS = ['P%dY' % n for n in [0, 1, 768614336404564650, 768614336404564651, I64 - 1, I64, U64 - 1, U64, 9999999999999999999, 10 ** 30]] + \
            ['P%dM' % n for n in [0, 1, I64 - 1, I64, I64 + 1, U64 - 1, U64, 10 ** 30]] + \
            ['P768614336404564650Y%dM' % n for n in [7, 8, 11, 12, I64 - 1]] + ['-P%dM' % n for n in [I64 - 1, I64, U64 - 1]] + ['-P%dY' % n for n in [768614336404564650, 768614336404564651, I64, U64 - 1]] + \
            ['P%dD' % n for n in [0, 1, 106751991167, 106751991168, U64 - 1, U64, 10 ** 30]] + ['PT%dH' % n for n in [U64 - 1, U64]] + ['PT%dM' % n for n in [U64 - 1, U64]] + \
            ['PT%dS' % n for n in [U64 - 1, U64]] + ['PT0.%sS' % ('9' * k) for k in [1, 9, 10, 20, 400]] + ['PT%d.5S' % (U64 - 1), '-P%dDT%dH%dM%d.999999999S' % ((U64 - 1,) * 4), 'PT.5S', 'PT1.S', 'P', 'PT', '-P', 'P1Y1D', 'P1DT', 'PT1H1H']


def duration_cases():
    out = []
    for t in DUR_TEXTS:
        d = 'duration("%s")' % t
        out += [d, 'string(%s)' % d, '%s + %s' % (d, d), '%s - duration("-%s")' % (d, t.lstrip('-')), '%s * 2' % d, '%s * 1e30' % d, '%s / 1e-30' % d, '%s / %s' % (d, d), '-%s' % d, '%s * -1' % d,
                '%s.years' % d, '%s.months' % d, '%s.days' % d, '%s.hours' % d, '%s.minutes' % d, '%s.seconds' % d, 'abs(%s)' % d, '%s = %s' % (d, d), '%s < duration("P1D")' % d,
                'date("2021-01-31") + %s' % d, 'date("2021-01-31") - %s' % d, 'date and time("2021-01-31T10:00:00") + %s' % d, 'date and time("2021-01-31T10:00:00Z") - %s' % d,
                'time("10:00:00") + %s' % d, 'time("10:00:00Z") - %s' % d, 'date("999999999-12-31") + %s' % d, 'date("-999999999-01-01") - %s' % d, '%s / 0' % d, '%s * 0.5' % d, '2 * %s' % d,
                'years and months duration(date("2021-01-01") + %s, date("2021-01-01"))' % d, '@"%s"' % t, 'sum([%s, %s])' % (d, d), 'mean([%s, %s])' % (d, d), 'max([%s, %s])' % (d, d)]
    return out


def nesting_cases(depth):
    """expressions nested `depth` levels, one per recursive construct of parser / builder / evaluator"""
    d = depth
    out = [
        '(' * d + '1' + ')' * d, '[' * d + '1' + ']' * d, '-' * d + '1', '- ' * d + '1', '{a:' * d + '1' + '}' * d, 'not(' * d + 'true' + ')' * d, 'abs(' * d + '1' + ')' * d,
        'if true then ' * d + '1' + ' else 0' * d, '1' + '+(1' * d + ')' * d, '1' + ' + 1' * d, '1' + ' ** 1' * d, 'true' + ' and true' * d, '2' + ' * (3 -' * d + ' 1' + ')' * d,
        'for x in [1] return ' * d + 'x', 'some x in [1] satisfies ' * d + 'true', 'function() ' * d + '1', '(' + 'function(a) ' * d + 'a' + ')' + '(1)' * d,
        '[1,2,3]' + '[item > 0]' * d, 'a' + '.a' * d, '1 in (' * d + '1' + ')' * d, '"a"' + ' + "a"' * d, '1 between 0 and ' * d + '2', '1' + ' instance of number' * 1, 'list<' * d + 'number' + '>' * d,
        '1 instance of ' + 'list<' * d + 'number' + '>' * d, '1 instance of ' + 'function<' * d + 'number' + '>->number' * d, '1 instance of ' + 'context<a: ' * d + 'number' + '>' * d,
        '1 instance of ' + 'range<' * d + 'number' + '>' * d, 'flatten(' + '[' * d + '1' + ']' * d + ')', 'string(' + '[' * d + '1' + ']' * d + ')', '[' * d + '1' + ']' * d + ' = ' + '[' * d + '1' + ']' * d,
        'string(' + '{a:' * d + '1' + '}' * d + ')', '{a:' * d + '1' + '}' * d + ' = ' + '{a:' * d + '1' + '}' * d, '{a:' * d + '1' + '}' * d + '.a' * d, 'sort(' + '[' * d + '1' + ']' * d + ', function(x,y) x < y)',
        'distinct values(' + '[' * d + '1' + ']' * d + ')', '[' * d + '1' + ']' * d + '[1]' * d, '/*' * d + '*/' * d + '1', '(' * d, ')' * d, '[' * d, '{' * d, '{a:' * d, 'if ' * d, 'for x in ' * d, '"' * d, '1' + ',1' * d,
        '< ' * d + '1', 'not(' * d + '1' + ')' * d, '[1..' * d + '2' + ']' * d, '(' * d + '1..2' + ')' * d, 'x' + ' y' * d, 'a' + '+b' * d, 'a' + ' . b' * d, '?' + '.a' * d, '@' * d + '"P1D"',
        'every x in ' + '[' * d + 'true' + ']' * d + ' satisfies x', '{' + ', '.join('k%d: %s' % (i, 'k%d + 1' % (i - 1) if i else '1') for i in range(d)) + '}',
        'f(' * d + '1' + ')' * d, 'get value(' * d + '{a:1}' + ', "a")' * d, 'append(' * d + '[]' + ', 1)' * d, 'concatenate(' * d + '[1]' + ', [2])' * d,
    ]
    return out


NAMED = {
    'sublist': ['list', 'start position', 'length'], 'substring': ['string', 'start position', 'length'], 'insert before': ['list', 'position', 'newItem'],
    'remove': ['list', 'position'], 'decimal': ['n', 'scale'], 'date': ['year', 'month', 'day'], 'time': ['hour', 'minute', 'second', 'offset'],
    'date and time': ['date', 'time'], 'duration': ['from'], 'years and months duration': ['from', 'to'], 'number': ['from', 'grouping separator', 'decimal separator'],
    'replace': ['input', 'pattern', 'replacement', 'flags'], 'matches': ['input', 'pattern', 'flags'], 'split': ['string', 'delimiter'], 'modulo': ['dividend', 'divisor'],
    'string length': ['string'], 'floor': ['n'], 'ceiling': ['n'], 'abs': ['n'], 'sqrt': ['number'], 'log': ['number'], 'exp': ['number'], 'odd': ['number'], 'even': ['number'],
    'index of': ['list', 'match'], 'list contains': ['list', 'element'], 'get value': ['m', 'key'], 'get entries': ['m'], 'sort': ['list', 'precedes'], 'string': ['from'],
    'substring before': ['string', 'match'], 'substring after': ['string', 'match'], 'contains': ['string', 'match'], 'starts with': ['string', 'match'], 'ends with': ['string', 'match'],
    'upper case': ['string'], 'lower case': ['string'], 'count': ['list'], 'min': ['list'], 'max': ['list'], 'sum': ['list'], 'mean': ['list'], 'all': ['list'], 'any': ['list'],
    'append': ['list', 'item'], 'concatenate': ['list'], 'union': ['list'], 'distinct values': ['list'], 'flatten': ['list'], 'product': ['list'], 'median': ['list'], 'stddev': ['list'],
    'mode': ['list'], 'reverse': ['list'], 'not': ['negand'], 'day of week': ['date'], 'day of year': ['date'], 'week of year': ['date'], 'month of year': ['date'],
    'before': ['point1', 'point2'], 'after': ['point1', 'point2'], 'meets': ['range1', 'range2'], 'met by': ['range1', 'range2'], 'overlaps before': ['range1', 'range2'], 'overlaps after': ['range1', 'range2'],
    'finishes': ['point', 'range'], 'finished by': ['range', 'point'], 'includes': ['range', 'point'], 'during': ['point', 'range'], 'starts': ['point', 'range'], 'started by': ['range', 'point'],
    'coincides': ['point1', 'point2'], 'is': ['value1', 'value2'],
}


# ------------------------------------------------------------------ comments with adversarial bodies (seed C05_b was missed without them)
def comment_cases():
    """block and line comments whose bodies hold runs of `*` and `/` of every length 0..6 at the start, in the middle and right before the
    terminator; unterminated and nested-looking comments; before / between / after tokens and as the whole input"""
    runs = ['*' * k for k in range(7)] + ['/' * k for k in range(1, 7)] + ['*/' * 2, '/*' * 2, '*/*', '/*/', '**/', '/**', '* /', '*\n*', ' * ', '2 * 3', ' doc ', '\n', '\t*\t', '\u00e9*\U0001F600*']
    bodies = set()
    for r in runs:
        bodies |= {r, r + 'a', 'a' + r, 'a' + r + 'b', ' ' + r + ' ', r + ' ' + r}
    out = []
    for b in sorted(bodies):
        block = '/*' + b + '*/'
        out += [block, block + ' 1', '1 ' + block, '1 ' + block + ' + 2', '1 +' + block + '2', block + block + ' 1', '[1,' + block + ' 2]', '{a:' + block + ' 1}', 'f(' + block + ')',
                '/*' + b, '1 + /*' + b, '/*' + b + '*', '/*' + b + '* /', '//' + b, '//' + b + '\n1', '1 //' + b, '1 //' + b + '\n+ 2', '"' + block + '"', block + '"s"' + block]
    return sorted(set(out))


def in_name_cases():
    """iteration / quantifier variables whose first name part is the keyword `in` (lexer till_in branch), with every name symbol"""
    out = []
    for sym in ['+', '-', '*', '/', '.', "'", ' ', '  ', '_', '1', ' in', ' in ', '+in', '.in', ' x', '+x', '-x in']:
        for kw, tail in (('for', 'return 1'), ('some', 'satisfies true'), ('every', 'satisfies true')):
            out += ['%s in%s in [1] %s' % (kw, sym, tail), '%s in%sx in [1] %s' % (kw, sym, tail), '%s x%sin in [1] %s' % (kw, sym, tail), '%s in%s' % (kw, sym), '%s x in [1], in%sy in [2] %s' % (kw, sym, tail)]
    return sorted(set(out))
