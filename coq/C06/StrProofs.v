(* C06 — string literals: unescape (escape s) = s for all strings of Unicode scalar values, in every spelling.  Owner: builder-parse. *)
From Coq Require Import List NArith ZArith Bool Arith Lia.
From DV Require Import C06.Model.
Import ListNotations.
Local Open Scope N_scope.

Ltac Zify.zify_post_hook ::= Z.to_euclidean_division_equations.

Lemma land_mod : forall x k, N.land x (N.ones k) = x mod 2 ^ k.
Proof. intros. apply N.land_ones. Qed.

Lemma land15 x : N.land x 15 = x mod 16.   Proof. exact (land_mod x 4). Qed.
Lemma land63 x : N.land x 63 = x mod 64.   Proof. exact (land_mod x 6). Qed.
Lemma land31 x : N.land x 31 = x mod 32.   Proof. exact (land_mod x 5). Qed.
Lemma land7 x : N.land x 7 = x mod 8.      Proof. exact (land_mod x 3). Qed.
Lemma land127 x : N.land x 127 = x mod 128. Proof. exact (land_mod x 7). Qed.
Lemma land255 x : N.land x 255 = x mod 256. Proof. exact (land_mod x 8). Qed.
Lemma land1023 x : N.land x 1023 = x mod 1024. Proof. exact (land_mod x 10). Qed.
Lemma shr x k : N.shiftr x k = x / 2 ^ k.  Proof. apply N.shiftr_div_pow2. Qed.

(* a | marker = a + marker when the marker's bits are above a *)
Definition lor_table : bool :=
  forallb (fun a => (N.lor a 128 =? a + 128) && implb (a <? 32) (N.lor a 192 =? a + 192)
                    && implb (a <? 16) (N.lor a 224 =? a + 224) && implb (a <? 8) (N.lor a 240 =? a + 240))
          (map N.of_nat (seq 0 64)).

Lemma lor_table_true : lor_table = true.
Proof. vm_compute. reflexivity. Qed.

Lemma lor_facts : forall a, a < 64 ->
  N.lor a 128 = a + 128 /\ (a < 32 -> N.lor a 192 = a + 192) /\ (a < 16 -> N.lor a 224 = a + 224) /\ (a < 8 -> N.lor a 240 = a + 240).
Proof.
  intros a Ha. pose proof lor_table_true as H. unfold lor_table in H. rewrite forallb_forall in H.
  assert (Hin : List.In a (map N.of_nat (seq 0 64))).
  { replace a with (N.of_nat (N.to_nat a)) by apply N2Nat.id. apply in_map. apply in_seq. lia. }
  specialize (H a Hin). repeat (apply andb_true_iff in H; destruct H as [H ?]).
  apply N.eqb_eq in H. split; [exact H|]. repeat split; intro Hl.
  - apply N.ltb_lt in Hl. rewrite Hl in *. cbn in *. apply N.eqb_eq. assumption.
  - apply N.ltb_lt in Hl. rewrite Hl in *. cbn in *. apply N.eqb_eq. assumption.
  - apply N.ltb_lt in Hl. rewrite Hl in *. cbn in *. apply N.eqb_eq. assumption.
Qed.

Lemma low6_eq : forall v, low6 v = v mod 64 + 128.
Proof. intro v. unfold low6. rewrite land63. apply lor_facts. apply N.mod_lt. discriminate. Qed.

Ltac btrue := repeat (rewrite andb_true_iff || rewrite orb_true_iff); rewrite ?N.leb_le, ?N.ltb_lt; lia.

Lemma unicode_char_scalar : forall c rest, scalar c = true -> unicode_char 63 c rest = Some (c, rest).
Proof.
  intros c rest Hs. unfold scalar in Hs. apply orb_true_iff in Hs. rewrite andb_true_iff, N.ltb_lt, !N.leb_le in Hs.
  unfold unicode_char.
  destruct (N.leb_spec c 127) as [H1|H1].
  { rewrite land127. rewrite N.mod_small by lia. unfold utf8_decode.
    replace (c <? 128) with true by (symmetry; apply N.ltb_lt; lia). reflexivity. }
  destruct (N.leb_spec c 2047) as [H2|H2].
  { rewrite low6_eq, shr, land31. change (2 ^ 6) with 64.
    destruct (lor_facts (c / 64 mod 32)) as [_ [L _]]; [pose proof (N.mod_lt (c / 64) 32); lia|].
    rewrite L by (apply N.mod_lt; discriminate). unfold utf8_decode, cont.
    replace ((194 <=? c / 64 mod 32 + 192) && (c / 64 mod 32 + 192 <=? 223) && ((128 <=? c mod 64 + 128) && (c mod 64 + 128 <=? 191))) with true
      by (symmetry; btrue).
    f_equal. f_equal. lia. }
  replace ((c <=? 55295) || (57344 <=? c) && (c <=? 65535)) with (c <=? 65535).
  2:{ destruct (N.leb_spec c 65535); destruct (N.leb_spec c 55295); destruct (N.leb_spec 57344 c); cbn; try reflexivity; lia. }
  destruct (N.leb_spec c 65535) as [H3|H3].
  { rewrite !low6_eq, !shr, land15. change (2 ^ 12) with 4096. change (2 ^ 6) with 64.
    destruct (lor_facts (c / 4096 mod 16)) as [_ [_ [L _]]]; [pose proof (N.mod_lt (c / 4096) 16); lia|].
    rewrite L by (apply N.mod_lt; discriminate). unfold utf8_decode, cont, scalar.
    replace ((224 <=? c / 4096 mod 16 + 224) && (c / 4096 mod 16 + 224 <=? 239) && ((128 <=? c / 64 mod 64 + 128) && (c / 64 mod 64 + 128 <=? 191)) &&
             ((128 <=? c mod 64 + 128) && (c mod 64 + 128 <=? 191))) with true by (symmetry; btrue).
    assert (E : (c / 4096 mod 16 + 224 - 224) * 4096 + (c / 64 mod 64 + 128 - 128) * 64 + (c mod 64 + 128 - 128) = c) by lia.
    rewrite E.
    replace ((2048 <=? c) && ((c <? 55296) || (57344 <=? c) && (c <=? 1114111))) with true by (symmetry; btrue).
    reflexivity. }
  replace ((65536 <=? c) && (c <=? 1114111)) with true by (symmetry; btrue).
  rewrite !low6_eq, !shr, land7. change (2 ^ 18) with 262144. change (2 ^ 12) with 4096. change (2 ^ 6) with 64.
  destruct (lor_facts (c / 262144 mod 8)) as [_ [_ [_ L]]]; [pose proof (N.mod_lt (c / 262144) 8); lia|].
  rewrite L by (apply N.mod_lt; discriminate). unfold utf8_decode, cont.
  replace ((240 <=? c / 262144 mod 8 + 240) && (c / 262144 mod 8 + 240 <=? 244) && ((128 <=? c / 4096 mod 64 + 128) && (c / 4096 mod 64 + 128 <=? 191)) &&
           ((128 <=? c / 64 mod 64 + 128) && (c / 64 mod 64 + 128 <=? 191)) && ((128 <=? c mod 64 + 128) && (c mod 64 + 128 <=? 191))) with true
    by (symmetry; btrue).
  assert (E : (c / 262144 mod 8 + 240 - 240) * 262144 + (c / 4096 mod 64 + 128 - 128) * 4096 + (c / 64 mod 64 + 128 - 128) * 64 + (c mod 64 + 128 - 128) = c) by lia.
  rewrite E. replace ((65536 <=? c) && (c <=? 1114111)) with true by (symmetry; btrue). reflexivity.
Qed.

Lemma utf8_4 : forall c, 65536 <= c -> c <= 1114111 ->
  utf8_decode [N.lor (N.land (N.shiftr c 18) 7) 240; low6 (N.shiftr c 12); low6 (N.shiftr c 6); low6 c] = Some c.
Proof.
  intros c Hlo Hhi.
  rewrite !low6_eq, !shr, land7. change (2 ^ 18) with 262144. change (2 ^ 12) with 4096. change (2 ^ 6) with 64.
  destruct (lor_facts (c / 262144 mod 8)) as [_ [_ [_ L]]]; [pose proof (N.mod_lt (c / 262144) 8); lia|].
  rewrite L by (apply N.mod_lt; discriminate). unfold utf8_decode, cont.
  replace ((240 <=? c / 262144 mod 8 + 240) && (c / 262144 mod 8 + 240 <=? 244) && ((128 <=? c / 4096 mod 64 + 128) && (c / 4096 mod 64 + 128 <=? 191)) &&
           ((128 <=? c / 64 mod 64 + 128) && (c / 64 mod 64 + 128 <=? 191)) && ((128 <=? c mod 64 + 128) && (c mod 64 + 128 <=? 191))) with true
    by (symmetry; btrue).
  assert (E : (c / 262144 mod 8 + 240 - 240) * 262144 + (c / 4096 mod 64 + 128 - 128) * 4096 + (c / 64 mod 64 + 128 - 128) * 64 + (c mod 64 + 128 - 128) = c) by lia.
  rewrite E. replace ((65536 <=? c) && (c <=? 1114111)) with true by (symmetry; btrue). reflexivity.
Qed.

(* ------------------------------------------------------------------ hexadecimal digits *)

Lemma hexval_hexchar : forall u d, d < 16 -> hexval (hexchar u d) = Some d.
Proof.
  intros u d Hd.
  assert (H : forallb (fun d => match hexval (hexchar true d), hexval (hexchar false d) with
                                | Some a, Some b => (a =? d) && (b =? d) | _, _ => false end) (map N.of_nat (seq 0 16)) = true)
    by (vm_compute; reflexivity).
  rewrite forallb_forall in H.
  assert (Hin : List.In d (map N.of_nat (seq 0 16))).
  { replace d with (N.of_nat (N.to_nat d)) by apply N2Nat.id. apply in_map. apply in_seq. lia. }
  specialize (H d Hin).
  destruct (hexval (hexchar true d)) as [a|] eqn:Ea; [|discriminate H].
  destruct (hexval (hexchar false d)) as [b|] eqn:Eb; [|discriminate H].
  apply andb_true_iff in H. destruct H as [Ha Hb]. apply N.eqb_eq in Ha, Hb. subst.
  destruct u; assumption.
Qed.

Lemma hexdigits_step : forall n u d cs acc, d < 16 -> hexdigits (S n) (hexchar u d :: cs) acc = hexdigits n cs (acc * 16 + d).
Proof. intros. cbn [hexdigits]. rewrite hexval_hexchar by assumption. reflexivity. Qed.

Lemma nib : forall x, N.land x 15 < 16.
Proof. intro x. rewrite land15. apply N.mod_lt. discriminate. Qed.

Lemma hexdigits_hex4 : forall u v rest acc, v < 65536 -> hexdigits 4 (hex4 u v ++ rest) acc = Some (acc * 65536 + v, rest).
Proof.
  intros u v rest acc Hv. unfold hex4. cbn [app].
  rewrite !hexdigits_step by apply nib. cbn [hexdigits].
  rewrite !land15, !shr. change (2 ^ 12) with 4096. change (2 ^ 8) with 256. change (2 ^ 4) with 16.
  f_equal. f_equal. lia.
Qed.

Lemma hexdigits_hex6 : forall u v rest, v < 16777216 -> hexdigits 6 (hex6 u v ++ rest) 0 = Some (v, rest).
Proof.
  intros u v rest Hv. unfold hex6, hex4. cbn [app].
  rewrite !hexdigits_step by apply nib. cbn [hexdigits].
  rewrite !land15, !shr. change (2 ^ 20) with 1048576. change (2 ^ 16) with 65536.
  change (2 ^ 12) with 4096. change (2 ^ 8) with 256. change (2 ^ 4) with 16.
  f_equal. f_equal. lia.
Qed.

(* ------------------------------------------------------------------ one spelled character = one turn of the loop *)

Lemma go_raw : forall c rest acc f, raw_ok c = true -> unescape_go 63 (S f) (c :: rest) acc = unescape_go 63 f rest (c :: acc).
Proof.
  intros c rest acc f H. unfold raw_ok in H. apply negb_true_iff in H.
  apply orb_false_iff in H. destruct H as [H Hv]. apply orb_false_iff in H. destruct H as [H34 H92].
  cbn [unescape_go]. rewrite H92, H34, Hv. reflexivity.
Qed.

Lemma go_u4 : forall u c rest acc f, c < 65536 -> scalar c = true ->
  unescape_go 63 (S f) (92 :: 117 :: hex4 u c ++ rest) acc = unescape_go 63 f rest (c :: acc).
Proof.
  intros u c rest acc f Hc Hs. cbn -[hexdigits unicode_char hex4].
  rewrite hexdigits_hex4 by assumption. cbn [N.mul N.add]. rewrite unicode_char_scalar by assumption. reflexivity.
Qed.

Lemma go_u6 : forall u c rest acc f, scalar c = true ->
  unescape_go 63 (S f) (92 :: 85 :: hex6 u c ++ rest) acc = unescape_go 63 f rest (c :: acc).
Proof.
  intros u c rest acc f Hs. cbn -[hexdigits unicode_char hex6].
  assert (c < 16777216).
  { unfold scalar in Hs. apply orb_true_iff in Hs. rewrite andb_true_iff, N.ltb_lt, !N.leb_le in Hs. lia. }
  rewrite hexdigits_hex6 by assumption. rewrite unicode_char_scalar by assumption. reflexivity.
Qed.

Lemma unicode_literal_u4 : forall u v rest, v < 65536 -> unicode_literal (92 :: 117 :: hex4 u v ++ rest) = Some (v, rest).
Proof.
  intros u v rest Hv. unfold unicode_literal. change (92 =? 92) with true. change (117 =? 117) with true. cbv iota.
  rewrite hexdigits_hex4 by assumption. reflexivity.
Qed.

Lemma go_surr : forall u c rest acc f, 65536 <= c -> c <= 1114111 ->
  unescape_go 63 (S f) ((92 :: 117 :: hex4 u (55296 + N.shiftr (c - 65536) 10)) ++ (92 :: 117 :: hex4 u (56320 + N.land (c - 65536) 1023)) ++ rest) acc
  = unescape_go 63 f rest (c :: acc).
Proof.
  intros u c rest acc f Hlo Hhi.
  rewrite shr, land1023. change (2 ^ 10) with 1024.
  set (hi := 55296 + (c - 65536) / 1024). set (lo := 56320 + (c - 65536) mod 1024).
  assert (Hhi1 : 55296 <= hi) by (unfold hi; lia). assert (Hhi2 : hi <= 56319) by (unfold hi; lia).
  assert (Hlo1 : 56320 <= lo) by (unfold lo; lia). assert (Hlo2 : lo <= 57343) by (unfold lo; lia).
  assert (E : 65536 + (hi - 55296) * 1024 + (lo - 56320) = c) by (unfold hi, lo; lia).
  clearbody hi lo.
  cbn [app]. cbn -[hexdigits unicode_char hex4].
  rewrite hexdigits_hex4 by lia. cbn [N.mul N.add].
  unfold unicode_char.
  replace (hi <=? 127) with false by (symmetry; apply N.leb_gt; lia).
  replace (hi <=? 2047) with false by (symmetry; apply N.leb_gt; lia).
  replace ((hi <=? 55295) || (57344 <=? hi) && (hi <=? 65535)) with false.
  2:{ symmetry. apply orb_false_iff. split; [apply N.leb_gt; lia|]. apply andb_false_iff. left. apply N.leb_gt. lia. }
  replace ((65536 <=? hi) && (hi <=? 1114111)) with false by (symmetry; apply andb_false_iff; left; apply N.leb_gt; lia).
  replace ((55296 <=? hi) && (hi <=? 56319)) with true by (symmetry; btrue).
  rewrite unicode_literal_u4 by lia. cbv zeta.
  replace ((56320 <=? lo) && (lo <=? 57343)) with true by (symmetry; btrue).
  rewrite E.
  replace (N.lor (N.land (N.land c 63) 255) 128) with (low6 c).
  2:{ unfold low6. rewrite land255, land63. rewrite (N.mod_small (c mod 64) 256); [reflexivity|]. pose proof (N.mod_lt c 64). lia. }
  rewrite utf8_4 by assumption. reflexivity.
Qed.

Lemma short_inv : forall c e, short_of c = Some e -> short_unescape e = Some c.
Proof.
  intros c e H. unfold short_of in H.
  repeat match type of H with
         | (if (?a =? ?b) then _ else _) = _ => destruct (N.eqb_spec a b); [inversion H; subst; reflexivity|]
         end.
  discriminate H.
Qed.

Lemma go_dflt : forall c rest acc f, scalar c = true ->
  unescape_go 63 (S f) ((if c <? 65536 then 92 :: 117 :: hex4 false c else 92 :: 85 :: hex6 false c) ++ rest) acc
  = unescape_go 63 f rest (c :: acc).
Proof.
  intros c rest acc f Hs. destruct (N.ltb_spec c 65536); cbn [app].
  - apply go_u4; assumption.
  - apply go_u6; assumption.
Qed.

Lemma go_spell : forall sp c rest acc f, scalar c = true ->
  unescape_go 63 (S f) (spell sp c ++ rest) acc = unescape_go 63 f rest (c :: acc).
Proof.
  intros sp c rest acc f Hs. unfold spell. destruct sp.
  - destruct (raw_ok c) eqn:E; [apply go_raw; exact E|apply go_dflt; exact Hs].
  - destruct (short_of c) as [e|] eqn:E; [|apply go_dflt; exact Hs].
    cbn [app unescape_go]. change (92 =? 92) with true. cbv iota. rewrite (short_inv _ _ E). reflexivity.
  - destruct (N.ltb_spec c 65536); cbn [app]; [apply go_u4; assumption|apply go_u6; exact Hs].
  - cbn [app]. apply go_u6; exact Hs.
  - destruct (N.leb_spec 65536 c) as [Hc|Hc]; [|apply go_dflt; exact Hs].
    rewrite <- app_assoc. apply go_surr; [exact Hc|].
    unfold scalar in Hs. apply orb_true_iff in Hs. rewrite andb_true_iff, N.ltb_lt, !N.leb_le in Hs. lia.
Qed.

(* ------------------------------------------------------------------ the theorem *)

Lemma unescape_go_escape : forall s sps acc n, (length s < n)%nat -> Forall (fun c => scalar c = true) s ->
  unescape_go 63 n (escape sps s ++ [34]) acc = Some (rev acc ++ s, []).
Proof.
  induction s as [|c r IH]; intros sps acc n Hn Hs.
  - destruct n as [|n]; [inversion Hn|]. cbn. rewrite app_nil_r. reflexivity.
  - destruct n as [|n]; [inversion Hn|]. inversion Hs as [|? ? Hc Hr]; subst.
    cbn [escape]. destruct sps as [|sp sps'].
    + rewrite <- app_assoc. rewrite go_spell by exact Hc. rewrite IH; [|cbn in Hn; lia|exact Hr].
      cbn [rev]. rewrite <- app_assoc. reflexivity.
    + rewrite <- app_assoc. rewrite go_spell by exact Hc. rewrite IH; [|cbn in Hn; lia|exact Hr].
      cbn [rev]. rewrite <- app_assoc. reflexivity.
Qed.

Lemma spell_nonempty : forall sp c, (1 <= length (spell sp c))%nat.
Proof.
  intros sp c. unfold spell. destruct sp;
    repeat match goal with |- context [if ?b then _ else _] => destruct b end;
    try (destruct (short_of c)); cbn; try rewrite app_length; cbn; lia.
Qed.

Lemma escape_length : forall s sps, (length s <= length (escape sps s))%nat.
Proof.
  induction s as [|c r IH]; intros sps; [cbn; lia|].
  cbn [escape]. destruct sps as [|sp sps']; rewrite app_length; cbn [length].
  - pose proof (spell_nonempty Raw c). specialize (IH []). lia.
  - pose proof (spell_nonempty sp c). specialize (IH sps'). lia.
Qed.

Theorem unescape_escape : forall sps s, Forall (fun c => scalar c = true) s -> unescape (escape sps s) = Some s.
Proof.
  intros sps s Hs. unfold unescape, unescape_mask.
  rewrite (unescape_go_escape s sps [] (S (length (escape sps s)))); [reflexivity| |exact Hs].
  pose proof (escape_length s sps). lia.
Qed.
