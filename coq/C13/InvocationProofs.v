(* C13 — model level: the scope threaded through the evaluation of a decision's logic by the ImplModel of C04
   (coq/C04/Model.v, `tev`: the scope is a flattened stack - pushing a context = zip) is, after ANY expression, the scope the
   evaluation started with: invocations of knowledge models (positional and boxed), of decision services, boxed contexts with and
   without a result entry, relations.  `impl_invoke` / `body` of C04 receive the caller's input context BY VALUE (the Rust code
   takes `&FeelContext`, no interior mutability) and build a fresh scope per decision, so there is nothing to restore at that level;
   the scope that invocations could disturb is this one.  The variant leaky = true (boxed contexts leave their entries behind: the
   pinned commit, and the seeded change C04_d for contexts with a result entry) violates it. *)
From Coq Require Import List ZArith NArith Bool.
From DV Require Import C04.Model.
Import ListNotations.

Section Restore.
Variable svc : N -> env -> value.
Variable ev : env -> expr -> value * env.
Hypothesis Hev : forall sc e, snd (ev sc e) = sc.

Lemma evs_restores : forall l sc, snd (evs ev sc l) = sc.
Proof.
  induction l as [|x l IH]; intros sc; cbn [evs]; [reflexivity|].
  pose proof (Hev sc x) as H. destruct (ev sc x) as [v sc1]. cbn [snd] in H. subst sc1.
  pose proof (IH sc) as H2. destruct (evs ev sc l) as [vs sc2]. exact H2.
Qed.

Lemma rel_go_restores cols : forall rows sc, snd (rel_go ev cols sc rows) = sc.
Proof.
  induction rows as [|row rows IH]; intros sc; cbn [rel_go]; [reflexivity|].
  pose proof (evs_restores row sc) as H. destruct (evs ev sc row) as [vs sc1]. cbn [snd] in H. subst sc1.
  pose proof (IH sc) as H2. destruct (rel_go ev cols sc rows) as [rest sc2]. exact H2.
Qed.

(* one layer of the evaluator over any scope-restoring evaluator of the sub-expressions *)
Lemma tev_step_restores sc e : snd (tev_step ev svc false sc e) = sc.
Proof.
  destruct e; cbn [tev_step]; try reflexivity.
  - pose proof (Hev sc e1) as H1. destruct (ev sc e1) as [x sc1]. cbn [snd] in H1. subst sc1.
    pose proof (Hev sc e2) as H2. destruct (ev sc e2) as [y sc2]. exact H2.
  - pose proof (Hev sc e1) as H1. destruct (ev sc e1) as [x sc1]. cbn [snd] in H1. subst sc1.
    pose proof (Hev sc e2) as H2. destruct (ev sc e2) as [y sc2]. exact H2.
  - pose proof (evs_restores args sc) as H. destruct (evs ev sc args) as [vs sc1]. exact H.
  - pose proof (evs_restores (map snd binds) sc) as H. destruct (evs ev sc (map snd binds)) as [vs sc1]. exact H.
  - destruct (ctx_go ev sc [] es) as [acc sc1]. destruct res as [r|]; [destruct (ev sc1 r)|]; reflexivity.
  - pose proof (rel_go_restores cols rows sc) as H. destruct (rel_go ev cols sc rows) as [vs sc1]. exact H.
Qed.
End Restore.

(* every expression, every fuel, every scope, every behaviour of the decision services *)
Theorem invocation_restores_scope : forall f svc sc e, snd (tev false f svc sc e) = sc.
Proof.
  induction f as [|f IH]; intros svc sc e; [reflexivity|].
  cbn [tev]. apply tev_step_restores. intros sc0 e0. apply IH.
Qed.

(* a sequence of evaluations over one scope (entries of a context, cells of a relation, arguments) sees the same scope each time *)
Corollary invocations_repeatable : forall f svc sc l,
  evs (tev false f svc) sc l = (map (fun e => fst (tev false f svc sc e)) l, sc).
Proof.
  intros f svc sc. induction l as [|x l IH]; cbn [evs map]; [reflexivity|].
  pose proof (invocation_restores_scope f svc sc x) as H. destruct (tev false f svc sc x) as [v sc1]. cbn [snd fst] in *. subst sc1.
  rewrite IH. reflexivity.
Qed.

(* the leaky variant: {k: 1, <result>: k} leaves k = 1 in the caller's scope *)
Theorem leaky_context_orig_refuted :
  let e := ECtx [(2001%N, enum 1)] (Some (EVar 2001%N)) in
  snd (tev true 5 (fun _ _ => VNull) [] e) = [(2001%N, vnum 1)] /\ snd (tev false 5 (fun _ _ => VNull) [] e) = [].
Proof. vm_compute. split; reflexivity. Qed.

(* the evaluation of a decision's logic inside `body` / `impl_invoke` of C04 (eval := teval) is the first projection of
   a scope-restoring evaluation *)
Corollary decision_logic_restores_scope : forall svc sc e, tev false TFUEL svc sc e = (teval svc sc e, sc).
Proof.
  intros svc sc e. unfold teval. pose proof (invocation_restores_scope TFUEL svc sc e) as H.
  destruct (tev false TFUEL svc sc e) as [v sc1]. cbn [snd fst] in *. subst sc1. reflexivity.
Qed.
